(* C13 - retry / reservation loops terminate and follow protocol, for EVERY outcome
   sequence (the oracle [os] is an arbitrary list: no length bound).  Statements only;
   every proof is [exact <lemma>].  Vocabulary (count, fresh_ok, init_first, ends_with,
   done_ev, sent_ok, clean, ...) is defined at the top of Proofs/HelperProofs.v.
   [Err OutOfFuel] is the model's "the oracle ran dry": termination = it cannot occur
   once the oracle holds as many outcomes as the stated bound. *)
From Coq Require Import NArith List Bool.
From PyIpmi Require Import Lib.Res Model.Helper Proofs.HelperProofs.
Import ListNotations.
Open Scope N_scope.

(* ---- bounded number of calls, as an explicit function of the budget ---- *)
(* each clear phase issues at most retry-1 clear calls, only initiate/get-status actions,
   no more reservations than (the initial one +) cancelled answers; one outcome is consumed
   per call; at most 4(retry-1)+1 calls in total *)
Theorem C13_bounded_clear : forall retry resv os t x rs,
  clear_repository_helper retry resv os = (t, x, rs) ->
  (count (is_clear INITIATE_ERASE) t <= pred retry)%nat /\
  (count (is_clear GET_ERASE_STATUS) t <= pred retry)%nat /\
  (forall k, k <> INITIATE_ERASE -> k <> GET_ERASE_STATUS -> count (is_clear k) t = 0%nat) /\
  (count is_reserve t <= initial_reserves resv + count is_cancelled t)%nat /\
  count is_send t = 0%nat /\ count is_xfer t = 0%nat /\
  outs t ++ rs = os /\ (length (outs t) <= 4 * pred retry + initial_reserves resv)%nat.
Proof. exact helper_counts. Qed.
Print Assumptions C13_bounded_clear.

Theorem C13_bounded_chunk : forall retry resv os t x rs,
  (1 <= retry)%nat -> get_sdr_chunk_helper retry resv os = (t, x, rs) ->
  (count is_send t <= pred retry)%nat /\ (count is_reserve t <= count is_cancelled t)%nat /\
  (forall k, count (is_clear k) t = 0%nat) /\ count is_xfer t = 0%nat /\
  (length (outs t) <= 2 * pred retry)%nat /\ outs t ++ rs = os.
Proof. exact chunk_helper_counts. Qed.
Print Assumptions C13_bounded_chunk.

Theorem C13_bounded_send : forall retry os t x rs,
  send_message retry os = (t, x, rs) ->
  (count is_xfer t <= retry)%nat /\ length t = count is_xfer t /\ outs t ++ rs = os.
Proof. exact send_message_counts. Qed.
Print Assumptions C13_bounded_send.

(* ---- every clear call / chunk request carries the most recently returned reservation ---- *)
Theorem C13_fresh_reservation_clear : forall retry resv os t x rs,
  clear_repository_helper retry resv os = (t, x, rs) -> fresh_ok resv t = true.
Proof. exact helper_fresh. Qed.
Print Assumptions C13_fresh_reservation_clear.

Theorem C13_fresh_reservation_chunk : forall retry resv os t x rs,
  (1 <= retry)%nat -> get_sdr_chunk_helper retry resv os = (t, x, rs) ->
  fresh_ok (Some resv) t = true /\ (forall r, x = Ok r -> cur_resv (Some resv) t = Some r).
Proof. exact chunk_helper_fresh. Qed.
Print Assumptions C13_fresh_reservation_chunk.

(* ---- the erase is initiated (and accepted) before its status is polled ---- *)
Theorem C13_initiate_first : forall retry resv os t x rs,
  clear_repository_helper retry resv os = (t, x, rs) -> init_first false t = true.
Proof. exact helper_init. Qed.
Print Assumptions C13_initiate_first.

(* ---- success iff the last call is a status read that says "not in progress" ---- *)
Theorem C13_success_iff_complete : forall retry resv os t x rs,
  clear_repository_helper retry resv os = (t, x, rs) ->
  is_ok x = ends_with (done_ev GET_ERASE_STATUS) t.
Proof. exact helper_ends. Qed.
Print Assumptions C13_success_iff_complete.

Theorem C13_success_iff_ok_chunk : forall retry resv os t x rs,
  (1 <= retry)%nat -> get_sdr_chunk_helper retry resv os = (t, x, rs) -> is_ok x = ends_with sent_ok t.
Proof. exact chunk_helper_ends. Qed.
Print Assumptions C13_success_iff_ok_chunk.

(* ---- unexpected completion codes and other exceptions propagate ---- *)
Theorem C13_propagate_clear : forall retry resv os t x rs,
  clear_repository_helper retry resv os = (t, x, rs) ->
  (forall c cc, In (ECall c (OCc cc)) t -> cc <> 0 -> (c = CReserve \/ cc <> CC_RES_CANCELED) ->
     x = Err (CCError cc)) /\
  (forall c e, In (ECall c (OExc e)) t -> x = Err e).
Proof. exact helper_propagate. Qed.
Print Assumptions C13_propagate_clear.

Theorem C13_propagate_chunk : forall retry resv os t x rs,
  (1 <= retry)%nat -> get_sdr_chunk_helper retry resv os = (t, x, rs) ->
  (forall r cc, In (ECall (CSend r) (OVal cc)) t -> cc <> 0 -> cc <> CC_RES_CANCELED -> cc <> CC_TIMEOUT ->
     cc <> CC_RESP_COULD_NOT_BE_PRV -> x = Err (CCError cc)) /\
  (forall c cc, In (ECall c (OCc cc)) t -> x = Err (CCError cc)) /\
  (forall c e, In (ECall c (OExc e)) t -> x = Err e).
Proof. exact chunk_helper_propagate. Qed.
Print Assumptions C13_propagate_chunk.

Theorem C13_propagate_send : forall retry os t x rs,
  send_message retry os = (t, x, rs) ->
  (forall c cc, In (ECall c (OCc cc)) t -> cc <> CC_NODE_BUSY -> x = Err (CCError cc)) /\
  (forall c e, In (ECall c (OExc e)) t -> x = Err e).
Proof. exact send_propagate. Qed.
Print Assumptions C13_propagate_send.

(* ---- RetryError instead of looping: it is raised exactly with the budget used up, and the
   loops never need more outcomes than the bound (no OutOfFuel) ---- *)
Theorem C13_retry_error_clear : forall retry resv os t x rs,
  clear_repository_helper retry resv os = (t, x, rs) -> Forall clean os ->
  (x = Err RetryError ->
     count (is_clear INITIATE_ERASE) t = pred retry \/ count (is_clear GET_ERASE_STATUS) t = pred retry) /\
  (x = Err OutOfFuel -> (length os < 4 * pred retry + initial_reserves resv)%nat).
Proof. exact helper_budget. Qed.
Print Assumptions C13_retry_error_clear.

Theorem C13_retry_error_chunk : forall retry resv os t x rs,
  (1 <= retry)%nat -> get_sdr_chunk_helper retry resv os = (t, x, rs) -> Forall clean os ->
  (x = Err RetryError -> count is_send t = pred retry) /\
  (x = Err OutOfFuel -> (length os < 2 * pred retry)%nat).
Proof. exact chunk_helper_budget. Qed.
Print Assumptions C13_retry_error_chunk.

Theorem C13_retry_error_send : forall retry os t x rs,
  send_message retry os = (t, x, rs) -> Forall clean os ->
  (x = Err RetryError -> count is_xfer t = retry /\ Forall (fun e => e = busy_ev) t) /\
  (x = Err OutOfFuel -> (length os < retry)%nat).
Proof. exact send_budget. Qed.
Print Assumptions C13_retry_error_send.

(* ---- send_message repeats only after node-busy (with C13_bounded_send: at most retry
   times).  Holds of the code repaired by fixes/F13-send-message-reraise.diff ---- *)
Theorem C13_busy_only : forall retry os t x rs,
  send_message retry os = (t, x, rs) ->
  forall a e b, t = a ++ e :: b -> b <> [] -> e = busy_ev.
Proof. exact send_message_busy_only. Qed.
Print Assumptions C13_busy_only.

Theorem C13_success_send : forall retry os t x rs,
  send_message retry os = (t, x, rs) ->
  is_ok x = ends_with got_rsp t /\ (forall v, x = Ok v -> lastev t = Some (ECall CXfer (OVal v))).
Proof. exact send_ends. Qed.
Print Assumptions C13_success_send.

(* F13, for the record: the loop as it stands in the unrepaired tree (any
   CompletionCodeError swallowed) resends after a code that is not node-busy *)
Theorem C13_busy_only_unrepaired_refuted :
  exists retry os t x rs a e b, send_loop_unrepaired retry os = (t, x, rs) /\
    t = a ++ e :: b /\ b <> [] /\ e <> busy_ev.
Proof. exact unrepaired_resends_split. Qed.
Print Assumptions C13_busy_only_unrepaired_refuted.

(* non-vacuity: a run with a cancelled reservation, an in-progress status and completion *)
Example C13_runs_somewhere :
  clear_repository_helper 5 None
    [OVal 0x1234; OCc CC_RES_CANCELED; OVal 0x1235; OVal 1; OVal 0; OVal 1] =
  ([ECall CReserve (OVal 0x1234); ECall (CClear INITIATE_ERASE 0x1234) (OCc CC_RES_CANCELED); ESleep 200;
    ECall CReserve (OVal 0x1235); ECall (CClear INITIATE_ERASE 0x1235) (OVal 1); ESleep 500;
    ECall (CClear GET_ERASE_STATUS 0x1235) (OVal 0); ESleep 500;
    ECall (CClear GET_ERASE_STATUS 0x1235) (OVal 1)], Ok tt, [])
  /\ Forall clean [OVal 0x1234; OCc CC_RES_CANCELED; OVal 0x1235; OVal 1; OVal 0; OVal 1].
Proof. split; [reflexivity | repeat constructor; discriminate]. Qed.
