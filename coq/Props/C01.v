(* C01 - the message codec is lossless for every defined IPMI message.
   Statements only; every proof is [exact <lemma>].  [registry] is REGENERATED from
   /repo on every run (Gen/Layouts.v), so these obligations are re-checked against
   what the code says now. *)
From Coq Require Import String.
From Coq Require Import NArith List.
From PyIpmi Require Import Lib.Res Lib.Bytes Lib.Bits Model.Codec Gen.Layouts
  Proofs.CodecLemmas Proofs.CodecProofs Proofs.RegistryProofs.
Import ListNotations.
Open Scope N_scope.

(* every message class in the registry is well-formed (widths sum to 8*length, names
   unique and not reserved, references point backwards, optional fields form a tail,
   remaining-bytes last, no malformed __fields__) - hence can be constructed *)
Theorem C01_all_wellformed : forallb (fun m => wf_layout (m_layout m)) registry = true.
Proof. exact all_wf_registry. Qed.
Print Assumptions C01_all_wellformed.

Theorem C01_constructible : forall m, In m registry -> exists e, create (m_layout m) = Ok e.
Proof. exact (fun m H => constructible (m_layout m) (wf_in m H)). Qed.
Print Assumptions C01_constructible.

(* for every in-range assignment: encode succeeds, decoding the bytes yields the same
   values, and re-encoding whatever decodes from those bytes yields the same bytes *)
Theorem C01_roundtrip : forall m e, In m registry -> in_range (m_layout m) e ->
  exists bs, encode (m_layout m) e = Ok bs /\ bytes_ok bs = true /\
             decode (m_layout m) bs = Ok (e, false) /\
             (forall e', decode (m_layout m) bs = Ok (e', false) -> encode (m_layout m) e' = Ok bs).
Proof. exact (fun m e H => roundtrip (m_layout m) e (wf_in m H)). Qed.
Print Assumptions C01_roundtrip.

(* the same, for EVERY well-formed layout (a 283rd message is covered without change) *)
Theorem C01_roundtrip_generic : forall m e, wf_layout m = true -> in_range m e ->
  exists bs, encode m e = Ok bs /\ bytes_ok bs = true /\ decode m bs = Ok (e, false) /\
             (forall e', decode m bs = Ok (e', false) -> encode m e' = Ok bs).
Proof. exact roundtrip. Qed.
Print Assumptions C01_roundtrip_generic.

(* on the wire the fields appear in declaration order *)
Theorem C01_wire_order : forall e fs vs, length vs = length fs ->
  enc_fields e fs vs = concat_ok (field_encodings e fs vs).
Proof. exact wire_order. Qed.
Print Assumptions C01_wire_order.

(* integers are little-endian *)
Theorem C01_uint_little_endian : forall n x i, (i < n)%nat ->
  nth i (le_bytes n x) 0 = (x / 256 ^ N.of_nat i) mod 256.
Proof. exact uint_little_endian. Qed.
Print Assumptions C01_uint_little_endian.

(* bit-fields: least-significant first in declaration order ... *)
Theorem C01_bits_lsb_first : forall ws vs, vals_ok (combine ws vs) ->
  bits_value ws vs = weighted 0 ws vs.
Proof. exact bits_lsb_first. Qed.
Print Assumptions C01_bits_lsb_first.

(* ... without neighbouring bits disturbing each other *)
Theorem C01_bits_independent : forall ws vs, length vs = length ws -> vals_ok (combine ws vs) ->
  unpack_at 0 ws (bits_value ws vs) = vs.
Proof. exact bits_independent. Qed.
Print Assumptions C01_bits_independent.

(* [all_msgs] = [registry] (the classes translated in this run: every theorem above is about them)
   ++ [registry_untranslated] (classes whose layout the translator could not express in this run:
   no codec theorem is claimed for them, harness/c01.py requires the implementation oracle to pass
   for each and lists them in the evidence; on the committed tree the list is empty).
   Pairing and completeness are about ALL registered classes. *)
(* every request has exactly one response counterpart: same command and group
   extension, network function plus one; ids and names unique; Req/Rsp suffix matches
   the network function's parity *)
Theorem C01_pairing : forall m, In m all_msgs ->
  (is_req m = true -> length (filter (rsp_of m) all_msgs) = 1%nat) /\
  length (filter (same_id m) all_msgs) = 1%nat /\ name_parity_ok m = true.
Proof. exact pairing_in. Qed.
Print Assumptions C01_pairing.

(* the live registry holds as many classes as the source text registers *)
Theorem C01_registry_complete : length all_msgs = ast_class_count.
Proof. exact registry_complete. Qed.
Print Assumptions C01_registry_complete.

(* non-vacuity: in_range is inhabited for a response with bit-fields and conditional
   parts (LED state with override enabled) and for one with an absent optional tail *)
Example C01_in_range_led :
  existsb (fun m => String.eqb (m_name m) "GetFruLedStateRsp") registry = true /\
  in_range L_GetFruLedStateRsp
    [VInt 0; VInt 0; VBits [1; 1; 0; 0]; VInt 2; VInt 3; VInt 4; VInt 5; VInt 6; VInt 7; VInt 0].
Proof.
  split; [vm_compute; reflexivity|].
  cbv [in_range L_GetFruLedStateRsp in_range_fields f_kind f_base base_in_range f_dflt].
  repeat split; try reflexivity; try (left; split; [reflexivity | reflexivity]); try (right; split; reflexivity).
Qed.
