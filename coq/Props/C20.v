(* C20 - the command-line tool drives the same requests as the API.
   Statements only; every proof is [exact <lemma ...>].  [commands], [api_methods],
   [getopt_shortopts], [option_table], [option_defaults], [exit_table], [run_shape], [power_table],
   [chassis_control_req] are REGENERATED from /repo on every run (Gen/CliTable.v by
   gen/gen_cli.py); obligations over them are re-checked by the kernel's vm
   ([eq_refl <: check = true]) against what the code says now.  The two obligations that
   the unrepaired tree fails (F20: `chassis power diag|soft`, `picmg channel power`) come
   last so that the others are still counted. *)
From Coq Require Import String Ascii.
From Coq Require Import NArith ZArith List Bool.
From PyIpmi Require Model.ApiSem.
From PyIpmi Require Import Lib.Res Lib.Bytes Lib.Prog Model.Cli Model.CliApi Gen.CliTable Proofs.CliProofs Proofs.CliApiProofs.
From PyIpmi Require Import Model.ApiRun.
Import ListNotations.
Open Scope string_scope.
Open Scope list_scope.

(* command lookup (main's loop over _get_command_function): the own command string of
   EVERY table entry, followed by any further arguments, selects exactly that entry
   (by position) and hands it exactly those arguments *)
Theorem C20_lookup : forall j c rest, nth_error commands j = Some c ->
  find_command commands (py_split " " (c_name c) ++ rest) = Some (j, c_handler c, rest).
Proof. exact (lookup_sound commands (eq_refl true <: lookup_ok_b commands = true)). Qed.
Print Assumptions C20_lookup.

(* numbers: int(a, 0) (used for -t, -p, raw, sensor/sdr arguments) reads every natural
   number written in decimal or 0x-hexadecimal as that number; int(a) (used for -b) every
   decimal one *)
Theorem C20_numerals : forall (hex : bool) (n : N),
  py_int 0 (num_str hex n) = Ok (Z.of_N n) /\ py_int 10 (dec_str n) = Ok (Z.of_N n).
Proof. exact numerals. Qed.
Print Assumptions C20_numerals.

(* option parsing, first half of main (getopt + the if/elif loop): for EVERY list of
   options in ANY order and combination, repeated or not, values attached (-tVALUE) or
   detached (-t VALUE), followed by the command words: each option has exactly the
   effect the option table gives it, applied in order (so the last occurrence wins),
   nothing else is changed, and the command words are passed on untouched *)
Theorem C20_options_parse :
  exists so c0, getopt_shortopts = Some so /\ getopt_longopts = [] /\ default_cfg option_defaults = Some c0 /\
    forall ss rest, Forall (setting_ok so option_table) ss -> rest_ok rest ->
      parse_stage getopt_shortopts getopt_longopts option_table option_defaults (render_settings ss ++ rest)
      = PCfg (fold_left (apply_setting option_table) ss c0) rest.
Proof. exact (parse_stage_generated getopt_shortopts getopt_longopts option_table option_defaults
               (eq_refl true <: table_shape_b getopt_shortopts getopt_longopts option_defaults = true)). Qed.
Print Assumptions C20_options_parse.

(* ... and the value a variable holds afterwards is the converted value of the LAST
   option that stores into it, else its default *)
Theorem C20_options_last_wins : forall tbl role ss c,
  cfg_get (fold_left (apply_setting tbl) ss c) role =
  match find (fun s => match setting_effect tbl s with Some (r, _) => String.eqb r role | None => false end) (rev ss) with
  | Some s => match setting_effect tbl s with Some (_, v) => Some v | None => None end
  | None => cfg_get c role
  end.
Proof. exact cfg_get_fold. Qed.
Print Assumptions C20_options_last_wins.

(* what the option table (as translated from main's source, variables named by the
   library call that consumes them) says each option does - [options_spec], Proofs/CliProofs.v:
   -t int(a, 0) -> target address, -b -> one-hop routing [(0x20, int(a), 0)], -r -I -o -H -U -P -L
   verbatim, -p int(a, 0), -v / -J flags -, which options take a value, and the defaults.
   DOWNGRADE RULE ([binding_claim]): an option whose branch / setter the translator refuses in
   this run is not claimed in this run; the check then requires the option and history oracles to
   pass with that option present and names it in the evidence (`options_downgraded`). *)
Theorem C20_options_bindings :
  (forall f a, In (f, a) options_spec -> binding_claim option_table f a) /\
  map (has_arg getopt_shortopts) ["t"; "b"; "r"; "I"; "o"; "H"; "p"; "U"; "P"; "L"; "v"; "J"]%char
    = [Some true; Some true; Some true; Some true; Some true; Some true; Some true; Some true; Some true; Some true;
       Some false; Some false] /\
  map (default_of option_defaults)
      ["target_address"; "target_routing"; "interface_name"; "interface_options"; "rmcp_host"; "rmcp_port";
       "rmcp_user"; "rmcp_password"; "rmcp_priv_level"; "verbose"]
    = [Some (VInt 32); Some VNone; Some (VStr "aardvark"); Some VEmpty; Some VNone; Some (VInt 623);
       Some (VStr ""); Some (VStr ""); Some VNone; Some (VBool false)].
Proof. exact (conj (bindings_sound option_table (eq_refl true <: forallb (binding_ok option_table) options_spec = true))
                   (conj eq_refl eq_refl)). Qed.
Print Assumptions C20_options_bindings.

(* second half of main: the interface factory gets the interface name and the parsed
   interface options, the target the address (`if ipmb_address:` - 0 is dropped) and the
   routing, the command its index and remaining arguments *)
Theorem C20_options_effect : forall le cmds ifaces c args idx h rest iface io d addr rt routing sess,
  find_command cmds args = Some (idx, h, rest) ->
  cfg_get c "interface_name" = Some (VStr iface) -> str_in iface ifaces = true ->
  cfg_get c "interface_options" = Some io -> parse_interface_options iface io = Ok d ->
  cfg_get c "target_address" = Some (VInt addr) ->
  cfg_get c "target_routing" = Some rt -> set_routing le rt = Ok routing ->
  mk_session c = Ok sess ->
  plan_stage le cmds ifaces c args =
  Run (mkPlan iface d idx rest (if Z.eqb addr 0 then None else Some addr) routing sess
              (get_bool c "verbose") (get_bool c "global:json_output")).
Proof. exact plan_stage_effect. Qed.
Print Assumptions C20_options_effect.

(* the session: untouched without -H; with -H it gets host, port, user, password and the
   privilege level named by -L (administrator when -L is absent) *)
Theorem C20_options_session : forall c,
  (cfg_get c "rmcp_host" = Some VNone -> mk_session c = Ok None) /\
  (forall h port u pw lvl p,
     cfg_get c "rmcp_host" = Some (VStr h) -> cfg_get c "rmcp_port" = Some (VInt port) ->
     cfg_get c "rmcp_user" = Some (VStr u) -> cfg_get c "rmcp_password" = Some (VStr pw) ->
     (lvl = None /\ cfg_get c "rmcp_priv_level" = Some VNone /\ p = 4%N \/
      exists l, lvl = Some l /\ cfg_get c "rmcp_priv_level" = Some (VStr l) /\ priv_level l = Ok p) ->
     mk_session c = Ok (Some (mkSession h port u pw p))).
Proof. exact (fun c => conj (mk_session_none c) (mk_session_some c)). Qed.
Print Assumptions C20_options_session.

(* raw: for every LUN, network function and non-empty byte list, each number written in
   decimal or hexadecimal: exactly (lun, netfn, bytes) is sent *)
Theorem C20_raw : forall lun netfn ds, ds <> [] -> Forall (fun d => (snd d < 256)%N) ds ->
  cmd_raw (render_raw lun netfn ds) =
  Ok (RawSend (match lun with Some l => Z.of_N (snd l) | None => 0%Z end) (Z.of_N (snd netfn)) (map snd ds)).
Proof. exact cmd_raw_render. Qed.
Print Assumptions C20_raw.

(* ... and the reply is printed as exactly its bytes: two hex digits each, blank-separated,
   each pair reading back as the byte *)
Theorem C20_raw_print : forall rsp, bytes_ok rsp = true ->
  print_hex rsp = String.concat " " (map hex2 rsp) /\ forall b, In b rsp -> hx (hex2 b) = [b].
Proof. exact raw_print. Qed.
Print Assumptions C20_raw_print.

(* a completion code (every value 0..255) or a time-out raised while the command runs ends
   the tool with a message (naming the code in hex) and a non-zero exit status *)
Theorem C20_exit_status :
  (forall cc, (cc < 256)%N -> exists msg code, command_error_end exit_table (CCError cc) = EndStatus (Some msg) code
                                         /\ code <> 0%Z /\ is_substr (hex2 cc) msg = true) /\
  (exists msg code, command_error_end exit_table TimeoutError = EndStatus (Some msg) code /\ code <> 0%Z /\ msg <> "").
Proof. exact (exit_sound exit_table (eq_refl true <: exit_ok_b exit_table = true)). Qed.
Print Assumptions C20_exit_status.

(* ... at EVERY stage main goes through before the finally - opening the interface,
   establishing the session, running the command (run_shape: where main opens and closes the
   connection relative to its try, regenerated from the source): the tool ends with the message
   and a non-zero status, and has closed session and interface; without a fault all five
   interface calls are made in order and main returns *)
Theorem C20_exit_stages :
  main_run run_shape exit_table None = ([IOpen; IEstablish; ICommand; ICloseSession; IClose], RunReturns) /\
  forall s, In s fault_stages ->
    (forall cc, (cc < 256)%N -> exists calls msg code,
        main_run run_shape exit_table (Some (s, CCError cc)) = (calls, RunExit (Some msg) code)
        /\ code <> 0%Z /\ is_substr (hex2 cc) msg = true /\ closes calls = true) /\
    (exists calls msg code,
        main_run run_shape exit_table (Some (s, TimeoutError)) = (calls, RunExit (Some msg) code)
        /\ code <> 0%Z /\ msg <> "" /\ closes calls = true).
Proof. exact (stages_sound run_shape exit_table (eq_refl true <: stages_ok_b run_shape exit_table = true)). Qed.
Print Assumptions C20_exit_stages.

(* every command resolves: its handler uses at least one operation, and every operation it
   names exists on pyipmi.Ipmi and accepts the number of arguments and the keywords the handler
   passes.  DOWNGRADE RULE (hypothesis [handler_translated]): an entry whose handler the translator
   refuses in this run is not claimed in this run; the check then requires that entry to run through
   main() against the reference BMC with the request-log oracle passing, and names it in the
   evidence (`entries_downgraded`).  The same holds for C20_power_codes ([power_translated]). *)
Theorem C20_resolves : commands <> [] /\
  forall c, In c commands -> handler_translated (c_handler c) = true -> command_resolves api_methods c.
Proof. exact (resolves_sound commands api_methods (eq_refl true <: resolves_b commands api_methods = true)). Qed.
Print Assumptions C20_resolves.

(* each 'chassis power <x>' sends Chassis Control (netfn 0, cmd 2) with its own control
   code as the only data byte: off 0, on 1, cycle 2, reset 3, diag 4, soft 5 *)
Theorem C20_power_codes : forall sub code, In (sub, code) power_spec -> power_translated commands sub = true ->
  power_sends commands power_table chassis_control_req sub = Some (mkReq 0 2 0 [code]).
Proof. exact (power_sound commands power_table chassis_control_req
               (eq_refl true <: power_ok_b commands power_table chassis_control_req = true)). Qed.
Print Assumptions C20_power_codes.

(* SAME REQUEST AS THE API CALL, over two regenerated tables: for every command of
   [cli_api_spec] (Proofs/CliApiProofs.v: the API call the property text means, with named
   arguments), every value vector of its numeric command-line arguments (full field ranges),
   written in decimal or - where the tool reads base 0 - hexadecimal: the request computed from
   the CLI table (call_specs: the ONE operation the handler calls, its arguments positionally
   bound through the parameter list of the regenerated operation content, run by ApiSem over the
   regenerated layouts) IS the request of the corresponding API call with those named arguments.
   Every entry of the command table is in that list or in [oracle_only] (decided by the oracle of
   the check), and every listed command exists.
   DOWNGRADE RULE (hypothesis [entry_translated]): an entry whose operation the API translator
   refuses IN THIS RUN is not claimed here in this run; the check then requires the oracle (request
   log of the CLI run = request log of the API call on an identical BMC) to pass for it and lists it
   in the evidence as `same_request_downgraded`.  Entries whose operations translate keep the theorem;
   which entries kept it in a run is in the evidence (`same_request_by_theorem`; on /repo today all 16). *)
Theorem C20_same_request :
  (forall e, In e cli_api_spec -> entry_translated call_specs e = true ->
     forall ns, In ns (arg_domain e) -> forall hex : bool,
     exists r, cli_request call_specs (ca_cmd e) (render_args e hex ns) = Some r /\
               first_request (ca_method e) (named_args e ns) = Some r) /\
  (forall c, In c commands -> In (c_name c) (map ca_cmd cli_api_spec) \/ In (c_name c) oracle_only) /\
  (forall e, In e cli_api_spec -> In (ca_cmd e) (map c_name commands)).
Proof. exact (same_request_sound commands call_specs (eq_refl true <: same_request_b commands call_specs = true)). Qed.
Print Assumptions C20_same_request.

(* ... and for the chassis power sub-commands that common request is Chassis Control carrying
   the IPMI control code as its only data byte (with C20_same_request this subsumes
   C20_power_codes, now through the regenerated operation content and layouts) *)
Theorem C20_power_bytes : is_supported "chassis_control" = true -> forall sub code, In (sub, code) power_spec ->
  first_request "chassis_control" [("option", ApiSem.PInt (Z.of_N code))] = Some (mkReq 0 2 0 [code]).
Proof. exact (power_bytes_sound (eq_refl true <: power_bytes_b = true)). Qed.
Print Assumptions C20_power_bytes.

(* non-vacuity: a rendered option list satisfies the hypotheses of C20_options_parse, and
   the whole of main's set-up computes the expected plan on it (unless the translator refused an
   option in this run: then the options it did translate are listed in the evidence) *)
Example C20_options_nonvacuous :
  existsb (fun b => match o_action b with AUntranslated _ => true | _ => false end) option_table = true \/
  let ss := [SVal "t" (num_str true 130) false; SVal "H" "10.0.0.1" true; SFlag "v"; SVal "L" "Operator" false;
             SVal "t" (num_str false 114) true] in
  exists so idx, getopt_shortopts = Some so /\
  Forall (setting_ok so option_table) ss /\ rest_ok ["raw"; "0x06"; "1"] /\
  main_model (fun _ => Err (OtherError OtherExc)) commands getopt_shortopts getopt_longopts option_table option_defaults
             interface_names (render_settings ss ++ ["raw"; "0x06"; "1"])
  = Run (mkPlan "aardvark" [] idx ["0x06"; "1"] (Some 114%Z) None (Some (mkSession "10.0.0.1" 623 "" "" 3)) true false).
Proof.
  first [ left; vm_compute; reflexivity
        | right; cbv zeta; eexists; eexists; split; [reflexivity|]; split; [|split; [reflexivity | vm_compute; reflexivity]];
          repeat constructor; try discriminate; vm_compute; discriminate ].
Qed.
