(* C17, float level, analytic part - statements only; every proof is [exact <lemma>].
   Kept apart from Props/C17.v because its proofs use Flocq and Coq-Interval: coqchk over the
   Interval / Coquelicot / MathComp closure takes more than 25 minutes, so these two theorems
   are compiled by coqc on every run (harness/c17.py builds this file and records its
   Print Assumptions in the evidence) but are not part of the coqchk pass of the thorough tier.
   Model: Model/SensorConvF.v (binary64 pipeline of convert_sensor_raw_to_value /
   convert_sensor_value_to_raw, the latter as repaired by F17). *)
From Coq Require Import NArith ZArith List QArith Qpower Qabs Qreals Reals Floats.
From PyIpmi Require Import Lib.Res Model.SensorConv Model.SensorConvF
  Proofs.SensorConvProofs Proofs.FloatLemmas Proofs.SensorConvFlocq.
Import ListNotations.
Open Scope Z_scope.

(* Floating point (binary64 = Coq's primitive floats, Python's evaluation order), for ALL
   M, B in -512..511, K1, K2 in -8..7, the three formats and all 256 raw readings, by an
   analytic error analysis (Flocq: each operation rounds to nearest with relative error
   <= 2^-53, additions of floats without underflow term, int -> float conversions exact, the
   tabulated powers of ten within 2^-53; no overflow in the domain):
   the float result is finite and
     |float - (M x + B 10^K1) 10^K2| <= 2^-50 (|M x| + |B| 10^K1) 10^K2 + 2^-1000
   (the additive 2^-1000 covers the underflow term of the roundings). *)
Theorem C17F_float_forward : forall (m b k1 k2 : Z) (fmt raw : N),
  -512 <= m <= 511 -> -512 <= b <= 511 -> -8 <= k1 <= 7 -> -8 <= k2 <= 7 -> (fmt < 3)%N -> (raw < 256)%N ->
  let s := mkSensor fmt 0 m b k1 k2 in
  let x := signed_of fmt raw in
  float_finite (convert_raw_F s raw) /\
  (Rabs (float_value (convert_raw_F s raw) - Q2R (formula m b k1 k2 x))
   <= powerRZ 2 (-50) * ((Rabs (IZR m * IZR x) + Rabs (IZR b) * Q2R (pow10 k1)) * Q2R (pow10 k2))
      + powerRZ 2 (-1000))%R.
Proof. exact forward_float_formula. Qed.
Print Assumptions C17F_float_forward.

(* ... and converting that float back with the float inverse yields the raw reading, for the
   same complete domain with M <> 0 (one's-complement negative zero excepted): the
   accumulated error of the seven float operations stays below 1/2 before int(round(.)). *)
Theorem C17F_float_inverse : forall (m b k1 k2 : Z) (fmt raw : N),
  -512 <= m <= 511 -> -512 <= b <= 511 -> -8 <= k1 <= 7 -> -8 <= k2 <= 7 -> (fmt < 3)%N -> (raw < 256)%N ->
  m <> 0 -> ~ (fmt = 1%N /\ raw = 255%N) ->
  let s := mkSensor fmt 0 m b k1 k2 in
  convert_value_F s (convert_raw_F s raw) = Ok (Z.of_N raw).
Proof. exact inverse_float. Qed.
Print Assumptions C17F_float_inverse.
