(* C14 - one LAN interface shared by threads, including its keep-alive.
   Statements only; every proof is [exact <lemma>].  Model: Model/Threads.v - a
   small-step system over the shared state of one Rmcp object; the keep-alive is one
   of the threads.  [exec c sched (init nsn0 s0 progs)] is the state after running
   the schedule [sched] (ANY list of thread identifiers) from the initial state with
   ANY number of threads, each with ANY list of requests [progs], any initial
   next_sequence_number [nsn0], any initial session sequence number [s0], any
   max_retries, and a BMC that answers every datagram in order and may send ONE
   unrelated frame (stale sequence number) before the reply to the datagrams listed in
   [c_stale c] - provided max_retries allows reading past it ([stale_ok c]: no such
   frames, or max_retries >= 1) - and loses no reply ([bmc_ok c]); the two sequence-number
   theorems need no assumption on the BMC.  Granularity: one step per access to shared state (lock, socket,
   next_sequence_number) plus one for the code between the release and the return; below that (CPython byte code, the GIL) is not modelled. *)
From Coq Require Import NArith List.
From PyIpmi Require Import Lib.Res Model.Threads Proofs.ThreadsProofs.
Import ListNotations.
Open Scope N_scope.

(* mutual exclusion: at most one thread is between acquire and release, and it is
   the owner of the lock *)
Theorem C14_mutex : forall c nsn0 s0 progs sched, bmc_ok c -> Forall (Forall cmd_ok) progs -> forall t1 t2 th1 th2,
  let g := exec c sched (init nsn0 s0 progs) in
  nth_error (g_thr g) t1 = Some th1 -> nth_error (g_thr g) t2 = Some th2 ->
  in_cs (t_pc th1) = true -> in_cs (t_pc th2) = true -> t1 = t2.
Proof. exact mutex_all. Qed.
Print Assumptions C14_mutex.

(* exchanges are not interleaved on the socket: in transmission order the log is a
   concatenation of complete exchanges [exch_tx] (a datagram of one thread, then - read
   by the same thread - the unrelated frame if the BMC sent one, and the BMC's reply to
   that very datagram); only while a thread holds the lock it may end with that
   thread's still unanswered datagram (and the Send Message acknowledges / the unrelated
   frame it has read so far).  Requests may be bridged ([q_depth] Send Message wrappers: the
   exchange then contains the BMC's acknowledges before the forwarded reply); [cmd_ok]: no
   request is itself a Send Message. *)
Theorem C14_exchanges_not_interleaved : forall c nsn0 s0 progs sched, bmc_ok c ->
  Forall (Forall cmd_ok) progs ->
  let g := exec c sched (init nsn0 s0 progs) in
  complete_exchanges c 0 (rev (g_wire g)) \/
  exists t k s h q l, g_lock g = Some t /\ complete_exchanges c 0 l /\
    ((exists a, (a <= q_depth q)%nat /\
        rev (g_wire g) = l ++ Sent t k s h q :: repeat (Rcvd t (ack_frame (nsent l))) a) \/
     rev (g_wire g) = l ++ Sent t k s h q :: exch_acks t (nsent l) q ++
                           [Rcvd t (stale_frame (nsent l) h q)]).
Proof. exact not_interleaved_all. Qed.
Print Assumptions C14_exchanges_not_interleaved.

(* session sequence numbers in transmission order (session activated) - for ANY BMC
   behaviour of the model (lost replies, unrelated frames, any max_retries; no [bmc_ok]):
   retransmissions are packed afresh and carry a new number.  The first
   datagram carries the successor of the initial value, every further one the successor
   of the previous one, where successor = Session.increment_sequence_number *)
Theorem C14_seq_chain : forall c nsn0 s0 progs sched, c_active c = true ->
  chain next_sseq s0 (tx_sseqs (exec c sched (init nsn0 s0 progs))).
Proof. exact sseq_chain_all. Qed.
Print Assumptions C14_seq_chain.

(* ... hence strictly increasing, by exactly one, from each datagram to the next; the
   only exception is the 32-bit wrap 0xffffffff -> 1 (zero is skipped) *)
Theorem C14_seq_increasing : forall c nsn0 s0 progs sched, c_active c = true ->
  forall l1 a b l2, tx_sseqs (exec c sched (init nsn0 s0 progs)) = l1 ++ a :: b :: l2 ->
  (a < 0xffffffff /\ b = a + 1) \/ (a = 0xffffffff /\ b = 1).
Proof. exact sseq_adjacent_all. Qed.
Print Assumptions C14_seq_increasing.

(* each finished request returned a reply (never RetryError), and it is the BMC's reply
   to the datagram this thread sent for this request: datagram number [nsent a] on the
   wire, answered by [bmc_reply (nsent a) ..], read by the same thread within the same
   exchange [exch_tx] (an unrelated frame sent first is read and dropped, never returned).
   This holds although two requests may carry the same IPMB sequence number (see the
   example below): next_sequence_number is read-modify-written outside the lock. *)
Theorem C14_own_reply : forall c nsn0 s0 progs sched, bmc_ok c -> Forall (Forall cmd_ok) progs -> 
  forall t th j o,
  let g := exec c sched (init nsn0 s0 progs) in
  nth_error (g_thr g) t = Some th -> nth_error (t_done th) j = Some o ->
  exists q r, o = Ok r /\ nth_error (t_reqs th) j = Some q /\
    exists a b s h, rev (g_wire g) = a ++ exch_tx c t j s h q (nsent a) ++ b /\
                    r = bmc_reply (nsent a) h q.
Proof. exact own_reply_all. Qed.
Print Assumptions C14_own_reply.

(* no deadlock: as long as some thread has requests left, some thread can move; the
   queue of unmatched frames stays empty *)
Theorem C14_no_deadlock : forall c nsn0 s0 progs sched, bmc_ok c -> Forall (Forall cmd_ok) progs ->
  let g := exec c sched (init nsn0 s0 progs) in
  all_finished g = false -> exists t, step c g t <> None.
Proof. exact no_deadlock_all. Qed.
Print Assumptions C14_no_deadlock.

(* non-vacuity, and the duplicate IPMB sequence number: two threads (the second is the
   keep-alive: Get Device ID), schedule read0 read1 write0 write1 ... : both datagrams
   carry rq_seq 1 and identical netfn/cmd, both threads finish with their own reply
   (payloads 0 and 1), session sequence 6 then 7 *)
Example C14_duplicate_rq_seq :
  let g := exec (mkCfg 0 true [] []) [0;1;0;1;0;1;1;1;1;1;1;0;0;0;0;0]%nat
                (init 0 5 [[mkTReq 6 1 0]; [mkTReq 6 1 0]]) in
  rev (g_wire g) = [Sent 1%nat 0%nat 6 1 (mkTReq 6 1 0); Rcvd 1%nat (mkFrame 1 7 1 0);
                    Sent 0%nat 0%nat 7 1 (mkTReq 6 1 0); Rcvd 0%nat (mkFrame 1 7 1 1)]
  /\ map t_done (g_thr g) = [[Ok (mkFrame 1 7 1 1)]; [Ok (mkFrame 1 7 1 0)]]
  /\ all_finished g = true /\ g_lock g = None.
Proof. vm_compute. repeat split; reflexivity. Qed.

(* the unrelated-frame branch is reachable: max_retries 1, the BMC sends a stale frame
   (rq_seq 0, payload 100) before the reply to datagram 0; the caller drops it and still
   gets its own reply *)
Example C14_stale_frame_dropped :
  let c := mkCfg 1 true [0] [] in
  let g := exec c [0;0;0;0;0;0;0;0;0]%nat (init 0 5 [[mkTReq 6 1 0]]) in
  bmc_ok c
  /\ rev (g_wire g) = [Sent 0%nat 0%nat 6 1 (mkTReq 6 1 0); Rcvd 0%nat (mkFrame 0 7 1 100);
                       Rcvd 0%nat (mkFrame 1 7 1 0)]
  /\ map t_done (g_thr g) = [[Ok (mkFrame 1 7 1 0)]] /\ all_finished g = true /\ g_q g = [].
Proof. split; [split; [right; cbn; auto | reflexivity]|]. vm_compute. repeat split; reflexivity. Qed.

(* the lost-reply path of the model: max_retries 1, the reply to datagram 0 is lost; the
   caller times out, packs again (session sequence 7 after 6) and gets the reply to its
   second datagram *)
Example C14_lost_reply_repacked :
  let c := mkCfg 1 true [] [0] in
  let g := exec c [0;0;0;0;0;0;0;0;0;0]%nat (init 0 5 [[mkTReq 6 1 0]]) in
  rev (g_wire g) = [Sent 0%nat 0%nat 6 1 (mkTReq 6 1 0); Sent 0%nat 0%nat 7 1 (mkTReq 6 1 0);
                    Rcvd 0%nat (mkFrame 1 7 1 1)]
  /\ map t_done (g_thr g) = [[Ok (mkFrame 1 7 1 1)]] /\ all_finished g = true.
Proof. vm_compute. repeat split; reflexivity. Qed.

(* a bridged request (two Send Message wrappers) next to the keep-alive: the extra unlocked
   read, two acknowledges read without counting a retry (max_retries 0), then the reply *)
Example C14_bridged_exchange :
  let c := mkCfg 0 true [] [] in
  let g := exec c [0;0;0;0;0;1;1;1;0;0;0;0;0;0;1;1;1;1;1]%nat
                (init 0 5 [[mkTReq 10 16 2]; [mkTReq 6 1 0]]) in
  rev (g_wire g) = [Sent 0%nat 0%nat 6 1 (mkTReq 10 16 2); Rcvd 0%nat (ack_frame 0); Rcvd 0%nat (ack_frame 0);
                    Rcvd 0%nat (mkFrame 1 11 16 0);
                    Sent 1%nat 0%nat 7 2 (mkTReq 6 1 0); Rcvd 1%nat (mkFrame 2 7 1 1)]
  /\ map t_done (g_thr g) = [[Ok (mkFrame 1 11 16 0)]; [Ok (mkFrame 2 7 1 1)]]
  /\ all_finished g = true.
Proof. vm_compute. repeat split; reflexivity. Qed.
