(* C04 - A reply is attributed only to the request it answers, on every native
   transport.  Statements only; every proof is [exact <lemma>].
   The receive loops are functions of an EVENT SCRIPT (frame / nothing / OS error):
   real time-outs, UDP loss and OS buffering are represented by the script only.
   [rmcp_send_receive_gen false] = [rmcp_send_receive] is Rmcp._send_and_receive after
   the repair fixes/F4-rmcp-requeue.diff; [rmcp_send_receive_gen true] is the code as
   found.  The safety theorems hold for both; liveness only for the repaired code
   (C04_F4_* show it false of the code as found). *)
From Coq Require Import NArith List.
From PyIpmi Require Import Lib.Res Lib.Bytes Model.Ipmb Model.Bridge Model.RxLoop
     Proofs.IpmbProofs Proofs.BridgeProofs Proofs.RxLoopProofs.
Import ListNotations.
Open Scope N_scope.

(* ---- safety: attribution ---- *)
(* LAN: for every interface state (sequence counter, queue content, retry budget, quirk),
   request and event script: returned data is the payload of a frame f that was received
   (or was waiting in the queue) and that - after removing Send Message responses -
   passes the C03 reply filter for THIS request's header. *)
Theorem C04_attribution_rmcp : forall requeue st r s d st' sent rest,
  rmcp_send_receive_gen requeue st r s = (Ok d, st', sent, rest) ->
  exists h f x,
    rmcp_filter_header st r = Ok h /\
    In f (m_queue st ++ frames_of s) /\
    unwrap f = Ok x /\
    rx_filter h x (rmcp_opts (m_ignore_rq_seq st)) = Ok true /\
    d = payload x.
Proof. exact rmcp_attribution. Qed.
Print Assumptions C04_attribution_rmcp.

(* ... which by C03_filter_iff means: at least 6 bytes (never a bare acknowledgement or a
   short frame), both checksums valid, network function, command and responder LUN of
   this request, and - unless rmcp_ignore_rq_seq is set - this request's sequence number
   (so never a late reply to an earlier request) *)
Theorem C04_attribution_rmcp_fields : forall requeue st r s d st' sent rest,
  rmcp_send_receive_gen requeue st r s = (Ok d, st', sent, rest) ->
  exists h f x,
    rmcp_filter_header st r = Ok h /\ In f (m_queue st ++ frames_of s) /\ unwrap f = Ok x /\
    d = payload x /\
    (6 <= length x)%nat /\ sum256 (firstn 3 x) = 0 /\ sum256 (skipn 3 x) = 0 /\
    nthN 1 x / 4 = N.lor (netfn h) 1 /\ nthN 5 x = cmdid h /\ nthN 4 x mod 4 = rs_lun h /\
    (m_ignore_rq_seq st = false -> nthN 4 x / 4 = rq_seq h).
Proof. exact rmcp_attribution_fields. Qed.
Print Assumptions C04_attribution_rmcp_fields.

(* ipmb-dev *)
Theorem C04_attribution_ipmbdev : forall st r s d st' sent rest,
  ipmbdev_send_receive st r s = (Ok d, st', sent, rest) ->
  exists f, In f (frames_of s) /\ rx_filter (i2c_header st r) f default_opts = Ok true /\ d = payload f.
Proof. exact ipmbdev_attribution. Qed.
Print Assumptions C04_attribution_ipmbdev.

(* Aardvark (the frame is seen with the 7-bit I2C address as its first byte) *)
Theorem C04_attribution_aardvark : forall st r s d st' sent rest,
  aardvark_send_receive st r s = (Ok d, st', sent, rest) ->
  exists f, In f (frames_of s) /\
    rx_filter (i2c_header st r) (aardvark_seen f) default_opts = Ok true /\ d = payload (aardvark_seen f).
Proof. exact aardvark_attribution. Qed.
Print Assumptions C04_attribution_aardvark.

(* both, spelled out *)
Theorem C04_attribution_i2c_fields : forall view wire st r s d st' sent rest,
  i2c_send_receive view wire st r s = (Ok d, st', sent, rest) ->
  exists f x, In f (frames_of s) /\ view f = Ok x /\ d = payload x /\
    let h := i2c_header st r in
    (6 <= length x)%nat /\ sum256 (firstn 3 x) = 0 /\ sum256 (skipn 3 x) = 0 /\
    nthN 1 x / 4 = N.lor (netfn h) 1 /\ nthN 5 x = cmdid h /\ nthN 4 x mod 4 = rs_lun h /\
    nthN 4 x / 4 = rq_seq h.
Proof. exact i2c_attribution_fields. Qed.
Print Assumptions C04_attribution_i2c_fields.

(* ---- consecutive requests carry different sequence numbers ---- *)
(* every request - whatever its outcome - advances the counter by one modulo 64, and every
   frame it writes (each retransmission; the outermost layer of a bridged request) carries
   the new value in its sequence-number field *)
Theorem C04_seq_rmcp : forall requeue st r s out st' sent rest,
  rmcp_send_receive_gen requeue st r s = (out, st', sent, rest) ->
  m_next_seq st' = inc_seq (m_next_seq st) /\
  m_max_retries st' = m_max_retries st /\ m_ignore_rq_seq st' = m_ignore_rq_seq st /\
  m_slave st' = m_slave st /\
  forall f, In f sent -> nth 4 f 0 / 4 = inc_seq (m_next_seq st).
Proof. exact rmcp_seq. Qed.
Print Assumptions C04_seq_rmcp.

Theorem C04_seq_ipmbdev : forall st r s out st' sent rest,
  ipmbdev_send_receive st r s = (out, st', sent, rest) ->
  i_next_seq st' = inc_seq (i_next_seq st) /\ i_max_retries st' = i_max_retries st /\
  i_slave st' = i_slave st /\
  forall f, In f sent -> nth 4 f 0 / 4 = inc_seq (i_next_seq st).
Proof. exact ipmbdev_seq. Qed.
Print Assumptions C04_seq_ipmbdev.

Theorem C04_seq_aardvark : forall st r s out st' sent rest,
  aardvark_send_receive st r s = (out, st', sent, rest) ->
  i_next_seq st' = inc_seq (i_next_seq st) /\ i_max_retries st' = i_max_retries st /\
  i_slave st' = i_slave st /\
  forall f, In f sent -> nth 4 f 0 / 4 = inc_seq (i_next_seq st).
Proof. exact aardvark_seq. Qed.
Print Assumptions C04_seq_aardvark.

(* seq_{k+1} = (seq_k + 1) mod 64 <> seq_k, for every counter value (also out of range); k ranges
   over requests AND probes (C04_seq_probe_i2c) *)
Theorem C04_seq_distinct : forall n, inc_seq (inc_seq n) <> inc_seq n.
Proof. exact inc_seq_changes. Qed.
Print Assumptions C04_seq_distinct.

(* ---- the accessibility probe is_ipmc_accessible (ipmb-dev, Aardvark; Rmcp has none) ---- *)
(* "accessible" is reported only on a received frame passing the filter for the probe's header *)
Theorem C04_probe_attribution_i2c : forall view wire st a s d st' sent rest,
  i2c_probe view wire st a s = (Ok d, st', sent, rest) ->
  exists f x, In f (frames_of s) /\ view f = Ok x /\
              rx_filter (probe_header st a) x default_opts = Ok true.
Proof. exact i2c_probe_attribution. Qed.
Print Assumptions C04_probe_attribution_i2c.

(* the probe is a request of its own: it advances the counter by one modulo 64 whatever its
   outcome, and its frame carries the new value - so with C04_seq_ipmbdev / C04_seq_aardvark the
   counter always equals the number of the last frame written, request or probe, and the next
   frame - request or probe - carries counter + 1 mod 64: C04_seq_distinct covers both *)
Theorem C04_seq_probe_i2c : forall view wire st a s out st' sent rest,
  (forall tx, nth 4 (wire tx) 0 = nth 4 tx 0) ->
  i2c_probe view wire st a s = (out, st', sent, rest) ->
  i_next_seq st' = inc_seq (i_next_seq st) /\ i_max_retries st' = i_max_retries st /\
  i_slave st' = i_slave st /\
  forall f, In f sent -> nth 4 f 0 / 4 = inc_seq (i_next_seq st).
Proof. exact i2c_probe_seq. Qed.
Print Assumptions C04_seq_probe_i2c.

(* ---- liveness (event-script level; the timing side is outside: partial label) ---- *)
(* LAN, repaired code: a matching reply preceded by unrelated frames - frames the loop
   neither accepts nor raises on: other sequence number / command / netfn / LUN, bad
   checksums, bridge acknowledgements - of which at most max_retries count (the
   acknowledgements do not) is found: exactly one datagram is written, the reply's payload
   is returned and the events after it stay unread. *)
Theorem C04_finds_match_rmcp : forall st r pre m rest h tx x,
  m_queue st = [] ->
  rmcp_prepare (inc_seq (m_next_seq st)) (m_slave st) r = Ok (h, tx) ->
  let o := rmcp_opts (m_ignore_rq_seq st) in
  forallb (benign h o) pre = true ->
  (n_counted h o pre <= m_max_retries st)%nat ->
  classify h o m = VMatch x ->
  rmcp_send_receive st r (map Frame pre ++ Frame m :: rest) =
  (Ok (payload x),
   mkRmcp (inc_seq (m_next_seq st)) [] (m_max_retries st) (m_ignore_rq_seq st) (m_slave st),
   [tx], rest).
Proof. exact rmcp_finds_match. Qed.
Print Assumptions C04_finds_match_rmcp.

(* the queue of the repaired code stays empty: nothing received during one request is
   carried into the next *)
Theorem C04_queue_stays_empty : forall st r s out st' sent rest,
  m_queue st = [] -> rmcp_send_receive st r s = (out, st', sent, rest) -> m_queue st' = [].
Proof. exact rmcp_queue_stays_empty. Qed.
Print Assumptions C04_queue_stays_empty.

(* ... hence, after ANY history of requests, scripts and outcomes on one interface object,
   a later request whose matching reply arrives (after at most max_retries unrelated
   frames) succeeds *)
Theorem C04_no_poisoning_rmcp : forall st history carry outs st' carry' r pre m rest h tx x,
  m_queue st = [] ->
  rmcp_run false st carry history = (outs, st', carry') ->
  rmcp_prepare (inc_seq (m_next_seq st')) (m_slave st') r = Ok (h, tx) ->
  let o := rmcp_opts (m_ignore_rq_seq st') in
  forallb (benign h o) pre = true -> (n_counted h o pre <= m_max_retries st')%nat ->
  classify h o m = VMatch x ->
  fst (fst (fst (rmcp_send_receive st' r (map Frame pre ++ Frame m :: rest)))) = Ok (payload x).
Proof. exact rmcp_no_poisoning. Qed.
Print Assumptions C04_no_poisoning_rmcp.

(* ipmb-dev and Aardvark: unmatched frames are dropped without counting; ANY number of them
   may precede the matching reply, provided one attempt is made at all (max_retries >= 1) *)
Theorem C04_finds_match_i2c : forall view wire st r pre m rest tx x,
  (1 <= i_max_retries st)%nat ->
  encode_ipmb_msg (i2c_header st r) (q_payload r) = Ok tx ->
  forallb (i2c_unrelated view (i2c_header st r)) pre = true ->
  view m = Ok x -> rx_filter (i2c_header st r) x default_opts = Ok true ->
  i2c_send_receive view wire st r (map Frame pre ++ Frame m :: rest) =
  (Ok (payload x), mkI2c (inc_seq (i_next_seq st)) (i_max_retries st) (i_slave st), [wire tx], rest).
Proof. exact i2c_finds_match. Qed.
Print Assumptions C04_finds_match_i2c.

Theorem C04_no_poisoning_i2c : forall view wire st history carry outs st' carry' r pre m rest tx x,
  (1 <= i_max_retries st)%nat ->
  i2c_run view wire st carry history = (outs, st', carry') ->
  encode_ipmb_msg (i2c_header st' r) (q_payload r) = Ok tx ->
  forallb (i2c_unrelated view (i2c_header st' r)) pre = true ->
  view m = Ok x -> rx_filter (i2c_header st' r) x default_opts = Ok true ->
  fst (fst (fst (i2c_send_receive view wire st' r (map Frame pre ++ Frame m :: rest)))) = Ok (payload x).
Proof. exact i2c_no_poisoning. Qed.
Print Assumptions C04_no_poisoning_i2c.

(* ---- the model's fuel never runs out (the LAN loop terminates on every script) ---- *)
Theorem C04_rmcp_terminates : forall requeue st r s,
  fst (fst (fst (rmcp_send_receive_gen requeue st r s))) <> Err OutOfFuel.
Proof. exact rmcp_never_out_of_fuel. Qed.
Print Assumptions C04_rmcp_terminates.

(* ---- F4: both liveness statements are FALSE of the code as found ---- *)
(* max_retries = 1, one reply to another command, then the matching reply: the code as
   found raises RetryError (the unmatched frame is put back on the queue and re-read instead
   of the socket); the repaired code returns the reply *)
Theorem C04_F4_original_finds_match_refuted :
  exists h tx x,
    rmcp_prepare (inc_seq (m_next_seq f4_state)) (m_slave f4_state) f4_req = Ok (h, tx) /\
    forallb (benign h (rmcp_opts false)) [f4_other] = true /\
    (n_counted h (rmcp_opts false) [f4_other] <= m_max_retries f4_state)%nat /\
    classify h (rmcp_opts false) f4_match = VMatch x /\
    fst (fst (fst (rmcp_send_receive_original f4_state f4_req [Frame f4_other; Frame f4_match])))
      = Err RetryError /\
    fst (fst (fst (rmcp_send_receive f4_state f4_req [Frame f4_other; Frame f4_match])))
      = Ok [0x00; 0xaa].
Proof. exact f4_original_misses_match. Qed.
Print Assumptions C04_F4_original_finds_match_refuted.

(* ... and the frame stays queued: the next request fails although its own reply is the
   next datagram *)
Theorem C04_F4_original_no_poisoning_refuted :
  exists st1 h tx x,
    snd (fst (fst (rmcp_send_receive_original f4_state f4_req [Frame f4_other; Frame f4_match]))) = st1 /\
    rmcp_prepare (inc_seq (m_next_seq st1)) (m_slave st1) f4_req = Ok (h, tx) /\
    classify h (rmcp_opts false) f4_match2 = VMatch x /\
    fst (fst (fst (rmcp_send_receive_original st1 f4_req [Frame f4_match2]))) = Err RetryError /\
    m_queue st1 = [f4_other].
Proof. exact f4_original_poisons_later_requests. Qed.
Print Assumptions C04_F4_original_no_poisoning_refuted.

(* non-vacuity: the hypotheses of the liveness theorems are satisfiable (LAN: the F4 witness
   itself; I2C: the same frames seen by ipmb-dev with slave address 80h) *)
Example C04_hypotheses_satisfiable :
  (exists h tx x,
     rmcp_prepare (inc_seq (m_next_seq f4_state)) (m_slave f4_state) f4_req = Ok (h, tx) /\
     forallb (benign h (rmcp_opts false)) [f4_other] = true /\
     (n_counted h (rmcp_opts false) [f4_other] <= m_max_retries f4_state)%nat /\
     classify h (rmcp_opts false) f4_match = VMatch x)
  /\ (let st := mkI2c 0 3 0x81 in
      exists tx, encode_ipmb_msg (i2c_header st f4_req) (q_payload f4_req) = Ok tx /\
      forallb (i2c_unrelated ipmbdev_view (i2c_header st f4_req)) [f4_other; f4_match2] = true /\
      rx_filter (i2c_header st f4_req) f4_match default_opts = Ok true /\
      ipmbdev_send_receive st f4_req [Frame f4_other; Frame f4_match2; Frame f4_match]
        = (Ok [0x00; 0xaa], mkI2c 1 3 0x81, [tx], [])).
Proof.
  split.
  - do 3 eexists. repeat split; vm_compute; reflexivity.
  - eexists. repeat split; vm_compute; reflexivity.
Qed.
