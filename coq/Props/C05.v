(* C05 - LAN datagrams are well-formed and authenticated over exactly what they carry.
   Statements only; every proof is [exact <lemma>].  [md5] is universally quantified
   (a Section variable in Model/Rmcp.v), the only fact used about it is that a digest
   has 16 bytes, and only where a theorem says so. *)
From Coq Require Import String.
From Coq Require Import NArith List Lia.
From PyIpmi Require Import Lib.Res Lib.Bytes Model.Codec Gen.Layouts Model.Ipmb Model.Rmcp Model.Wire
  Proofs.CodecProofs Proofs.IpmbProofs Proofs.RmcpProofs Proofs.WireProofs.
Import ListNotations.
Open Scope N_scope.
Open Scope list_scope.

(* Rmcp._send_ipmi_msg, for every session state with an implemented authentication type,
   32-bit id and sequence number, password of at most 16 bytes, payload of at most 255
   bytes: the datagram handed to sendto is exactly
     06 00 <rmcp seq> 07 | type | LE32 seq' | LE32 sid | [16-byte code] | len | payload
   where seq' is the sequence number the session holds AFTER the call (incremented with
   zero-skipping wrap iff the session is activated), and the code is computed over
   that same seq' and sid *)
Theorem C05_layout : forall md5 s a pw d rseq,
  s_auth s = Some a -> implemented a -> s_sid s < 0x100000000 -> s_seq s < 0x100000000 ->
  (a <> 0 -> s_pw s = Some pw /\ (length pw <= 16)%nat) ->
  (length d <= 255)%nat -> rseq < 256 ->
  let s' := after_pack s in
  send_ipmi_msg md5 (Some s) rseq d =
    (Some s', rmcp_seq_next rseq, Ok (spec_dgram md5 rseq a (s_seq s') (s_sid s') pw d))
  /\ s_seq s' = (if s_act s then (if s_seq s =? 0xffffffff then 1 else s_seq s + 1) else s_seq s)
  /\ s_sid s' = s_sid s.
Proof. exact send_layout. Qed.
Print Assumptions C05_layout.

(* before a session object is attached: type none, id 0, sequence number 0 *)
Theorem C05_layout_nosession : forall md5 d rseq, (length d <= 255)%nat -> rseq < 256 ->
  send_ipmi_msg md5 None rseq d = (None, rmcp_seq_next rseq, Ok (spec_dgram md5 rseq 0 0 0 [] d)).
Proof. exact send_layout_nosession. Qed.
Print Assumptions C05_layout_nosession.

(* the specified datagram, field by field at its offsets: version 6, reserved 0, RMCP
   sequence number, class 7, authentication type, bytes 5-8 / 9-12 the little-endian
   sequence number / session id, then code, length byte, payload *)
Theorem C05_offsets : forall md5 rseq a seq sid pw d,
  let g := spec_dgram md5 rseq a seq sid pw d in
  nth 0 g 0 = 6 /\ nth 1 g 0 = 0 /\ nth 2 g 0 = rseq /\ nth 3 g 0 = 7 /\ nth 4 g 0 = a /\
  firstn 4 (skipn 5 g) = le_bytes 4 seq /\ firstn 4 (skipn 9 g) = le_bytes 4 sid /\
  le_val (firstn 4 (skipn 5 g)) = seq mod 0x100000000 /\ le_val (firstn 4 (skipn 9 g)) = sid mod 0x100000000 /\
  skipn 13 g = spec_code md5 a pw (le_bytes 4 sid) (le_bytes 4 seq) d ++ [N.of_nat (length d)] ++ d.
Proof. exact spec_offsets. Qed.
Print Assumptions C05_offsets.

(* 16-byte code iff the type is not none; the byte after it is the payload length; the
   rest is the payload unchanged and nothing follows *)
Theorem C05_length_and_payload : forall md5 rseq a seq sid pw d,
  implemented a -> (length pw <= 16)%nat -> (forall x, length (md5 x) = 16%nat) ->
  let g := spec_dgram md5 rseq a seq sid pw d in
  let o := if a =? 0 then 13%nat else 29%nat in
  nth o g 0 = N.of_nat (length d) /\ skipn (S o) g = d /\ length g = (S o + length d)%nat.
Proof. exact length_and_payload. Qed.
Print Assumptions C05_length_and_payload.

Theorem C05_password_code : forall md5 rseq seq sid pw d, (length pw <= 16)%nat ->
  firstn 16 (skipn 13 (spec_dgram md5 rseq 4 seq sid pw d)) = pad16 pw.
Proof. exact password_code. Qed.
Print Assumptions C05_password_code.

(* the MD5 code is the digest of password, session id, payload, sequence number,
   password where id and number are the very bytes at offsets 9-12 / 5-8 of the same
   datagram *)
Theorem C05_md5_code : forall md5 rseq seq sid pw d, (forall x, length (md5 x) = 16%nat) ->
  let g := spec_dgram md5 rseq 2 seq sid pw d in
  firstn 16 (skipn 13 g) = md5 (pad16 pw ++ firstn 4 (skipn 9 g) ++ d ++ firstn 4 (skipn 5 g) ++ pad16 pw).
Proof. exact md5_over_own_bytes. Qed.
Print Assumptions C05_md5_code.

(* Rmcp._receive_ipmi_msg unwraps a datagram to d exactly when: version 6, class 7,
   complete session header (10 bytes for type none, else 26), d = everything after it,
   non-empty, and - unless the length check is disabled - the length byte equals |d| *)
Theorem C05_receive_iff : forall q dg d, receive_ipmi_msg q dg = Ok d <-> recv_spec q dg d.
Proof. exact receive_iff. Qed.
Print Assumptions C05_receive_iff.

Theorem C05_reject : forall q dg,
  nth 0 dg 0 <> 6 \/ nth 3 dg 0 <> 7 \/
  (q = false /\ nth (4 + hdr_len (nth 4 dg 0) - 1) dg 0 <> N.of_nat (length dg - (4 + hdr_len (nth 4 dg 0)))) ->
  exists e, receive_ipmi_msg q dg = Err e.
Proof. exact receive_rejects. Qed.
Print Assumptions C05_reject.

(* what is sent is unwrapped to exactly its payload, with either quirk setting *)
Theorem C05_unpack_pack : forall md5, (forall x, length (md5 x) = 16%nat) ->
  forall q rseq a seq sid pw d, implemented a -> (length pw <= 16)%nat -> d <> [] ->
  receive_ipmi_msg q (spec_dgram md5 rseq a seq sid pw d) = Ok d.
Proof. exact unpack_pack. Qed.
Print Assumptions C05_unpack_pack.

(* IpmiMsg.unpack alone (an empty payload comes back as None) *)
Theorem C05_ipmi_unpack_pack : forall md5, (forall x, length (md5 x) = 16%nat) ->
  forall q rseq a seq sid pw d, implemented a -> (length pw <= 16)%nat ->
  ipmi_unpack q (skipn 4 (spec_dgram md5 rseq a seq sid pw d)) = Ok (match d with [] => None | _ => Some d end).
Proof. exact ipmi_unpack_pack. Qed.
Print Assumptions C05_ipmi_unpack_pack.

Theorem C05_ping_bytes : asf_ping = Ok [0; 0; 0x11; 0xbe; 0x80; 0; 0; 0]
  /\ rmcp_pack (Some [0; 0; 0x11; 0xbe; 0x80; 0; 0; 0]) 0xff CLASS_ASF
     = Ok [6; 0; 0xff; 6; 0; 0; 0x11; 0xbe; 0x80; 0; 0; 0].
Proof. exact ping_bytes. Qed.
Print Assumptions C05_ping_bytes.

(* a presence pong is accepted exactly when: 8-byte ASF header + 16 data bytes, type
   0x40, data length 16, supported interactions 0, and OEM-defined 0 when the OEM IANA
   number is ASF's 4542.  (Not looked at: header IANA number, message tag, reserved bytes.) *)
Theorem C05_pong_accept_iff : forall sdu i o e x,
  asf_pong_unpack sdu = Ok (i, o, e, x) <-> pong_spec sdu i o e x.
Proof. exact pong_accept_iff. Qed.
Print Assumptions C05_pong_accept_iff.

(* END TO END across the three layers (C01 codec over the regenerated registry, C03 IPMB
   frame, C05 datagram): for EVERY registered message m, every in-range assignment e, every
   in-range IPMB header h, every session state covered by C05_layout, whenever the IPMB frame
   fits the length byte: the datagram handed to sendto (wire_send = encode_message ->
   encode_ipmb_msg -> IpmiMsg.pack -> RmcpMsg.pack), unwrapped by an independent receiver
   (wire_recv = RMCP header -> session unwrap with the length check -> IPMB request header ->
   decode by m's layout), yields exactly (h, e): the field values, netfn / command / LUNs /
   addresses / IPMB sequence number, and the session header carries the type, the id and the
   sequence number the session holds after the call. *)
Theorem C05_wire_end_to_end : forall md5, (forall x, length (md5 x) = 16%nat) ->
  forall m e h s a pw rseq bs,
  In m registry -> in_range (m_layout m) e -> hdr_in_range h ->
  s_auth s = Some a -> implemented a -> s_sid s < 0x100000000 -> s_seq s < 0x100000000 ->
  (a <> 0 -> s_pw s = Some pw /\ (length pw <= 16)%nat) -> (length pw <= 16)%nat -> rseq < 256 ->
  encode (m_layout m) e = Ok bs -> (7 + length bs <= 255)%nat ->
  let s' := after_pack s in
  exists dg,
    wire_send md5 (m_layout m) e h (Some s) rseq = (Some s', rmcp_seq_next rseq, Ok dg)
    /\ wire_recv (m_layout m) dg = Ok (h, e)
    /\ nth 4 dg 0 = a
    /\ le_val (firstn 4 (skipn 5 dg)) = s_seq s'
    /\ le_val (firstn 4 (skipn 9 dg)) = s_sid s
    /\ s_seq s' = (if s_act s then (if s_seq s =? 0xffffffff then 1 else s_seq s + 1) else s_seq s).
Proof. exact wire_end_to_end. Qed.
Print Assumptions C05_wire_end_to_end.

Theorem C05_wire_end_to_end_nosession : forall md5, (forall x, length (md5 x) = 16%nat) ->
  forall m e h rseq bs,
  In m registry -> in_range (m_layout m) e -> hdr_in_range h -> rseq < 256 ->
  encode (m_layout m) e = Ok bs -> (7 + length bs <= 255)%nat ->
  exists dg,
    wire_send md5 (m_layout m) e h None rseq = (None, rmcp_seq_next rseq, Ok dg)
    /\ wire_recv (m_layout m) dg = Ok (h, e)
    /\ nth 4 dg 0 = 0 /\ le_val (firstn 4 (skipn 5 dg)) = 0 /\ le_val (firstn 4 (skipn 9 dg)) = 0.
Proof. exact wire_end_to_end_nosession. Qed.
Print Assumptions C05_wire_end_to_end_nosession.

(* response direction: a reply datagram in the specified format around ANY six IPMB header
   bytes, the encoded response values and a checksum byte is turned by the client's chain
   (unwrap with either quirk setting, rx_data[6:-1], decode by the response layout) into
   exactly those values.  (That the header bytes answer the request is C03/C04's filter.) *)
Theorem C05_wire_response : forall md5, (forall x, length (md5 x) = 16%nat) ->
  forall r e bs hd c q rseq a seq sid pw,
  In r registry -> in_range (m_layout r) e -> encode (m_layout r) e = Ok bs ->
  length hd = 6%nat -> (7 + length bs <= 255)%nat ->
  implemented a -> (length pw <= 16)%nat ->
  wire_recv_rsp q (m_layout r) (spec_dgram md5 rseq a seq sid pw (hd ++ bs ++ [c])%list) = Ok e.
Proof. exact wire_response. Qed.
Print Assumptions C05_wire_response.

(* the end-to-end theorem instantiated: Set Watchdog Timer with non-trivial bit fields and a
   16-bit countdown, to LUN 2 of 0x20 from 0x81 with IPMB sequence number 37, inside an
   activated MD5 session at number 0xffffffff: hypotheses hold, and the run computes *)
Example C05_wire_example :
  let md5 := fun _ : list N => repeat 0xaa 16 in
  let e := [VBits [4; 0; 1; 1]; VBits [3; 0; 2; 0]; VInt 0x7f; VInt 0x3e; VInt 0xbeef] in
  let h := mkHdr 0x20 2 0x81 0 37 6 36 in
  let s := mkSess (Some 2) 0x01020304 0xffffffff true (Some [0x61; 0x62]) in
  match find (fun x => String.eqb (m_name x) "SetWatchdogTimerReq") registry with
  | None => False
  | Some m =>
    In m registry /\ in_range (m_layout m) e /\ hdr_in_range h /\
    encode (m_layout m) e = Ok [0xc4; 0x23; 0x7f; 0x3e; 0xef; 0xbe] /\
    (let '(s', _, r) := wire_send md5 (m_layout m) e h (Some s) 0xff in
     s_seq (match s' with Some x => x | None => s end) = 1 /\
     match r with Ok dg => wire_recv (m_layout m) dg = Ok (h, e) /\ length dg = 43%nat | Err _ => False end)
  end.
Proof.
  cbv zeta.
  destruct (find (fun x => String.eqb (m_name x) "SetWatchdogTimerReq") registry) as [m|] eqn:E;
    [|vm_compute in E; discriminate].
  split; [apply (find_some _ _ E)|]. vm_compute in E. injection E as <-. cbn [m_layout].
  split; [|split; [|split]].
  - cbn. repeat split; try reflexivity; lia.
  - unfold hdr_in_range. cbn. repeat split; reflexivity.
  - vm_compute. reflexivity.
  - vm_compute. repeat split; reflexivity.
Qed.

(* non-vacuity: an activated MD5 session at sequence number 0xffffffff satisfies the
   hypotheses of C05_layout; its next datagram carries sequence number 1 *)
Example C05_hypotheses_satisfiable :
  let s := mkSess (Some 2) 0x01020304 0xffffffff true (Some [0x61; 0x62]) in
  let md5 := fun _ : list N => repeat 0xaa 16 in
  (s_auth s = Some 2 /\ implemented 2 /\ s_sid s < 0x100000000 /\ s_seq s < 0x100000000) /\
  send_ipmi_msg md5 (Some s) 0xff [0x20; 0x18] =
    (Some (mkSess (Some 2) 0x01020304 1 true (Some [0x61; 0x62])), 0xff,
     Ok ([6; 0; 0xff; 7; 2; 1; 0; 0; 0; 4; 3; 2; 1] ++ repeat 0xaa 16 ++ [2; 0x20; 0x18])) /\
  receive_ipmi_msg false ([6; 0; 0xff; 7; 0; 0; 0; 0; 0; 0; 0; 0; 0; 2; 0x1c; 0x00]) = Ok [0x1c; 0x00].
Proof.
  cbv zeta. split; [|split]; [| vm_compute; reflexivity | vm_compute; reflexivity].
  unfold implemented; cbn. repeat split; auto; reflexivity.
Qed.
