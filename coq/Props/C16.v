(* C16 - SDR record parsing inverts the SDR formats.  Statements only; every proof is
   [exact <lemma>].  sdr_from_data is the model of pyipmi.sdr.SdrCommon.from_data WITH
   the repairs fixes/F16a, F16b, F16c (sdr.py) and F15a, F15b (fields.py) applied;
   enc_sdr / expected / in_range are the specification side (Model/SdrEnc.v). *)
From Coq Require Import String Ascii.
From Coq Require Import NArith ZArith List.
From PyIpmi Require Import Lib.Res Lib.Bytes Model.SdrParse Model.SdrEnc Proofs.SdrProofs.
Import ListNotations.
Open Scope N_scope.

(* Parsing the encoding of any in-range record of any of the eight kinds yields exactly
   the encoded attributes: record id, version, type, length, key, entity, masks, units and
   their sub-fields, linearisation, M and B (10 bits, split over two bytes, two's
   complement, -512..511), tolerance, accuracy (10 bits split 6+4, 0..1023), accuracy
   exponent, K1 and K2 (4 bits, two's complement, -8..7), thresholds, hysteresis and the
   id string (0..16 characters, each of the four type/length encodings), whatever the
   values of the neighbouring fields the library does not expose. *)
Theorem C16_parse_enc : forall s, in_range s -> sdr_from_data (enc_sdr s) = Ok (expected s).
Proof. exact parse_enc. Qed.
Print Assumptions C16_parse_enc.

(* The record type byte alone selects the kind of record returned. *)
Theorem C16_dispatch : forall d r, sdr_from_data d = Ok r ->
  exists t, nth_error d 3 = Some t /\ kind_of_record r = kind_of_type t.
Proof. exact dispatch. Qed.
Print Assumptions C16_dispatch.

Theorem C16_dispatch_type_only : forall d d' r r',
  nth_error d 3 = nth_error d' 3 -> sdr_from_data d = Ok r -> sdr_from_data d' = Ok r' ->
  kind_of_record r = kind_of_record r'.
Proof. exact dispatch_type_only. Qed.
Print Assumptions C16_dispatch_type_only.

(* ARBITRARY data (not only encodings): whatever record comes back carries exactly the
   five header bytes of the data - id little-endian, version, type, length - and data
   shorter than the header never yields a record *)
Theorem C16_header_any : forall d r, sdr_from_data d = Ok r ->
  exists d0 d1 d2 d3 d4 rest, d = d0 :: d1 :: d2 :: d3 :: d4 :: rest /\
    record_hdr r = mkHdr (d0 + 256 * d1) d2 d3 d4.
Proof. exact header_any. Qed.
Print Assumptions C16_header_any.

Theorem C16_short_rejected : forall d, (length d < 5)%nat -> exists e, sdr_from_data d = Err e.
Proof. exact short_rejected. Qed.
Print Assumptions C16_short_rejected.

(* two in-range records with different exposed attributes never share an encoding *)
Theorem C16_enc_injective : forall s s', in_range s -> in_range s' ->
  enc_sdr s = enc_sdr s' -> expected s = expected s'.
Proof. exact enc_injective. Qed.
Print Assumptions C16_enc_injective.

(* non-vacuity: an in-range full sensor record with negative M, B, K1, K2, accuracy above
   63, non-zero neighbours of every masked field and a 6-bit packed id string *)
Example C16_in_range_somewhere :
  let s := SFull (mkSHdr 0x1234 0x51)
    (mkSFull 0x20 15 3 2 7 3 0x61 1 0x55 1 0 2 1 3 2 1 0x7fff 0x8001 0x0f0f 2 5 1 1 6 0 1 7
             (-300)%Z 63 (-512)%Z 1000 3 2 (-8)%Z (-1)%Z 31 5 1 2 3 4 5 6 7 8 9 10 11 12 13 0xbeef 0xaa
             (mkSId 2 [65; 66; 67; 32; 49])) in
  in_range s /\ sdr_from_data (enc_sdr s) = Ok (expected s).
Proof. split; vm_compute; reflexivity. Qed.
