(* C12 - SEL retrieval is exact and get-and-clear is atomic.
   Statements only; every proof is [exact <lemma>].
   Device [sel_dev] (Model/SelIO.v): a log of 16-byte records (id = first two bytes),
   partial-read limit 1..16 or whole-record (0xFF), reservations, and an adversary
   plan: before any request another party may append a record, which cancels the
   reservation.  [somes plan] = the records the adversary will append. *)
From Coq Require Import NArith List.
From PyIpmi Require Import Lib.Res Lib.Bytes Lib.Prog Model.SelIO Proofs.SelIOProofs.
Import ListNotations.
Open Scope N_scope.

(* SelEntry decoding = the record layout of the IPMI specification, for every record
   of an accepted type (0x02, 0xC0..0xFF); the raw 16 bytes are kept unchanged *)
Theorem C12_decode : forall b0 b1 b2 b3 b4 b5 b6 b7 b8 b9 b10 b11 b12 b13 b14 b15,
  sel_type_ok b2 = true ->
  let d := [b0; b1; b2; b3; b4; b5; b6; b7; b8; b9; b10; b11; b12; b13; b14; b15] in
  sel_entry_decode d =
  Ok (mkSelEntry d (b0 + 256 * (b1 + 256 * 0)) b2
                 (b3 + 256 * (b4 + 256 * (b5 + 256 * (b6 + 256 * 0))))
                 (b7 + 256 * (b8 + 256 * 0)) b9 b10 b11
                 (if N.testbit b12 7 then 1 else 0) (N.land b12 0x7f) [b13; b14; b15]).
Proof. exact sel_decode_spec. Qed.
Print Assumptions C12_decode.

(* reading the log: every entry exactly as stored, once each, in log order, for the
   whole-record device and every partial-read limit 1..16; the log is not altered.
   [log_ok]: 16-byte records of an accepted type, distinct ids other than 0 and 0xFFFF. *)
Theorem C12_entries : forall s fuel,
  log_ok (sd_log s) -> limit_ok (sd_limit s) -> somes (sd_plan s) = [] ->
  (length (sd_log s) <= fuel)%nat -> N.of_nat (length (sd_log s)) < 65536 ->
  exists s' t, run (get_sel_entries fuel 40) sel_dev s [] = (Ok (map entry_of (sd_log s)), s', t)
    /\ map se_data (map entry_of (sd_log s)) = sd_log s
    /\ sd_log s' = sd_log s /\ sd_deleted s' = sd_deleted s.
Proof. exact entries_exact_run. Qed.
Print Assumptions C12_entries.

(* empty log: nothing is returned, and nothing but Get SEL Info is sent *)
Theorem C12_empty : forall s fuel fi,
  sd_log s = [] -> somes (sd_plan s) = [] ->
  exists s', run (get_sel_entries fuel fi) sel_dev s []
             = (Ok [], s', [(sel_info_req, RBytes [0; 0x51; 0; 0; 0; 0; 0; 0; 0; 0; 0; 0; 0; 0; 0x0a])])
          /\ sd_log s' = [].
Proof. exact entries_empty_run. Qed.
Print Assumptions C12_empty.

(* get-and-clear, for every limit and every finite adversary plan (log changes before
   any request, any number of them): the loop terminates within (changes + 1) rounds,
   returns the stored record rc, the device deleted exactly rc (deletion record, and the
   log is the old log plus the adversary's additions minus rc), and the trace ends with
   Reserve -> R, reads of rid under R only, Delete of rid under R answered with rc's id:
   the deletion carries the reservation of the read that produced the entry, and every
   cancelled round was started again from Reserve.
   [atomic_trace rid rc t] := exists t0 R gets, t = t0 ++ (reserve_req, R) :: gets ++
   [(delete_req R rid, ok (rec_id rc))] /\ Forall (is_get R rid) gets /\ got gets = rc,
   where [got] concatenates the record bytes of the successful Get SEL Entry replies:
   the reads under R are the ones that produced the whole entry. *)
Theorem C12_atomic : forall rid rc s nx,
  rid < 65536 -> rid <> 0xffff -> rec_ok rc ->
  lookup (sd_log s) rid = Some (rc, nx) -> limit_ok (sd_limit s) ->
  ids_ok (sd_log s) -> ids_ok (somes (sd_plan s)) ->
  exists s' t adds,
    run (get_and_clear_sel_entry (S (length (somes (sd_plan s)))) 40 rid) sel_dev s []
      = (Ok (entry_of rc), s', t)
    /\ se_data (entry_of rc) = rc
    /\ sd_deleted s' = sd_deleted s ++ [rc]
    /\ sd_log s' = remove_rec (sd_log s ++ adds) rid
    /\ somes (sd_plan s) = adds ++ somes (sd_plan s')
    /\ atomic_trace rid rc t.
Proof. exact gac_atomic. Qed.
Print Assumptions C12_atomic.

(* ---- the thin operations (no concurrent change during the call) ---- *)
(* get_sel_entries_count = number of entries in the log; one request; nothing changes *)
Theorem C12_count : forall s, somes (sd_plan s) = [] -> N.of_nat (length (sd_log s)) < 65536 ->
  exists s' t, run get_sel_entries_count sel_dev s [] = (Ok (N.of_nat (length (sd_log s))), s', t)
    /\ length t = 1%nat /\ quiet s s'.
Proof. exact count_exact. Qed.
Print Assumptions C12_count.

(* get_sel_reservation_id returns the reservation the device now holds valid; log untouched *)
Theorem C12_reserve : forall s, somes (sd_plan s) = [] ->
  let R := sd_resv s mod 65535 + 1 in
  exists s', run get_sel_reservation_id sel_dev s [] = (Ok R, s', [(reserve_req, RBytes (0 :: le_bytes 2 R))])
    /\ 1 <= R < 65536 /\ sd_valid s' = true /\ sd_resv s' = R
    /\ sd_log s' = sd_log s /\ sd_deleted s' = sd_deleted s /\ sd_limit s' = sd_limit s.
Proof. exact reserve_exact. Qed.
Print Assumptions C12_reserve.

(* get_sel_entry under the current reservation: the stored record and its successor's id;
   the replies' record bytes add up to the record; nothing changes *)
Theorem C12_get_entry : forall s rid resv rc nx,
  somes (sd_plan s) = [] -> sd_valid s = true -> sd_resv s = resv -> 1 <= resv -> resv < 65536 ->
  rid < 65536 -> lookup (sd_log s) rid = Some (rc, nx) -> nx < 65536 -> rec_ok rc ->
  limit_ok (sd_limit s) ->
  exists s' t, run (get_sel_entry 40 rid resv) sel_dev s [] = (Ok (entry_of rc, nx), s', t)
    /\ se_data (entry_of rc) = rc /\ got t = rc /\ quiet s s'.
Proof. exact get_entry_exact. Qed.
Print Assumptions C12_get_entry.

(* delete_sel_entry under the current reservation removes exactly the named entry *)
Theorem C12_delete : forall s rid resv rc nx,
  somes (sd_plan s) = [] -> sd_valid s = true -> sd_resv s = resv -> resv < 65536 -> rid < 65536 ->
  lookup (sd_log s) rid = Some (rc, nx) -> rec_id rc < 65536 ->
  exists s', run (delete_sel_entry rid resv) sel_dev s []
             = (Ok (rec_id rc), s', [(delete_req resv rid, RBytes (0 :: le_bytes 2 (rec_id rc)))])
    /\ sd_log s' = remove_rec (sd_log s) rid /\ sd_deleted s' = sd_deleted s ++ [rc]
    /\ sd_valid s' = false.
Proof. exact delete_exact. Qed.
Print Assumptions C12_delete.

(* ... and without it (cancelled, or another id - e.g. the default 0) nothing is deleted *)
Theorem C12_delete_refused : forall s rid resv,
  somes (sd_plan s) = [] -> resv < 65536 -> rid < 65536 ->
  (sd_valid s = false \/ resv <> sd_resv s) ->
  exists s', run (delete_sel_entry rid resv) sel_dev s []
             = (Err (CCError 0xc5), s', [(delete_req resv rid, RBytes [0xc5])])
    /\ quiet s s'.
Proof. exact delete_refused. Qed.
Print Assumptions C12_delete_refused.

(* clear_sel (helper.clear_repository_helper over get_sel_reservation_id / _clear_sel):
   the whole log is erased, deletion record and limit untouched; Reserve -> R, Clear(0xAA)
   under R, Clear(0x00) under R.  Any retry budget >= 2. *)
Theorem C12_clear : forall s retry, somes (sd_plan s) = [] -> (2 <= retry)%nat ->
  exists s' t, run (clear_sel retry) sel_dev s [] = (Ok tt, s', t)
    /\ sd_log s' = [] /\ sd_deleted s' = sd_deleted s /\ sd_limit s' = sd_limit s
    /\ exists R, t = [(reserve_req, RBytes (0 :: le_bytes 2 R)); (clear_req R 0xaa, RBytes [0; 1]);
                      (clear_req R 0, RBytes [0; 1])].
Proof. exact clear_sel_exact. Qed.
Print Assumptions C12_clear.

(* non-vacuity: three records, limit 5, the adversary appends a record before the 4th
   and just before the Delete of the second round (22nd request): the hypotheses hold and the model goes through both
   cancellations (3 reservations) and deletes record 0x0002 *)
Definition ex_rec (id ty : N) : list N := [id; 0; ty; 1; 2; 3; 4; 0x20; 0; 4; 1; 7; 0x6f; 9; 8; 7].
Definition ex_dev : seldev :=
  mkSelDev [ex_rec 1 2; ex_rec 2 0xc0; ex_rec 3 0xff] 5 0x10 false
           (repeat None 3 ++ [Some (ex_rec 9 2)] ++ repeat None 17 ++ [Some (ex_rec 10 2)]) [].
Example C12_hypotheses_satisfiable :
  lookup (sd_log ex_dev) 2 = Some (ex_rec 2 0xc0, 3) /\ limit_ok (sd_limit ex_dev)
  /\ rec_ok (ex_rec 2 0xc0) /\ ids_ok (sd_log ex_dev) /\ ids_ok (somes (sd_plan ex_dev))
  /\ (let '(out, s', t) := run (get_and_clear_sel_entry 3 40 2) sel_dev ex_dev [] in
      out = Ok (entry_of (ex_rec 2 0xc0)) /\ sd_deleted s' = [ex_rec 2 0xc0]
      /\ sd_log s' = [ex_rec 1 2; ex_rec 3 0xff; ex_rec 9 2; ex_rec 10 2]
      /\ length (filter (fun x => q_cmd (fst x) =? CMD_RESERVE_SEL) t) = 3%nat)
  /\ log_ok (sd_log ex_dev).
Proof.
  split; [reflexivity|]. split; [left; split; discriminate|].
  split; [split; reflexivity|].
  split; [repeat constructor|]. split; [repeat constructor|].
  split; [vm_compute; repeat split; reflexivity|].
  unfold log_ok. split; [repeat constructor|]. split; [repeat constructor|].
  split; [|split; vm_compute; intuition discriminate].
  vm_compute. repeat constructor; intros H; cbn in H; intuition discriminate.
Qed.
