(* C12 - SEL retrieval is exact and get-and-clear is atomic.
   Statements only; every proof is [exact <lemma>].
   Device [sel_dev] (Model/SelIO.v): a log of 16-byte records (id = first two bytes),
   partial-read limit 1..16 or whole-record (0xFF), reservations, and an adversary
   plan: before any request another party may append a record, which cancels the
   reservation.  [somes plan] = the records the adversary will append. *)
From Coq Require Import NArith List.
From PyIpmi Require Import Lib.Res Lib.Bytes Lib.Prog Model.SelIO Proofs.SelIOProofs.
Import ListNotations.
Open Scope N_scope.

(* SelEntry decoding = the record layout of the IPMI specification, for every record
   of an accepted type (0x02, 0xC0..0xFF); the raw 16 bytes are kept unchanged *)
Theorem C12_decode : forall b0 b1 b2 b3 b4 b5 b6 b7 b8 b9 b10 b11 b12 b13 b14 b15,
  sel_type_ok b2 = true ->
  let d := [b0; b1; b2; b3; b4; b5; b6; b7; b8; b9; b10; b11; b12; b13; b14; b15] in
  sel_entry_decode d =
  Ok (mkSelEntry d (b0 + 256 * (b1 + 256 * 0)) b2
                 (b3 + 256 * (b4 + 256 * (b5 + 256 * (b6 + 256 * 0))))
                 (b7 + 256 * (b8 + 256 * 0)) b9 b10 b11
                 (if N.testbit b12 7 then 1 else 0) (N.land b12 0x7f) [b13; b14; b15]).
Proof. exact sel_decode_spec. Qed.
Print Assumptions C12_decode.

(* reading the log: every entry exactly as stored, once each, in log order, for the
   whole-record device and every partial-read limit 1..16; the log is not altered.
   [log_ok]: 16-byte records of an accepted type, distinct ids other than 0 and 0xFFFF. *)
Theorem C12_entries : forall s fuel,
  log_ok (sd_log s) -> limit_ok (sd_limit s) -> somes (sd_plan s) = [] ->
  (length (sd_log s) <= fuel)%nat -> N.of_nat (length (sd_log s)) < 65536 ->
  exists s' t, run (get_sel_entries fuel 40) sel_dev s [] = (Ok (map entry_of (sd_log s)), s', t)
    /\ map se_data (map entry_of (sd_log s)) = sd_log s
    /\ sd_log s' = sd_log s /\ sd_deleted s' = sd_deleted s.
Proof. exact entries_exact_run. Qed.
Print Assumptions C12_entries.

(* empty log: nothing is returned, and nothing but Get SEL Info is sent *)
Theorem C12_empty : forall s fuel fi,
  sd_log s = [] -> somes (sd_plan s) = [] ->
  exists s', run (get_sel_entries fuel fi) sel_dev s []
             = (Ok [], s', [(sel_info_req, RBytes [0; 0x51; 0; 0; 0; 0; 0; 0; 0; 0; 0; 0; 0; 0; 0x0a])])
          /\ sd_log s' = [].
Proof. exact entries_empty_run. Qed.
Print Assumptions C12_empty.

(* get-and-clear, for every limit and every finite adversary plan (log changes before
   any request, any number of them): the loop terminates within (changes + 1) rounds,
   returns the stored record rc, the device deleted exactly rc (deletion record, and the
   log is the old log plus the adversary's additions minus rc), and the trace ends with
   Reserve -> R, reads of rid under R only, Delete of rid under R answered with rc's id:
   the deletion carries the reservation of the read that produced the entry, and every
   cancelled round was started again from Reserve.
   [atomic_trace rid rc t] := exists t0 R gets, t = t0 ++ (reserve_req, R) :: gets ++
   [(delete_req R rid, ok (rec_id rc))] /\ Forall (is_get R rid) gets /\ got gets = rc,
   where [got] concatenates the record bytes of the successful Get SEL Entry replies:
   the reads under R are the ones that produced the whole entry. *)
Theorem C12_atomic : forall rid rc s nx,
  rid < 65536 -> rid <> 0xffff -> rec_ok rc ->
  lookup (sd_log s) rid = Some (rc, nx) -> limit_ok (sd_limit s) ->
  ids_ok (sd_log s) -> ids_ok (somes (sd_plan s)) ->
  exists s' t adds,
    run (get_and_clear_sel_entry (S (length (somes (sd_plan s)))) 40 rid) sel_dev s []
      = (Ok (entry_of rc), s', t)
    /\ se_data (entry_of rc) = rc
    /\ sd_deleted s' = sd_deleted s ++ [rc]
    /\ sd_log s' = remove_rec (sd_log s ++ adds) rid
    /\ somes (sd_plan s) = adds ++ somes (sd_plan s')
    /\ atomic_trace rid rc t.
Proof. exact gac_atomic. Qed.
Print Assumptions C12_atomic.

(* non-vacuity: three records, limit 5, the adversary appends a record before the 4th
   and just before the Delete of the second round (22nd request): the hypotheses hold and the model goes through both
   cancellations (3 reservations) and deletes record 0x0002 *)
Definition ex_rec (id ty : N) : list N := [id; 0; ty; 1; 2; 3; 4; 0x20; 0; 4; 1; 7; 0x6f; 9; 8; 7].
Definition ex_dev : seldev :=
  mkSelDev [ex_rec 1 2; ex_rec 2 0xc0; ex_rec 3 0xff] 5 0x10 false
           (repeat None 3 ++ [Some (ex_rec 9 2)] ++ repeat None 17 ++ [Some (ex_rec 10 2)]) [].
Example C12_hypotheses_satisfiable :
  lookup (sd_log ex_dev) 2 = Some (ex_rec 2 0xc0, 3) /\ limit_ok (sd_limit ex_dev)
  /\ rec_ok (ex_rec 2 0xc0) /\ ids_ok (sd_log ex_dev) /\ ids_ok (somes (sd_plan ex_dev))
  /\ (let '(out, s', t) := run (get_and_clear_sel_entry 3 40 2) sel_dev ex_dev [] in
      out = Ok (entry_of (ex_rec 2 0xc0)) /\ sd_deleted s' = [ex_rec 2 0xc0]
      /\ sd_log s' = [ex_rec 1 2; ex_rec 3 0xff; ex_rec 9 2; ex_rec 10 2]
      /\ length (filter (fun x => q_cmd (fst x) =? CMD_RESERVE_SEL) t) = 3%nat)
  /\ log_ok (sd_log ex_dev).
Proof.
  split; [reflexivity|]. split; [left; split; discriminate|].
  split; [split; reflexivity|].
  split; [repeat constructor|]. split; [repeat constructor|].
  split; [vm_compute; repeat split; reflexivity|].
  unfold log_ok. split; [repeat constructor|]. split; [repeat constructor|].
  split; [|split; vm_compute; intuition discriminate].
  vm_compute. repeat constructor; intros H; cbn in H; intuition discriminate.
Qed.
