(* C03 - IPMB frames carry valid checksums; the reply filter passes only intact
   matches.  Statements only; every proof is [exact <lemma>]. *)
From Coq Require Import NArith List.
From PyIpmi Require Import Lib.Res Lib.Bytes Model.Ipmb Proofs.IpmbProofs.
Import ListNotations.
Open Scope N_scope.

(* the checksum byte makes the byte sum zero modulo 256, for every byte list *)
Theorem C03_checksum : forall l, (sum l + checksum l) mod 256 = 0.
Proof. exact checksum_zero. Qed.
Print Assumptions C03_checksum.

(* every transmitted frame: both checksums verify, and it carries exactly the
   header fields and the data it was asked to carry *)
Theorem C03_frame : forall h d, hdr_in_range h -> bytes_ok d = true ->
  exists f, encode_ipmb_msg h d = Ok f /\
    length f = (7 + length d)%nat /\ bytes_ok f = true /\
    sum256 (firstn 3 f) = 0 /\ sum256 (skipn 3 f) = 0 /\
    (exists c, hdr_req_decode f = Ok (h, c)) /\ payload f = d.
Proof. exact frame_ok. Qed.
Print Assumptions C03_frame.

(* the filter accepts exactly: length >= 6, both checksums, netfn = request's | 1,
   command, and the enabled address / LUN / sequence checks *)
Theorem C03_filter_iff : forall h f o, rx_filter h f o = Ok true <-> filter_spec h f o.
Proof. exact rx_filter_iff. Qed.
Print Assumptions C03_filter_iff.

(* consequently a reply with any single corrupted byte is rejected - for every
   frame length and every position *)
Theorem C03_single_corruption : forall h f o i b,
  rx_filter h f o = Ok true -> bytes_ok f = true -> (i < length f)%nat ->
  b < 256 -> b <> nth i f 0 -> rx_filter h (upd f i b) o <> Ok true.
Proof. exact single_corruption. Qed.
Print Assumptions C03_single_corruption.

Theorem C03_short_rejected : forall h f o, (length f < 6)%nat -> rx_filter h f o <> Ok true.
Proof. exact short_frame_rejected. Qed.
Print Assumptions C03_short_rejected.

(* completeness: the frame a conforming responder sends for request header h
   (IpmbHeaderRsp.encode of the mirrored header with netfn|1, any body, payload
   checksum) is accepted under EVERY option setting, and carries exactly the body *)
Theorem C03_conforming_reply_accepted : forall h body o,
  hdr_in_range h -> bytes_ok body = true ->
  exists f, rsp_frame h body = Ok f /\ length f = (7 + length body)%nat /\
            bytes_ok f = true /\ rx_filter h f o = Ok true /\ payload f = body.
Proof. exact conforming_reply_accepted. Qed.
Print Assumptions C03_conforming_reply_accepted.

(* ... and a well-formed reply to ANOTHER request (other sequence number, responder
   LUN, command or network function) is rejected under the default options *)
Theorem C03_other_request_rejected : forall h h' body f,
  hdr_in_range h -> hdr_in_range h' -> bytes_ok body = true -> rsp_frame h' body = Ok f ->
  (rq_seq h' <> rq_seq h \/ rs_lun h' <> rs_lun h \/ cmdid h' <> cmdid h \/
   N.lor (netfn h') 1 <> N.lor (netfn h) 1) ->
  rx_filter h f default_opts <> Ok true.
Proof. exact other_seq_rejected. Qed.
Print Assumptions C03_other_request_rejected.

(* non-vacuity: a concrete accepted frame exists (Get Device Id reply) *)
Example C03_accepts_somewhere :
  rx_filter (mkHdr 0x20 0 0x81 0 5 6 1) [0x81; 0x1c; 0x63; 0x20; 0x14; 0x01; 0x00; 0xcb] default_opts = Ok true
  /\ hdr_in_range (mkHdr 0x20 0 0x81 0 5 6 1).
Proof. split; [vm_compute; reflexivity | unfold hdr_in_range; cbn; repeat split; reflexivity]. Qed.

(* non-vacuity of the completeness pair: an in-range request header, a reply to a request
   that differs only in the sequence number, and what the filter says about each *)
Example C03_reply_pair_somewhere :
  let h := mkHdr 0x20 0 0x81 0 5 6 1 in let h' := mkHdr 0x20 0 0x81 0 6 6 1 in
  hdr_in_range h /\ hdr_in_range h' /\
  (exists f, rsp_frame h [0; 0x51] = Ok f /\ rx_filter h f default_opts = Ok true) /\
  (exists f', rsp_frame h' [0; 0x51] = Ok f' /\ rx_filter h f' default_opts = Ok false).
Proof.
  cbv zeta. split; [unfold hdr_in_range; cbn; repeat split; reflexivity|].
  split; [unfold hdr_in_range; cbn; repeat split; reflexivity|].
  split; eexists; split; vm_compute; reflexivity.
Qed.
