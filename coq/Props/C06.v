(* C06 - LAN session establishment and sequence numbering follow IPMI v1.5.
   Statements only; every proof is [exact <lemma>].  The client is Model/Session.v (the
   code as repaired by fixes/F6-auth-type-implemented.diff), the peer is the reference
   BMC checker automaton Model/Bmc15.v; md5 is universally quantified, only |md5 x| = 16
   is assumed. *)
From Coq Require Import NArith List.
From PyIpmi Require Import Lib.Res Lib.Bytes Model.Rmcp Model.Session Model.Bmc15
  Proofs.RmcpProofs Proofs.SessionProofs.
Import ListNotations.
Open Scope N_scope.

(* establish_session + any list of later requests + close_session, run against every
   conforming BMC (any capability byte whose strongest implemented type is a, any
   temporary / granted ids, any challenge, ANY assigned initial inbound sequence number
   incl. 0xfffffffe / 0xffffffff, user / password up to 16 bytes), from ANY prior state of
   the Session / Rmcp objects (stale id, stale sequence number, stale activated flag,
   stale attached session), any retry budget: every operation succeeds, the BMC ends in
   "closed" having flagged NO rule violation and having accepted exactly 2 + n in-session
   datagrams (Set Session Privilege Level, the n requests, Close Session); 6 + n
   datagrams are sent in all; the session object ends deactivated with the sequence number
   init advanced 2 + n times (+1, zero skipped). *)
Theorem C06_accepted : forall md5, (forall x, length (md5 x) = 16%nat) ->
  forall c p pw a rnd rs st ph cnt,
  conforming c p pw a -> client_ready st pw -> Forall req_ok rs ->
  exists st' tr,
    lrun (whole_session md5 c rnd rs st) (bmc_step md5 p) (mkB ph None cnt) []
    = ((st', Ok tt), mkB P5 None (cnt + 2 + N.of_nat (length rs)), tr)
    /\ length tr = (6 + length rs)%nat
    /\ s_act (l_so st') = false
    /\ s_seq (l_so st') = iter_incr (2 + length rs) (b_init p).
Proof. exact session_accepted. Qed.
Print Assumptions C06_accepted.

(* the handshake alone: exactly five datagrams (ping, capabilities, challenge, activate,
   set privilege), accepted in that order by the automaton (P0/any -> P1 -> P2 -> P3 -> P4;
   the first three with a null session header, activation under the temporary id with the
   challenge echoed and the configured privilege, all checked by bmc_logic); afterwards
   the client holds the granted id, the chosen type and init+1 *)
Theorem C06_establish : forall md5, (forall x, length (md5 x) = 16%nat) ->
  forall c p pw a rnd st ph cnt tr,
  conforming c p pw a -> client_ready st pw ->
  exists st' tr',
    lrun (establish md5 c rnd st) (bmc_step md5 p) (mkB ph None cnt) tr
    = ((st', Ok tt), mkB (P4 a (Some (incr_seq (b_init p)))) None (cnt + 1), tr ++ tr')
    /\ length tr' = 5%nat
    /\ in_session st' a pw (b_sid p)
    /\ seq_sync p (Some (incr_seq (b_init p))) st'
    /\ s_seq (l_so st') = incr_seq (b_init p).
Proof. exact establish_accepted. Qed.
Print Assumptions C06_establish.

(* order: a capabilities / challenge / activate request is flagged by the automaton unless it
   arrives in its own phase or is repeated right after it (retransmission after a lost reply) -
   so "accepted" above implies the order *)
Theorem C06_order : forall md5 p s pp lun data,
  (b_ph s <> P1 -> b_ph s <> P2 -> b_viol (fst (bmc_logic md5 p s pp 6 lun 0x38 data)) <> None) /\
  (b_ph s <> P2 -> (forall a, b_ph s <> P3 a) -> b_viol (fst (bmc_logic md5 p s pp 6 lun 0x39 data)) <> None) /\
  ((forall a, b_ph s <> P3 a) -> (forall a, b_ph s <> P4 a None) ->
   b_viol (fst (bmc_logic md5 p s pp 6 lun 0x3a data)) <> None).
Proof. exact order_enforced. Qed.
Print Assumptions C06_order.

(* sequence law: Session.increment_sequence_number is the v1.5 successor (+1, 0 skipped on
   32-bit wrap), never yields 0, stays 32-bit ... *)
Theorem C06_seq_law : forall n, n < 0x100000000 ->
  incr_seq n = succ32 n /\ incr_seq n <> 0 /\ incr_seq n < 0x100000000.
Proof. exact incr_is_succ32. Qed.
Print Assumptions C06_seq_law.

(* ... the first in-session number (init + 1) is inside the acceptance window of every
   assigned initial value, and every later one is the successor of the previous *)
Theorem C06_seq_window : forall init, init < 0x100000000 -> seq_ok init None (incr_seq init) = true.
Proof. exact first_in_window. Qed.
Print Assumptions C06_seq_window.

Theorem C06_seq_next : forall last, last < 0x100000000 -> forall init, seq_ok init (Some last) (incr_seq last) = true.
Proof. exact next_is_succ. Qed.
Print Assumptions C06_seq_next.

(* over ANY number k of consecutive requests the counter walks the cycle 1..2^32-1:
   closed form, no number used twice within 2^32-1 consecutive requests (so a BMC's
   replay window never sees a repeat), never 0, and period exactly 2^32-1 *)
Theorem C06_seq_closed_form : forall k n, 1 <= n -> n < 0x100000000 ->
  iter_incr k n = (n - 1 + N.of_nat k) mod 0xffffffff + 1.
Proof. exact iter_incr_closed. Qed.
Print Assumptions C06_seq_closed_form.

Theorem C06_seq_no_repeat : forall n j k, 1 <= n -> n < 0x100000000 ->
  (j < k)%nat -> N.of_nat k - N.of_nat j < 0xffffffff ->
  iter_incr j n <> iter_incr k n /\ iter_incr k n <> 0.
Proof. exact iter_incr_distinct. Qed.
Print Assumptions C06_seq_no_repeat.

Theorem C06_seq_period : forall n k, 1 <= n -> n < 0x100000000 -> N.of_nat k = 0xffffffff ->
  iter_incr k n = n.
Proof. exact iter_incr_period. Qed.
Print Assumptions C06_seq_period.

Example C06_seq_wraps_somewhere :
  iter_incr 3 0xfffffffe = 2 /\ (0xfffffffe - 1 + N.of_nat 3) mod 0xffffffff + 1 = 2.
Proof. split; vm_compute; reflexivity. Qed.

(* any number of requests: each accepted, each advancing both sides by one (induction) *)
Theorem C06_requests : forall md5, (forall x, length (md5 x) = 16%nat) ->
  forall c p a pw, b_pw p = pw ->
  forall rs st last cnt tr, Forall req_ok rs ->
  in_session st a pw (b_sid p) -> seq_sync p last st ->
  exists st' last' tr',
    lrun (requests md5 c rs st) (bmc_step md5 p) (mkB (P4 a last) None cnt) tr
    = ((st', Ok tt), mkB (P4 a last') None (cnt + N.of_nat (length rs)), tr ++ tr')
    /\ length tr' = length rs
    /\ in_session st' a pw (b_sid p) /\ seq_sync p last' st'
    /\ s_seq (l_so st') = iter_incr (length rs) (s_seq (l_so st)).
Proof. exact requests_accepted. Qed.
Print Assumptions C06_requests.

(* the chosen type is the strongest that the BMC offers and the library implements, for
   every support byte *)
Theorem C06_strongest : forall support, max_auth_type support (Some SUPPORTED_AUTH_TYPES) = best support.
Proof. exact strongest. Qed.
Print Assumptions C06_strongest.

(* finding F6: without the restriction to implemented types (the unrepaired call
   get_max_auth_type()) this is false - witness none + MD2 *)
Theorem C06_unrestricted_order_not_strongest :
  exists support a, best support = Some a /\ max_auth_type support None <> Some a.
Proof. exact unrestricted_not_strongest. Qed.
Print Assumptions C06_unrestricted_order_not_strongest.

(* handshake failure: a step that fails ends the whole composition with its error, its
   state and its trace - no datagram of a later step is sent (for every device) ... *)
Theorem C06_failure_stops : forall (S : Type) (dev : S -> list N -> S * lreply) (A B : Type)
  (m : M A) (f : A -> M B) st s tr st' e s' tr',
  lrun (m st) dev s tr = ((st', Err e), s', tr') ->
  lrun (mbind m f st) dev s tr = ((st', Err e), s', tr').
Proof. exact @mbind_err. Qed.
Print Assumptions C06_failure_stops.

(* ... an error completion code in the reply makes each of the four session commands fail ... *)
Theorem C06_error_reply : forall cc r, cc <> 0 ->
  (exists v, decode_caps (cc :: r) = Ok (cc, v)) /\ (exists v w, decode_challenge (cc :: r) = Ok (cc, v, w)) /\
  (exists v w, decode_activate (cc :: r) = Ok (cc, v, w)) /\ (forall n, decode_cc_n n (cc :: r) = Ok cc) /\
  (forall st, check_cc cc st = LRet (st, Err (CCError cc))).
Proof. exact error_reply_raises. Qed.
Print Assumptions C06_error_reply.

(* ... and silence makes an exchange fail after at most retries + 1 datagrams of that request *)
Theorem C06_silence : forall md5 (S : Type) (dev : S -> list N -> S * lreply),
  (forall s dg, snd (dev s dg) = LTimeout) ->
  forall fuel tx st s tr,
  exists st' e s' more, lrun (xchg_loop md5 fuel tx st) dev s tr = ((st', Err e), s', tr ++ more)
    /\ (length more <= fuel)%nat.
Proof. exact xchg_loop_silence. Qed.
Print Assumptions C06_silence.

(* non-vacuity: a concrete conforming BMC (MD5 + password offered, initial inbound number
   0xffffffff) and a client with stale state; the whole session runs, the numbers used are
   1, 2, 3 *)
Example C06_hypotheses_satisfiable :
  let md5 := fun _ : list N => repeat 0xaa 16 in
  let c := mkCfg [0x61] 4 0 true in
  let p := mkBmcP 0x14 [0x61] [0x70; 0x77] 4 0x11223344 (repeat 7 16) 0xfffffffe 0xffffffff in
  let st := mkL (mkSess (Some 4) 99 12345 true (Some [0x70; 0x77])) true 255 17 false in
  conforming c p [0x70; 0x77] 2 /\ client_ready st [0x70; 0x77] /\
  Forall req_ok [(6, 0, 1, [])] /\
  (let '(r, b, tr) := lrun (whole_session md5 c 5 [(6, 0, 1, [])] st) (bmc_step md5 p) bmc_start [] in
   snd r = Ok tt /\ b = mkB P5 None 3 /\ length tr = 7%nat /\ s_seq (l_so (fst r)) = 3).
Proof.
  cbv zeta. split; [|split; [|split]].
  - unfold conforming. cbn. repeat split; auto; try reflexivity; apply le_n_S; repeat constructor.
  - unfold client_ready. cbn. repeat split; reflexivity.
  - constructor; [|constructor]. unfold req_ok. cbn. repeat split; auto; try reflexivity. repeat constructor.
  - vm_compute. repeat split; reflexivity.
Qed.
