(* C08 - errors reported by the BMC are never mistaken for success.
   Statements only; every proof is [exact <lemma>].
   [api_ops] (Gen/ApiOps.v) is regenerated from /repo by gen/gen_api.py on every run. *)
From Coq Require Import String.
From Coq Require Import NArith List Bool.
From PyIpmi Require Import Lib.Res Lib.Bytes Lib.Prog Model.Codec Model.ApiShape Gen.Layouts Gen.ApiOps
  Proofs.RegistryProofs Proofs.ApiShapeProofs Proofs.ApiOpsProofs.
Import ListNotations.
Open Scope N_scope.

(* Proved once for the class: for every straight-line checked operation (whatever
   requests it builds, whatever its pure code does, whichever conditional exchanges it
   makes), every reply list, every position k whose request was really issued and every
   code cc <> 0: if reply k carries cc (in the decoded response, or raised by the
   transport) the outcome is CompletionCodeError(cc), request k is the last one sent,
   and no result is produced. *)
Theorem C08_propagates : forall ops o I rs k rp cc out reqs sl rest,
  simple_checked ops o = true -> cc <> 0 ->
  replay (op_prog ops o I) rs [] [] = (out, reqs, sl, rest) ->
  nth_error rs k = Some rp -> carries rp cc -> (k < length reqs)%nat ->
  out = Err (CCError cc) /\ length reqs = S k /\ rest = skipn (S k) rs.
Proof. exact op_propagates. Qed.
Print Assumptions C08_propagates.

(* Membership is re-established on every run over the regenerated list: every method of
   Ipmi and its mix-ins is in the class, or has exactly the recorded shape of an operation
   with loops / handlers (judged by the implementation oracle; see hand_shapes), or is DOWNGRADED
   in this run.
   DOWNGRADE RULE.  An operation is downgraded ("tainted") when the translator could not produce
   its shape in this run - a step [Untranslated why], other than an unresolved attribute
   ("no such attribute ...", which is a fact about the code and stays a broken obligation) - or
   when it calls such an operation.  For a downgraded operation the class theorem is not claimed
   in this run; the harness names it (ops_downgraded, with the translator's reason) and REQUIRES
   that the fault oracle exercised it in this run without failure (otherwise VIOLATION
   downgraded-without-oracle).  An operation whose shape is produced but is neither in the class
   nor matches its recorded shape (a dropped check, a new handler, a changed loop) still breaks
   this obligation. *)
Theorem C08_all_classified : forallb (classified_or_downgraded api_ops) api_ops = true.
Proof. exact all_classified. Qed.
Print Assumptions C08_all_classified.

(* ... never both, *)
Theorem C08_exclusive : forallb (exclusive api_ops) api_ops = true.
Proof. exact all_exclusive. Qed.
Print Assumptions C08_exclusive.

Theorem C08_classified_in : forall o, In o api_ops ->
  simple_checked api_ops o = true \/ handled o = true \/ tainted api_ops o = true.
Proof. exact classified_in. Qed.
Print Assumptions C08_classified_in.

(* The decoder leaves only the completion code set on error: for every response class
   of the regenerated registry, a non-OK first byte decodes to that code and the created
   defaults of all other fields, whatever follows. *)
Theorem C08_decode_cc_only : forall m f fs c rest, In m registry -> is_rsp m = true ->
  m_layout m = Fields (f :: fs) -> c <> 0 ->
  decode (m_layout m) (c :: rest) = Ok (VInt c :: map f_dflt fs, true).
Proof. exact decode_cc_only. Qed.
Print Assumptions C08_decode_cc_only.

(* Node busy raised by the transport at a consumed position k: the library re-sends;
   the outcome and the unread replies are those of the run without that reply - unless
   the retry budget is exhausted (RetryError). *)
Theorem C08_busy_retry : forall ops o I rs k,
  simple_checked ops o = true ->
  nth_error rs k = Some (RRaise (CCError CC_NODE_BUSY)) ->
  (k < length (snd (fst (fst (replay (op_prog ops o I) rs [] [])))))%nat ->
  fst (outcome (replay (op_prog ops o I) rs [] [])) = Err RetryError \/
  outcome (replay (op_prog ops o I) (del k rs) [] []) = outcome (replay (op_prog ops o I) rs [] []).
Proof. exact op_busy_retry. Qed.
Print Assumptions C08_busy_retry.

(* Hpm.get_component_properties (repaired, F8b): any code other than "invalid
   properties selector" at any of its exchanges is the outcome ... *)
Theorem C08_get_component_properties_fault : forall mk parse rs k rp cc out reqs sl rest,
  cc <> 0 -> cc <> CC_INVALID_SELECTOR ->
  replay (get_component_properties mk parse) rs [] [] = (out, reqs, sl, rest) ->
  nth_error rs k = Some rp -> carries rp cc -> (k < length reqs)%nat ->
  out = Err (CCError cc) /\ length reqs = S k /\ rest = skipn (S k) rs.
Proof. exact gcp_fault. Qed.
Print Assumptions C08_get_component_properties_fault.

(* ... and when the BMC answers each selector with data or "invalid selector", the result
   is exactly the data the BMC delivered, in order. *)
Theorem C08_get_component_properties_delivers : forall mk parse ds,
  (forall p b, parse p b = None) -> length ds = 5%nat -> Forall answer_ok ds ->
  outcome (replay (get_component_properties mk parse) (map RBytes ds) [] []) = (Ok (delivered PROPS ds), []).
Proof. exact gcp_spec. Qed.
Print Assumptions C08_get_component_properties_delivers.

(* non-vacuity: a concrete operation of the class, a fault at its only exchange *)
Example C08_somewhere :
  In op_Bmc_get_device_id api_ops /\ simple_checked api_ops op_Bmc_get_device_id = true /\
  let I := mkInst (fun _ _ => mkReq 6 1 0 []) (fun _ _ => None) (fun _ => true) in
  replay (op_prog api_ops op_Bmc_get_device_id I) [RBytes [0xC1]] [] [] =
    (Err (CCError 0xC1), [mkReq 6 1 0 []], [], []) /\
  fst (outcome (replay (op_prog api_ops op_Bmc_get_device_id I) [RBytes (hx "00200115025f1fb33a000d00")] [] []))
    = Ok [hx "200115025f1fb33a000d00"].
Proof. vm_compute. repeat split; try reflexivity. left; reflexivity. Qed.
