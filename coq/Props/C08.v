(* C08 - errors reported by the BMC are never mistaken for success.
   Statements only; every proof is [exact <lemma>].
   [api_ops] (Gen/ApiOps.v) is regenerated from /repo by gen/gen_api.py on every run. *)
From Coq Require Import String.
From Coq Require Import NArith List Bool.
From PyIpmi Require Import Lib.Res Lib.Bytes Lib.Prog Model.Codec Model.ApiShape Gen.Layouts Gen.ApiOps
  Proofs.RegistryProofs Proofs.ApiShapeProofs Proofs.ApiOpsProofs.
Import ListNotations.
Open Scope N_scope.

(* Proved once for the class: for every straight-line checked operation (whatever
   requests it builds, whatever its pure code does, whichever conditional exchanges it
   makes), every reply list, every position k whose request was really issued and every
   code cc <> 0: if reply k carries cc (in the decoded response, or raised by the
   transport) the outcome is CompletionCodeError(cc), request k is the last one sent,
   and no result is produced. *)
Theorem C08_propagates : forall ops o I rs k rp cc out reqs sl rest,
  simple_checked ops o = true -> cc <> 0 ->
  replay (op_prog ops o I) rs [] [] = (out, reqs, sl, rest) ->
  nth_error rs k = Some rp -> carries rp cc -> (k < length reqs)%nat ->
  out = Err (CCError cc) /\ length reqs = S k /\ rest = skipn (S k) rs.
Proof. exact op_propagates. Qed.
Print Assumptions C08_propagates.

(* Which operations are in the class is re-established on every run over the regenerated list: the
   class theorem holds for every member of [filter (simple_checked api_ops) api_ops], the class is not
   empty, and no operation is both in the class and recorded as an operation with loops / handlers.
   DOWNGRADE RULE.  Every other method of Ipmi and its mix-ins is judged by the implementation oracle
   in this run and named in the evidence with the reason: [handled] (it has exactly the recorded shape
   of an operation with loops / handlers, hand-modelled elsewhere - see hand_shapes), [tainted] (the
   translator could not produce its shape in this run, or it calls such an operation) or [reshaped]
   (its shape was produced but is neither in the class nor the recorded one - a dropped check, a new
   handler, a changed loop, or a harmless restructuring).  For a tainted or reshaped public operation
   the harness REQUIRES that the fault oracle exercised it in this run without failure (otherwise
   VIOLATION ... downgraded-without-oracle); nothing is claimed for it by theorem. *)
Theorem C08_class_members_propagate : forall o, In o (filter (simple_checked api_ops) api_ops) ->
  forall I rs k rp cc out reqs sl rest, cc <> 0 ->
  replay (op_prog api_ops o I) rs [] [] = (out, reqs, sl, rest) ->
  nth_error rs k = Some rp -> carries rp cc -> (k < length reqs)%nat ->
  out = Err (CCError cc) /\ length reqs = S k /\ rest = skipn (S k) rs.
Proof. exact class_members_propagate. Qed.
Print Assumptions C08_class_members_propagate.

Theorem C08_class_nonempty : existsb (simple_checked api_ops) api_ops = true.
Proof. exact class_nonempty. Qed.
Print Assumptions C08_class_nonempty.

(* ... never both, *)
Theorem C08_exclusive : forallb (exclusive api_ops) api_ops = true.
Proof. exact all_exclusive. Qed.
Print Assumptions C08_exclusive.

(* The decoder leaves only the completion code set on error: for every response class
   of the regenerated registry, a non-OK first byte decodes to that code and the created
   defaults of all other fields, whatever follows. *)
Theorem C08_decode_cc_only : forall m f fs c rest, In m registry -> is_rsp m = true ->
  m_layout m = Fields (f :: fs) -> c <> 0 ->
  decode (m_layout m) (c :: rest) = Ok (VInt c :: map f_dflt fs, true).
Proof. exact decode_cc_only. Qed.
Print Assumptions C08_decode_cc_only.

(* Node busy raised by the transport at a consumed position k: the library re-sends;
   the outcome and the unread replies are those of the run without that reply - unless
   the retry budget is exhausted (RetryError). *)
Theorem C08_busy_retry : forall ops o I rs k,
  simple_checked ops o = true ->
  nth_error rs k = Some (RRaise (CCError CC_NODE_BUSY)) ->
  (k < length (snd (fst (fst (replay (op_prog ops o I) rs [] [])))))%nat ->
  fst (outcome (replay (op_prog ops o I) rs [] [])) = Err RetryError \/
  outcome (replay (op_prog ops o I) (del k rs) [] []) = outcome (replay (op_prog ops o I) rs [] []).
Proof. exact op_busy_retry. Qed.
Print Assumptions C08_busy_retry.

(* Hpm.get_component_properties (repaired, F8b): any code other than "invalid
   properties selector" at any of its exchanges is the outcome ... *)
Theorem C08_get_component_properties_fault : forall mk parse rs k rp cc out reqs sl rest,
  cc <> 0 -> cc <> CC_INVALID_SELECTOR ->
  replay (get_component_properties mk parse) rs [] [] = (out, reqs, sl, rest) ->
  nth_error rs k = Some rp -> carries rp cc -> (k < length reqs)%nat ->
  out = Err (CCError cc) /\ length reqs = S k /\ rest = skipn (S k) rs.
Proof. exact gcp_fault. Qed.
Print Assumptions C08_get_component_properties_fault.

(* ... and when the BMC answers each selector with data or "invalid selector", the result
   is exactly the data the BMC delivered, in order. *)
Theorem C08_get_component_properties_delivers : forall mk parse ds,
  (forall p b, parse p b = None) -> length ds = 5%nat -> Forall answer_ok ds ->
  outcome (replay (get_component_properties mk parse) (map RBytes ds) [] []) = (Ok (delivered PROPS ds), []).
Proof. exact gcp_spec. Qed.
Print Assumptions C08_get_component_properties_delivers.

(* non-vacuity: a concrete operation of the class, a fault at its only exchange *)
Example C08_somewhere :
  In op_Bmc_get_device_id api_ops /\ simple_checked api_ops op_Bmc_get_device_id = true /\
  let I := mkInst (fun _ _ => mkReq 6 1 0 []) (fun _ _ => None) (fun _ => true) in
  replay (op_prog api_ops op_Bmc_get_device_id I) [RBytes [0xC1]] [] [] =
    (Err (CCError 0xC1), [mkReq 6 1 0 []], [], []) /\
  fst (outcome (replay (op_prog api_ops op_Bmc_get_device_id I) [RBytes (hx "00200115025f1fb33a000d00")] [] []))
    = Ok [hx "200115025f1fb33a000d00"].
Proof. vm_compute. repeat split; try reflexivity. left; reflexivity. Qed.
