(* placeholder until the theorems are stated *)
From Coq Require Import List.
Theorem C07_placeholder : True. Proof. exact I. Qed.
