(* C07 - high-level API operations mean what they say to a conforming BMC.
   Statements only; every proof is [exact <lemma>].
   [call name args s] = the operation generated from /repo (Gen/ApiContent.v, regenerated on every
   run) interpreted by Model/ApiSem.v over the generated layouts, run against the reference BMC
   (Model/Bmc.v, by byte position) in state s: (outcome, BMC state afterwards).
   [same r v] = the outcome equals v in the sense of Python's ==.
   Each write theorem gives the BMC state afterwards explicitly as [put]s on the state before:
   together with [C07_frame] that is the frame clause (every other object unchanged).

   DOWNGRADE RULE.  The theorems over generated operations are stated for the operations that translated in THIS run:
   each has the hypotheses [is_supported "<op>" = true], and the exhaustive tables behind them are vacuous for an
   operation that the translator refuses in this run (Model/ApiRun.v: exch_ok).  Such an operation is reported by the
   harness as ops_downgraded (with the translator's reason); no theorem is claimed for it and the check REQUIRES that the
   history oracle exercised it in this run (>= 30 calls, no failure) - otherwise VIOLATION downgraded-without-oracle.
   Everything else stays fail-closed: an operation that translates but whose table entry is false breaks the obligation,
   and a refusal for SharedMutable is never downgraded (C07_no_shared_mutable). *)
From Coq Require Import String Ascii.
From Coq Require Import NArith ZArith List Bool.
From PyIpmi Require Import Lib.Res Lib.Bytes Lib.Prog Model.ApiSem Model.Bmc Gen.ApiContent Model.ApiRun
  Proofs.ApiRunProofs Proofs.C07Pure Proofs.C07Lan Proofs.C07Chassis Proofs.C07Picmg Proofs.C07Sensor Proofs.C07App Proofs.C07Port Proofs.C07Reads.
Import ListNotations.
Open Scope string_scope.
Open Scope list_scope.
Open Scope N_scope.

(* ---- frame ---- *)
Theorem C07_frame : forall s k v k', k' <> k -> get (put s k v) k' = get s k'.
Proof. exact get_put_other. Qed.
Print Assumptions C07_frame.

(* ---- purity ---- *)
(* the translator refused no result class for mutating class-level state in place, and no constructor of
   Ipmi has a mutable default argument (fails on the unrepaired tree: F7b ChassisStatus, F7c Session()) *)
Theorem C07_no_shared_mutable : forallb pure_op api_content = true /\ shared_defaults = [].
Proof. exact (conj all_pure no_shared_defaults). Qed.
Print Assumptions C07_no_shared_mutable.

(* every covered operation exists on the connection object (translated, or refused in this run = downgraded) *)
Theorem C07_covered_present : forallb is_present covered = true.
Proof. exact covered_present. Qed.
Print Assumptions C07_covered_present.

(* a read command leaves the reference BMC unchanged, for every state and request *)
Theorem C07_bmc_read_pure : forall s r, is_read_cmd r = true -> fst (bmc_handle s r) = s.
Proof. exact bmc_read_pure. Qed.
Print Assumptions C07_bmc_read_pure.

(* an operation that is one exchange with a read command: the BMC state is unchanged and the result is a
   function of the arguments and of the BMC's answer (hence of the BMC state) only *)
Theorem C07_read_pure : forall name args s rp r out,
  one_exchange name args rp = Some (r, out) -> is_read_cmd r = true ->
  snd (bmc_handle s r) = rp -> call name args s = (out, s).
Proof. exact read_pure. Qed.
Print Assumptions C07_read_pure.

Theorem C07_reads_send_read_commands : forallb chk_read_sample read_samples = true.
Proof. exact reads_send_reads. Qed.
Print Assumptions C07_reads_send_read_commands.

(* ---- write then read ---- *)
(* VLAN id: every id 0..4095 on channel 1 and boundary ids on every channel (full product: see design.d) *)
Theorem C07_write_read_vlan_partial : forall s v ch, is_supported "set_vlan_id" = true -> is_supported "get_vlan_id" = true -> vlan_dom v ch ->
  exists r1 r2, let s1 := put s (K_LAN, ch, 20) (vlan_bytes v) in
    call "set_vlan_id" [arg "vlan" v; arg "channel" ch] s = (r1, s1) /\ same r1 (Ok PNone) /\
    call "get_vlan_id" [arg "channel" ch] s1 = (r2, s1) /\ same r2 (Ok (PInt (Z.of_N v))).
Proof. exact write_read_vlan. Qed.
Print Assumptions C07_write_read_vlan_partial.

Theorem C07_write_read_ip_source : forall s k ch, is_supported "set_ip_source" = true -> is_supported "get_ip_source" = true -> List.In k [1; 2] -> ch < 16 ->
  exists r1 r2, let s1 := put s (K_LAN, ch, 4) [k] in
    call "set_ip_source" [("ip_source", PStr (src_name k)); arg "channel" ch] s = (r1, s1) /\ same r1 (Ok PNone) /\
    call "get_ip_source" [arg "channel" ch] s1 = (r2, s1) /\ same r2 (Ok (PStr (src_name k))).
Proof. exact write_read_ip_source. Qed.
Print Assumptions C07_write_read_ip_source.

(* IP address: octets from {0,9,10,100,255}, channel 1 *)
Theorem C07_write_read_ip_address_partial : forall s a b c d ch, is_supported "set_ip_address" = true -> is_supported "get_ip_address" = true -> 
  List.In a octets -> List.In b octets -> List.In c octets -> List.In d octets -> List.In ch [1] ->
  exists r1 r2, let s1 := put s (K_LAN, ch, 3) [a; b; c; d] in
    call "set_ip_address" [("ip_address", PStr (ip_text a b c d)); arg "channel" ch] s = (r1, s1) /\ same r1 (Ok PNone) /\
    call "get_ip_address" [arg "channel" ch] s1 = (r2, s1) /\ same r2 (Ok (PStr (ip_text a b c d))).
Proof. exact write_read_ip_address. Qed.
Print Assumptions C07_write_read_ip_address_partial.

(* boot options: all 12 devices x legacy/efi x persistency, every BMC state *)
Theorem C07_write_read_boot_options : forall s d efi pers, is_supported "set_boot_options" = true -> is_supported "get_boot_device" = true -> is_supported "get_boot_mode" = true -> is_supported "get_boot_persistency" = true -> List.In d boot_devices ->
  let s1 := boot_state s d efi pers in
  exists r1 r2 r3 r4,
    call "set_boot_options" (boot_args d efi pers) s = (r1, s1) /\ same r1 (Ok PNone) /\
    call "get_boot_device" [] s1 = (r2, s1) /\ same r2 (Ok (PStr (fst d))) /\
    call "get_boot_mode" [] s1 = (r3, s1) /\ same r3 (Ok (PStr (mode_name efi))) /\
    call "get_boot_persistency" [] s1 = (r4, s1) /\ same r4 (Ok (PBool pers)).
Proof. exact write_read_boot. Qed.
Print Assumptions C07_write_read_boot_options.

(* chassis control: whenever the reference BMC accepts Chassis Control(o), the call leaves it in exactly
   that transition's state (o < 16; the six named wrappers send o = 0..5) *)
Theorem C07_write_chassis_control : forall s o s', is_supported "chassis_control" = true -> o < 16 ->
  bmc_handle s (mkReq 0 2 0 [o]) = (s', RBytes [0]) ->
  exists r, call "chassis_control" [arg "option" o] s = (r, s') /\ same r (Ok PNone).
Proof. exact write_chassis_control. Qed.
Print Assumptions C07_write_chassis_control.

Theorem C07_write_chassis_control_wrappers : forall s w s', is_supported (fst w) = true -> List.In w wrappers ->
  bmc_handle s (mkReq 0 2 0 [snd w]) = (s', RBytes [0]) ->
  exists r, call (fst w) [] s = (r, s') /\ same r (Ok PNone).
Proof. exact write_chassis_wrapper. Qed.
Print Assumptions C07_write_chassis_control_wrappers.

(* fan level: FRU ids {0,255}; every level with local levels {0,255} and vice versa *)
Theorem C07_write_read_fan_level_partial : forall s fru level loc, is_supported "set_fan_level" = true -> is_supported "get_fan_level" = true -> 
  List.In fru frus -> List.In (level, loc) fan_dom -> at_ (get s (K_FAN, fru, 0)) 1 = loc ->
  let s1 := put s (K_FAN, fru, 0) [level; loc] in
  exists r1 r2,
    call "set_fan_level" [arg "fru_id" fru; arg "fan_level" level] s = (r1, s1) /\ same r1 (Ok PNone) /\
    call "get_fan_level" [arg "fru_id" fru] s1 = (r2, s1) /\
    same r2 (Ok (PList [PInt (Z.of_N level); PInt (Z.of_N loc)])).
Proof. exact write_read_fan. Qed.
Print Assumptions C07_write_read_fan_level_partial.

(* FRU activation policy (write only in the API): every FRU id, all four controls, every state *)
Theorem C07_write_activation_policy : forall s fru ctrl, is_supported "set_fru_activation_policy" = true -> fru < 256 -> ctrl < 4 ->
  let '(m, v) := policy_bytes ctrl in
  exists r, call "set_fru_activation_policy" [arg "fru_id" fru; arg "ctrl" ctrl] s =
              (r, put s (K_POLICY, fru, 0) [merge_bits 2 (at_ (get s (K_POLICY, fru, 0)) 0) m v]) /\
            same r (Ok PNone).
Proof. exact write_policy. Qed.
Print Assumptions C07_write_activation_policy.

(* FRU LED override state (on / off / blinking with every off duration 1..249 and every on duration) on a LED
   under local control; durations are reported in ms = 10 x the value written *)
Theorem C07_write_read_led_partial : forall s fru led color c, is_supported "set_led_state" = true -> is_supported "get_led_state" = true -> 
  List.In (fru, led, color) led_targets -> List.In c led_cases ->
  get s (K_LED, fru, led) = [1; 0; 0; 1; 0; 0; 0; 0] ->
  let s1 := put s (K_LED, fru, led) [3; 0; 0; 1; fst (led_wire c); snd (led_wire c); color; 0] in
  exists r1 r2,
    call "set_led_state" [("led", led_obj fru led color (led_fn c) (fst (led_durs c)) (snd (led_durs c)))] s = (r1, s1) /\
    same r1 (Ok PNone) /\
    call "get_led_state" [arg "fru_id" fru; arg "led_id" led] s1 = (r2, s1) /\
    same r2 (Ok (led_result color (led_fn c) (fst (led_durs c)) (snd (led_durs c)))).
Proof. exact write_read_led. Qed.
Print Assumptions C07_write_read_led_partial.

(* event receiver: every 7-bit slave address and LUN, every state *)
Theorem C07_write_read_event_receiver : forall s a lun, is_supported "set_event_receiver" = true -> is_supported "get_event_receiver" = true -> a < 128 -> lun < 4 ->
  let s1 := put s (K_EVRCV, 0, 0) [2 * a; lun] in
  exists r1 r2,
    call "set_event_receiver" [arg "ipmb_address" a; arg "lun" lun] s = (r1, s1) /\ same r1 (Ok PNone) /\
    call "get_event_receiver" [] s1 = (r2, s1) /\ same r2 (Ok (PList [PInt (Z.of_N a); PInt (Z.of_N lun)])).
Proof. exact write_read_event_receiver. Qed.
Print Assumptions C07_write_read_event_receiver.

(* thresholds: every subset of the six; each threshold alone with bit values, unr alone over 0..255; two (sensor, LUN) pairs *)
Theorem C07_write_read_thresholds_partial : forall s num lun m vals, is_supported "set_sensor_thresholds" = true -> is_supported "get_sensor_thresholds" = true -> 
  List.In (num, lun) thr_sensors -> List.In (m, vals) thr_cases ->
  get s (K_THR, lun, num) = [0; 0; 0; 0; 0; 0] -> get s (K_THRMASK, lun, num) = [63] ->
  let t := thr_new m vals [0; 0; 0; 0; 0; 0] in
  let s1 := put s (K_THR, lun, num) t in
  exists r1 r2,
    call "set_sensor_thresholds" (thr_args num lun m vals) s = (r1, s1) /\ same r1 (Ok PNone) /\
    call "get_sensor_thresholds" [arg "sensor_number" num; arg "lun" lun] s1 = (r2, s1) /\
    same r2 (Ok (thr_dict t)).
Proof. exact write_read_thresholds. Qed.
Print Assumptions C07_write_read_thresholds_partial.

(* watchdog: every value of each configuration parameter (others at a base value), on a BMC whose watchdog is unused *)
Theorem C07_write_read_watchdog_partial : forall s w, is_supported "set_watchdog_timer" = true -> is_supported "get_watchdog_timer" = true -> List.In w wd_cases ->
  get s (K_WD, 0, 0) = [0; 0; 0; 0; 0; 0] -> get s (K_WDRUN, 0, 0) = [0] ->
  exists r1 r2,
    call "set_watchdog_timer" [("config", wd_config w)] s = (r1, wd_state w s) /\ same r1 (Ok PNone) /\
    call "get_watchdog_timer" [] (wd_state w s) = (r2, wd_state w s) /\ same r2 (Ok (wd_result w)).
Proof. exact write_read_watchdog. Qed.
Print Assumptions C07_write_read_watchdog_partial.

(* the reference BMC's watchdog transition itself, for EVERY configuration and every unused state *)
Theorem C07_bmc_watchdog : forall w, w_use w < 8 -> w_pre w < 8 -> w_act w < 8 -> w_flags w < 256 -> wd_bmc_ok w.
Proof. exact wd_bmc_one. Qed.
Print Assumptions C07_bmc_watchdog.

Theorem C07_write_read_user_name_partial : forall s uid nm, is_supported "set_username" = true -> is_supported "get_username" = true -> List.In uid uids -> List.In nm names ->
  let s1 := put s (K_UNAME, uid, 0) (pad16 nm) in
  exists r1 r2,
    call "set_username" [arg "userid" uid; ("username", PStr nm)] s = (r1, s1) /\ same r1 (Ok PNone) /\
    call "get_username" [arg "userid" uid] s1 = (r2, s1) /\ same r2 (Ok (PBytes (pad16 nm))).
Proof. exact write_read_username. Qed.
Print Assumptions C07_write_read_user_name_partial.

(* PICMG port state: the link descriptor with all four lanes - every value of each component (16 lane sets,
   64 channels, 4 interfaces, 16 types / classes / extensions, 256 grouping ids; others at a base value) *)
Theorem C07_write_read_port_state_partial : forall s l st, is_supported "set_port_state" = true -> is_supported "get_port_state" = true -> List.In (l, st) port_cases ->
  let s1 := put s (K_PORT, l_if l, l_ch l) (link_info l ++ [st]) in
  exists r1 r2,
    call "set_port_state" [("link_descr", link_obj l); arg "state" st] s = (r1, s1) /\ same r1 (Ok PNone) /\
    call "get_port_state" [arg "channel_number" (l_ch l); arg "channel_interface" (l_if l)] s1 = (r2, s1) /\
    same r2 (Ok (PList [link_obj l; PInt (Z.of_N st)])).
Proof. exact write_read_port. Qed.
Print Assumptions C07_write_read_port_state_partial.

(* channel signaling class: every (interface, channel) with class 5; every class on three channels *)
Theorem C07_write_read_signaling_class_partial : forall s itf ch cl, is_supported "set_signaling_class" = true -> is_supported "get_signaling_class" = true -> List.In (itf, ch, cl) sig_cases ->
  let s1 := put s (K_SIGCLASS, itf, ch) [cl] in
  exists r1 r2,
    call "set_signaling_class" [arg "interface" itf; arg "channel" ch; arg "signaling_class" cl] s = (r1, s1) /\
    same r1 (Ok PNone) /\
    call "get_signaling_class" [arg "interface" itf; arg "channel" ch] s1 = (r2, s1) /\ same r2 (Ok (PInt (Z.of_N cl))).
Proof. exact write_read_sig. Qed.
Print Assumptions C07_write_read_signaling_class_partial.

(* MicroTCA power channel: enable / disable payload power, then the channel status; every current limit 0..25 A,
   every prior status byte 0..127 *)
Theorem C07_write_read_power_channel_partial : forall s ch en lim pri bak st0, is_supported "send_channel_power" = true -> is_supported "get_power_channel_status" = true -> 
  List.In (ch, en, lim, pri, bak, st0) pwr_cases ->
  get s (K_PWRCHST, ch, 0) = [st0] -> get s (K_PMGLOBAL, 0, 0) = [16; 6] ->
  let st1 := setbit st0 4 (if en then 1 else 0) in
  let s1 := put (put s (K_PWRCHST, ch, 0) [st1]) (K_PWRCHCTL, ch, 0) [10 * lim; pri; bak] in
  exists r1 r2,
    call "send_channel_power" [arg "channel" ch; ("enable", PBool en); arg "current_limit" lim;
                               arg "primary_pm" pri; arg "backup_pm" bak] s = (r1, s1) /\
    same r1 (Ok (PObj "SendPowerChannelControl" [("completion_code", PInt 0); ("picmg_identifier", PInt 0)])) /\
    call "get_power_channel_status" [arg "start" ch] s1 = (r2, s1) /\ same r2 (Ok (pwr_status st1)).
Proof. exact write_read_power. Qed.
Print Assumptions C07_write_read_power_channel_partial.

(* ---- reads on arbitrary BMC answers ----
   For EVERY state s of the reference BMC whose answer to the read command is a byte string d of the stated domain
   (every value 0..255 of the bytes that select or neighbour the decoded fields and every single-bit flip of every
   byte, reserved bits included, around several base answers - not only answers that the library's own typed
   writes can produce), the read returns the meaning of d given by an independent byte-position decoder
   (Proofs/C07Reads.v, the spec_ functions) and leaves s unchanged. *)
Theorem C07_read_boot_device_partial : forall s d, is_supported "get_boot_device" = true -> List.In d boot_dom ->
  snd (bmc_handle s boot_req) = RBytes (0 :: d) ->
  exists r, call "get_boot_device" [] s = (r, s) /\ same r (spec_boot_device d).
Proof. exact (fun s d Sn => read_answer "get_boot_device" [] boot_req spec_boot_device boot_dom s d Sn boot_device_table). Qed.
Print Assumptions C07_read_boot_device_partial.

Theorem C07_read_boot_mode_partial : forall s d, is_supported "get_boot_mode" = true -> List.In d boot_dom1 ->
  snd (bmc_handle s boot_req) = RBytes (0 :: d) ->
  exists r, call "get_boot_mode" [] s = (r, s) /\ same r (spec_boot_mode d).
Proof. exact (fun s d Sn => read_answer "get_boot_mode" [] boot_req spec_boot_mode boot_dom1 s d Sn boot_mode_table). Qed.
Print Assumptions C07_read_boot_mode_partial.

Theorem C07_read_boot_persistency_partial : forall s d, is_supported "get_boot_persistency" = true -> List.In d boot_dom1 ->
  snd (bmc_handle s boot_req) = RBytes (0 :: d) ->
  exists r, call "get_boot_persistency" [] s = (r, s) /\ same r (spec_boot_pers d).
Proof. exact (fun s d Sn => read_answer "get_boot_persistency" [] boot_req spec_boot_pers boot_dom1 s d Sn boot_pers_table). Qed.
Print Assumptions C07_read_boot_persistency_partial.

Theorem C07_read_chassis_status_partial : forall s d, is_supported "get_chassis_status" = true -> List.In d chassis_dom ->
  snd (bmc_handle s (mkReq 0 1 0 [])) = RBytes (0 :: d) ->
  exists r, call "get_chassis_status" [] s = (r, s) /\ same r (spec_chassis d).
Proof. exact (fun s d Sn => read_answer "get_chassis_status" [] (mkReq 0 1 0 []) spec_chassis chassis_dom s d Sn chassis_table). Qed.
Print Assumptions C07_read_chassis_status_partial.

Theorem C07_read_watchdog_partial : forall s d, is_supported "get_watchdog_timer" = true -> List.In d wd_dom ->
  snd (bmc_handle s (mkReq 6 37 0 [])) = RBytes (0 :: d) ->
  exists r, call "get_watchdog_timer" [] s = (r, s) /\ same r (spec_wd d).
Proof. exact (fun s d Sn => read_answer "get_watchdog_timer" [] (mkReq 6 37 0 []) spec_wd wd_dom s d Sn wd_read_table). Qed.
Print Assumptions C07_read_watchdog_partial.

Theorem C07_read_sensor_reading_partial : forall s d, is_supported "get_sensor_reading" = true -> List.In d reading_dom ->
  snd (bmc_handle s (mkReq 4 45 1 [3])) = RBytes (0 :: d) ->
  exists r, call "get_sensor_reading" reading_args s = (r, s) /\ same r (spec_reading d).
Proof. exact (fun s d Sn => read_answer "get_sensor_reading" reading_args (mkReq 4 45 1 [3]) spec_reading reading_dom s d Sn reading_table). Qed.
Print Assumptions C07_read_sensor_reading_partial.

Theorem C07_read_thresholds_partial : forall s d, is_supported "get_sensor_thresholds" = true -> List.In d thr_dom ->
  snd (bmc_handle s (mkReq 4 39 1 [3])) = RBytes (0 :: d) ->
  exists r, call "get_sensor_thresholds" reading_args s = (r, s) /\ same r (spec_thr d).
Proof. exact (fun s d Sn => read_answer "get_sensor_thresholds" reading_args (mkReq 4 39 1 [3]) spec_thr thr_dom s d Sn thr_read_table). Qed.
Print Assumptions C07_read_thresholds_partial.

Theorem C07_read_user_access_partial : forall s d, is_supported "get_user_access" = true -> List.In d uacc_dom ->
  snd (bmc_handle s (mkReq 6 68 0 [1; 3])) = RBytes (0 :: d) ->
  exists r, call "get_user_access" uacc_args s = (r, s) /\ same r (spec_uacc d).
Proof. exact (fun s d Sn => read_answer "get_user_access" uacc_args (mkReq 6 68 0 [1; 3]) spec_uacc uacc_dom s d Sn uacc_table). Qed.
Print Assumptions C07_read_user_access_partial.

Theorem C07_read_led_state_partial : forall s d, is_supported "get_led_state" = true -> List.In d led_dom ->
  snd (bmc_handle s (mkReq 44 8 0 [0; 1; 2])) = RBytes (0 :: d) ->
  exists r, call "get_led_state" led_args s = (r, s) /\ same r (spec_led d).
Proof. exact (fun s d Sn => read_answer "get_led_state" led_args (mkReq 44 8 0 [0; 1; 2]) spec_led led_dom s d Sn led_read_table). Qed.
Print Assumptions C07_read_led_state_partial.

(* non-vacuity: the domains are inhabited and a concrete history runs (when the two operations translated in this run;
   on the committed tree every covered operation does: evidence ops_downgraded = []) *)
Example C07_somewhere :
  vlan_dom 394 1 /\ List.In ("remote cd", 8) boot_devices /\
  (if is_supported "set_vlan_id" && is_supported "get_vlan_id"
   then res_eqb pv_eqb (fst (call "get_vlan_id" [arg "channel" 1]
                               (snd (call "set_vlan_id" [arg "vlan" 394; arg "channel" 1] [])))) (Ok (PInt 394))
   else true) = true.
Proof. split; [left; split; [reflexivity | cbn; auto] | split; [cbn; auto 12 | vm_compute; reflexivity]]. Qed.
