(* C19 - placeholder while the proofs are being written *)
From Coq Require Import NArith List.
From PyIpmi Require Import Lib.Res Lib.Bytes Model.Shell Model.IpmitoolIf.
Import ListNotations.
Open Scope N_scope.
Theorem C19_placeholder : sh_lex [] = Words [] false.
Proof. reflexivity. Qed.
Print Assumptions C19_placeholder.
