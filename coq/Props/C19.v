(* C19 - the ipmitool back-end passes requests and credentials verbatim and reads replies
   faithfully.  Statements only; every proof is [exact <lemma>].
   [sh_lex] (Model/Shell.v) is the model of the word splitting of /bin/sh -c, validated against
   the real shell on every run; [cmd_of], [ping_cmd_of], [parse_output], [receive]
   (Model/IpmitoolIf.v) model pyipmi/interfaces/ipmitool.py after the fixes F19, F19b, F19c;
   [spec_argv], [format_lines], [rsp_line], ... (Model/IpmitoolSpec.v) are the specification. *)
From Coq Require Import String Ascii.
From Coq Require Import NArith List Bool.
From PyIpmi Require Import Lib.Res Lib.Bytes Model.Shell Model.IpmitoolIf Model.IpmitoolSpec
  Proofs.ShellProofs Proofs.IpmitoolProofs Proofs.IpmitoolParseProofs.
Import ListNotations.
Open Scope N_scope.

(* For EVERY user name and password without a NUL byte - every shell metacharacter, any
   length, any non-ASCII byte - the shell started by Popen(cmd, shell=True) runs exactly one
   program, ipmitool, and the two strings arrive as the single arguments after -U and -P,
   identical to the configured strings; nothing is expanded, split or executed. *)
Theorem C19_argv : forall c user pw t lun netfn raw,
  (c_type c = Lan \/ c_type c = Lanplus) -> c_auth c = AuthPassword user pw ->
  nonul user = true -> nonul pw = true ->
  plain_word (c_host c) = true -> (c_priv c = 2 \/ c_priv c = 3 \/ c_priv c = 4) ->
  wf_target t = true -> bytes_ok raw = true ->
  exists cmd, cmd_of c t lun netfn raw = Ok cmd /\
    sh_lex cmd = Words ([B "ipmitool"; B "-I"; iftype_name (c_type c); B "-H"; c_host c;
                         B "-p"; dec (c_port c); B "-L"; level_name (c_priv c)] ++
                        cipher_args (c_cipher c) ++ [B "-U"; user; B "-P"; pw] ++
                        target_args t ++ [B "-l"; dec lun; B "raw"] ++ map ox2 (netfn :: raw)) true.
Proof. exact argv_credentials. Qed.
Print Assumptions C19_argv.

(* the statement above is FALSE for the code before fix F19 (no escaping inside the double
   quotes): the password $x reaches the shell as a parameter expansion *)
Theorem C19_argv_before_F19_refuted :
  wf_config witness_cfg = true /\ wf_target witness_tgt = true /\
  exists cmd, cmd_of_legacy witness_cfg witness_tgt 0 6 [1] = Ok cmd /\ sh_lex cmd = Expansion.
Proof. exact legacy_refuted. Qed.
Print Assumptions C19_argv_before_F19_refuted.

(* the repair does not change the command line of any user/password free of backslash, double quote,
   dollar and backquote - in particular not the strings pinned by tests/interfaces/test_ipmitool.py *)
Theorem C19_escape_identity : forall s,
  forallb (fun c => negb (dq_special c)) s = true -> dq_escape s = s.
Proof. exact dq_escape_id. Qed.
Print Assumptions C19_escape_identity.

(* every interface type (lan, lanplus, serial-terminal, open), host, port, privilege level,
   cipher, authentication none/password, target address or routing of depth 1..3, LUN, netfn
   and raw bytes appear as the corresponding options and operands; stderr joins stdout
   except on the serial command line *)
Theorem C19_options : forall c t lun netfn raw,
  wf_config c = true -> wf_target t = true -> bytes_ok raw = true ->
  exists cmd, cmd_of c t lun netfn raw = Ok cmd /\
              sh_lex cmd = Words (spec_argv c t lun netfn raw) (spec_err2out c).
Proof. exact cmd_argv. Qed.
Print Assumptions C19_options.

(* what [spec_argv] prescribes for targets: plain address -> -t; depth 1 -> nothing;
   depth 2 -> -t/-b; depth 3 -> -T/-B (transit) and -t/-b (target) *)
Theorem C19_target_options : forall a ad s0 s1 s2 c0 c1 k0 k1, a <> 0 ->
  target_args (Some (mkTarget (Some a) None)) = [B "-t"; ox2 a] /\
  target_args (Some (mkTarget ad (Some [mkRoute s0 c0]))) = [] /\
  target_args (Some (mkTarget ad (Some [mkRoute s0 (Some k0); mkRoute s1 c1]))) =
    [B "-t"; ox2 s1; B "-b"; dec k0] /\
  target_args (Some (mkTarget ad (Some [mkRoute s0 (Some k0); mkRoute s1 (Some k1); mkRoute s2 c1]))) =
    [B "-T"; ox2 s1; B "-B"; dec k0; B "-t"; ox2 s2; B "-b"; dec k1].
Proof. exact target_args_shape. Qed.
Print Assumptions C19_target_options.

(* rmcp_ping builds its command line with the same quoting *)
Theorem C19_ping_argv : forall c, wf_ping c = true ->
  exists cmd, ping_cmd_of c = Ok cmd /\ sh_lex cmd = Words (spec_ping_argv c) false.
Proof. exact ping_argv. Qed.
Print Assumptions C19_ping_argv.

(* the bytes ipmitool prints come back unchanged behind completion code 0: for every reply
   and ANY wrapping into non-empty lines ... *)
Theorem C19_parse_format : forall chunks,
  forallb bytes_ok chunks = true -> forallb (fun ch => negb (bytes_eqb ch [])) chunks = true ->
  parse_output (format_lines chunks) =
    Ok (None, match concat chunks with [] => None | bs => Some bs end).
Proof. exact parse_format. Qed.
Print Assumptions C19_parse_format.

(* ... in particular ipmitool's own 16 bytes per line, for every reply length *)
Theorem C19_parse_format16 : forall bs, bytes_ok bs = true ->
  parse_output (format16 bs) = Ok (None, match bs with [] => None | _ => Some bs end) /\
  receive (format16 bs) 0 = Ok (0 :: bs).
Proof. exact (fun bs H => conj (parse_format16 bs H) (receive_format16 bs H)). Qed.
Print Assumptions C19_parse_format16.

(* a "rsp=0xNN" failure line yields exactly that completion code and no data: for EVERY
   completion code 0..255 (printed by ipmitool with %x, i.e. one hex digit below 0x10), every
   channel / netfn / lun / command number, every exit status other than 127 and every
   description text satisfying the decidable side condition [text_ok] (no newline and none of
   the trigger substrings of the other parser branches: failed, Unable to establish, rsp=0x,
   cmd=0x) *)
Theorem C19_rsp_line : forall chn netfn lun cmd cc text,
  cc < 256 -> text_ok text = true -> forall rc, (rc =? 127) = false ->
  parse_output (rsp_line chn netfn lun cmd cc text) = Ok (Some cc, None) /\
  receive (rsp_line chn netfn lun cmd cc text) rc = Ok [cc].
Proof. exact rsp_line_full. Qed.
Print Assumptions C19_rsp_line.

(* ipmitool's own completion-code descriptions (and the Unknown (0xNN) form, and the empty
   text) satisfy the side condition *)
Theorem C19_cc_texts_ok : forallb text_ok cc_texts = true.
Proof. exact cc_texts_ok. Qed.
Print Assumptions C19_cc_texts_ok.

(* exit status of the child: 127 -> RuntimeError whatever was printed; a completion code
   found in the output is returned whatever the status; otherwise a non-zero status is a
   RuntimeError and status 0 returns 00 followed by the reply bytes *)
Theorem C19_exit_status :
  (forall out, receive out 127 = Err (OtherError OtherExc)) /\
  (forall out rc cc rsp, (rc =? 127) = false -> cc < 256 -> parse_output out = Ok (Some cc, rsp) ->
     receive out rc = Ok [cc]) /\
  (forall out rc rsp, (rc =? 127) = false -> rc <> 0 -> parse_output out = Ok (None, rsp) ->
     receive out rc = Err (OtherError OtherExc)) /\
  (forall out rsp, parse_output out = Ok (None, rsp) ->
     receive out 0 = Ok (0 :: match rsp with Some bs => bs | None => [] end)).
Proof. exact exit_status_rules. Qed.
Print Assumptions C19_exit_status.

(* time-outs, connection failures and over-long passwords map to their specific errors *)
Theorem C19_error_mapping :
  (forall chn netfn lun cmd rc, (rc =? 127) = false ->
     receive (timeout_line chn netfn lun cmd) rc = Err TimeoutError) /\
  forallb (fun n => forallb (msg_case ConnectionError n) connection_msgs) preceding_noise = true /\
  forallb (fun n => forallb (msg_case LongPasswordError n) long_password_msgs) preceding_noise = true /\
  (forall rc, rc <> 0 -> rc <> 127 -> ping_result rc = Err TimeoutError) /\ ping_result 0 = Ok tt.
Proof. exact error_mapping. Qed.
Print Assumptions C19_error_mapping.

(* the first output line decides, in this order (general form of the error mapping) *)
Theorem C19_error_rules : forall line more rc, no_nl line = true -> (rc =? 127) = false ->
  contains (B "failed") line = false ->
  (timeout_match line = true -> receive (line ++ 10 :: more) rc = Err TimeoutError) /\
  (timeout_match line = false -> contains (B "Unable to establish") line = true ->
     receive (line ++ 10 :: more) rc = Err ConnectionError) /\
  (timeout_match line = false -> contains (B "Unable to establish") line = false ->
     cc_match line = None -> contains (B "Could not open device") line = false ->
     contains (B "password is longer than") line = true ->
     receive (line ++ 10 :: more) rc = Err LongPasswordError).
Proof. exact error_rules. Qed.
Print Assumptions C19_error_rules.

(* non-vacuity: the hypotheses of C19_argv / C19_options hold for the configuration of the
   test-suite with a hostile password, and the conclusion computes *)
Example C19_hypotheses_satisfiable :
  let c := mkConfig Lanplus (Some 3) (B "10.0.1.1") 623 4
             (AuthPassword (B "admin") (B "$(reboot) `x` ""q"" \ ; * 'z'")) [] 0 in
  let t := Some (mkTarget None (Some [mkRoute 32 (Some 0); mkRoute 130 (Some 7); mkRoute 114 None])) in
  wf_config c = true /\ wf_target t = true /\
  exists cmd, cmd_of c t 0 6 [1] = Ok cmd /\
    sh_lex cmd = Words (map B ["ipmitool"; "-I"; "lanplus"; "-H"; "10.0.1.1"; "-p"; "623"; "-L";
                               "ADMINISTRATOR"; "-C"; "3"; "-U"; "admin"; "-P";
                               "$(reboot) `x` ""q"" \ ; * 'z'"; "-T"; "0x82"; "-B"; "0"; "-t"; "0x72";
                               "-b"; "7"; "-l"; "0"; "raw"; "0x06"; "0x01"]%string) true.
Proof. split; [reflexivity|]. split; [reflexivity|]. eexists. split; vm_compute; reflexivity. Qed.
