(* C11 - SDR retrieval exact, complete, survives reservation loss.  Statements only; every
   proof is [exact <lemma>].  The client progs (get_sdr, sdr_entries) are the model of the
   code repaired by F11a / F11b / F13 (Model/SdrIO.v); [sdr_dev] is the Gallina SDR device
   (records, per-read limit answered with 0xCA, reservations per store, fault plan with
   cancellations / completion codes / raised node-busy at ANY request index, of ANY
   length).  Vocabulary (wf_rec, wf_store, annot, of_store, plan_ok, ...) is defined in
   Proofs/SdrIOProofs.v. *)
From Coq Require Import NArith ZArith List Bool.
From PyIpmi Require Import Lib.Res Lib.Bytes Lib.Prog Model.SdrIO Proofs.SdrIOProofs.
Import ListNotations.
Open Scope N_scope.

(* Exact or error: whatever the limit, the reservation states and the fault plan (any codes
   at any indices), a read that returns, returns exactly the addressed record and the id of
   its successor.
   PARTIAL: proved for stores whose records are at most 256 bytes long ([short_recs]).
   Full statement: the same without [short_recs] (records up to 260 bytes) but with
   [plan_ok s] (injected codes are only 0xC3 / 0xCE).  Missing: for records of 257..260
   bytes the offset field of the request is one byte (push_unsigned_int truncates 256..259
   to 0..3), so exactness needs the arithmetic fact that with a constant limit no offset
   above 255 is requested within the 19 iterations (chunk size m in {20,16,12,8,4}:
   5 + m*k < 260 and k <= 18 imply 5 + m*k <= 245) - true, checked by the correspondence
   run on lengths 255 / 260, not yet carried through the loop invariant.  Without plan_ok
   the full statement is false (a device answering 0xCA inconsistently can drive the
   offset to 257). *)
Theorem C11_exact_or_error_partial : forall st s rid resv nx data s' tr,
  Forall wf_rec (recs_of st s) -> short_recs (recs_of st s) -> rid < 65536 ->
  run (get_sdr st rid resv) sdr_dev s [] = (Ok (nx, data), s', tr) ->
  lookup (recs_of st s) rid = Some (data, nx).
Proof. exact exact_or_error. Qed.
Print Assumptions C11_exact_or_error_partial.

(* Listing yields every record exactly once, in store order, with the right successor ids
   (same restriction to records of at most 256 bytes, inside [wf_store]). *)
Theorem C11_list_complete_partial : forall fuel st s l s' tr,
  wf_store (recs_of st s) -> recs_of st s <> [] -> (length (recs_of st s) <= fuel)%nat ->
  run (sdr_entries fuel st) sdr_dev s [] = (Ok l, s', tr) ->
  l = annot (recs_of st s) /\ map snd l = recs_of st s.
Proof. exact list_complete. Qed.
Print Assumptions C11_list_complete_partial.

(* Same store: against ANY device (any state type, any replies) every request sent while
   reading a store - in particular every reservation renewal - is that store's Get command
   or that store's Reserve command on that store's network function. *)
Theorem C11_same_store : forall (S : Type) (dev : device S) st rid resv s x s' tr,
  run (get_sdr st rid resv) dev s [] = (x, s', tr) -> Forall (fun e => of_store st (fst e)) tr.
Proof. exact @same_store_get. Qed.
Print Assumptions C11_same_store.

Theorem C11_same_store_list : forall (S : Type) (dev : device S) fuel st s x s' tr,
  run (sdr_entries fuel st) dev s [] = (x, s', tr) -> Forall (fun e => of_store st (fst e)) tr.
Proof. exact @same_store_list. Qed.
Print Assumptions C11_same_store_list.

(* Budget: against ANY device one record costs at most 483 requests (3 + 24 + 19*24) ... *)
Theorem C11_budget : forall (S : Type) (dev : device S) st rid resv s x s' tr,
  run (get_sdr st rid resv) dev s [] = (x, s', tr) -> (length tr <= GET_SDR_BOUND)%nat.
Proof. exact @budget_get. Qed.
Print Assumptions C11_budget.

Theorem C11_budget_list : forall (S : Type) (dev : device S) fuel st s x s' tr,
  run (sdr_entries fuel st) dev s [] = (x, s', tr) -> (length tr <= 3 + GET_SDR_BOUND * fuel)%nat.
Proof. exact @budget_list. Qed.
Print Assumptions C11_budget_list.

(* ... and for a device with limit >= 4 whose injected codes are the transient ones the
   loops end by themselves (Ok, RetryError, a completion code or a decoding error - never
   the model's OutOfFuel); with C11_exact_or_error: otherwise an error, never altered data *)
Theorem C11_budget_terminates : forall st s rid resv x s' tr,
  Forall wf_rec (recs_of st s) -> short_recs (recs_of st s) -> rid < 65536 -> plan_ok s -> 4 <= s_limit s ->
  run (get_sdr st rid resv) sdr_dev s [] = (x, s', tr) -> x <> Err OutOfFuel.
Proof. exact no_fuel_get. Qed.
Print Assumptions C11_budget_terminates.

Theorem C11_budget_terminates_list : forall fuel st s x s' tr,
  wf_store (recs_of st s) -> recs_of st s <> [] -> (length (recs_of st s) <= fuel)%nat -> plan_ok s -> 4 <= s_limit s ->
  run (sdr_entries fuel st) sdr_dev s [] = (x, s', tr) -> x <> Err OutOfFuel.
Proof. exact no_fuel_list. Qed.
Print Assumptions C11_budget_terminates_list.

(* Renewal: once the faults are over, a chunk read completes from ANY reservation state -
   still valid, cancelled by the device, or a stale id - by renewing at most once (with the
   reservation command of the same store, C11_same_store), and returns the exact slice.
   PARTIAL with respect to "the read then completes": this is the chunk level; that the
   whole record / list read completes after cancellations at any request index is checked
   on the implementation by the oracle of the correspondence run, not proved. *)
Theorem C11_renewal_completes_partial : forall st resv rid off len s tr rec nx,
  s_plan s = [] -> lookup (recs_of st s) (w16 rid) = Some (rec, nx) -> byteZ len <= s_limit s ->
  exists s' tr', run (get_chunk st resv rid off len) sdr_dev s tr =
                   (Ok (w16 nx, slice (byteZ off) (byteZ len) rec), s', tr') /\
                 s_plan s' = [] /\ same_content s s' /\ valid_of st s' = true.
Proof. exact renewal_completes. Qed.
Print Assumptions C11_renewal_completes_partial.

(* F11b, for the record: the unrepaired wiring of Sdr._get_sdr_chunk sends a request of the
   other store (ReserveDeviceSdrRepository) after a cancellation *)
Theorem C11_same_store_unrepaired_refuted :
  exists (rps : list reply) x rq sl rest q,
    replay (get_chunk_repo_unrepaired 1 2 0 5) rps [] [] = (x, rq, sl, rest) /\ In q rq /\ ~ of_store Repo q.
Proof. exact unrepaired_other_store. Qed.
Print Assumptions C11_same_store_unrepaired_refuted.

(* non-vacuity: a two-record repository, limit 6, the reservation cancelled before the
   fourth request and a timeout code on the sixth: the read of record 0x0002 completes *)
Example C11_reads_somewhere :
  let s := example_state in
  fst (fst (run (get_sdr Repo 2 None) sdr_dev s [])) = Ok (0xFFFF, [2; 0; 0x51; 0xC1; 9; 1; 2; 3; 4; 5; 6; 7; 8; 9])
  /\ wf_store (s_repo s) /\ plan_ok s /\ 4 <= s_limit s.
Proof. exact example_read. Qed.
