(* C11 - SDR retrieval exact, complete, survives reservation loss.  Statements only; every
   proof is [exact <lemma>].  The client progs (get_sdr, sdr_entries) are the model of the
   code repaired by F11a / F11b / F13 (Model/SdrIO.v); [sdr_dev] is the Gallina SDR device
   (records, per-read limit answered with 0xCA, reservations per store, fault plan with
   cancellations / completion codes / raised node-busy at ANY request index, of ANY
   length).  Vocabulary (wf_rec, wf_store, annot, of_store, plan_ok, ...) is defined in
   Proofs/SdrIOProofs.v. *)
From Coq Require Import NArith ZArith List Bool.
From PyIpmi Require Import Lib.Res Lib.Bytes Lib.Prog Model.SdrIO Proofs.SdrIOProofs Model.SdrE2E Proofs.SdrE2EProofs.
From PyIpmi Require Model.SdrParse Model.SdrEnc.
Import ListNotations.
Open Scope N_scope.

(* Exact or error, for every record length 5..260 ([wf_rec]), every limit, every reservation
   state and every fault plan of the property (cancellations, raised node-busy and the
   transient codes 0xC3 / 0xCE at any request index, any number of them: [plan_ok]): a read
   that returns, returns exactly the addressed record and the id of its successor - otherwise
   the outcome is an error, never altered, duplicated or truncated data.
   (The offset field of the request is one byte; that no offset above 255 is ever requested
   follows from the retry budget and the chunk sizes - invariant [full_inv] in
   Proofs/SdrIOProofs.v.) *)
Theorem C11_exact_or_error : forall st s rid resv nx data s' tr,
  Forall wf_rec (recs_of st s) -> plan_ok s -> rid < 65536 ->
  run (get_sdr st rid resv) sdr_dev s [] = (Ok (nx, data), s', tr) ->
  lookup (recs_of st s) rid = Some (data, nx).
Proof. exact exact_or_error. Qed.
Print Assumptions C11_exact_or_error.

(* the same for ARBITRARY injected completion codes, when every record fits the one-byte
   offset (at most 256 bytes) *)
Theorem C11_exact_or_error_any_codes : forall st s rid resv nx data s' tr,
  Forall wf_rec (recs_of st s) -> short_recs (recs_of st s) -> rid < 65536 ->
  run (get_sdr st rid resv) sdr_dev s [] = (Ok (nx, data), s', tr) ->
  lookup (recs_of st s) rid = Some (data, nx).
Proof. exact exact_or_error_any_codes. Qed.
Print Assumptions C11_exact_or_error_any_codes.

(* Outside the property (recorded because it delimits the two theorems above): for a record
   longer than 256 bytes and a device whose limit is INCONSISTENT - one 20-byte read refused
   with 0xCA after three were accepted - the read returns altered data (offset 257 is sent
   as 1).  Reproduced on the real code; not a C11 violation (the property's limits are
   constant per device). *)
Theorem C11_exact_or_error_inconsistent_limit_refuted :
  let s := inconsistent_state in
  Forall wf_rec (recs_of Repo s) /\ 4 <= s_limit s /\
  exists nx data, fst (fst (run (get_sdr Repo 0x0102 None) sdr_dev s [])) = Ok (nx, data) /\
                  lookup (recs_of Repo s) 0x0102 <> Some (data, nx).
Proof. exact inconsistent_limit_alters. Qed.
Print Assumptions C11_exact_or_error_inconsistent_limit_refuted.

(* Listing yields every record exactly once, in store order, with the right successor ids
   ([wf_store]: records 5..260 bytes, distinct ids other than 0 and 0xFFFF). *)
Theorem C11_list_complete : forall fuel st s l s' tr,
  wf_store (recs_of st s) -> plan_ok s -> recs_of st s <> [] -> (length (recs_of st s) <= fuel)%nat ->
  run (sdr_entries fuel st) sdr_dev s [] = (Ok l, s', tr) ->
  l = annot (recs_of st s) /\ map snd l = recs_of st s.
Proof. exact list_complete. Qed.
Print Assumptions C11_list_complete.

Theorem C11_list_complete_any_codes : forall fuel st s l s' tr,
  wf_store (recs_of st s) -> short_recs (recs_of st s) -> recs_of st s <> [] -> (length (recs_of st s) <= fuel)%nat ->
  run (sdr_entries fuel st) sdr_dev s [] = (Ok l, s', tr) ->
  l = annot (recs_of st s) /\ map snd l = recs_of st s.
Proof. exact list_complete_any_codes. Qed.
Print Assumptions C11_list_complete_any_codes.

(* Same store: against ANY device (any state type, any replies) every request sent while
   reading a store - in particular every reservation renewal - is that store's Get command
   or that store's Reserve command on that store's network function. *)
Theorem C11_same_store : forall (S : Type) (dev : device S) st rid resv s x s' tr,
  run (get_sdr st rid resv) dev s [] = (x, s', tr) -> Forall (fun e => of_store st (fst e)) tr.
Proof. exact @same_store_get. Qed.
Print Assumptions C11_same_store.

Theorem C11_same_store_list : forall (S : Type) (dev : device S) fuel st s x s' tr,
  run (sdr_entries fuel st) dev s [] = (x, s', tr) -> Forall (fun e => of_store st (fst e)) tr.
Proof. exact @same_store_list. Qed.
Print Assumptions C11_same_store_list.

(* Budget: against ANY device one record costs at most 483 requests (3 + 24 + 19*24) ... *)
Theorem C11_budget : forall (S : Type) (dev : device S) st rid resv s x s' tr,
  run (get_sdr st rid resv) dev s [] = (x, s', tr) -> (length tr <= GET_SDR_BOUND)%nat.
Proof. exact @budget_get. Qed.
Print Assumptions C11_budget.

Theorem C11_budget_list : forall (S : Type) (dev : device S) fuel st s x s' tr,
  run (sdr_entries fuel st) dev s [] = (x, s', tr) -> (length tr <= 3 + GET_SDR_BOUND * fuel)%nat.
Proof. exact @budget_list. Qed.
Print Assumptions C11_budget_list.

(* ... and for a device with limit >= 4 whose injected codes are the transient ones the
   loops end by themselves (Ok, RetryError, a completion code or a decoding error - never
   the model's OutOfFuel); with C11_exact_or_error: otherwise an error, never altered data *)
Theorem C11_budget_terminates : forall st s rid resv x s' tr,
  Forall wf_rec (recs_of st s) -> rid < 65536 -> plan_ok s -> 4 <= s_limit s ->
  run (get_sdr st rid resv) sdr_dev s [] = (x, s', tr) -> x <> Err OutOfFuel.
Proof. exact no_fuel_get. Qed.
Print Assumptions C11_budget_terminates.

Theorem C11_budget_terminates_list : forall fuel st s x s' tr,
  wf_store (recs_of st s) -> recs_of st s <> [] -> (length (recs_of st s) <= fuel)%nat -> plan_ok s -> 4 <= s_limit s ->
  run (sdr_entries fuel st) sdr_dev s [] = (x, s', tr) -> x <> Err OutOfFuel.
Proof. exact no_fuel_list. Qed.
Print Assumptions C11_budget_terminates_list.

(* Renewal: once the faults are over, a chunk read completes from ANY reservation state -
   still valid, cancelled by the device, or a stale id - by renewing at most once (with the
   reservation command of the same store, C11_same_store), and returns the exact slice.
   PARTIAL with respect to "the read then completes": this is the chunk level; that the
   whole record / list read completes after cancellations at any request index is checked
   on the implementation by the oracle of the correspondence run, not proved. *)
Theorem C11_renewal_completes_partial : forall st resv rid off len s tr rec nx,
  s_plan s = [] -> lookup (recs_of st s) (w16 rid) = Some (rec, nx) -> byteZ len <= s_limit s ->
  exists s' tr', run (get_chunk st resv rid off len) sdr_dev s tr =
                   (Ok (w16 nx, slice (byteZ off) (byteZ len) rec), s', tr') /\
                 s_plan s' = [] /\ same_content s s' /\ valid_of st s' = true.
Proof. exact renewal_completes. Qed.
Print Assumptions C11_renewal_completes_partial.

(* F11b, for the record: the unrepaired wiring of Sdr._get_sdr_chunk sends a request of the
   other store (ReserveDeviceSdrRepository) after a cancellation *)
Theorem C11_same_store_unrepaired_refuted :
  exists (rps : list reply) x rq sl rest q,
    replay (get_chunk_repo_unrepaired 1 2 0 5) rps [] [] = (x, rq, sl, rest) /\ In q rq /\ ~ of_store Repo q.
Proof. exact unrepaired_other_store. Qed.
Print Assumptions C11_same_store_unrepaired_refuted.

(* ------------------------------------------------------------------------------------- *)
(* Cross-layer: retrieval (this property) composed with record parsing (C16).              *)
(* get_sdr_obj / sdr_list_obj = Sdr.get_repository_sdr, Sensor.get_device_sdr and the list   *)
(* generators as they build objects: SdrCommon.from_data applied to exactly the helper's     *)
(* bytes, next_id attached afterwards (Model/SdrE2E.v); SdrParse.sdr_from_data is the parser *)
(* model of C16.  Hypotheses as in C11_exact_or_error: records 5..260 bytes, any limit, any  *)
(* reservation state, any plan of cancellations / raised busy / 0xC3 / 0xCE.                *)
(* ------------------------------------------------------------------------------------- *)

(* a returned object is the parse of the bytes the device holds under the addressed id,
   with the successor id attached - never a record parsed from altered bytes *)
Theorem C11_e2e_get : forall st s rid resv obj s' tr,
  Forall wf_rec (recs_of st s) -> plan_ok s -> rid < 65536 ->
  run (get_sdr_obj st rid resv) sdr_dev s [] = (Ok obj, s', tr) ->
  exists data nx, lookup (recs_of st s) rid = Some (data, nx) /\
                  SdrParse.sdr_from_data data = Ok (fst obj) /\ snd obj = attach nx.
Proof. exact e2e_get. Qed.
Print Assumptions C11_e2e_get.

(* every outcome: the parse (object or parse error) of the device's bytes, or the error the
   retrieval itself ended with *)
Theorem C11_e2e_get_outcome : forall st s rid resv x s' tr,
  Forall wf_rec (recs_of st s) -> plan_ok s -> rid < 65536 ->
  run (get_sdr_obj st rid resv) sdr_dev s [] = (x, s', tr) ->
  (exists data nx, lookup (recs_of st s) rid = Some (data, nx) /\
                   x = match SdrParse.sdr_from_data data with Ok rec => Ok (rec, attach nx) | Err e => Err e end) \/
  (exists e, x = Err e /\ fst (fst (run (get_sdr st rid resv) sdr_dev s [])) = Err e).
Proof. exact e2e_get_outcome. Qed.
Print Assumptions C11_e2e_get_outcome.

(* listing yields the parse of each of the device's records, in store order, each once, with
   the successor ids attached *)
Theorem C11_e2e_list : forall fuel st s l s' tr,
  wf_store (recs_of st s) -> plan_ok s -> recs_of st s <> [] -> (length (recs_of st s) <= fuel)%nat ->
  run (sdr_list_obj fuel st) sdr_dev s [] = (Ok l, s', tr) ->
  Forall2 (fun r o => SdrParse.sdr_from_data r = Ok (fst o)) (recs_of st s) l /\
  map snd l = map (fun b => attach (fst b)) (annot (recs_of st s)).
Proof. exact e2e_list. Qed.
Print Assumptions C11_e2e_list.

(* with C16_parse_enc: a device holding the encodings of in-range records returns / lists
   exactly their contents ([expected]: every attribute the library exposes) *)
Theorem C11_e2e_get_spec : forall st s rid resv sp nx obj s' tr,
  Forall wf_rec (recs_of st s) -> plan_ok s -> rid < 65536 ->
  lookup (recs_of st s) rid = Some (SdrEnc.enc_sdr sp, nx) -> SdrEnc.in_range sp ->
  run (get_sdr_obj st rid resv) sdr_dev s [] = (Ok obj, s', tr) ->
  obj = (SdrEnc.expected sp, attach nx).
Proof. exact e2e_get_spec. Qed.
Print Assumptions C11_e2e_get_spec.

Theorem C11_e2e_list_specs : forall fuel st s specs l s' tr,
  recs_of st s = map SdrEnc.enc_sdr specs -> Forall SdrEnc.in_range specs ->
  wf_store (recs_of st s) -> plan_ok s -> specs <> [] -> (length specs <= fuel)%nat ->
  run (sdr_list_obj fuel st) sdr_dev s [] = (Ok l, s', tr) ->
  map fst l = map SdrEnc.expected specs.
Proof. exact e2e_list_specs. Qed.
Print Assumptions C11_e2e_list_specs.

(* non-vacuity of the cross-layer hypotheses (in_range, wf_store of an encoding, plan_ok) *)
Example C11_e2e_somewhere :
  SdrEnc.in_range e2e_spec /\ wf_store (recs_of Repo e2e_state) /\ plan_ok e2e_state /\
  fst (fst (run (sdr_list_obj 1 Repo) sdr_dev e2e_state [])) = Ok [(SdrEnc.expected e2e_spec, Some 0xFFFF)].
Proof. exact e2e_example. Qed.

(* non-vacuity: a two-record repository, limit 6, the reservation cancelled before the
   fourth request and a timeout code on the sixth: the read of record 0x0002 completes *)
Example C11_reads_somewhere :
  let s := example_state in
  fst (fst (run (get_sdr Repo 2 None) sdr_dev s [])) = Ok (0xFFFF, [2; 0; 0x51; 0xC1; 9; 1; 2; 3; 4; 5; 6; 7; 8; 9])
  /\ wf_store (s_repo s) /\ plan_ok s /\ 4 <= s_limit s.
Proof. exact example_read. Qed.
