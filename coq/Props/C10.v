(* C10 - FRU data transfer is exact and addresses the named FRU.
   Statements only; every proof is [exact <lemma>].
   The device [fru_dev] (Model/FruIO.v): one memory per FRU id, reads larger than
   [fd_limit] rejected with [fd_rej], write acknowledgement [fd_ack].
   The model is the code with fix F10 (fixes/F10-multirecord-fru-id.diff) applied;
   C10_inventory_ids is false of the unrepaired get_fru_multirecord_area, which is
   what harness/c10.py reports on such a tree. *)
From Coq Require Import NArith List.
From PyIpmi Require Import Lib.Res Lib.Bytes Lib.Prog Model.FruIO Proofs.FruIOProofs.
Import ListNotations.
Open Scope N_scope.

(* range read: for every content, offset, count, FRU id, every limit >= 2 and each of
   the three rejection codes the bytes returned are exactly the stored range, the
   device is left unchanged, and every request sent names the caller's FRU id *)
Theorem C10_read_exact : forall s id off cnt,
  id < 256 -> 2 <= fd_limit s -> is_backoff_cc (fd_rej s) = true ->
  off + cnt <= len (fd_mem s id) -> off + cnt <= 65536 ->
  exists tr, run (read_fru_data (Some (off, cnt)) id) fru_dev s []
             = (Ok (slice (fd_mem s id) off cnt), s, tr)
          /\ Forall (fun x => req_fru_id (fst x) = Some id) tr.
Proof. exact read_range_exact. Qed.
Print Assumptions C10_read_exact.

(* whole-area form (size asked from the device first; the size field has 16 bits) *)
Theorem C10_read_whole : forall s id,
  id < 256 -> 2 <= fd_limit s -> is_backoff_cc (fd_rej s) = true ->
  len (fd_mem s id) <= 65535 ->
  exists tr, run (read_fru_data None id) fru_dev s []
             = (Ok (fd_mem s id), s, tr)
          /\ Forall (fun x => req_fru_id (fst x) = Some id) tr.
Proof. exact read_whole_exact. Qed.
Print Assumptions C10_read_whole.

(* _read_fru_area: header read, then the length the header declares *)
Theorem C10_read_area : forall s id off,
  id < 256 -> 2 <= fd_limit s -> is_backoff_cc (fd_rej s) = true ->
  let m := fd_mem s id in
  let n := nth 1 (slice m off 5) 0 * 8 in
  off + 5 <= len m -> off + n <= len m -> len m <= 65536 ->
  exists tr, run (read_fru_area (Some off) id) fru_dev s []
             = (Ok (slice m off n), s, tr)
          /\ Forall (fun x => req_fru_id (fst x) = Some id) tr.
Proof. exact read_area_exact. Qed.
Print Assumptions C10_read_area.

(* every request of a full inventory read - common header, chassis, board, product and
   multi-record parts - names the caller's FRU id: for every device (conforming or
   not), every behaviour of the area parsers and every budget of the record scan *)
Theorem C10_inventory_ids : forall (parse : N -> list N -> res unit) (fuel : nat) (id : N)
    (S : Type) (dev : device S) (s : S),
  id < 256 ->
  Forall (fun x => req_fru_id (fst x) = Some id)
         (snd (run (get_fru_inventory parse fuel id) dev s [])).
Proof. exact inventory_ids. Qed.
Print Assumptions C10_inventory_ids.

(* write: the bytes are stored contiguously from the offset, nothing else changes *)
Theorem C10_write_exact : forall s wl data off id,
  id < 256 -> 1 <= wl -> wl <= 255 -> (forall k n, fd_ack s k n = n) ->
  off + len data <= len (fd_mem s id) -> len (fd_mem s id) <= 65536 ->
  exists s' tr, run (write_fru_data wl data off id) fru_dev s [] = (Ok tt, s', tr)
    /\ fd_mem s' id = firstn (N.to_nat off) (fd_mem s id) ++ data
                      ++ skipn (N.to_nat off + length data) (fd_mem s id)
    /\ (forall i, i <> id -> fd_mem s' i = fd_mem s i)
    /\ Forall (fun x => req_fru_id (fst x) = Some id) tr.
Proof. exact write_exact. Qed.
Print Assumptions C10_write_exact.

(* write: the first chunk for which the device acknowledges a different byte count
   ends the transfer with an error, and nothing further is sent *)
Theorem C10_write_mismatch : forall s wl data off id pre c post,
  id < 256 -> 1 <= wl -> wl <= 255 ->
  off + len data <= len (fd_mem s id) -> len (fd_mem s id) <= 65536 ->
  chunks data (N.to_nat wl) = pre ++ c :: post ->
  (forall j n, (j < length pre)%nat -> fd_ack s (fd_writes s + j) n = n) ->
  fd_ack s (fd_writes s + length pre) (len c) mod 256 <> len c ->
  exists s' tr, run (write_fru_data wl data off id) fru_dev s []
                = (Err (OtherError OtherExc), s', tr)
             /\ length tr = S (length pre).
Proof. exact write_mismatch. Qed.
Print Assumptions C10_write_mismatch.

(* write followed by a read of the same range returns exactly the data written; the rest
   of that FRU and every other FRU are unchanged (two client operations in sequence on the
   same device) *)
Theorem C10_write_then_read : forall s wl data off id,
  id < 256 -> 1 <= wl -> wl <= 255 -> (forall k n, fd_ack s k n = n) ->
  2 <= fd_limit s -> is_backoff_cc (fd_rej s) = true ->
  off + len data <= len (fd_mem s id) -> len (fd_mem s id) <= 65536 ->
  exists s' tr,
    run (dop _ <- write_fru_data wl data off id; read_fru_data (Some (off, len data)) id) fru_dev s []
      = (Ok data, s', tr)
    /\ fd_mem s' id = firstn (N.to_nat off) (fd_mem s id) ++ data
                      ++ skipn (N.to_nat off + length data) (fd_mem s id)
    /\ (forall i, i <> id -> fd_mem s' i = fd_mem s i)
    /\ Forall (fun x => req_fru_id (fst x) = Some id) tr.
Proof. exact write_then_read. Qed.
Print Assumptions C10_write_then_read.

(* ... and a read of the whole area afterwards returns the updated area *)
Theorem C10_write_then_read_whole : forall s wl data off id,
  id < 256 -> 1 <= wl -> wl <= 255 -> (forall k n, fd_ack s k n = n) ->
  2 <= fd_limit s -> is_backoff_cc (fd_rej s) = true ->
  off + len data <= len (fd_mem s id) -> len (fd_mem s id) <= 65535 ->
  exists s' tr,
    run (dop _ <- write_fru_data wl data off id; read_fru_data_full id) fru_dev s []
      = (Ok (firstn (N.to_nat off) (fd_mem s id) ++ data
             ++ skipn (N.to_nat off + length data) (fd_mem s id)), s', tr)
    /\ (forall i, i <> id -> fd_mem s' i = fd_mem s i)
    /\ Forall (fun x => req_fru_id (fst x) = Some id) tr.
Proof. exact write_then_read_whole. Qed.
Print Assumptions C10_write_then_read_whole.

(* thin wrappers: get_fru_inventory_area_info = size of the named FRU's area, one request,
   device unchanged; read_fru_data_full = the whole area *)
Theorem C10_area_info : forall s id, id < 256 -> len (fd_mem s id) <= 65535 ->
  run (get_fru_inventory_area_info id) fru_dev s []
  = (Ok (len (fd_mem s id)), s, [(info_req id, RBytes (0 :: le_bytes 2 (len (fd_mem s id)) ++ [0]))]).
Proof. exact area_info_exact. Qed.
Print Assumptions C10_area_info.

Theorem C10_read_full : forall s id,
  id < 256 -> 2 <= fd_limit s -> is_backoff_cc (fd_rej s) = true ->
  len (fd_mem s id) <= 65535 ->
  exists tr, run (read_fru_data_full id) fru_dev s [] = (Ok (fd_mem s id), s, tr)
          /\ Forall (fun x => req_fru_id (fst x) = Some id) tr.
Proof. exact read_full_exact. Qed.
Print Assumptions C10_read_full.

(* non-vacuity: a device with limit 2 and code 0xC8 satisfies the hypotheses, and the
   model really reads through it (13 bytes at offset 3 of FRU 7); a wrongly
   acknowledged second chunk is reached *)
Example C10_hypotheses_satisfiable :
  let s := mkFruDev (fun i => if i =? 7 then le_bytes 40 0x0102030405060708090a0b0c0d0e0f else [])
                    2 0xc8 (fun k n => if Nat.eqb k 1 then n + 1 else n) 0 in
  7 < 256 /\ 2 <= fd_limit s /\ is_backoff_cc (fd_rej s) = true /\ 3 + 13 <= len (fd_mem s 7)
  /\ fst (fst (run (read_fru_data (Some (3, 13)) 7) fru_dev s [])) = Ok (slice (fd_mem s 7) 3 13)
  /\ length (snd (run (read_fru_data (Some (3, 13)) 7) fru_dev s [])) = 19%nat
  /\ fst (fst (run (write_fru_data 4 [1; 2; 3; 4; 5; 6; 7; 8; 9] 0 7) fru_dev s []))
     = Err (OtherError OtherExc).
Proof. vm_compute. repeat split; try reflexivity; discriminate. Qed.
