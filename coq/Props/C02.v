(* C02 - decoding arbitrary bytes is total and strict.
   Statements only.  [decode] is a total Gallina function defined by structural
   recursion on the layout - that is the "never hangs" clause for the model. *)
From Coq Require Import String.
From Coq Require Import NArith List.
From PyIpmi Require Import Lib.Res Lib.Bytes Model.Codec Gen.Layouts
  Proofs.CodecLemmas Proofs.CodecProofs Proofs.RegistryProofs.
Import ListNotations.
Open Scope N_scope.

(* decoding any byte string as any defined message either succeeds or fails with the
   library's DecodingError - never any other error *)
Theorem C02_total : forall m d, In m registry ->
  (exists r, decode (m_layout m) d = Ok r) \/ decode (m_layout m) d = Err DecodingError.
Proof. exact (fun m d H => decode_total (m_layout m) d (wf_in m H)). Qed.
Print Assumptions C02_total.

(* success (not stopped by a completion code) => re-encoding reproduces exactly the
   input: nothing ignored, invented or left over *)
Theorem C02_strict : forall m d e, In m registry -> has_fields (m_layout m) = true ->
  bytes_ok d = true -> decode (m_layout m) d = Ok (e, false) -> encode (m_layout m) e = Ok d.
Proof. exact (fun m d e H => decode_strict (m_layout m) d e (wf_in m H)). Qed.
Print Assumptions C02_strict.

Theorem C02_strict_generic : forall m d e, wf_layout m = true -> has_fields m = true ->
  bytes_ok d = true -> decode m d = Ok (e, false) -> encode m e = Ok d.
Proof. exact decode_strict. Qed.
Print Assumptions C02_strict_generic.

(* hence decoding is injective on complete decodes - two byte strings with the same
   field values are the same byte string - and an accepted input does not keep its
   meaning when bytes are appended to it (no slack at the end) *)
Theorem C02_decode_injective : forall m d d' e, In m registry -> has_fields (m_layout m) = true ->
  bytes_ok d = true -> bytes_ok d' = true ->
  decode (m_layout m) d = Ok (e, false) -> decode (m_layout m) d' = Ok (e, false) -> d = d'.
Proof. exact (fun m d d' e H => decode_injective (m_layout m) d d' e (wf_in m H)). Qed.
Print Assumptions C02_decode_injective.

Theorem C02_no_slack : forall m d x e, In m registry -> has_fields (m_layout m) = true ->
  bytes_ok d = true -> bytes_ok x = true -> x <> [] ->
  decode (m_layout m) d = Ok (e, false) -> decode (m_layout m) (d ++ x) <> Ok (e, false).
Proof. exact (fun m d x e H => decode_no_slack (m_layout m) d x e (wf_in m H)). Qed.
Print Assumptions C02_no_slack.

(* every response with a field layout starts with the completion code ... *)
Theorem C02_rsp_cc_first : forall m f fs, In m registry -> is_rsp m = true ->
  m_layout m = Fields (f :: fs) -> f_kind f = KPlain /\ f_base f = BCC.
Proof. exact rsp_cc_first. Qed.
Print Assumptions C02_rsp_cc_first.

(* ... and a non-OK code there: decoding succeeds, reports exactly that code and
   interprets none of the remaining bytes (every other field keeps its default) *)
Theorem C02_cc_stops : forall f fs c rest, f_kind f = KPlain -> f_base f = BCC -> c <> 0 ->
  decode (Fields (f :: fs)) (c :: rest) = Ok (VInt c :: map f_dflt fs, true).
Proof. exact cc_stops. Qed.
Print Assumptions C02_cc_stops.

Example C02_decodes_somewhere :
  decode L_GetDeviceIdRsp (hx "00200115025f1fb33a000d00") <> Err DecodingError /\
  decode L_GetDeviceIdRsp (hx "c1aabb") = Ok (VInt 193 :: map f_dflt (match L_GetDeviceIdRsp with Fields (_ :: r) => r | _ => [] end), true).
Proof. split; [vm_compute; discriminate | vm_compute; reflexivity]. Qed.
