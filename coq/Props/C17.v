(* C17 - sensor reading conversion implements the IPMI formula and its inverse.
   Statements only; every proof is [exact <lemma>].  The model is
   pyipmi.sdr.SdrFullSensorRecord.convert_sensor_raw_to_value / lin as they are and
   convert_sensor_value_to_raw WITH the repair fixes/F17-sensor-value-to-raw-inverse.diff. *)
From Coq Require Import NArith ZArith List QArith Qpower Qabs Floats.
From PyIpmi Require Import Lib.Res Model.SensorConv Model.SensorConvF
  Proofs.SensorConvProofs Proofs.SensorConvFSweep Proofs.SensorConvFProofs.
Import ListNotations.
Open Scope Z_scope.

Section Forward.
  (* the carrier of results and the eleven non-trivial linearisation functions (libm) are
     parameters; of_Q embeds the exact linear result *)
  Variable V : Type.
  Variable of_Q : Q -> V.
  Variables f_ln f_log10 f_log2 f_exp f_exp10 f_exp2 f_1_x f_sqr f_cube f_sqrt f_cubert : V -> V.

  (* a present reading converts to L[(M x + B 10^K1) 10^K2], x = the raw byte read as
     unsigned / one's complement / two's complement by the analog data format,
     L = the function lin selects - exact arithmetic, every M, B, K1, K2 *)
  Theorem C17_forward_Q : forall s raw, (s_fmt s < 3)%N -> (raw < 256)%N ->
    convert_sensor_raw_to_value V of_Q f_ln f_log10 f_log2 f_exp f_exp10 f_exp2 f_1_x f_sqr f_cube f_sqrt f_cubert
      s (Some raw) =
    (do L <- lin V f_ln f_log10 f_log2 f_exp f_exp10 f_exp2 f_1_x f_sqr f_cube f_sqrt f_cubert (s_lin s);
     Ok (Some (L (of_Q (formula (s_m s) (s_b s) (s_k1 s) (s_k2 s) (signed_of (s_fmt s) raw)))))).
  Proof. exact (forward_formula V of_Q f_ln f_log10 f_log2 f_exp f_exp10 f_exp2 f_1_x f_sqr f_cube f_sqrt f_cubert). Qed.

  (* L is chosen by the linearisation code (bit 7 ignored) from the table
     linear, ln, log10, log2, e^x, 10^x, 2^x, 1/x, x^2, x^3, sqrt, cube root;
     any other code is a DecodingError *)
  Theorem C17_lin_table : forall code, (code < 256)%N ->
    lin V f_ln f_log10 f_log2 f_exp f_exp10 f_exp2 f_1_x f_sqr f_cube f_sqrt f_cubert code =
    match lin_spec V f_ln f_log10 f_log2 f_exp f_exp10 f_exp2 f_1_x f_sqr f_cube f_sqrt f_cubert code with
    | Some L => Ok L | None => Err DecodingError end.
  Proof. exact (lin_table V f_ln f_log10 f_log2 f_exp f_exp10 f_exp2 f_1_x f_sqr f_cube f_sqrt f_cubert). Qed.

  (* an absent reading converts to an absent value *)
  Theorem C17_forward_none : forall s,
    convert_sensor_raw_to_value V of_Q f_ln f_log10 f_log2 f_exp f_exp10 f_exp2 f_1_x f_sqr f_cube f_sqrt f_cubert
      s None = Ok None.
  Proof. exact (forward_none V of_Q f_ln f_log10 f_log2 f_exp f_exp10 f_exp2 f_1_x f_sqr f_cube f_sqrt f_cubert). Qed.
End Forward.
Print Assumptions C17_forward_Q.
Print Assumptions C17_lin_table.
Print Assumptions C17_forward_none.

(* For a linear sensor with M <> 0, converting the value back yields the raw reading:
   every M, B, K1, K2 (unbounded integers), every raw byte and format except
   one's-complement negative zero; for any rational equal to the forward value. *)
Theorem C17_inverse_Q : forall s raw v,
  s_m s <> 0 -> N.land (s_lin s) 0x7f = 0%N -> (s_fmt s < 3)%N -> (raw < 256)%N ->
  ~ (s_fmt s = 1%N /\ raw = 255%N) ->
  (v == linear_Q s (raw_signed (s_fmt s) raw))%Q ->
  convert_sensor_value_to_raw s v = Ok (Z.of_N raw).
Proof. exact inverse_forward. Qed.
Print Assumptions C17_inverse_Q.

(* Floating point (binary64, Python's evaluation order), PARTIAL in this file: the statement for
   ALL M, B, K1, K2 is proved analytically (Flocq + Interval) as C17F_float_forward /
   C17F_float_inverse in Props/C17F.v, which is compiled on every run but stays outside the coqchk
   pass (see there).  Here, inside the coqchk closure, the finite sweep.
   Full statement: for all M, B in -512..511, K1, K2 in -8..7, fmt < 3, raw < 256:
     the float result is finite, |float - formula| <= 2^-50 (|M x| + |B| 10^K1) 10^K2, and
     (M <> 0, not one's-complement -0) the float inverse of the float result is raw.
   Proved: the same for (M, B) in {(2, 3), (-512, 511)}, K1, K2 in {-8, -1, 0, 7} and ALL formats
   and raw readings (24 576 cases evaluated inside Coq over primitive floats; kept this small
   because coqchk re-checks the evaluation without the VM). Missing: the other (M, B) pairs and
   exponents - covered only by the per-run check against the implementation (harness
   oracle: 40 / 200 pairs, all exponents, formats and readings), not by proof. *)
Theorem C17_float_close_partial : forall (m b k1 k2 : Z) (fmt raw : N),
  In (m, b) [(2, 3); (-512, 511)] -> In k1 [-8; -1; 0; 7] -> In k2 [-8; -1; 0; 7] -> (fmt < 3)%N -> (raw < 256)%N ->
  let s := mkSensor fmt 0 m b k1 k2 in
  exists v, Q_of_float (convert_raw_F s raw) = Some v /\
            close_to_formula s (signed_of fmt raw) v /\
            (~ (fmt = 1%N /\ raw = 255%N) -> convert_value_F s (convert_raw_F s raw) = Ok (Z.of_N raw)).
Proof. exact float_partial. Qed.
Print Assumptions C17_float_close_partial.

(* non-vacuity *)
Example C17_example :
  let s := mkSensor 2 0 (-3) 100 (-1) 1 in
  s_m s <> 0 /\ (linear_Q s (raw_signed 2 200) == 1780 # 1)%Q /\
  convert_sensor_value_to_raw s (linear_Q s (raw_signed 2 200)) = Ok 200.
Proof. split; [discriminate | split; vm_compute; reflexivity]. Qed.
