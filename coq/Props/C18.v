(* C18 - HPM.1 images parse faithfully; firmware uploads completely and in order.
   Statements only; every proof is [exact <lemma>].
   The image model follows the code repaired by fixes/F18-hpm-oem-data-slice.diff. *)
From Coq Require Import NArith ZArith List.
From PyIpmi Require Import Lib.Res Lib.Bytes Lib.Prog
  Model.HpmImage Model.HpmImageSpec Model.HpmUpload Model.HpmDevice
  Proofs.HpmImageProofs Proofs.HpmUploadProofs.
Import ListNotations.
Open Scope N_scope.

(* Parsing the encoding of ANY well-formed HPM.1 image (independent encoder; OEM data of
   0..65535 bytes, any number of action records of each type, any firmware length below
   2^32; md5 is any function with 16-byte results) yields exactly the header fields, the
   component list, the OEM data, and in order every action record with its type, component
   mask, checksum, firmware version, description, declared length and firmware bytes. *)
Theorem C18_parse_enc : forall (md5 : list N -> list N),
  (forall x, length (md5 x) = 16%nat) ->
  forall i, s_image_ok i -> parse_image (enc_image md5 i) = Ok (exp_image md5 i).
Proof. exact parse_image_enc. Qed.
Print Assumptions C18_parse_enc.

(* the action-record loop terminates on every file (the model's fuel never runs out) *)
Theorem C18_parse_terminates : forall data, parse_image data <> Err OutOfFuel.
Proof. exact parse_image_fuel. Qed.
Print Assumptions C18_parse_terminates.

(* For EVERY binary, every block size >= 1 and EVERY plan that accepts each block at once
   or as a long duration command (any subset, any number of in-progress polls, also more
   than the client waits for): the upload succeeds; the data of the Upload Firmware Block
   requests concatenates to the binary; the block numbers are 0,1,2,... modulo 256; no
   block exceeds the block size; every in-progress answer is followed by a status poll;
   and the device has received exactly those blocks. *)
Theorem C18_upload : forall binary bs plan timeout interval retry,
  bytes_ok binary = true -> (1 <= bs)%nat -> 1 <= timeout -> 1 <= interval ->
  (forall i, (i < blocks_total binary bs)%nat -> is_fail (nth i plan Accept) = false) ->
  exists s tr,
    run (upload_binary bs binary timeout interval retry) hpm_device (d_init plan) [] = (Ok tt, s, tr)
    /\ concat (map snd (blocks_of tr)) = binary
    /\ map fst (blocks_of tr) = numbering (blocks_total binary bs)
    /\ Forall (fun b => (length (snd b) <= bs)%nat) (blocks_of tr)
    /\ polls_ok tr = true
    /\ d_received s = blocks_of tr.
Proof. exact upload_complete. Qed.
Print Assumptions C18_upload.

(* A refusal (completion code other than 0x00 / 0x80) of block j aborts with HpmError; the
   refused block is the last exchange of the transcript (nothing is sent afterwards), and
   what was sent until then is the prefix of the binary, numbered from zero. *)
Theorem C18_error_aborts : forall binary bs plan timeout interval retry j cc,
  bytes_ok binary = true -> (1 <= bs)%nat -> 1 <= timeout -> 1 <= interval ->
  (j < blocks_total binary bs)%nat ->
  (forall i, (i < j)%nat -> is_fail (nth i plan Accept) = false) ->
  nth j plan Accept = Fail cc -> answer_ok (Fail cc) = true ->
  exists s pre q,
    run (upload_binary bs binary timeout interval retry) hpm_device (d_init plan) []
      = (Err HpmError, s, pre ++ [(q, RBytes [cc; 0])])
    /\ is_block q = true
    /\ length (blocks_of (pre ++ [(q, RBytes [cc; 0])])) = S j
    /\ concat (map snd (blocks_of (pre ++ [(q, RBytes [cc; 0])]))) = firstn (S j * bs) binary
    /\ map fst (blocks_of (pre ++ [(q, RBytes [cc; 0])])) = numbering (S j)
    /\ polls_ok (pre ++ [(q, RBytes [cc; 0])]) = true.
Proof. exact upload_error_aborts. Qed.
Print Assumptions C18_error_aborts.

(* the polling loop's fuel always suffices (interval >= 1), against any device *)
Theorem C18_upload_fuel : forall S (dev : device S) s bs binary timeout interval retry,
  1 <= interval -> sane_device dev ->
  outcome (run (upload_binary bs binary timeout interval retry) dev s []) <> Err OutOfFuel.
Proof. exact upload_no_out_of_fuel. Qed.
Print Assumptions C18_upload_fuel.

(* non-vacuity: a well-formed image with OEM data and all three record types; a plan with
   an in-progress block; a plan with a refusal; the reference device is a sane device *)
Example C18_image_exists :
  s_image_ok (mkSImage (mkSHeader 4 15000 1701 1527163595 7 2 12 12 12 0 0 (mkSVer 1 23 [1; 2; 3; 4]) [0xde; 0xad])
                       [SBackup 2; SPrepare 2; SUpload 2 (mkSVer 4 50 [1; 3; 0; 0]) (repeat 65 21) [1; 2; 3]]).
Proof.
  split; [unfold s_header_ok, s_version_ok, minor_ok; cbn; repeat split; try reflexivity; try (left; discriminate)|].
  repeat constructor; cbn; unfold minor_ok; try reflexivity; try discriminate; try (left; discriminate).
Qed.
Example C18_upload_runs :
  let '(r, _, tr) := run (upload_binary 22 (repeat 7 50) 2000 100 3) hpm_device (d_init [Accept; InProgress 3]) [] in
  r = Ok tt /\ length tr = 7%nat.
Proof. vm_compute. split; reflexivity. Qed.
Example C18_refusal_runs :
  let '(r, _, tr) := run (upload_binary 22 (repeat 7 50) 2000 100 3) hpm_device (d_init [Accept; Fail 0x81]) [] in
  r = Err HpmError /\ length tr = 2%nat /\ answer_ok (Fail 0x81) = true.
Proof. vm_compute. repeat split; reflexivity. Qed.
Example C18_device_sane : sane_device hpm_device.
Proof. exact hpm_device_sane. Qed.
