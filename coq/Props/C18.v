(* C18 - HPM.1 images parse faithfully; firmware uploads completely and in order.
   Statements only; every proof is [exact <lemma>].
   The image model follows the code repaired by fixes/F18-hpm-oem-data-slice.diff. *)
From Coq Require Import NArith ZArith List.
From PyIpmi Require Import Lib.Res Lib.Bytes Lib.Prog
  Model.HpmImage Model.HpmImageSpec Model.HpmUpload Model.HpmDevice Model.HpmUpgrade Model.HpmUpgradeSpec
  Proofs.HpmImageProofs Proofs.HpmUploadProofs Proofs.HpmUpgradeProofs.
Import ListNotations.
Open Scope N_scope.

(* Parsing the encoding of ANY well-formed HPM.1 image (independent encoder; OEM data of
   0..65535 bytes, any number of action records of each type, any firmware length below
   2^32; md5 is any function with 16-byte results) yields exactly the header fields, the
   component list, the OEM data, and in order every action record with its type, component
   mask, checksum, firmware version, description, declared length and firmware bytes. *)
Theorem C18_parse_enc : forall (md5 : list N -> list N),
  (forall x, length (md5 x) = 16%nat) ->
  forall i, s_image_ok i -> parse_image (enc_image md5 i) = Ok (exp_image md5 i).
Proof. exact parse_image_enc. Qed.
Print Assumptions C18_parse_enc.

(* the action-record loop terminates on every file (the model's fuel never runs out) *)
Theorem C18_parse_terminates : forall data, parse_image data <> Err OutOfFuel.
Proof. exact parse_image_fuel. Qed.
Print Assumptions C18_parse_terminates.

(* For EVERY binary, every block size >= 1 and EVERY plan that accepts each block at once
   or as a long duration command (any subset, any number of in-progress polls, also more
   than the client waits for): the upload succeeds; the data of the Upload Firmware Block
   requests concatenates to the binary; the block numbers are 0,1,2,... modulo 256; no
   block exceeds the block size; every in-progress answer is followed by a status poll;
   and the device has received exactly those blocks. *)
Theorem C18_upload : forall binary bs plan timeout interval retry,
  bytes_ok binary = true -> (1 <= bs)%nat -> 1 <= timeout -> 1 <= interval ->
  (forall i, (i < blocks_total binary bs)%nat -> is_fail (nth i plan Accept) = false) ->
  exists s tr,
    run (upload_binary bs binary timeout interval retry) hpm_device (d_init plan) [] = (Ok tt, s, tr)
    /\ concat (map snd (blocks_of tr)) = binary
    /\ map fst (blocks_of tr) = numbering (blocks_total binary bs)
    /\ Forall (fun b => (length (snd b) <= bs)%nat) (blocks_of tr)
    /\ polls_ok tr = true
    /\ d_received s = blocks_of tr.
Proof. exact upload_complete. Qed.
Print Assumptions C18_upload.

(* A refusal (completion code other than 0x00 / 0x80) of block j aborts with HpmError; the
   refused block is the last exchange of the transcript (nothing is sent afterwards), and
   what was sent until then is the prefix of the binary, numbered from zero. *)
Theorem C18_error_aborts : forall binary bs plan timeout interval retry j cc,
  bytes_ok binary = true -> (1 <= bs)%nat -> 1 <= timeout -> 1 <= interval ->
  (j < blocks_total binary bs)%nat ->
  (forall i, (i < j)%nat -> is_fail (nth i plan Accept) = false) ->
  nth j plan Accept = Fail cc -> answer_ok (Fail cc) = true ->
  exists s pre q,
    run (upload_binary bs binary timeout interval retry) hpm_device (d_init plan) []
      = (Err HpmError, s, pre ++ [(q, RBytes [cc; 0])])
    /\ is_block q = true
    /\ length (blocks_of (pre ++ [(q, RBytes [cc; 0])])) = S j
    /\ concat (map snd (blocks_of (pre ++ [(q, RBytes [cc; 0])]))) = firstn (S j * bs) binary
    /\ map fst (blocks_of (pre ++ [(q, RBytes [cc; 0])])) = numbering (S j)
    /\ polls_ok (pre ++ [(q, RBytes [cc; 0])]) = true.
Proof. exact upload_error_aborts. Qed.
Print Assumptions C18_error_aborts.

(* the polling loop's fuel always suffices (interval >= 1), against any device *)
Theorem C18_upload_fuel : forall S (dev : device S) s bs binary timeout interval retry,
  1 <= interval -> sane_device dev ->
  outcome (run (upload_binary bs binary timeout interval retry) dev s []) <> Err OutOfFuel.
Proof. exact upload_no_out_of_fuel. Qed.
Print Assumptions C18_upload_fuel.

(* ---- the upgrade drivers on top of upload_binary (Model/HpmUpgrade.v), against ANY device ---- *)

(* (1) Order.  Whenever installing one component from the file of ANY well-formed image
   succeeds - on any device whatsoever, with any pattern of in-progress answers and poll
   counts - the steps read off the wire (status polls dropped; the blocks after an
   Initiate(upload) collapsed to their data if numbered 0,1,.. mod 256 and none above the block
   size, TBad otherwise) are exactly: Abort Firmware Upgrade, Get Device Id, Get Target Upgrade
   Capabilities; then per action record of the image that names the component, in order,
   Initiate Upgrade Action (the record's action, mask of this component) and for an upload
   record the blocks of exactly its firmware and Finish Firmware Upload with the component
   and the firmware length (32 bit little-endian on the wire); then Activate Firmware without
   rollback override; then only Get Device Id probes while the new firmware comes up. *)
Theorem C18_install_order : forall (md5 : list N -> list N),
  (forall x, length (md5 x) = 16%nat) ->
  forall i c tick S (dev : device S) s, s_image_ok i ->
  outcome (run (install_component_from_file (enc_image md5 i) c tick) dev s []) = Ok tt ->
  exists n, steps_of BLOCK_SIZE (trace (run (install_component_from_file (enc_image md5 i) c tick) dev s []))
            = install_steps i c ++ repeat TDeviceId n.
Proof. exact install_order. Qed.
Print Assumptions C18_install_order.

(* (3) Refusal.  On any device: an exchange of the installation whose reply is a completion
   code other than 0x00 (and other than a followed-up 0x80) is the LAST exchange, and the
   outcome is HpmError when the refused request is Initiate Upgrade Action, Upload Firmware
   Block, Finish Firmware Upload or Activate Firmware, and the CompletionCodeError itself for
   Abort Firmware Upgrade, Get Device Id, Get Target Upgrade Capabilities and Get Upgrade Status. *)
Theorem C18_install_refusal_aborts : forall (md5 : list N -> list N),
  (forall x, length (md5 x) = 16%nat) ->
  forall i c tick S (dev : device S) s, s_image_ok i ->
  forall pre x post,
    trace (run (install_component_from_file (enc_image md5 i) c tick) dev s []) = pre ++ x :: post ->
    refusal x = true ->
    post = [] /\ exists q cc d, x = (q, RBytes (cc :: d)) /\
      outcome (run (install_component_from_file (enc_image md5 i) c tick) dev s []) = Err (err_for q cc).
Proof. exact install_refusal_aborts. Qed.
Print Assumptions C18_install_refusal_aborts.

(* the same for each *_and_wait driver on its own (they are instances of and_wait, see the
   Example below): a refusal of the command or of a status poll is the last exchange *)
Theorem C18_and_wait_refusal_aborts : forall q timeout interval sw S (dev : device S) s,
  waits q = true ->
  forall pre x post,
    trace (run (and_wait q timeout interval sw) dev s []) = pre ++ x :: post -> refusal x = true ->
    post = [] /\ exists q' cc d, x = (q', RBytes (cc :: d)) /\
      outcome (run (and_wait q timeout interval sw) dev s []) = Err (err_for q' cc).
Proof. exact and_wait_refusal_aborts. Qed.
Print Assumptions C18_and_wait_refusal_aborts.

(* (2) Completion.  Full strength - "a *_and_wait driver returns only after the device
   reported the long duration command complete" - is FALSE of the code (known finding
   wait_for_long_duration_command:gives-up-silently): against the reference block receiver
   that stays busy for 50 polls, the driver returns normally after 3 polls, none of which
   reported completion, and the device is still busy. *)
Theorem C18_and_wait_refuted :
  let r := run (and_wait (block_req 0 []) 300 100 false) hpm_device (d_init [InProgress 50]) [] in
  outcome r = Ok tt /\ answered_in_progress (snd (hd (status_req, RRaise OutOfFuel) (trace r))) = true /\
  forallb (fun x : exch => negb (poll_done (snd x))) (tl (trace r)) = true /\
  d_pending (snd (fst r)) = 47%nat.
Proof. exact and_wait_gives_up. Qed.
Print Assumptions C18_and_wait_refuted.

(* ... and holds except for that: on any device, for every in-progress pattern and poll
   count, a successful *_and_wait was accepted at once, or (activate / manual rollback) its
   request timed out, or it was answered "in progress" and then issued only status polls
   until one reported the command complete - or until its own time-out was used up
   (number of polls * interval >= timeout). *)
Theorem C18_and_wait_except_known : forall q timeout interval sw S (dev : device S) s,
  outcome (run (and_wait q timeout interval sw) dev s []) = Ok tt ->
  exists rp polls,
    trace (run (and_wait q timeout interval sw) dev s []) = (q, rp) :: polls /\
    status_exchanges polls /\
    ((reply_is_cc 0 rp = true /\ polls = []) \/
     (sw = true /\ rp = RRaise TimeoutError /\ polls = []) \/
     (answered_in_progress rp = true /\
      (polls_complete polls \/ timeout <= N.of_nat (length polls) * interval))).
Proof. exact and_wait_complete. Qed.
Print Assumptions C18_and_wait_except_known.

(* fuel: the polling loops inside the drivers and the installation never run out of fuel
   (interval >= 1, clock tick of the come-up loop >= 1), on any sane device *)
Theorem C18_and_wait_fuel : forall q timeout interval sw S (dev : device S) s tr,
  1 <= interval -> sane_device dev ->
  outcome (run (and_wait q timeout interval sw) dev s tr) <> Err OutOfFuel.
Proof. exact (fun q t i sw S dev s tr Hi Hd => noof_and_wait q t i sw Hi S dev s tr Hd). Qed.
Print Assumptions C18_and_wait_fuel.

Theorem C18_install_fuel : forall file c tick S (dev : device S) s tr,
  1 <= tick -> sane_device dev ->
  outcome (run (install_component_from_file file c tick) dev s tr) <> Err OutOfFuel.
Proof. exact (fun f c t S dev s tr Ht Hd => noof_install_file f c t Ht S dev s tr Hd). Qed.
Print Assumptions C18_install_fuel.

(* the four *_and_wait methods are and_wait on a request that is followed up (waits) *)
Example C18_drivers_are_and_wait : forall c l m a o t i,
  finish_upload_and_wait c l t i = and_wait (finish_req c l) t i false /\
  activate_firmware_and_wait o t i = and_wait (activate_req o) t i true /\
  initiate_manual_rollback_and_wait t i = and_wait manual_rollback_req (60 * sec) i true /\
  (initiate_guard m a = false -> initiate_upgrade_action_and_wait m a t i = and_wait (initiate_req m a) t i false) /\
  waits (finish_req c l) = true /\ waits (activate_req o) = true /\ waits manual_rollback_req = true /\
  waits (initiate_req m a) = true /\ waits (block_req m []) = true.
Proof.
  intros. repeat split; try reflexivity.
  intros H. unfold initiate_upgrade_action_and_wait. now rewrite H.
Qed.
(* an installation that succeeds exists: the image of C18_image_exists, component 1, on the
   reference upgrade device with in-progress answers and a restart of 2 unanswered requests *)
Example C18_install_runs :
  let i := mkSImage (mkSHeader 4 15000 1701 1527163595 7 2 12 12 12 0 0 (mkSVer 1 23 [1; 2; 3; 4]) [0xde; 0xad])
                    [SBackup 2; SPrepare 2; SUpload 2 (mkSVer 4 50 [1; 3; 0; 0]) (repeat 65 21) (repeat 7 50)] in
  let md5 := fun _ : list N => repeat 0 16 in
  let r := run (install_component_from_file (enc_image md5 i) 1 333)
               upg_device (u_init [[Accept; InProgress 2]] [Accept; InProgress 1; Accept; InProgress 0; InProgress 3] (4, 15000, 1701) 2 2) [] in
  outcome r = Ok tt /\
  steps_of BLOCK_SIZE (trace r) = install_steps i 1 ++ repeat TDeviceId 28.
Proof. vm_compute. split; reflexivity. Qed.

(* non-vacuity: a well-formed image with OEM data and all three record types; a plan with
   an in-progress block; a plan with a refusal; the reference device is a sane device *)
Example C18_image_exists :
  s_image_ok (mkSImage (mkSHeader 4 15000 1701 1527163595 7 2 12 12 12 0 0 (mkSVer 1 23 [1; 2; 3; 4]) [0xde; 0xad])
                       [SBackup 2; SPrepare 2; SUpload 2 (mkSVer 4 50 [1; 3; 0; 0]) (repeat 65 21) [1; 2; 3]]).
Proof.
  split; [unfold s_header_ok, s_version_ok, minor_ok; cbn; repeat split; try reflexivity; try (left; discriminate)|].
  repeat constructor; cbn; unfold minor_ok; try reflexivity; try discriminate; try (left; discriminate).
Qed.
Example C18_upload_runs :
  let '(r, _, tr) := run (upload_binary 22 (repeat 7 50) 2000 100 3) hpm_device (d_init [Accept; InProgress 3]) [] in
  r = Ok tt /\ length tr = 7%nat.
Proof. vm_compute. split; reflexivity. Qed.
Example C18_refusal_runs :
  let '(r, _, tr) := run (upload_binary 22 (repeat 7 50) 2000 100 3) hpm_device (d_init [Accept; Fail 0x81]) [] in
  r = Err HpmError /\ length tr = 2%nat /\ answer_ok (Fail 0x81) = true.
Proof. vm_compute. repeat split; reflexivity. Qed.
Example C18_device_sane : sane_device hpm_device.
Proof. exact hpm_device_sane. Qed.
