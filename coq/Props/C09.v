(* C09 - Bridged requests traverse every hop; replies unwrap to the target's reply.
   Statements only; every proof is [exact <lemma>]. *)
From Coq Require Import String.
From Coq Require Import NArith List.
From PyIpmi Require Import Lib.Res Lib.Bytes Model.Ipmb Model.Bridge Model.RxLoop
     Proofs.IpmbProofs Proofs.BridgeProofs Proofs.RxLoopProofs.
Import ListNotations.
Open Scope N_scope.

(* Nesting, for a routing path hops ++ [last] of ANY length >= 1 (induction on hops):
   the transmitted request exists and, handed to a chain of conforming bridges
   ([peel] = [bridge_hop] iterated: each verifies both checksums of its layer, that it
   is an App request 34h, takes channel and tracking and forwards the embedded frame),
   yields exactly one Send Message per intermediate hop, outermost first, from that
   hop's rq_sa to that hop's rs_sa with that hop's channel, tracking = 1 and the given
   sequence number; what the last bridge forwards is the original request
   [encode_ipmb_msg h' p] from the last hop's source address to the final target -
   with valid checksums, exactly the header h' and exactly the payload p (C03_frame). *)
Theorem C09_nest : forall hops last h p seq,
  Forall route_in_range hops -> r_rq_sa last < 256 -> r_rs_sa last < 256 ->
  hdr_in_range h -> seq < 64 -> bytes_ok p = true ->
  let h' := mkHdr (r_rs_sa last) (rs_lun h) (r_rq_sa last) (rq_lun h) (rq_seq h) (netfn h) (cmdid h) in
  exists f inner,
    encode_bridged (hops ++ [last]) h p seq = Ok f /\
    bridged_header (hops ++ [last]) h = Ok h' /\
    bytes_ok f = true /\
    peel (length hops) f = Some (map (hop_of seq) hops, inner) /\
    encode_ipmb_msg h' p = Ok inner /\
    sum256 (firstn 3 inner) = 0 /\ sum256 (skipn 3 inner) = 0 /\
    (exists c, hdr_req_decode inner = Ok (h', c)) /\ payload inner = p.
Proof. exact bridged_nest. Qed.
Print Assumptions C09_nest.

(* one layer on its own: encode_send_message around any byte string x *)
Theorem C09_layer : forall x r seq,
  route_in_range r -> seq < 64 -> bytes_ok x = true ->
  exists f, encode_send_message x (r_rq_sa r) (r_rs_sa r) (r_chan r) seq 1 = Ok f /\
    bytes_ok f = true /\ length f = (8 + length x)%nat /\
    sum256 (firstn 3 f) = 0 /\ sum256 (skipn 3 f) = 0 /\
    bridge_hop f = Some (hop_of seq r, x).
Proof. exact encode_send_message_hop. Qed.
Print Assumptions C09_layer.

(* Unwrapping: the target's reply r (any frame whose command is not Send Message)
   wrapped in any number of successful Send Message responses - any addresses, LUNs
   and sequence numbers in the wrappers - unwraps to exactly r. *)
Theorem C09_unwrap : forall ws r c,
  nth_error r 5 = Some c -> c <> CMDID_SEND_MESSAGE -> decode_bridged (wrap_all ws r) = Ok r.
Proof. exact bridged_unwrap. Qed.
Print Assumptions C09_unwrap.

(* A failing intermediate hop: the layers outside it succeeded, it answered cc <> 0
   (with whatever content x): the error carries exactly that completion code. *)
Theorem C09_hop_error : forall ws w cc x, cc <> 0 ->
  decode_bridged (wrap_all ws (wrap_reply w cc x)) = Err (CCError cc).
Proof. exact bridged_hop_error. Qed.
Print Assumptions C09_hop_error.

(* A bare acknowledgement (Send Message response with no embedded reply) - also when
   handed on through outer bridges - unwraps to the empty string, which the LAN
   transport treats as "nothing yet" (C09_ack_waits below). *)
Theorem C09_ack_empty : forall ws w, decode_bridged (wrap_all ws (wrap_reply w 0 [])) = Ok [].
Proof. exact bridged_ack. Qed.
Print Assumptions C09_ack_empty.

(* ... and the LAN transport (C04's receive-loop model, repaired or as found) then waits
   for the forwarded reply: the acknowledgement [a] is classified as "nothing yet", and a
   request served with [a] as the next datagram behaves EXACTLY as if [a] had not arrived -
   same outcome, same counters (no retry consumed), no retransmission, same unread events.
   It is never returned as the answer. *)
Theorem C09_ack_classified : forall h o ws w, classify h o (wrap_all ws (wrap_reply w 0 [])) = VAck.
Proof. exact classify_ack. Qed.
Print Assumptions C09_ack_classified.

Theorem C09_ack_waits : forall requeue st r a s h tx,
  m_queue st = [] ->
  rmcp_prepare (inc_seq (m_next_seq st)) (m_slave st) r = Ok (h, tx) ->
  classify h (rmcp_opts (m_ignore_rq_seq st)) a = VAck ->
  rmcp_send_receive_gen requeue st r (Frame a :: s) = rmcp_send_receive_gen requeue st r s.
Proof. exact rmcp_ack_waits. Qed.
Print Assumptions C09_ack_waits.

(* decode_bridged_message is total: the loop terminates on every byte string (the
   model's fuel never runs out), its only errors are IndexError (< 6 bytes),
   DecodingError (Send Message response without completion code) and the completion
   code of a failing layer, and what it returns is no longer a Send Message frame. *)
Theorem C09_decode_total : forall rx,
  decode_bridged rx <> Err OutOfFuel /\
  (forall e, decode_bridged rx = Err e ->
     e = OtherError IndexError \/ e = DecodingError \/ exists cc, cc <> 0 /\ e = CCError cc) /\
  (forall x, decode_bridged rx = Ok x ->
     (length x < 6)%nat \/ exists c, nth_error x 5 = Some c /\ c <> CMDID_SEND_MESSAGE).
Proof.
  exact (fun rx => conj (decode_bridged_never_out_of_fuel rx)
                        (conj (decode_bridged_errors rx) (decode_bridged_result rx))).
Qed.
Print Assumptions C09_decode_total.

(* the spec-side wrapper produces frames whose checksums verify *)
Theorem C09_wrap_reply_checksums : forall w cc emb,
  sum256 (firstn 3 (wrap_reply w cc emb)) = 0 /\ sum256 (skipn 3 (wrap_reply w cc emb)) = 0.
Proof. exact wrap_reply_checksums. Qed.
Print Assumptions C09_wrap_reply_checksums.

(* non-vacuity: the double-bridged request and the reply pinned in
   tests/interfaces/test_ipmb.py satisfy the hypotheses and evaluate as pinned *)
Example C09_test_vectors :
  encode_bridged [mkRoute 0x81 0x20 7; mkRoute 0x20 0x72 0] (mkHdr 0 0 0 0 0x11 6 0xaa) [0xaa; 0xbb] 0x22
    = Ok (hx "2018c8818834477218762044aaaabb8d7c")
  /\ peel 1 (hx "2018c8818834477218762044aaaabb8d7c")
    = Some ([mkHop 0x81 0x20 7 1 0x22], hx "7218762044aaaabb8d")
  /\ Forall route_in_range [mkRoute 0x81 0x20 7] /\ hdr_in_range (mkHdr 0 0 0 0 0x11 6 0xaa)
  /\ decode_bridged (hx "811c6320143400201cc4821434002014cc74142200edff6a36")
    = Ok (hx "2014cc74142200edff")
  /\ wrap_all [mkWrap 0x81 0 0x20 0 5; mkWrap 0x20 0 0x82 0 5] (hx "2014cc74142200edff")
    = hx "811c6320143400201cc4821434002014cc74142200edffa098"
  /\ decode_bridged (hx "811c6320143400201cc4821434002014cc74142200edffa098") = Ok (hx "2014cc74142200edff").
Proof.
  repeat split; try (vm_compute; reflexivity).
  - repeat constructor.
Qed.
