(* C15 - statements only (work in progress). *)
From Coq Require Import String.
From Coq Require Import NArith List.
From PyIpmi Require Import Lib.Res Lib.Bytes Gen.FruTables Model.FruParse Model.FruSpec Proofs.FruParseProofs.
Import ListNotations.
Open Scope N_scope.

Theorem C15_tables_translated : fru_tables_untranslated = None.
Proof. exact fru_tables_translated. Qed.
Print Assumptions C15_tables_translated.
