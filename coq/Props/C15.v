(* C15 - FRU inventory parsing inverts the FRU storage format and enforces its
   checksums.  Statements only; every proof is [exact <lemma>].
   parse_inventory etc.: Model/FruParse.v (hand model of pyipmi/fru.py, fields.py with the
   repairs F15a and F15b, utils.bcd_decode; BCD_MAP and CUSTOM_FIELD_END regenerated in
   Gen/FruTables.v).  enc_inventory, wf_inv, view_inventory: Model/FruSpec.v (independent
   encoder of the FRU Information Storage Definition). *)
From Coq Require Import String.
From Coq Require Import NArith List.
From PyIpmi Require Import Lib.Res Lib.Bytes Lib.Prog Gen.FruTables Model.FruIO Model.FruParse Model.FruSpec
  Model.FruDevice Proofs.FruParseProofs Proofs.FruChecksumProofs Proofs.FruEncBytesProofs Proofs.FruDeviceProofs.
Import ListNotations.
Open Scope N_scope.

(* the translator recognised BCD_MAP and CUSTOM_FIELD_END as literals (fail-closed) *)
Theorem C15_tables_translated : fru_tables_untranslated = None.
Proof. exact fru_tables_translated. Qed.
Print Assumptions C15_tables_translated.

(* Parsing the image of ANY well-formed inventory - every subset of internal use /
   chassis / board / product / multi-record areas; binary, BCD plus, 6-bit ASCII and
   8-bit fields of 0..63 data bytes; any number of custom fields and of multi-records
   (0..255 bytes each, PICMG and power-module-capability records decoded) - yields
   exactly the values that were encoded: header offsets, area lengths, chassis type /
   language code, manufacturing date (minutes since 1996-01-01), every field's type,
   length, raw bytes and string, every record's type, version, end-of-list, length,
   payload and PICMG members. *)
Theorem C15_parse_enc_except_known : forall s, wf_inv s = true ->
  parse_inventory (enc_inventory s) = Ok (Some (view_inventory s)).
Proof. exact parse_enc. Qed.
Print Assumptions C15_parse_enc_except_known.

(* Full-strength statement (NOT true of the code, known finding F15c):
     forall s, wf_inv_full s = true -> exists inv, parse_inventory (enc_inventory s) = Ok (Some inv)
                                                   /\ <records of inv = records of s>
   where wf_inv_full admits every record type with 0..255 payload bytes.  wf_inv differs from
   wf_inv_full ONLY in wf_rec: a record of type 0xC0 has >= 5 payload bytes, and >= 7 when its
   4th payload byte is 0x27 - pyipmi decodes every type-0xC0 record as a PICMG record (and
   0x27 as power module capability) by indexing past the record.  Witness: a 3-byte
   type-0xC0 OEM record at the end of the image is rejected with DecodingError. *)
Theorem C15_parse_enc_refuted :
  exists s, wf_inv_full s = true /\ bytes_ok (enc_inventory s) = true /\
            parse_inventory (enc_inventory s) = Err DecodingError.
Proof. exact parse_enc_full_refuted. Qed.
Print Assumptions C15_parse_enc_refuted.

(* ... and that image is a byte string (every bound of wf_inv is needed for this) *)
Theorem C15_enc_is_bytes : forall s, wf_inv s = true -> bytes_ok (enc_inventory s) = true.
Proof. exact enc_inventory_bytes. Qed.
Print Assumptions C15_enc_is_bytes.

(* the same for the area classes applied to exactly the area's bytes (what
   Fru.get_fru_chassis_area / board / product / multirecord hand to them) *)
Theorem C15_area_enc : forall dated nf a rest, wf_area dated nf a = true ->
  area_obj dated nf (enc_area dated a ++ rest) = Ok (Parsed (view_area dated a)).
Proof. exact area_obj_enc. Qed.
Print Assumptions C15_area_enc.

Theorem C15_multi_enc : forall rs, rs <> [] -> forallb wf_rec rs = true ->
  multi_obj (enc_recs rs) = Ok (MParsed (view_recs rs)).
Proof. exact multi_obj_enc. Qed.
Print Assumptions C15_multi_enc.

(* An image is accepted only if: the common header (8 bytes) sums to zero; every info
   area that was parsed sums to zero over the extent its own length byte states; every
   multi-record header (5 bytes) sums to zero and every record body together with its
   checksum byte sums to zero, the records lying back to back from the header's offset.
   (checksums_hold is spelled out in Proofs/FruChecksumProofs.v) *)
Theorem C15_accept_implies_checksums : forall img inv,
  parse_inventory img = Ok (Some inv) -> checksums_hold img inv.
Proof. exact accept_implies_checksums. Qed.
Print Assumptions C15_accept_implies_checksums.

(* Consequently: altering one byte that lies in the common header, in a parsed info
   area (other than the area's length byte, which decides the extent), or in the header
   or body of a parsed multi-record, makes the parser raise - for every accepted image,
   every such position and every new value. *)
Theorem C15_alteration_rejected : forall img inv i b,
  parse_inventory img = Ok (Some inv) -> bytes_ok img = true -> (i < length img)%nat ->
  covered inv i -> b < 256 -> b <> nth i img 0 ->
  exists e, parse_inventory (upd img i b) = Err e.
Proof. exact alteration_rejected. Qed.
Print Assumptions C15_alteration_rejected.

(* "Whether the image comes from a file or is read from a device" (C15 x C10).
   device_inventory = C10's model of Fru.get_fru_inventory (Model/FruIO.v: header read five
   times, _read_fru_area, the multi-record header scan, read_fru_data with its back-off)
   instantiated with the real area classes of Model/FruParse.v (Model/FruDevice.v).
   Hypotheses: the C10 reference device fru_dev in ANY state s with read limit >= 2 and a
   rejection code on which read_fru_data backs off (0xC8/0xC9/0xCA); fru id < 256; the memory of
   that id is the image of a well-formed inventory followed by ANY trailing bytes, at most 65535
   bytes in all; fuel (a model bound on the record-header scan) >= the number of records.
   Then the device path returns exactly the four areas of the encoded inventory - the same
   value parse_inventory (= FruInventory(image) / get_fru_inventory_from_file) gives on the
   memory -, the device state is unchanged, and every request names that fru id. *)
Theorem C15_device_reads_encoded : forall (s : frudev) (id : N),
  id < 256 -> 2 <= fd_limit s -> is_backoff_cc (fd_rej s) = true -> len (fd_mem s id) <= 65535 ->
  forall s0 tail fuel, wf_inv s0 = true -> fd_mem s id = enc_inventory s0 ++ tail -> (length (s_multi s0) <= fuel)%nat ->
  exists tr,
    run (device_inventory fuel id) fru_dev s [] = (Ok (areas_of (view_inventory s0)), s, tr) /\
    Forall (fun x => req_fru_id (fst x) = Some id) tr /\
    parse_inventory (fd_mem s id) = Ok (Some (view_inventory s0)).
Proof. exact device_reads_encoded. Qed.
Print Assumptions C15_device_reads_encoded.

(* The stronger "for EVERY memory the device path and parse_inventory agree" is false of the
   code and therefore not stated: the device path hands each area class exactly the area's
   bytes and turns a read past the end into the device's completion code, FruInventory(image)
   hands them the rest of the image and slices silently.  Witness (truncated image: the header
   names a chassis area where the image ends): attribute-less chassis object vs. CCError 0xC9.
   Truncated images are outside C15's domain (design.d/C15.md, observations). *)
Theorem C15_device_differs_on_truncated_image :
  (exists inv, parse_inventory (fd_mem truncated_dev 0) = Ok (Some inv) /\ i_chassis inv = Shell) /\
  fst (fst (run (device_inventory 1 0) fru_dev truncated_dev [])) = Err (CCError 0xc9).
Proof. exact device_differs_on_truncated. Qed.
Print Assumptions C15_device_differs_on_truncated_image.

(* trailing bytes after the image do not matter for the file path either *)
Theorem C15_parse_enc_tail_except_known : forall s tail, wf_inv s = true ->
  parse_inventory (enc_inventory s ++ tail) = Ok (Some (view_inventory s)).
Proof. exact parse_enc_tail. Qed.
Print Assumptions C15_parse_enc_tail_except_known.

(* the two loops of the model never run out of their fuel *)
Theorem C15_no_out_of_fuel : forall img, parse_inventory img <> Err OutOfFuel.
Proof. exact parse_inventory_fuel. Qed.
Print Assumptions C15_no_out_of_fuel.

(* non-vacuity: a well-formed inventory with all areas and all four encodings exists, its
   image is accepted, and positions of every kind are covered *)
Example C15_wf_somewhere :
  let s := mkSInv (hx "0102030405060708")
      (Some (mkSArea 23 0 [SText (bytes_of_string "CH-1"); SBcd (bytes_of_string "12-34.")] []))
      (Some (mkSArea 25 6451200 [SText (bytes_of_string "Kontron"); S6 (bytes_of_string "AM401");
                                 SBcd (bytes_of_string "0023"); SBin [1; 2; 3]; SText []]
                                [S6 (bytes_of_string "X1")]))
      (Some (mkSArea 0 0 [SText []; SText []; SText []; SText []; SText []; SText []; SText []] []))
      [mkSRec 2 [1; 2; 3]; mkSRec 0xc0 (hx "5a3100270000a401")] in
  wf_inv s = true /\
  parse_inventory (enc_inventory s) = Ok (Some (view_inventory s)) /\
  covered (view_inventory s) 3 /\ covered (view_inventory s) 18 /\ covered (view_inventory s) 95.
Proof. exact example_nonvacuous. Qed.

(* non-vacuity of C15_device_reads_encoded: read limit 2, rejection code 0xC8, the inventory
   above stored as FRU 3 and followed by erased bytes *)
Example C15_device_somewhere :
  3 < 256 /\ 2 <= fd_limit example_dev /\ is_backoff_cc (fd_rej example_dev) = true /\
  wf_inv example_inv = true /\ len (fd_mem example_dev 3) <= 65535 /\
  fst (fst (run (device_inventory 2 3) fru_dev example_dev [])) = Ok (areas_of (view_inventory example_inv)).
Proof. exact device_example. Qed.
