(* Hand model (H) of the three native send/receive loops, as functions of an EVENT
   SCRIPT (what the transport delivers, in order):
     pyipmi/interfaces/rmcp.py     Rmcp._send_and_receive, _inc_sequence_number
     pyipmi/interfaces/ipmbdev.py  IpmbDev._send_and_receive, _send_raw, _receive_raw
     pyipmi/interfaces/aardvark.py Aardvark._send_and_receive, _send_raw, _receive_raw
   at the level of IPMB frames: the RMCP / IPMI-session wrapping of a datagram
   (RmcpMsg / IpmiMsg pack, unpack) is property C05's subject and transparent here.
   Wall-clock time is NOT modelled: a time-out is the event [Nothing]; an exhausted
   script behaves like [Nothing] for ever.  Executable definitions only. *)
From Coq Require Import NArith List Bool.
From PyIpmi Require Import Lib.Res Lib.Bytes Model.Ipmb Model.Bridge.
Import ListNotations.
Open Scope N_scope.

Inductive event :=
| Frame (f : list N)   (* a frame arrives (recvfrom / select+os.read / poll+i2c_slave_read) *)
| Nothing              (* socket.timeout / select returns no descriptor / poll returns [] *)
| OsError.             (* OSError raised by the receive call *)

(* arguments of _send_and_receive(target, lun, netfn, cmdid, payload):
   target.ipmb_address, target.routing (None or [] = not bridged) *)
Record rxreq := mkRq { q_rs_sa : N; q_routing : list route; q_lun : N; q_netfn : N;
                       q_cmd : N; q_payload : list N }.

Definition frames_of (s : list event) : list (list N) :=
  flat_map (fun e => match e with Frame f => [f] | _ => [] end) s.

(* self.next_sequence_number = (self.next_sequence_number + 1) % 64  (all three) *)
Definition inc_seq (n : N) : N := (n + 1) mod 64.

(* ========================================================================= *)
(* RMCP                                                                       *)
(* ========================================================================= *)
(* interface state that _send_and_receive reads or writes *)
Record rmcp_state := mkRmcp {
  m_next_seq : N;               (* self.next_sequence_number *)
  m_queue : list (list N);      (* self._q, head = next get() *)
  m_max_retries : nat;          (* self.max_retries *)
  m_ignore_rq_seq : bool;       (* quirk rmcp_ignore_rq_seq *)
  m_slave : N                   (* self.slave_address *)
}.
(* quirk rmcp_ignore_sdu_length only changes IpmiMsg.unpack (C05); no effect here *)

(* header = IpmbHeaderReq(): netfn, rs_lun = lun, rs_sa = target.ipmb_address,
   rq_seq = self.next_sequence_number (already incremented), rq_lun = 0,
   rq_sa = self.slave_address, cmdid *)
Definition rmcp_header (seq slave : N) (r : rxreq) : hdr :=
  mkHdr (q_rs_sa r) (q_lun r) slave 0 seq (q_netfn r) (q_cmd r).

(* if target.routing: tx_data = encode_bridged_message(target.routing, header, payload,
                                                       self.next_sequence_number)
   else:              tx_data = encode_ipmb_msg(header, payload)
   Returns the header as the later rx_filter sees it (encode_bridged_message mutates
   rq_sa / rs_sa) and the frame to transmit. *)
Definition rmcp_prepare (seq slave : N) (r : rxreq) : res (hdr * list N) :=
  let h := rmcp_header seq slave r in
  match q_routing r with
  | [] => do tx <- encode_ipmb_msg h (q_payload r); Ok (h, tx)
  | rt => do h' <- bridged_header rt h;
          do tx <- encode_bridged rt h (q_payload r) seq;
          Ok (h', tx)
  end.

(* rx_filter(header, rx_data, rq_seq=not self.ignore_rq_seq) *)
Definition rmcp_opts (ignore_rq_seq : bool) : rxopts := mkOpts false false false true (negb ignore_rq_seq).

(* what the loop body does with one received (or queued) frame rx_data:
     if array('B', rx_data)[5] == constants.CMDID_SEND_MESSAGE:    # IndexError if < 6 bytes;
                                                                   # TypeError for the empty SDU (None)
         rx_data = decode_bridged_message(rx_data)                 # may raise
         if not rx_data: continue                                  # bare acknowledgement
     received = rx_filter(header, rx_data, rq_seq=...)             # may raise (1..5 bytes left) *)
Inductive verdict :=
| VMatch (x : list N)     (* received = True; rx_data = x *)
| VReject (x : list N)    (* received = False *)
| VAck                    (* continue, no counter touched *)
| VRaise (e : err).

Definition classify (h : hdr) (o : rxopts) (f : list N) : verdict :=
  match f with
  | [] => VRaise (OtherError TypeError)
  | _ =>
    match nth_error f 5 with
    | None => VRaise (OtherError IndexError)
    | Some c =>
      match (if c =? CMDID_SEND_MESSAGE then decode_bridged f else Ok f) with
      | Err e => VRaise e
      | Ok [] => VAck
      | Ok x =>
        match rx_filter h x o with
        | Err e => VRaise e
        | Ok true => VMatch x
        | Ok false => VReject x
        end
      end
    end
  end.

Inductive rx_result :=
| RxMatch (x : list N)    (* inner loop left with received = True *)
| RxTimeout               (* socket.timeout (RMCP) / IpmiTimeoutError or IOError (I2C) *)
| RxRaise (e : err).      (* any other exception: propagates to the caller *)

(* inner loop:
     received = False; received_retry = 0
     while received is False and received_retry <= self.max_retries:
         if not self._q.empty(): rx_data = self._q.get()
         else:                   rx_data = self._receive_ipmi_msg(...)   # socket.timeout / OSError
         <classify>
         if not received: self._q.put(rx_data)      # ORIGINAL code only ([requeue] = true);
                                                    # removed by fixes/F4-rmcp-requeue.diff
         received_retry += 1
     if not received: raise RetryError(...)
   [rr] = max_retries + 1 - received_retry.  An acknowledgement consumes an event but no
   counter, hence the fuel; rmcp_recv_fuel below always suffices
   (Proofs/RxLoopProofs.v: rmcp_recv_fuel_enough). *)
Fixpoint rmcp_recv (requeue : bool) (h : hdr) (o : rxopts) (fuel rr : nat)
         (q : list (list N)) (s : list event) : rx_result * list (list N) * list event :=
  match fuel with
  | O => (RxRaise OutOfFuel, q, s)
  | S fuel' =>
    match rr with
    | O => (RxRaise RetryError, q, s)
    | S rr' =>
      let '(ev, q1, s1) :=
        match q with
        | f :: q' => (Frame f, q', s)
        | [] => match s with
                | [] => (Nothing, [], [])
                | e :: s' => (e, [], s')
                end
        end in
      match ev with
      | Nothing => (RxTimeout, q1, s1)
      | OsError => (RxRaise (OtherError OtherExc), q1, s1)
      | Frame f =>
        match classify h o f with
        | VRaise e => (RxRaise e, q1, s1)
        | VAck => rmcp_recv requeue h o fuel' rr q1 s1
        | VMatch x => (RxMatch x, q1, s1)
        | VReject x => rmcp_recv requeue h o fuel' rr' (if requeue then q1 ++ [x] else q1) s1
        end
      end
    end
  end.

Definition rmcp_recv_fuel (rr : nat) (q : list (list N)) (s : list event) : nat :=
  S (rr + length q + length s).

(* outer loop:
     retry = 0
     while retry <= self.max_retries:
         try:
             self._send_ipmi_msg(tx_data)
             <inner loop>; break
         except socket.timeout: retry += 1
     if retry > self.max_retries: raise RetryError(...)
     return rx_data[6:-1]
   [n] = max_retries + 1 - retry *)
Fixpoint rmcp_attempts (requeue : bool) (h : hdr) (o : rxopts) (mr : nat) (tx : list N) (n : nat)
         (q : list (list N)) (s : list event) (sent : list (list N))
  : res (list N) * list (list N) * list event * list (list N) :=
  match n with
  | O => (Err RetryError, q, s, sent)
  | S n' =>
    let sent' := sent ++ [tx] in
    match rmcp_recv requeue h o (rmcp_recv_fuel (S mr) q s) (S mr) q s with
    | (RxMatch x, q', s') => (Ok (slice_6_m1 x), q', s', sent')
    | (RxTimeout, q', s') => rmcp_attempts requeue h o mr tx n' q' s' sent'
    | (RxRaise e, q', s') => (Err e, q', s', sent')
    end
  end.

(* Rmcp._send_and_receive: (outcome, interface state afterwards, frames written to the
   socket, unread rest of the script).  [requeue] = true is the code before the repair
   F4, false the repaired code. *)
Definition rmcp_send_receive_gen (requeue : bool) (st : rmcp_state) (r : rxreq) (s : list event)
  : res (list N) * rmcp_state * list (list N) * list event :=
  let seq := inc_seq (m_next_seq st) in
  let upd q := mkRmcp seq q (m_max_retries st) (m_ignore_rq_seq st) (m_slave st) in
  match rmcp_prepare seq (m_slave st) r with
  | Err e => (Err e, upd (m_queue st), [], s)
  | Ok (h, tx) =>
    let '(out, q', s', sent) :=
      rmcp_attempts requeue h (rmcp_opts (m_ignore_rq_seq st)) (m_max_retries st) tx
                    (S (m_max_retries st)) (m_queue st) s [] in
    (out, upd q', sent, s')
  end.

(* the code under test (after fixes/F4-rmcp-requeue.diff) *)
Definition rmcp_send_receive := rmcp_send_receive_gen false.
(* the code as found (unmatched frames re-queued) *)
Definition rmcp_send_receive_original := rmcp_send_receive_gen true.

(* ========================================================================= *)
(* ipmb-dev and Aardvark (same loop; they differ in how a frame reaches rx_filter) *)
(* ========================================================================= *)
Record i2c_state := mkI2c {
  i_next_seq : N;          (* self.next_sequence_number *)
  i_max_retries : nat;     (* self.max_retries (3) *)
  i_slave : N              (* self.slave_address *)
}.

(* ipmbdev._receive_raw: rx_data = os.read(...)[1:]; log().debug(..., rx_data[3], ...) is
   evaluated eagerly (IndexError below 4 bytes); rx_filter(header, rx_data) *)
Definition ipmbdev_view (f : list N) : res (list N) :=
  if Nat.ltb (length f) 4 then Err (OtherError IndexError) else Ok f.

(* aardvark._receive_raw: (i2c_addr, rx_data) = self._dev.i2c_slave_read();
   rx_filter(header, array('B', [i2c_addr << 1]) + rx_data): the 7-bit I2C address
   loses bit 0 of the first frame byte *)
Definition aardvark_view (f : list N) : res (list N) :=
  match f with
  | [] => Ok [0]
  | a :: r => Ok (N.shiftl (N.shiftr a 1) 1 :: r)
  end.

(* _receive_raw: while not rsp_received:
       if timeout <= 0 or poll_returned_no_data: raise IpmiTimeoutError()
       <select / poll>: nothing -> poll_returned_no_data = True; continue
       <read>                                   # IOError
       rsp_received = rx_filter(header, frame)  # default options
   Unmatched frames are dropped and do not count. *)
Fixpoint i2c_recv (view : list N -> res (list N)) (h : hdr) (s : list event) : rx_result * list event :=
  match s with
  | [] => (RxTimeout, [])
  | Nothing :: s' => (RxTimeout, s')
  | OsError :: s' => (RxTimeout, s')        (* except IOError: pass - same path as a time-out *)
  | Frame f :: s' =>
    match view f with
    | Err e => (RxRaise e, s')
    | Ok x =>
      match rx_filter h x default_opts with
      | Err e => (RxRaise e, s')
      | Ok true => (RxMatch x, s')
      | Ok false => i2c_recv view h s'
      end
    end
  end.

(* retries = 0
   while retries < self.max_retries:
       try: self._send_raw(header, payload); rx_data = self._receive_raw(header); break
       except IpmiTimeoutError: pass
       except IOError: pass
       retries += 1; time.sleep(retries * 0.2)
   else: raise IpmiTimeoutError()
   return rx_data[5:-1]            # rx_data lost its first byte already: frame[6:-1]
   _send_raw encodes the frame on every attempt (an encoding error propagates). *)
Fixpoint i2c_attempts (view : list N -> res (list N)) (wire : list N -> list N) (h : hdr) (payload : list N)
         (n : nat) (s : list event) (sent : list (list N))
  : res (list N) * list event * list (list N) :=
  match n with
  | O => (Err TimeoutError, s, sent)
  | S n' =>
    match encode_ipmb_msg h payload with
    | Err e => (Err e, s, sent)
    | Ok tx =>
      let sent' := sent ++ [wire tx] in
      match i2c_recv view h s with
      | (RxMatch x, s') => (Ok (slice_6_m1 x), s', sent')
      | (RxTimeout, s') => i2c_attempts view wire h payload n' s' sent'
      | (RxRaise e, s') => (Err e, s', sent')
      end
    end
  end.

Definition i2c_send_receive (view : list N -> res (list N)) (wire : list N -> list N)
           (st : i2c_state) (r : rxreq) (s : list event)
  : res (list N) * i2c_state * list (list N) * list event :=
  let seq := inc_seq (i_next_seq st) in
  let st' := mkI2c seq (i_max_retries st) (i_slave st) in
  let h := rmcp_header seq (i_slave st) r in       (* same header assembly; target.routing is ignored *)
  let '(out, s', sent) := i2c_attempts view wire h (q_payload r) (i_max_retries st) s [] in
  (out, st', sent, s').

(* what reaches the wire: ipmb-dev writes the whole frame (behind a length byte);
   Aardvark addresses rs_sa >> 1 and writes frame[1:] *)
Definition ipmbdev_wire (tx : list N) : list N := tx.
Definition aardvark_wire (tx : list N) : list N :=
  match tx with [] => [] | a :: r => N.shiftl (N.shiftr a 1) 1 :: r end.

Definition ipmbdev_send_receive := i2c_send_receive ipmbdev_view ipmbdev_wire.
Definition aardvark_send_receive := i2c_send_receive aardvark_view aardvark_wire.

(* ------------------------------------------------------------------------- *)
(* the accessibility probe  is_ipmc_accessible(target)                         *)
(* ------------------------------------------------------------------------- *)
(* IpmbDev / Aardvark .is_ipmc_accessible (after fix e991e92):
     self._inc_sequence_number()               # the probe is a request of its own
     header = IpmbHeaderReq(): netfn = 6, rs_lun = 0, rs_sa = target.ipmb_address,
       rq_seq = self.next_sequence_number, rq_lun = 0, rq_sa = self.slave_address, cmdid = 1
     self._send_raw(header, None); self._receive_raw(header); return True
   One attempt, no retry: IpmiTimeoutError and IOError propagate. *)
Definition probe_header (st : i2c_state) (rs_sa : N) : hdr :=
  mkHdr rs_sa 0 (i_slave st) 0 (inc_seq (i_next_seq st)) NETFN_APP 1.

(* _receive_raw as called by the probe: like [i2c_recv], but an IOError is not caught *)
Fixpoint i2c_probe_recv (view : list N -> res (list N)) (h : hdr) (s : list event) : rx_result * list event :=
  match s with
  | [] => (RxTimeout, [])
  | Nothing :: s' => (RxTimeout, s')
  | OsError :: s' => (RxRaise (OtherError OtherExc), s')
  | Frame f :: s' =>
    match view f with
    | Err e => (RxRaise e, s')
    | Ok x =>
      match rx_filter h x default_opts with
      | Err e => (RxRaise e, s')
      | Ok true => (RxMatch x, s')
      | Ok false => i2c_probe_recv view h s'
      end
    end
  end.

(* outcome [Ok []] stands for "returned True" *)
Definition i2c_probe (view : list N -> res (list N)) (wire : list N -> list N)
           (st : i2c_state) (rs_sa : N) (s : list event)
  : res (list N) * i2c_state * list (list N) * list event :=
  let st' := mkI2c (inc_seq (i_next_seq st)) (i_max_retries st) (i_slave st) in
  let h := probe_header st rs_sa in
  match encode_ipmb_msg h [] with
  | Err e => (Err e, st', [], s)
  | Ok tx =>
    match i2c_probe_recv view h s with
    | (RxMatch _, s') => (Ok [], st', [wire tx], s')
    | (RxTimeout, s') => (Err TimeoutError, st', [wire tx], s')
    | (RxRaise e, s') => (Err e, st', [wire tx], s')
    end
  end.

(* class Rmcp defines no is_ipmc_accessible: Ipmi.is_ipmc_accessible raises AttributeError,
   nothing is written, no state changes *)
Definition rmcp_probe (st : rmcp_state) (rs_sa : N) (s : list event)
  : res (list N) * rmcp_state * list (list N) * list event :=
  (Err (OtherError AttributeError), st, [], s).

(* histories made of requests and probes on one interface object *)
Inductive step := SReq (r : rxreq) | SProbe (rs_sa : N).

Fixpoint i2c_run_steps (view : list N -> res (list N)) (wire : list N -> list N) (st : i2c_state)
         (carry : list event) (steps : list (step * list event))
  : list (res (list N) * list (list N) * nat) * i2c_state * list event :=
  match steps with
  | [] => ([], st, carry)
  | (k, s) :: rest =>
    let '(out, st', sent, unread) :=
      match k with
      | SReq r => i2c_send_receive view wire st r (carry ++ s)
      | SProbe a => i2c_probe view wire st a (carry ++ s)
      end in
    let '(outs, stf, c) := i2c_run_steps view wire st' unread rest in
    ((out, sent, O) :: outs, stf, c)
  end.

Fixpoint rmcp_run_steps (requeue : bool) (st : rmcp_state) (carry : list event)
         (steps : list (step * list event))
  : list (res (list N) * list (list N) * nat) * rmcp_state * list event :=
  match steps with
  | [] => ([], st, carry)
  | (k, s) :: rest =>
    let '(out, st', sent, unread) :=
      match k with
      | SReq r => rmcp_send_receive_gen requeue st r (carry ++ s)
      | SProbe a => rmcp_probe st a (carry ++ s)
      end in
    let '(outs, stf, c) := rmcp_run_steps requeue st' unread rest in
    ((out, sent, length (m_queue st')) :: outs, stf, c)
  end.

(* sequences of requests on one interface object: each request comes with the events
   that arrive while it is being served; unread events stay in front of the next ones *)
Fixpoint rmcp_run (requeue : bool) (st : rmcp_state) (carry : list event)
         (reqs : list (rxreq * list event))
  : list (res (list N) * list (list N) * nat) * rmcp_state * list event :=
  match reqs with
  | [] => ([], st, carry)
  | (r, s) :: rest =>
    let '(out, st', sent, unread) := rmcp_send_receive_gen requeue st r (carry ++ s) in
    let '(outs, stf, c) := rmcp_run requeue st' unread rest in
    ((out, sent, length (m_queue st')) :: outs, stf, c)
  end.

Fixpoint i2c_run (view : list N -> res (list N)) (wire : list N -> list N) (st : i2c_state)
         (carry : list event) (reqs : list (rxreq * list event))
  : list (res (list N) * list (list N) * nat) * i2c_state * list event :=
  match reqs with
  | [] => ([], st, carry)
  | (r, s) :: rest =>
    let '(out, st', sent, unread) := i2c_send_receive view wire st r (carry ++ s) in
    let '(outs, stf, c) := i2c_run view wire st' unread rest in
    ((out, sent, O) :: outs, stf, c)
  end.
