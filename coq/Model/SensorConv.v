(* Hand model (H) of the sensor reading conversion of pyipmi/sdr.py:
   SdrFullSensorRecord.convert_sensor_raw_to_value, convert_sensor_value_to_raw, lin.
   Executable definitions only.  Level (i): exact rational arithmetic (QArith); the
   floating-point level is Model/SensorConvF.v.

   convert_sensor_value_to_raw is modelled as repaired by fixes/F17-sensor-value-to-raw-inverse.diff
   (committed in /repo; the repaired lines are marked with the original text). *)
From Coq Require Import NArith ZArith List Bool QArith Qpower.
From PyIpmi Require Import Lib.Res.
Import ListNotations.
Open Scope Z_scope.

(* the attributes of the record the two methods read *)
Record sensor := mkSensor { s_fmt : N;      (* analog_data_format *)
                            s_lin : N;      (* linearization *)
                            s_m : Z; s_b : Z; s_k1 : Z; s_k2 : Z }.

(* the first half of convert_sensor_raw_to_value:
     if fmt == DATA_FMT_1S_COMPLEMENT (1): if raw & 0x80: raw = -((raw & 0x7f) ^ 0x7f)
     elif fmt == DATA_FMT_2S_COMPLEMENT (2): if raw & 0x80: raw = -((raw & 0x7f) ^ 0x7f) - 1 *)
Definition raw_signed (fmt raw : N) : Z :=
  if (fmt =? 1)%N then
    (if (N.land raw 0x80 =? 0)%N then Z.of_N raw else - Z.of_N (N.lxor (N.land raw 0x7f) 0x7f))
  else if (fmt =? 2)%N then
    (if (N.land raw 0x80 =? 0)%N then Z.of_N raw else - Z.of_N (N.lxor (N.land raw 0x7f) 0x7f) - 1)
  else Z.of_N raw.

(* 10**k, exact *)
Definition pow10 (k : Z) : Q := Qpower (10 # 1) k.

(* (self.m * raw + (self.b * 10**self.k1)) * 10**self.k2 *)
Definition linear_Q (s : sensor) (x : Z) : Q :=
  ((inject_Z (s_m s) * inject_Z x + inject_Z (s_b s) * pow10 (s_k1 s)) * pow10 (s_k2 s))%Q.

Section Lin.
  (* result values and the eleven non-trivial linearisation functions (libm through
     Python's math module) are parameters; of_Q embeds the exact linear result *)
  Variable V : Type.
  Variable of_Q : Q -> V.
  Variables f_ln f_log10 f_log2 f_exp f_exp10 f_exp2 f_1_x f_sqr f_cube f_sqrt f_cubert : V -> V.

  (* the lin property: dict lookup on linearization & 0x7f; KeyError -> DecodingError *)
  Definition lin (linearization : N) : res (V -> V) :=
    match N.land linearization 0x7f with
    | 1%N => Ok f_ln | 2%N => Ok f_log10 | 3%N => Ok f_log2 | 4%N => Ok f_exp
    | 5%N => Ok f_exp10 | 6%N => Ok f_exp2 | 7%N => Ok f_1_x | 8%N => Ok f_sqr
    | 9%N => Ok f_cube | 10%N => Ok f_sqrt | 11%N => Ok f_cubert
    | 0%N => Ok (fun x => x)
    | _ => Err DecodingError
    end.

  (* convert_sensor_raw_to_value(raw): None -> None; self.lin is looked up before the
     argument is evaluated *)
  Definition convert_sensor_raw_to_value (s : sensor) (raw : option N) : res (option V) :=
    match raw with
    | None => Ok None
    | Some r =>
        do L <- lin (s_lin s);
        Ok (Some (L (of_Q (linear_Q s (raw_signed (s_fmt s) r)))))
    end.
End Lin.

(* Python 3 round(): to nearest, ties to even; on an exact rational *)
Definition round_half_even (q : Q) : Z :=
  let n := Qnum q in
  let d := Z.pos (Qden q) in
  let fl := n / d in
  let r2 := 2 * (n mod d) in
  if r2 <? d then fl
  else if d <? r2 then fl + 1
  else if Z.even fl then fl else fl + 1.

(* convert_sensor_value_to_raw(value), REPAIRED (F17):
     if (self.linearization & 0x7f) is not L_LINEAR: raise NotImplementedError()
     raw = ((float(value) * 10**(-1 * self.k2)) - (self.b * 10**self.k1)) / self.m
              original: ((float(value) * 10**(-1 * self.k2)) / self.m) - (self.b * 10**self.k1)
     raw = int(round(raw))
     1's complement: if raw < 0: raw = (-raw ^ 0x7f) | 0x80          original: if value < 0
     2's complement: if raw < 0: raw = (-(raw + 1) ^ 0x7f) | 0x80    original: if value < 0
     if raw > 0xff: raise ValueError()
   Division by m = 0 raises ZeroDivisionError (OtherExc). *)
Definition convert_sensor_value_to_raw (s : sensor) (value : Q) : res Z :=
  if negb (N.land (s_lin s) 0x7f =? 0)%N then Err (OtherError NotImplementedErr)
  else if s_m s =? 0 then Err (OtherError OtherExc)
  else
    let rawq := ((value * pow10 (- s_k2 s) - inject_Z (s_b s) * pow10 (s_k1 s)) / inject_Z (s_m s))%Q in
    let raw := round_half_even rawq in
    let raw :=
      if (s_fmt s =? 1)%N then (if raw <? 0 then Z.lor (Z.lxor (- raw) 0x7f) 0x80 else raw)
      else if (s_fmt s =? 2)%N then (if raw <? 0 then Z.lor (Z.lxor (- (raw + 1)) 0x7f) 0x80 else raw)
      else raw in
    if raw >? 0xff then Err (OtherError ValueError) else Ok raw.
