(* Specification side of C06: a reference IPMI v1.5 BMC written as a CHECKER automaton.
   It parses every datagram by its own reading of the RMCP / session-header / IPMB
   formats, answers the session commands, and records the first rule a datagram breaks:
     - ping, Get Channel Authentication Capabilities, Get Session Challenge, Activate
       Session arrive in that order (a request may be repeated immediately: retransmission
       after a lost reply); the first three carry authentication type none, session id 0,
       sequence number 0;
     - the challenge request names the configured user and the strongest type that the
       BMC offers and the library implements (MD5 > password > none);
     - Activate Session: that type, the temporary id, a valid authentication code, and in
       its data the same type, the configured privilege level and the challenge;
     - afterwards every datagram: that type, the granted id, a valid code, a sequence
       number that starts inside the window [init, init+8] (mod 2^32, never 0) and is the
       successor (zero skipped on wrap) of the previous one;
     - Close Session names the granted id.
   This is not a model of any code in /repo.  The harness has a Python copy used to serve
   the real client; each run checks that both give the same replies and verdicts. *)
From Coq Require Import NArith List Bool.
From PyIpmi Require Import Lib.Res Lib.Bytes Model.Ipmb Model.Session.
Import ListNotations.
Open Scope N_scope.

Record bmcp := mkBmcP { b_caps : N; b_user : list N; b_pw : list N; b_priv : N;
                        b_tmp : N; b_chal : list N; b_sid : N; b_init : N }.

Inductive phase := P0 | P1 | P2 | P3 (a : N) | P4 (a : N) (last : option N) | P5.
Record bstate := mkB { b_ph : phase; b_viol : option N; b_cnt : N }.
Definition bmc_start := mkB P0 None 0.

(* violation codes *)
Definition V_MALFORMED := 1.   Definition V_ORDER := 2.       Definition V_PRESESSION_HDR := 3.
Definition V_CAPS_REQ := 4.    Definition V_AUTH_CHOICE := 5. Definition V_USER := 6.
Definition V_ACT_HDR := 7.     Definition V_ACT_CODE := 8.    Definition V_ACT_DATA := 9.
Definition V_SESS_HDR := 10.   Definition V_SEQ := 11.        Definition V_CODE := 12.
Definition V_CLOSE_ID := 13.   Definition V_PRIV := 14.

Definition flag (s : bstate) (ph : phase) (v : N) : bstate :=
  mkB ph (match b_viol s with Some x => Some x | None => Some v end) (b_cnt s).

Record parsed := mkP { p_auth : N; p_seqb : list N; p_sidb : list N; p_code : list N; p_frame : list N }.

Definition zpad16 (p : list N) : list N := p ++ repeat 0 (16 - length p).

(* RMCP header 06 00 ff 07, session header, length byte consistent with the datagram *)
Definition bmc_parse (dg : list N) : option parsed :=
  if negb ((nth 0 dg 0 =? 6) && (nth 1 dg 0 =? 0) && (nth 2 dg 0 =? 0xff) && (nth 3 dg 0 =? 7)) then None
  else
    let a := nth 4 dg 0 in
    let off := if a =? 0 then 14%nat else 30%nat in
    if Nat.ltb (length dg) off then None
    else if negb (nth (off - 1) dg 0 =? N.of_nat (length dg - off)) then None
    else Some (mkP a (firstn 4 (skipn 5 dg)) (firstn 4 (skipn 9 dg))
                   (if a =? 0 then [] else firstn 16 (skipn 13 dg)) (skipn off dg)).

(* IPMB request frame addressed to the BMC (0x20) with both checksums valid:
   (netfn, lun, cmd, data) *)
Definition ipmb_parse (f : list N) : option (N * N * N * list N) :=
  match f with
  | rs :: b1 :: c1 :: rq :: b4 :: cmd :: rest =>
      if Nat.ltb (length rest) 1 then None
      else if negb ((rs =? 0x20) && (sum256 [rs; b1; c1] =? 0) && (sum256 (rq :: b4 :: cmd :: rest) =? 0)) then None
      else Some (b1 / 4, b1 mod 4, cmd, firstn (length rest - 1) rest)
  | _ => None
  end.

Section WithMd5.
Variable md5 : list N -> list N.

(* the code a datagram of type a must carry, over its own id / sequence number bytes *)
Definition bmc_code (a : N) (pw sidb seqb frame : list N) : list N :=
  if a =? 0 then []
  else if a =? 4 then zpad16 pw
  else md5 (zpad16 pw ++ sidb ++ frame ++ seqb ++ zpad16 pw).

(* strongest type offered (support bits) and implemented by the library *)
Definition best (caps : N) : option N :=
  if N.testbit caps 2 then Some 2 else if N.testbit caps 4 then Some 4
  else if N.testbit caps 0 then Some 0 else None.

Definition succ32 (n : N) : N := if n =? 0xffffffff then 1 else n + 1.
Definition seq_ok (init : N) (last : option N) (seq : N) : bool :=
  negb (seq =? 0) &&
  match last with
  | None => (seq + 0x100000000 - init) mod 0x100000000 <=? 8
  | Some l => seq =? succ32 l
  end.

Definition null_hdr (p : parsed) : bool :=
  (p_auth p =? 0) && (le_val (p_seqb p) =? 0) && (le_val (p_sidb p) =? 0).

Definition pong : list N :=
  [6; 0; 0xff; 6; 0; 0; 0x11; 0xbe; 0x40; 0; 0; 0x10; 0; 0; 0x11; 0xbe; 0; 0; 0; 0; 0x81; 0; 0; 0; 0; 0; 0; 0].
Definition ping_dgram : list N := [6; 0; 0xff; 6; 0; 0; 0x11; 0xbe; 0x80; 0; 0; 0].

(* Activate Session under type a: header (type, temporary id), code, data (type, privilege,
   challenge) *)
Definition bmc_activate (p : bmcp) (s : bstate) (pp : parsed) (data : list N) (a : N) : bstate * lreply :=
  let rsp := LData ([0; a] ++ le_bytes 4 (b_sid p) ++ le_bytes 4 (b_init p) ++ [b_priv p]) in
  let ph := P4 a None in
  if negb ((p_auth pp =? a) && (le_val (p_sidb pp) =? b_tmp p)) then (flag s ph V_ACT_HDR, rsp)
  else if negb (bytes_eqb (p_code pp) (bmc_code a (b_pw p) (p_sidb pp) (p_seqb pp) (p_frame pp)))
    then (flag s ph V_ACT_CODE, rsp)
  else if negb (Nat.eqb (length data) 22 && (nth 0 data 0 =? a) && (nth 1 data 0 =? b_priv p)
                && bytes_eqb (firstn 16 (skipn 2 data)) (b_chal p))
    then (flag s ph V_ACT_DATA, rsp)
  else (mkB ph (b_viol s) (b_cnt s), rsp).

(* the rules, on a parsed datagram pp carrying the IPMB request (netfn, lun, cmd, data).  A
   handshake request may be REPEATED while the automaton is in the phase that request leads to
   (its reply was lost; with max_retries > 0 the console re-sends after the time-out): it is
   checked and answered again. *)
Definition bmc_logic (p : bmcp) (s : bstate) (pp : parsed) (netfn lun cmd : N) (data : list N) : bstate * lreply :=
  if (netfn =? 6) && (cmd =? 0x38) then
    let rsp := LData [0; 1; b_caps p; 0; 0; 0; 0; 0; 0] in
    match b_ph s with
    | P1 | P2 =>          (* P2: the reply was lost and the console sends the request again *)
      if negb (null_hdr pp) then (flag s P2 V_PRESESSION_HDR, rsp)
      else match data with
           | [c; pr] => if (N.land c 0xf =? 0xe) && (pr =? b_priv p)
                        then (mkB P2 (b_viol s) (b_cnt s), rsp) else (flag s P2 V_CAPS_REQ, rsp)
           | _ => (flag s P2 V_CAPS_REQ, rsp)
           end
    | _ => (flag s P2 V_ORDER, rsp)
    end
  else if (netfn =? 6) && (cmd =? 0x39) then
    match data with
    | a :: user =>
      let rsp := LData ([0] ++ le_bytes 4 (b_tmp p) ++ b_chal p) in
      match b_ph s with
      | P2 | P3 _ =>      (* P3: retransmission after a lost reply *)
        if negb (null_hdr pp) then (flag s (P3 a) V_PRESESSION_HDR, rsp)
        else if match best (b_caps p) with Some b => negb (a =? b) | None => false end
          then (flag s (P3 a) V_AUTH_CHOICE, rsp)
        else if negb (bytes_eqb user (zpad16 (b_user p))) then (flag s (P3 a) V_USER, rsp)
        else (mkB (P3 a) (b_viol s) (b_cnt s), rsp)
      | _ => (flag s (P3 a) V_ORDER, rsp)
      end
    | [] => (flag s (b_ph s) V_MALFORMED, LData [0xc7])
    end
  else if (netfn =? 6) && (cmd =? 0x3a) then
    match b_ph s with
    | P3 a => bmc_activate p s pp data a
    | P4 a None => bmc_activate p s pp data a      (* retransmission after a lost reply *)
    | _ => (flag s (b_ph s) V_ORDER, LData [0x81])
    end
  else
    match b_ph s with
    | P4 a last =>
      let seq := le_val (p_seqb pp) in
      let ph := P4 a (Some seq) in
      let s1 :=
        if negb ((p_auth pp =? a) && (le_val (p_sidb pp) =? b_sid p)) then flag s ph V_SESS_HDR
        else if negb (seq_ok (b_init p) last seq) then flag s ph V_SEQ
        else if negb (bytes_eqb (p_code pp) (bmc_code a (b_pw p) (p_sidb pp) (p_seqb pp) (p_frame pp)))
          then flag s ph V_CODE
        else mkB ph (b_viol s) (b_cnt s + 1) in
      if (netfn =? 6) && (cmd =? 0x3b) then
        match data with
        | [pr] => if pr =? b_priv p then (s1, LData [0; pr]) else (flag s1 ph V_PRIV, LData [0; pr])
        | _ => (flag s1 ph V_PRIV, LData [0xc7])
        end
      else if (netfn =? 6) && (cmd =? 0x3c) then
        if bytes_eqb data (le_bytes 4 (b_sid p)) then (mkB P5 (b_viol s1) (b_cnt s1), LData [0])
        else (flag s1 ph V_CLOSE_ID, LData [0x87])
      else (s1, LData (0 :: data))
    | _ => (flag s (b_ph s) V_ORDER, LTimeout)
    end.

Definition bmc_step (p : bmcp) (s : bstate) (dg : list N) : bstate * lreply :=
  if bytes_eqb dg ping_dgram then (mkB P1 (b_viol s) (b_cnt s), LData pong)
  else
  match bmc_parse dg with
  | None => (flag s (b_ph s) V_MALFORMED, LTimeout)
  | Some pp =>
    match ipmb_parse (p_frame pp) with
    | None => (flag s (b_ph s) V_MALFORMED, LTimeout)
    | Some (netfn, lun, cmd, data) => bmc_logic p s pp netfn lun cmd data
    end
  end.

End WithMd5.
