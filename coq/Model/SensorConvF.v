(* Level (ii) of the C17 model: the linear pipeline of convert_sensor_raw_to_value and
   convert_sensor_value_to_raw in IEEE-754 binary64 (Coq's primitive floats: the same
   round-to-nearest-even operations CPython's float uses), operation by operation in
   Python's evaluation order, so that results can be compared bit for bit.
   Executable definitions only.

   Python facts used (checked by the harness on every run, checker chk_pow10):
     10**k  for an int k >= 0 is an int (exact; converted exactly when it meets a float,
            all values here are below 2**53);
     10**k  for an int k < 0 is the float pow(10.0, k) = the binary64 nearest to 10^k. *)
From Coq Require Import NArith ZArith List Bool QArith Floats Uint63.
From PyIpmi Require Import Lib.Res Model.SensorConv.
Import ListNotations.
Open Scope Z_scope.

(* float(z) for |z| < 2^53: exact *)
Definition of_Z (z : Z) : float :=
  if z <? 0 then PrimFloat.opp (PrimFloat.of_uint63 (Uint63.of_Z (- z)))
  else PrimFloat.of_uint63 (Uint63.of_Z z).

(* the float n * 2^e (how the harness hands a Python float to Coq; |n| < 2^53) *)
Definition mkf (n e : Z) : float := Z.ldexp (of_Z n) e.

(* 10**k for k = -1 .. -8 *)
Definition pow10_neg (k : Z) : float :=
  match k with
  | -1 => 0x1.999999999999ap-4 | -2 => 0x1.47ae147ae147bp-7 | -3 => 0x1.0624dd2f1a9fcp-10
  | -4 => 0x1.a36e2eb1c432dp-14 | -5 => 0x1.4f8b588e368f1p-17 | -6 => 0x1.0c6f7a0b5ed8dp-20
  | -7 => 0x1.ad7f29abcaf48p-24 | -8 => 0x1.5798ee2308c3ap-27
  | _ => PrimFloat.nan
  end%float.

(* 10**k as the operand of a float multiplication *)
Definition pow10_F (k : Z) : float := if 0 <=? k then of_Z (10 ^ k) else pow10_neg k.

(* self.b * 10**self.k1, as it then enters a float addition / subtraction:
   int * int (exact) for k1 >= 0, float(b) * 10**k1 for k1 < 0 *)
Definition bterm_F (s : sensor) : float :=
  if 0 <=? s_k1 s then of_Z (s_b s * 10 ^ s_k1 s)
  else PrimFloat.mul (of_Z (s_b s)) (pow10_neg (s_k1 s)).

(* (self.m * float(raw) + (self.b * 10**self.k1)) * 10**self.k2 *)
Definition linear_F (s : sensor) (x : Z) : float :=
  PrimFloat.mul (PrimFloat.add (PrimFloat.mul (of_Z (s_m s)) (of_Z x)) (bterm_F s)) (pow10_F (s_k2 s)).

(* convert_sensor_raw_to_value for linearization 0 and a present reading *)
Definition convert_raw_F (s : sensor) (raw : N) : float := linear_F s (raw_signed (s_fmt s) raw).

(* exact value of a finite float; None for infinities and NaN *)
Definition Q_of_float (f : float) : option Q :=
  match Prim2SF f with
  | S754_zero _ => Some 0%Q
  | S754_finite sg m e =>
      let v := (inject_Z (Z.pos m) * Qpower (2 # 1) e)%Q in
      Some (if sg then Qopp v else v)
  | _ => None
  end.

(* convert_sensor_value_to_raw (REPAIRED, F17) on a float value:
     raw = ((float(value) * 10**(-1 * self.k2)) - (self.b * 10**self.k1)) / self.m
     raw = int(round(raw))      (OverflowError / ValueError on inf / nan -> OtherExc)
   then the sign handling and the range check of the exact model *)
Definition convert_value_F (s : sensor) (value : float) : res Z :=
  if negb (N.land (s_lin s) 0x7f =? 0)%N then Err (OtherError NotImplementedErr)
  else if s_m s =? 0 then Err (OtherError OtherExc)
  else
    let rawf := PrimFloat.div (PrimFloat.sub (PrimFloat.mul value (pow10_F (- s_k2 s))) (bterm_F s))
                              (of_Z (s_m s)) in
    match Q_of_float rawf with
    | None => Err (OtherError OtherExc)
    | Some q =>
        let raw := round_half_even q in
        let raw :=
          if (s_fmt s =? 1)%N then (if raw <? 0 then Z.lor (Z.lxor (- raw) 0x7f) 0x80 else raw)
          else if (s_fmt s =? 2)%N then (if raw <? 0 then Z.lor (Z.lxor (- (raw + 1)) 0x7f) 0x80 else raw)
          else raw in
        if raw >? 0xff then Err (OtherError ValueError) else Ok raw
    end.
