(* C07 - reference BMC: the command semantics of the IPMI 2.0 / PICMG 3.0 commands that the
   covered API operations use, written INDEPENDENTLY of the library by byte position from
   the specifications' command tables (it does not use the generated layouts or any
   pyipmi message class).  The Python twin harness/bmc_ref.py is the same machine; on every
   run the recorded exchanges of the twin are replayed through [bmc_handle] inside Coq.

   State: a store from object keys (kind, a, b) to byte strings, newest binding first;
   unset objects have the default of their kind.  Executable definitions only. *)
From Coq Require Import NArith List Bool.
From PyIpmi Require Import Lib.Res Lib.Bytes Lib.Prog.
Import ListNotations.
Open Scope N_scope.

Definition key := (N * N * N)%type.
Definition key_eqb (x y : key) : bool :=
  let '(a, b, c) := x in let '(d, e, f) := y in (a =? d) && (b =? e) && (c =? f).
Definition store := list (key * list N).

Fixpoint lookup (s : store) (k : key) : option (list N) :=
  match s with
  | [] => None
  | (k', v) :: r => if key_eqb k k' then Some v else lookup r k
  end.
Definition put (s : store) (k : key) (v : list N) : store := (k, v) :: s.

(* object kinds *)
Definition K_DEVID := 1.   Definition K_GUID := 2.
Definition K_WD := 3.      (* [use|dont_log, actions, pre-timeout interval, expiration flags, countdown lsb, msb] *)
Definition K_WDRUN := 4.   Definition K_WDPRES := 5.   Definition K_WDINIT := 6.
Definition K_CHASSIS := 10. (* [current power state, last power event, misc state, front panel] *)
Definition K_LASTCTL := 11.
Definition K_BOOT := 12.   (* a = parameter *)
Definition K_BOOTINV := 13.
Definition K_LAN := 14.    (* a = channel, b = parameter *)
Definition K_UNAME := 15.  (* a = user id: 16 bytes *)
Definition K_UPW := 16.    Definition K_UEN := 17.
Definition K_UACC := 18.   (* a = user id, b = channel: [flags (bits 6,5,4), privilege limit, session limit] *)
Definition K_EVRCV := 20.  (* [slave address byte, lun] *)
Definition K_EVENT := 21.  (* the last platform event message received *)
Definition K_SENS := 22.   (* a = lun, b = sensor number: [reading, flags, states1, states2] *)
Definition K_THR := 23.    (* a = lun, b = sensor number: [lnc, lcr, lnr, unc, ucr, unr] *)
Definition K_THRMASK := 24.
Definition K_PICMG := 30.  Definition K_FRUCTL := 31.
Definition K_LED := 32.    (* a = fru, b = led: [states, local fn, local on, local color, ovr fn, ovr on, ovr color, lamp test duration] *)
Definition K_FAN := 33.    (* a = fru: [override level, local level] *)
Definition K_POLICY := 34. (* a = fru: [bit0 locked, bit1 deactivation locked] *)
Definition K_ACT := 35.
Definition K_PWRLVL := 36. (* a = fru, b = power type: [properties, delay, multiplier, draw...] *)
Definition K_FANPROP := 37.
Definition K_RESET := 40.
Definition K_HPMCAP := 41. (* [HPM.1 version, capabilities, upgrade, selftest, rollback, inaccessibility timeout, components] *)
Definition K_HPMSTAT := 42. (* [command in progress, last completion code] *)
Definition K_SELFTEST := 43. (* [result 1, result 2] *)
Definition K_COMPPROP := 44. (* a = component, b = property selector: property data *)
Definition K_PORT := 50.      (* a = interface, b = channel: [link info byte 0..3, state]; no link: [] *)
Definition K_SIGCLASS := 51.  (* a = interface, b = channel: [signaling class] *)
Definition K_PWRCHST := 52.   (* a = power channel: [status: b0 present, b1 MP enabled, b2 MP overcurrent, b3 ENABLE#, b4 PWR enabled, b5 PWR overcurrent, b6 PWR_ON] *)
Definition K_PWRCHCTL := 53.  (* a = power channel: [current limit, primary PM, redundant PM] *)
Definition K_PMGLOBAL := 54.  (* [max power channel number, global status] *)
Definition K_HEARTBEAT := 55. (* [timeout, PS1] *)
Definition K_AUTHCAP := 56.   (* a = channel: [auth type support, status, extended capabilities, OEM id x3, OEM aux] *)
Definition K_ROLLBACK := 57.  (* [rollback status (, completion estimate)] *)
Definition K_ROLLBACKREQ := 58.
Definition K_DCMICAP := 60.   (* a = parameter selector: parameter data *)
Definition K_DCMIPWR := 61.   (* power reading: current, min, max, average (2 each), timestamp, period (4 each), state *)
Definition K_I2CMEM := 62.    (* a = bus byte, b = slave address byte: what the device returns *)
Definition K_I2CW := 63.      (* a = bus byte, b = slave address byte: the last bytes written *)

Definition zeros (n : nat) : list N := repeat 0 n.

Definition default (k : key) : list N :=
  let '(kind, a, b) := k in
  if kind =? K_DEVID then [0x12; 0x81; 0x02; 0x35; 0x02; 0xbf; 0x98; 0x3a; 0x00; 0x34; 0x12; 1; 2; 3; 4]
  else if kind =? K_GUID then [1; 2; 3; 4; 5; 6; 7; 8; 9; 10; 11; 12; 13; 14; 15; 16]
  else if kind =? K_WD then zeros 6
  else if kind =? K_WDRUN then [0] else if kind =? K_WDPRES then [0; 0] else if kind =? K_WDINIT then [0]
  else if kind =? K_CHASSIS then [0x20; 0x00; 0x00; 0x00]
  else if kind =? K_BOOT then (if a =? 5 then zeros 5 else [])
  else if kind =? K_BOOTINV then [0]
  else if kind =? K_LAN then (if b =? 3 then zeros 4 else if b =? 4 then [0] else if b =? 5 then zeros 6
                              else if b =? 20 then [0; 0] else [])
  else if kind =? K_UNAME then zeros 16
  else if kind =? K_UPW then zeros 16
  else if kind =? K_UEN then [0]
  else if kind =? K_UACC then [0; 0x0f; 0]
  else if kind =? K_EVRCV then [0x40; 0]
  else if kind =? K_SENS then [0; 0xc0; 0; 0]
  else if kind =? K_THR then zeros 6
  else if kind =? K_THRMASK then [0x3f]
  else if kind =? K_PICMG then [0x22; 3; 0]
  else if kind =? K_LED then [0x01; 0; 0; 1; 0; 0; 0; 0]
  else if kind =? K_FAN then [0xff; 2]
  else if kind =? K_POLICY then [0]
  else if kind =? K_ACT then [0]
  else if kind =? K_PWRLVL then [0x01; 0; 1; 10; 20]
  else if kind =? K_FANPROP then [1; 10; 5; 0x80]
  else if kind =? K_HPMCAP then [1; 0x0f; 10; 20; 30; 40; 0x05]
  else if kind =? K_HPMSTAT then [0; 0]
  else if kind =? K_SELFTEST then [0x55; 0]
  else if kind =? K_COMPPROP then (if b =? 0 then [0x0e] else if b =? 1 then [1; 0x23; 0; 0; 0; 1]
                                  else if b =? 2 then [66; 79; 79; 84; 0; 0; 0; 0; 0; 0; 0; 0]
                                  else if b =? 3 then [1; 0x22; 0; 0; 0; 0] else [1; 0x24; 0; 0; 0; 2])
  else if kind =? K_SIGCLASS then [0]
  else if kind =? K_PWRCHST then [1]
  else if kind =? K_PWRCHCTL then [0; 0; 0]
  else if kind =? K_PMGLOBAL then [16; 6]
  else if kind =? K_HEARTBEAT then [0; 0]
  else if kind =? K_AUTHCAP then [0x97; 0; 3; 0; 0; 0; 0]
  else if kind =? K_ROLLBACK then [0]
  else if kind =? K_DCMICAP then [0; 1; 7]
  else if kind =? K_DCMIPWR then [100; 0; 50; 0; 200; 0; 120; 0; 1; 2; 3; 4; 232; 3; 0; 0; 0x40]
  else if kind =? K_I2CMEM then [0xa0; 0xa1; 0xa2; 0xa3; 0xa4; 0xa5; 0xa6; 0xa7]
  else [].

Definition get (s : store) (k : key) : list N :=
  match lookup s k with Some v => v | None => default k end.

Definition at_ (d : list N) (i : nat) : N := nth i d 0.
Definition bit (x : N) (i : N) : N := (x / 2 ^ i) mod 2.
Definition ok (s : store) (d : list N) : store * reply := (s, RBytes (0 :: d)).
Definition cc (s : store) (c : N) : store * reply := (s, RBytes [c]).
Definition longer (d : list N) (n : nat) : bool := Nat.leb n (length d).

(* number of enabled users among ids 1..10 *)
Definition enabled_count (s : store) : N :=
  N.of_nat (length (filter (fun u => at_ (get s (K_UEN, u, 0)) 0 =? 1) [1; 2; 3; 4; 5; 6; 7; 8; 9; 10])).

(* byte-wise (old AND NOT m) OR (v AND m) for one-byte values, by bits *)
Fixpoint merge_bits (n : nat) (old m v : N) : N :=
  match n with
  | O => 0
  | S n' => (if m mod 2 =? 1 then v mod 2 else old mod 2) + 2 * merge_bits n' (old / 2) (m / 2) (v / 2)
  end.

(* bit i of x set to v (0 / 1) *)
Definition setbit (x i v : N) : N := x - bit x i * 2 ^ i + v * 2 ^ i.

Definition set_nth_b (i : nat) (v : N) (l : list N) : list N :=
  firstn i l ++ [v] ++ skipn (S i) l.

(* ---- the commands ---- *)
Definition h_app (s : store) (cmd lun : N) (d : list N) : store * reply :=
  if cmd =? 0x01 then ok s (get s (K_DEVID, 0, 0))
  else if cmd =? 0x08 then ok s (get s (K_GUID, 0, 0))
  else if cmd =? 0x02 then ok (put s (K_RESET, 0, 0) [1]) []
  else if cmd =? 0x03 then ok (put s (K_RESET, 0, 0) [2]) []
  else if cmd =? 0x24 then                              (* Set Watchdog Timer *)
    if negb (Nat.eqb (length d) 6) then cc s 0xc7 else
    let old := get s (K_WD, 0, 0) in
    let flags := merge_bits 8 (at_ old 3) (at_ d 3) 0 in   (* a 1 clears the flag *)
    let cfg := [(at_ d 0) mod 8 + 128 * bit (at_ d 0) 7; (at_ d 1) mod 8 + 16 * ((at_ d 1 / 16) mod 8);
                at_ d 2; flags; at_ d 4; at_ d 5] in
    let s1 := put s (K_WD, 0, 0) cfg in
    let s2 := if bit (at_ d 0) 6 =? 0 then put s1 (K_WDRUN, 0, 0) [0] else s1 in
    ok (put s2 (K_WDINIT, 0, 0) [1]) []
  else if cmd =? 0x25 then                              (* Get Watchdog Timer *)
    let c := get s (K_WD, 0, 0) in
    let run := at_ (get s (K_WDRUN, 0, 0)) 0 in
    let pres := if run =? 1 then get s (K_WDPRES, 0, 0) else [at_ c 4; at_ c 5] in
    ok s ([at_ c 0 + 64 * run; at_ c 1; at_ c 2; at_ c 3; at_ c 4; at_ c 5] ++ pres)
  else if cmd =? 0x22 then                              (* Reset Watchdog Timer *)
    if at_ (get s (K_WDINIT, 0, 0)) 0 =? 0 then cc s 0x80 else
    let c := get s (K_WD, 0, 0) in
    ok (put (put s (K_WDRUN, 0, 0) [1]) (K_WDPRES, 0, 0) [at_ c 4; at_ c 5]) []
  else if cmd =? 0x45 then                              (* Set User Name *)
    if negb (Nat.eqb (length d) 17) then cc s 0xc7 else
    ok (put s (K_UNAME, at_ d 0 mod 64, 0) (skipn 1 d)) []
  else if cmd =? 0x46 then                              (* Get User Name *)
    if negb (longer d 1) then cc s 0xc7 else ok s (get s (K_UNAME, at_ d 0 mod 64, 0))
  else if cmd =? 0x47 then                              (* Set User Password *)
    if negb (longer d 2) then cc s 0xc7 else
    let uid := at_ d 0 mod 64 in let op := at_ d 1 mod 4 in
    if op =? 0 then ok (put s (K_UEN, uid, 0) [0]) []
    else if op =? 1 then ok (put s (K_UEN, uid, 0) [1]) []
    else if op =? 2 then
      if negb (Nat.eqb (length d) 18 || Nat.eqb (length d) 22) then cc s 0xc7
      else ok (put s (K_UPW, uid, 0) (skipn 2 d)) []
    else if bytes_eqb (skipn 2 d) (get s (K_UPW, uid, 0)) then ok s [] else cc s 0x80
  else if cmd =? 0x43 then                              (* Set User Access *)
    if negb (longer d 3) then cc s 0xc7 else
    let ch := at_ d 0 mod 16 in let uid := at_ d 1 mod 64 in
    let old := get s (K_UACC, uid, ch) in
    let flags := if bit (at_ d 0) 7 =? 1 then 16 * ((at_ d 0 / 16) mod 8) else at_ old 0 in
    let lim := if longer d 4 then at_ d 3 mod 16 else at_ old 2 in
    ok (put s (K_UACC, uid, ch) [flags; at_ d 2 mod 16; lim]) []
  else if cmd =? 0x44 then                              (* Get User Access *)
    if negb (longer d 2) then cc s 0xc7 else
    let ch := at_ d 0 mod 16 in let uid := at_ d 1 mod 64 in
    let a := get s (K_UACC, uid, ch) in
    let st := match lookup s (K_UEN, uid, 0) with
              | Some v => if at_ v 0 =? 1 then 1 else 2
              | None => 0
              end in
    ok s [10; enabled_count s + 64 * st; 1; at_ a 0 + at_ a 1]
  else if cmd =? 0x38 then                              (* Get Channel Authentication Capabilities *)
    if negb (longer d 2) then cc s 0xc7 else
    let ch := at_ d 0 mod 16 in ok s (ch :: get s (K_AUTHCAP, ch, 0))
  else if cmd =? 0x52 then                              (* Master Write-Read *)
    if negb (longer d 3) then cc s 0xc7 else
    let s1 := match skipn 3 d with [] => s | w => put s (K_I2CW, at_ d 0, at_ d 1) w end in
    ok s1 (firstn (N.to_nat (at_ d 2)) (get s (K_I2CMEM, at_ d 0, at_ d 1)))
  else cc s 0xc1.

Definition h_chassis (s : store) (cmd lun : N) (d : list N) : store * reply :=
  if cmd =? 0x01 then ok s (get s (K_CHASSIS, 0, 0))
  else if cmd =? 0x02 then                              (* Chassis Control *)
    if negb (longer d 1) then cc s 0xc7 else
    let o := at_ d 0 mod 16 in
    let st := get s (K_CHASSIS, 0, 0) in
    let ps := at_ st 0 in let on := ps mod 2 in
    let set_on := fun (v : N) (ev : N) =>
      put (put s (K_CHASSIS, 0, 0) [ps - on + v; ev; at_ st 2; at_ st 3]) (K_LASTCTL, 0, 0) [o] in
    if o =? 0 then ok (set_on 0 (at_ st 1)) []
    else if o =? 1 then ok (set_on 1 (at_ st 1 - 16 * bit (at_ st 1) 4 + 16)) []
    else if o =? 2 then (if on =? 0 then cc s 0xd5 else ok (set_on 1 (at_ st 1)) [])
    else if o =? 3 then ok (set_on on (at_ st 1)) []
    else if o =? 4 then ok (set_on on (at_ st 1)) []
    else if o =? 5 then ok (set_on 0 (at_ st 1)) []
    else cc s 0xcc
  else if cmd =? 0x08 then                              (* Set System Boot Options *)
    if negb (longer d 1) then cc s 0xc7 else
    let p := at_ d 0 mod 128 in
    let s1 := put s (K_BOOTINV, p, 0) [bit (at_ d 0) 7] in
    ok (match skipn 1 d with [] => s1 | data => put s1 (K_BOOT, p, 0) data end) []
  else if cmd =? 0x09 then                              (* Get System Boot Options *)
    if negb (longer d 3) then cc s 0xc7 else
    let p := at_ d 0 mod 128 in
    ok s ([0x01; p + 128 * at_ (get s (K_BOOTINV, p, 0)) 0] ++ get s (K_BOOT, p, 0))
  else cc s 0xc1.

Definition h_sensor (s : store) (cmd lun : N) (d : list N) : store * reply :=
  if cmd =? 0x00 then                                   (* Set Event Receiver *)
    if negb (longer d 2) then cc s 0xc7 else ok (put s (K_EVRCV, 0, 0) [at_ d 0; at_ d 1 mod 4]) []
  else if cmd =? 0x01 then ok s (get s (K_EVRCV, 0, 0))
  else if cmd =? 0x02 then                              (* Platform Event Message *)
    if negb (longer d 5) then cc s 0xc7 else ok (put s (K_EVENT, 0, 0) d) []
  else if cmd =? 0x2d then                              (* Get Sensor Reading *)
    if negb (longer d 1) then cc s 0xc7 else ok s (get s (K_SENS, lun, at_ d 0))
  else if cmd =? 0x26 then                              (* Set Sensor Thresholds *)
    if negb (Nat.eqb (length d) 8) then cc s 0xc7 else
    let old := get s (K_THR, lun, at_ d 0) in
    let m := at_ d 1 in
    let pick := fun (i : nat) => if bit m (N.of_nat i) =? 1 then at_ d (2 + i) else at_ old i in
    ok (put s (K_THR, lun, at_ d 0) [pick 0%nat; pick 1%nat; pick 2%nat; pick 3%nat; pick 4%nat; pick 5%nat]) []
  else if cmd =? 0x27 then                              (* Get Sensor Thresholds *)
    if negb (longer d 1) then cc s 0xc7 else
    ok s (get s (K_THRMASK, lun, at_ d 0) ++ get s (K_THR, lun, at_ d 0))
  else if cmd =? 0x2a then ok s []                      (* Re-arm Sensor Events *)
  else cc s 0xc1.

Definition h_transport (s : store) (cmd lun : N) (d : list N) : store * reply :=
  if cmd =? 0x01 then                                   (* Set LAN Configuration Parameters *)
    if negb (longer d 2) then cc s 0xc7 else ok (put s (K_LAN, at_ d 0 mod 16, at_ d 1) (skipn 2 d)) []
  else if cmd =? 0x02 then                              (* Get LAN Configuration Parameters *)
    if negb (longer d 4) then cc s 0xc7 else
    if bit (at_ d 0) 7 =? 1 then ok s [0x11]
    else ok s (0x11 :: get s (K_LAN, at_ d 0 mod 16, at_ d 1))
  else cc s 0xc1.

Definition h_picmg (s : store) (cmd lun : N) (d : list N) : store * reply :=
  if negb (longer d 1) || negb (at_ d 0 =? 0) then cc s 0xc1 else
  if cmd =? 0x00 then ok s (0 :: get s (K_PICMG, 0, 0))
  else if cmd =? 0x04 then                              (* FRU Control *)
    if negb (longer d 3) then cc s 0xc7 else ok (put s (K_FRUCTL, at_ d 1, 0) [at_ d 2]) [0]
  else if cmd =? 0x07 then                              (* Set FRU LED State *)
    if negb (Nat.eqb (length d) 6) then cc s 0xc7 else
    let k := (K_LED, at_ d 1, at_ d 2) in
    let l := get s k in
    let st := at_ l 0 in
    let fn := at_ d 3 in
    if fn =? 0xfc then ok (put s k (set_nth_b 0 (st mod 2) l)) [0]
    else if fn =? 0xfb then ok (put s k (set_nth_b 7 (at_ d 4) (set_nth_b 0 (st mod 4 + 4) l))) [0]
    else ok (put s k [st mod 2 + 2; at_ l 1; at_ l 2; at_ l 3; fn; at_ d 4; at_ d 5; at_ l 7]) [0]
  else if cmd =? 0x08 then                              (* Get FRU LED State *)
    if negb (longer d 3) then cc s 0xc7 else
    let l := get s (K_LED, at_ d 1, at_ d 2) in
    let st := at_ l 0 in
    ok s ([0; st; at_ l 1; at_ l 2; at_ l 3]
          ++ (if (bit st 1 =? 1) || (bit st 2 =? 1) then [at_ l 4; at_ l 5; at_ l 6] else [])
          ++ (if bit st 2 =? 1 then [at_ l 7] else []))
  else if cmd =? 0x0a then                              (* Set FRU Activation Policy *)
    if negb (longer d 4) then cc s 0xc7 else
    let old := at_ (get s (K_POLICY, at_ d 1, 0)) 0 in
    ok (put s (K_POLICY, at_ d 1, 0) [merge_bits 2 old (at_ d 2) (at_ d 3)]) [0]
  else if cmd =? 0x0b then                              (* Get FRU Activation Policy *)
    if negb (longer d 2) then cc s 0xc7 else ok s (0 :: get s (K_POLICY, at_ d 1, 0))
  else if cmd =? 0x0c then                              (* Set FRU Activation *)
    if negb (longer d 3) then cc s 0xc7 else ok (put s (K_ACT, at_ d 1, 0) [at_ d 2]) [0]
  else if cmd =? 0x12 then                              (* Get Power Level *)
    if negb (longer d 3) then cc s 0xc7 else ok s (0 :: get s (K_PWRLVL, at_ d 1, at_ d 2))
  else if cmd =? 0x14 then                              (* Get Fan Speed Properties *)
    if negb (longer d 2) then cc s 0xc7 else ok s (0 :: get s (K_FANPROP, at_ d 1, 0))
  else if cmd =? 0x15 then                              (* Set Fan Level *)
    if negb (longer d 3) then cc s 0xc7 else
    ok (put s (K_FAN, at_ d 1, 0) [at_ d 2; at_ (get s (K_FAN, at_ d 1, 0)) 1]) [0]
  else if cmd =? 0x16 then                              (* Get Fan Level *)
    if negb (longer d 2) then cc s 0xc7 else ok s (0 :: get s (K_FAN, at_ d 1, 0))
  else if cmd =? 0x2e then ok s (0 :: get s (K_HPMCAP, 0, 0))     (* HPM.1 Get Target Upgrade Capabilities *)
  else if cmd =? 0x34 then ok s (0 :: get s (K_HPMSTAT, 0, 0))    (* HPM.1 Get Upgrade Status *)
  else if cmd =? 0x36 then ok s (0 :: get s (K_SELFTEST, 0, 0))   (* HPM.1 Query Selftest Results *)
  else if cmd =? 0x2f then                              (* HPM.1 Get Component Properties *)
    if negb (longer d 3) then cc s 0xc7 else
    if 7 <? at_ d 1 then cc s 0x82 else if 4 <? at_ d 2 then cc s 0x83 else
    ok s (0 :: get s (K_COMPPROP, at_ d 1, at_ d 2))
  else if cmd =? 0x37 then ok s (0 :: get s (K_ROLLBACK, 0, 0))   (* HPM.1 Query Rollback Status *)
  else if cmd =? 0x38 then ok (put s (K_ROLLBACKREQ, 0, 0) [1]) [0]   (* HPM.1 Initiate Manual Rollback *)
  else if cmd =? 0x0e then                              (* Set Port State: link info (4 bytes), state *)
    if negb (Nat.eqb (length d) 6) then cc s 0xc7 else
    ok (put s (K_PORT, at_ d 1 / 64, at_ d 1 mod 64) [at_ d 1; at_ d 2; at_ d 3; at_ d 4; at_ d 5]) [0]
  else if cmd =? 0x0f then                              (* Get Port State *)
    if negb (longer d 2) then cc s 0xc7 else ok s (0 :: get s (K_PORT, at_ d 1 / 64, at_ d 1 mod 64))
  else if cmd =? 0x3b then                              (* Set Channel Signaling Class *)
    if negb (longer d 3) then cc s 0xc7 else
    ok (put s (K_SIGCLASS, at_ d 1 / 64, at_ d 1 mod 64) [at_ d 2 mod 16]) [0]
  else if cmd =? 0x3c then                              (* Get Channel Signaling Class *)
    if negb (longer d 2) then cc s 0xc7 else
    ok s [0; at_ d 1; at_ (get s (K_SIGCLASS, at_ d 1 / 64, at_ d 1 mod 64)) 0]
  else if cmd =? 0x24 then                              (* Power Channel Control *)
    if negb (Nat.eqb (length d) 6) then cc s 0xc7 else
    let st := at_ (get s (K_PWRCHST, at_ d 1, 0)) 0 in
    let c := at_ d 2 in
    if 5 <? c then cc s 0xcc else
    let st' := if c =? 0 then setbit st 1 0 else if c =? 1 then setbit st 1 1
               else if c =? 2 then setbit st 3 0 else if c =? 3 then setbit st 3 1
               else if c =? 4 then setbit st 4 0 else setbit st 4 1 in
    ok (put (put s (K_PWRCHST, at_ d 1, 0) [st']) (K_PWRCHCTL, at_ d 1, 0) [at_ d 3; at_ d 4; at_ d 5]) [0]
  else if cmd =? 0x25 then                              (* Get Power Channel Status *)
    if negb (longer d 3) then cc s 0xc7 else
    if 16 <? at_ d 2 then cc s 0xc9 else
    ok s (0 :: get s (K_PMGLOBAL, 0, 0) ++
          map (fun i => at_ (get s (K_PWRCHST, at_ d 1 + N.of_nat i, 0)) 0) (seq 0 (N.to_nat (at_ d 2))))
  else if cmd =? 0x28 then                              (* PM Heartbeat *)
    if negb (longer d 3) then cc s 0xc7 else ok (put s (K_HEARTBEAT, 0, 0) [at_ d 1; at_ d 2]) [0]
  else cc s 0xc1.

(* DCMI (group extension DCh) *)
Definition h_dcmi (s : store) (cmd lun : N) (d : list N) : store * reply :=
  if cmd =? 0x01 then                                   (* Get DCMI Capabilities Info *)
    if negb (longer d 2) then cc s 0xc7 else ok s ([0xdc; 1; 5; 2] ++ get s (K_DCMICAP, at_ d 1, 0))
  else if cmd =? 0x02 then                              (* Get Power Reading *)
    if negb (longer d 4) then cc s 0xc7 else ok s (0xdc :: get s (K_DCMIPWR, 0, 0))
  else cc s 0xc1.

Definition bmc_handle : device store := fun s r =>
  let nf := q_netfn r in
  if nf =? 0x06 then h_app s (q_cmd r) (q_lun r) (q_data r)
  else if nf =? 0x00 then h_chassis s (q_cmd r) (q_lun r) (q_data r)
  else if nf =? 0x04 then h_sensor s (q_cmd r) (q_lun r) (q_data r)
  else if nf =? 0x0c then h_transport s (q_cmd r) (q_lun r) (q_data r)
  else if nf =? 0x2c then
    (if at_ (q_data r) 0 =? 0xdc then h_dcmi s (q_cmd r) (q_lun r) (q_data r)
     else h_picmg s (q_cmd r) (q_lun r) (q_data r))
  else cc s 0xc1.
