(* Hand model (H) of the datagram layer of pyipmi/interfaces/rmcp.py and of
   pyipmi/session.py:Session.increment_sequence_number (C05, reused by C06):
   RmcpMsg.pack/unpack, AsfMsg/AsfPing.pack, AsfMsg.unpack + AsfPong.unpack/check_*,
   IpmiMsg._pack_session_id/_pack_sequence_number/_padd_password/_pack_auth_code_*,
   IpmiMsg.pack/unpack, Rmcp._send_rmcp_msg/_send_ipmi_msg/_receive_ipmi_msg/
   _receive_asf_msg.  Executable definitions only.
   [md5] (hashlib.md5(..).digest()) is a Section variable. *)
From Coq Require Import NArith List Bool.
From PyIpmi Require Import Lib.Res Lib.Bytes.
Import ListNotations.
Open Scope N_scope.

Definition AUTH_NONE := 0.
Definition AUTH_MD2 := 1.
Definition AUTH_MD5 := 2.
Definition AUTH_PASSWORD := 4.
Definition AUTH_OEM := 5.
Definition CLASS_ASF := 6.
Definition CLASS_IPMI := 7.

(* struct.error (an unrelated Python exception) *)
Definition struct_error {A} : res A := Err (OtherError OtherExc).

(* big-endian, as struct.pack('>I') / '!I' *)
Definition be_bytes (n : nat) (v : N) : list N := rev (le_bytes n v).
Definition be_val (l : list N) : N := le_val (rev l).

(* struct.pack('>I' | '!I', v): struct.error unless 0 <= v < 2**32 *)
Definition pack_I (v : N) : res (list N) :=
  if v <? 0x100000000 then Ok (be_bytes 4 v) else struct_error.
(* struct.pack('B', v) *)
Definition pack_B (v : N) : res (list N) := if v <? 256 then Ok [v] else struct_error.

(* ---------------- RmcpMsg ---------------- *)
(* RmcpMsg.pack(sdu, seq_number): struct.pack('!BxBB', 6, seq_number, class_of_msg) + sdu *)
Definition rmcp_pack (sdu : option (list N)) (seq cls : N) : res (list N) :=
  do s <- pack_B seq;
  do c <- pack_B cls;
  Ok ([6; 0] ++ s ++ c ++ match sdu with Some d => d | None => [] end).

(* RmcpMsg.unpack(pdu) -> (seq_number, class_of_msg, sdu); struct.unpack of pdu[:4] *)
Definition rmcp_unpack (pdu : list N) : res (N * N * list N) :=
  match pdu with
  | v :: _ :: s :: c :: sdu =>
      if v =? 6 then Ok (s, c, sdu) else Err DecodingError
  | _ => struct_error
  end.

(* Rmcp._send_rmcp_msg: the RMCP sequence number after a send *)
Definition rmcp_seq_next (s : N) : N := if s =? 255 then 255 else (s + 1) mod 254.

(* ---------------- ASF ---------------- *)
(* AsfMsg.pack: struct.pack('!IBBxB', iana, asf_type, tag, data_len) + data *)
Definition asf_pack (iana ty tag : N) (data : list N) : res (list N) :=
  do i <- pack_I iana;
  do t <- pack_B ty;
  do g <- pack_B tag;
  do l <- pack_B (N.of_nat (length data));
  Ok (i ++ t ++ g ++ [0] ++ l ++ data).

(* AsfPing().pack() *)
Definition asf_ping : res (list N) := asf_pack 4542 0x80 0 [].

(* AsfPong().unpack(sdu) = AsfMsg.unpack (header, length checks, check_header of
   AsfPong) then the data fields and check_data.  Returns (oem iana, oem defined,
   supported entities, supported interactions).  Neither the header's IANA number
   nor the tag is looked at by the code. *)
Definition asf_pong_unpack (sdu : list N) : res (N * N * N * N) :=
  match sdu with
  | _ :: _ :: _ :: _ :: ty :: _ :: _ :: dl :: rest =>
      let n := N.of_nat (length sdu) in
      if n <? 8 + dl then Err DecodingError              (* short SDU *)
      else if 8 + dl <? n then Err DecodingError         (* SDU has extra bytes *)
      else if negb (ty =? 0x40) then Err DecodingError   (* check_header: type *)
      else if dl =? 0 then Err (OtherError TypeError)    (* len(self.data) with data None *)
      else if negb (dl =? 16) then Err DecodingError     (* Data length mismatch *)
      else
        let data := firstn 16 rest in
        let oem_iana := be_val (firstn 4 data) in
        let oem_def := be_val (firstn 4 (skipn 4 data)) in
        let ent := nth 8 data 0 in
        let inter := nth 9 data 0 in
        if (oem_iana =? 4542) && negb (oem_def =? 0) then Err DecodingError
        else if negb (inter =? 0) then Err DecodingError
        else Ok (oem_iana, oem_def, ent, inter)
  | _ => struct_error
  end.

(* Rmcp._receive_asf_msg(AsfPong) on a whole datagram *)
Definition receive_pong (dgram : list N) : res (N * N * N * N) :=
  do '(_, cls, sdu) <- rmcp_unpack dgram;
  if negb (cls =? CLASS_ASF) then Err DecodingError else asf_pong_unpack sdu.

(* ---------------- Session (pyipmi/session.py) ---------------- *)
(* the attributes of a Session object read by IpmiMsg: auth_type (None possible:
   get_max_auth_type may return None), sid, sequence_number, activated,
   _auth_password (None when never set; str passwords are given UTF-8 encoded) *)
Record sess := mkSess { s_auth : option N; s_sid : N; s_seq : N; s_act : bool;
                        s_pw : option (list N) }.

(* Session.increment_sequence_number *)
Definition incr_seq (n : N) : N := let m := n + 1 in if 0xffffffff <? m then 1 else m.
Definition sess_incr (s : sess) : sess :=
  mkSess (s_auth s) (s_sid s) (incr_seq (s_seq s)) (s_act s) (s_pw s).

(* struct.unpack("<I", struct.pack(">I", v))[0] *)
Definition swap32 (v : N) : res N := do b <- pack_I v; Ok (le_val b).

Section WithMd5.
Variable md5 : list N -> list N.

(* IpmiMsg._pack_session_id / _pack_sequence_number *)
Definition pack_session_id (so : option sess) : res N :=
  swap32 (match so with Some s => s_sid s | None => 0 end).
Definition pack_sequence_number (so : option sess) : res N :=
  swap32 (match so with Some s => s_seq s | None => 0 end).

(* IpmiMsg._padd_password: password.ljust(16, b'\x00') (does not truncate) *)
Definition ljust16 (p : list N) : list N := p ++ repeat 0 (16 - length p).
Definition padd_password (so : option sess) : res (list N) :=
  match so with
  | Some s => match s_pw s with
              | Some p => Ok (ljust16 p)
              | None => Err (OtherError AttributeError)
              end
  | None => Err (OtherError AttributeError)
  end.

(* struct '16s': truncated / zero padded to exactly 16 bytes *)
Definition s16 (p : list N) : list N := firstn 16 (ljust16 p).

(* the bytes hashed by IpmiMsg._pack_auth_code_md5:
   struct.pack('>16s I %ds I 16s' % len(sdu), pw, sid', sdu, seq', pw) *)
Definition md5_preimage (so : option sess) (sdu : option (list N)) : res (list N) :=
  match sdu with
  | None => Err (OtherError TypeError)                 (* len(None) *)
  | Some d =>
      do pw1 <- padd_password so;
      do sid <- pack_session_id so;
      do sidb <- pack_I sid;
      do sq <- pack_sequence_number so;
      do sqb <- pack_I sq;
      do pw2 <- padd_password so;
      Ok (s16 pw1 ++ sidb ++ d ++ sqb ++ s16 pw2)
  end.
Definition pack_auth_code_md5 (so : option sess) (sdu : option (list N)) : res (list N) :=
  do pre <- md5_preimage so sdu; Ok (md5 pre).

(* IpmiMsg(session).pack(sdu): returns the session state afterwards (the sequence
   number is incremented first, and stays incremented when an exception follows) and
   the PDU or the exception *)
Definition ipmi_pack (so : option sess) (sdu : option (list N)) : option sess * res (list N) :=
  let data_len := match sdu with Some d => N.of_nat (length d) | None => 0 end in
  let so' := match so with
             | Some s => if s_act s then Some (sess_incr s) else Some s
             | None => None
             end in
  let auth := match so with Some s => s_auth s | None => Some AUTH_NONE end in
  (so',
   match auth with
   | None => struct_error                              (* 'B' of None *)
   | Some a =>
     do ab <- pack_B a;
     do sq <- pack_sequence_number so';
     do sqb <- pack_I sq;
     do sid <- pack_session_id so';
     do sidb <- pack_I sid;
     let hdr := ab ++ sqb ++ sidb in
     do code <- (if a =? AUTH_NONE then Ok []
                 else if a =? AUTH_PASSWORD then padd_password so'
                 else if a =? AUTH_MD5 then pack_auth_code_md5 so' sdu
                 else Err NotSupported);
     do lb <- (if data_len <? 256 then Ok [data_len] else Err (OtherError OtherExc));
     Ok (hdr ++ code ++ lb ++ match sdu with Some d => d | None => [] end)
   end).

(* Rmcp._send_ipmi_msg(data) + _send_rmcp_msg: the datagram handed to sendto,
   the session afterwards, the RMCP sequence number afterwards *)
Definition send_ipmi_msg (so : option sess) (rseq : N) (data : list N)
  : option sess * N * res (list N) :=
  let '(so', r) := ipmi_pack so (Some data) in
  match r with
  | Err e => (so', rseq, Err e)
  | Ok tx =>
      match rmcp_pack (Some tx) rseq CLASS_IPMI with
      | Ok d => (so', rmcp_seq_next rseq, Ok d)
      | Err e => (so', rseq, Err e)
      end
  end.

End WithMd5.

(* IpmiMsg(ignore_sdu_length=q).unpack(pdu) -> sdu (None for an empty one) *)
Definition ipmi_unpack (q : bool) (pdu : list N) : res (option (list N)) :=
  match pdu with
  | [] => Err (OtherError IndexError)
  | a :: _ =>
    let n := length pdu in
    let hl := if a =? 0 then 10%nat else 26%nat in
    if Nat.ltb n hl then struct_error     (* struct.error / IndexError on the short header *)
    else
      let dl := nth (hl - 1) pdu 0 in
      if q then
        let sdu := skipn hl pdu in
        Ok (match sdu with [] => None | _ => Some sdu end)
      else
        if N.of_nat n <? N.of_nat hl + dl then Err DecodingError
        else if N.of_nat hl + dl <? N.of_nat n then Err DecodingError
        else if dl =? 0 then Ok None
        else Ok (Some (firstn (N.to_nat dl) (skipn hl pdu)))
  end.

(* Rmcp._receive_ipmi_msg(ignore_sdu_length) on a whole datagram.  A datagram with an
   empty payload passes unpack (sdu None) and then array('B', None) in the debug-log
   argument raises TypeError. *)
Definition receive_ipmi_msg (q : bool) (dgram : list N) : res (list N) :=
  do '(_, cls, pdu) <- rmcp_unpack dgram;
  if negb (cls =? CLASS_IPMI) then Err DecodingError
  else
    do o <- ipmi_unpack q pdu;
    match o with Some d => Ok d | None => Err (OtherError TypeError) end.
