(* Hand model (H) of pyipmi/interfaces/ipmb.py: checksum, IpmbHeaderReq/Rsp
   encode/decode, encode_ipmb_msg, rx_filter.  Executable definitions only. *)
From Coq Require Import NArith List Bool.
From PyIpmi Require Import Lib.Res Lib.Bytes.
Import ListNotations.
Open Scope N_scope.

(* def checksum(data): return -sum(data) % 256 *)
Definition checksum (l : list N) : N := (256 - sum l mod 256) mod 256.

Record hdr := mkHdr { rs_sa : N; rs_lun : N; rq_sa : N; rq_lun : N;
                      rq_seq : N; netfn : N; cmdid : N }.

(* array('B').append(x) raises OverflowError unless 0 <= x < 256 *)
Definition arr_bytes (l : list N) : res (list N) :=
  if bytes_ok l then Ok l else Err (OtherError OtherExc).

(* IpmbHeaderReq.encode *)
Definition hdr_req_encode (h : hdr) : res (list N) :=
  let b1 := N.lor (N.shiftl (netfn h) 2) (rs_lun h) in
  arr_bytes [rs_sa h; b1; checksum [rs_sa h; b1]; rq_sa h;
             N.lor (N.shiftl (rq_seq h) 2) (rq_lun h); cmdid h].

(* IpmbHeaderRsp.encode *)
Definition hdr_rsp_encode (h : hdr) : res (list N) :=
  let b1 := N.lor (N.shiftl (netfn h) 2) (rq_lun h) in
  arr_bytes [rq_sa h; b1; checksum [rq_sa h; b1]; rs_sa h;
             N.lor (N.shiftl (rq_seq h) 2) (rs_lun h); cmdid h].

(* IpmbHeaderReq.decode: msg[0..5]; IndexError when shorter *)
Definition hdr_req_decode (d : list N) : res (hdr * N) :=
  match d with
  | d0 :: d1 :: d2 :: d3 :: d4 :: d5 :: _ =>
      Ok (mkHdr d0 (N.land d1 3) d3 (N.land d4 3) (N.shiftr d4 2) (N.shiftr d1 2) d5, d2)
  | _ => Err (OtherError IndexError)
  end.

(* IpmbHeaderRsp.decode *)
Definition hdr_rsp_decode (d : list N) : res (hdr * N) :=
  match d with
  | d0 :: d1 :: d2 :: d3 :: d4 :: d5 :: _ =>
      Ok (mkHdr d3 (N.land d4 3) d0 (N.land d1 3) (N.shiftr d4 2) (N.shiftr d1 2) d5, d2)
  | _ => Err (OtherError IndexError)
  end.

(* encode_ipmb_msg(header, data): header ++ data ++ [checksum(msg[3:])] *)
Definition encode_ipmb_msg (h : hdr) (data : list N) : res (list N) :=
  do hb <- hdr_req_encode h;
  do db <- arr_bytes data;
  let msg := hb ++ db in
  Ok (msg ++ [checksum (skipn 3 msg)]).

Record rxopts := mkOpts { o_rq_sa : bool; o_rs_sa : bool; o_rq_lun : bool;
                          o_rs_lun : bool; o_rq_seq : bool }.
Definition default_opts := mkOpts false false false true true.

(* rx_filter(header, data, rq_sa, rs_sa, rq_lun, rs_lun, rq_seq).
   IpmbHeaderRsp(data=data) decodes only "if data"; with empty data every field
   stays None and formatting the first mismatch raises TypeError. *)
Definition rx_filter (h : hdr) (data : list N) (o : rxopts) : res bool :=
  match data with
  | [] => Err (OtherError TypeError)
  | _ =>
    do '(r, _) <- hdr_rsp_decode data;
    Ok ( (checksum (firstn 3 data) =? 0)
      && (checksum (skipn 3 data) =? 0)
      && (netfn r =? N.lor (netfn h) 1)
      && (cmdid r =? cmdid h)
      && (if o_rq_sa o then rq_sa r =? rq_sa h else true)
      && (if o_rs_sa o then rs_sa r =? rs_sa h else true)
      && (if o_rq_lun o then rq_lun r =? rq_lun h else true)
      && (if o_rs_lun o then rs_lun r =? rs_lun h else true)
      && (if o_rq_seq o then rq_seq r =? rq_seq h else true))
  end.

(* ---- specification side (not library code): what a conforming responder sends ---- *)
Definition rsp_hdr_of (h : hdr) : hdr :=
  mkHdr (rs_sa h) (rs_lun h) (rq_sa h) (rq_lun h) (rq_seq h) (N.lor (netfn h) 1) (cmdid h).

(* the frame a conforming responder puts on the bus for request header [h]:
   IpmbHeaderRsp.encode of the mirrored header, the body, the payload checksum *)
Definition rsp_frame (h : hdr) (body : list N) : res (list N) :=
  do hb <- hdr_rsp_encode (rsp_hdr_of h);
  do db <- arr_bytes body;
  let msg := hb ++ db in
  Ok (msg ++ [checksum (skipn 3 msg)]).

