(* The three layers composed (C01 codec, C03 IPMB frame, C05 LAN datagram), as
   Rmcp.send_and_receive(req) composes them on the way out:
     encode_message(req) -> encode_ipmb_msg(header, payload) -> IpmiMsg.pack -> RmcpMsg.pack
   and an INDEPENDENT receiver (specification side: what a BMC does with the datagram):
     RMCP header -> IPMI session unwrap with the length check -> IPMB request header + data
     -> decode by the message's layout.
   Executable definitions only. *)
From Coq Require Import NArith List Bool.
From PyIpmi Require Import Lib.Res Lib.Bytes Model.Codec Model.Ipmb Model.Rmcp.
Import ListNotations.
Open Scope N_scope.

(* rx_data[6:-1] / what follows the six IPMB header bytes up to the checksum *)
Definition frame_data (f : list N) : list N := firstn (length f - 7) (skipn 6 f).

Section WithMd5.
Variable md5 : list N -> list N.

(* sender: the datagram handed to sendto for message layout [l] with field values [e]
   under IPMB header [h], session [so], RMCP sequence number [rseq] *)
Definition wire_send (l : layout) (e : env) (h : hdr) (so : option sess) (rseq : N)
  : option sess * N * res (list N) :=
  match encode l e with
  | Err x => (so, rseq, Err x)
  | Ok bs =>
    match encode_ipmb_msg h bs with
    | Err x => (so, rseq, Err x)
    | Ok f => send_ipmi_msg md5 so rseq f
    end
  end.
End WithMd5.

(* receiver of a request: header fields and field values *)
Definition wire_recv (l : layout) (dg : list N) : res (hdr * env) :=
  do f <- receive_ipmi_msg false dg;
  do '(h, _) <- hdr_req_decode f;
  do '(e, _) <- decode l (frame_data f);
  Ok (h, e).

(* client side of a reply: unwrap (quirk q), strip the IPMB header and checksum, decode *)
Definition wire_recv_rsp (q : bool) (l : layout) (dg : list N) : res env :=
  do f <- receive_ipmi_msg q dg;
  do '(e, _) <- decode l (frame_data f);
  Ok e.
