(* C10 - FRU data transfer: executable model of the Fru mix-in of pyipmi/fru.py
   (I/O methods only; the area parsers are property C15) and a Gallina FRU device.
   Definitions only, no proofs.

   The model follows the code of the tree *with fix F10 applied*
   (fixes/F10-multirecord-fru-id.diff): get_fru_multirecord_area passes fru_id to
   its two read_fru_data calls.  On the unrepaired tree the correspondence check and
   the oracle of harness/c10.py report exactly that difference. *)
From Coq Require Import NArith List Bool.
From PyIpmi Require Import Lib.Res Lib.Bytes Lib.Prog.
Import ListNotations.
Open Scope N_scope.

Definition len (l : list N) : N := N.of_nat (length l).
Definition slice (l : list N) (off cnt : N) : list N :=
  firstn (N.to_nat cnt) (skipn (N.to_nat off) l).

(* ---------------------------------------------------------------------------
   message layouts of pyipmi/msgs/fru.py (netfn Storage = 0x0a, lun 0)
   UnsignedInt(n) encodes little-endian and truncates (push_unsigned_int masks). *)
Definition NETFN_STORAGE : N := 0x0a.
Definition CMD_FRU_INFO : N := 0x10.
Definition CMD_FRU_READ : N := 0x11.
Definition CMD_FRU_WRITE : N := 0x12.

(* GetFruInventoryAreaInfoReq: fru_id(1) *)
Definition info_req (id : N) : request := mkReq NETFN_STORAGE CMD_FRU_INFO 0 (le_bytes 1 id).
(* ReadFruDataReq: fru_id(1) offset(2, LE) count(1) *)
Definition read_req (id off cnt : N) : request :=
  mkReq NETFN_STORAGE CMD_FRU_READ 0 (le_bytes 1 id ++ le_bytes 2 off ++ le_bytes 1 cnt).
(* WriteFruDataReq: fru_id(1) offset(2, LE) data(remaining) *)
Definition write_req (id off : N) (d : list N) : request :=
  mkReq NETFN_STORAGE CMD_FRU_WRITE 0 (le_bytes 1 id ++ le_bytes 2 off ++ d).

(* Message._decode + check_rsp_completion_code: a non-zero completion code stops the
   decoding and becomes CompletionCodeError; missing bytes ("Data too short") and
   left-over bytes ("Data has extra bytes") are DecodingError. *)
(* GetFruInventoryAreaInfoRsp: cc, area_size(2, LE), area_info(1) -> rsp.area_size *)
Definition dec_info (d : list N) : res N :=
  match d with
  | [] => Err DecodingError
  | cc :: r =>
      if cc =? 0 then
        match r with [a; b; _] => Ok (a + 256 * b) | _ => Err DecodingError end
      else Err (CCError cc)
  end.
(* ReadFruDataRsp: cc, count(1), data(count bytes) -> (rsp.count, rsp.data) *)
Definition dec_read (d : list N) : res (N * list N) :=
  match d with
  | [] => Err DecodingError
  | cc :: r =>
      if cc =? 0 then
        match r with
        | [] => Err DecodingError
        | c :: dat => if len dat =? c then Ok (c, dat) else Err DecodingError
        end
      else Err (CCError cc)
  end.
(* WriteFruDataRsp: cc, count_written(1) -> rsp.count_written *)
Definition dec_write (d : list N) : res N :=
  match d with
  | [] => Err DecodingError
  | cc :: r =>
      if cc =? 0 then match r with [w] => Ok w | _ => Err DecodingError end
      else Err (CCError cc)
  end.

(* Ipmi.send_message_with_name(name, **fields): build, send, decode, check the code.
   (An exception raised by the transport propagates; the retry on a *raised* node-busy
   code inside Ipmi.send_message is property C13 and is not exercised here.) *)
Definition send_msg {A} (r : request) (dec : list N -> res A) : prog A :=
  Send r (fun rp => match rp with RRaise e => Raise e | RBytes d => lift (dec d) end).

(* Fru.get_fru_inventory_area_info(fru_id) *)
Definition get_fru_inventory_area_info (id : N) : prog N := send_msg (info_req id) dec_info.

(* the three codes on which read_fru_data reduces the request size:
   ex.cc in (CC_CANT_RET_NUM_REQ_BYTES, CC_REQ_DATA_FIELD_EXCEED, CC_PARAM_OUT_OF_RANGE) *)
Definition is_backoff_cc (cc : N) : bool := (cc =? 0xca) || (cc =? 0xc8) || (cc =? 0xc9).

(* Fru.read_fru_data: the `while off < area_size` loop.
     if (off + req_size) > area_size: req_size = area_size - off
     try: rsp = ReadFruData(fru_id, offset=off, count=req_size)
     except CompletionCodeError: on the three codes  req_size -= 2; if req_size <= 0: raise;
                                 continue;  any other code: raise
     data.extend(rsp.data); off += rsp.count
   req_size is a natural here, so "req_size -= 2; if req_size <= 0" is "req_size <= 2".
   The Python loop has no budget; [fuel] is the model's, computed by read_fru_data from
   the amount to read (proved sufficient for every device that returns at least one
   byte per accepted read; a device that answers count = 0 for ever makes the Python
   loop spin and the model return OutOfFuel). *)
Fixpoint read_loop (fuel : nat) (id off area req_size : N) (acc : list N) : prog (list N) :=
  match fuel with
  | O => Raise OutOfFuel
  | S fuel' =>
      if off <? area then
        let req_size := if area <? off + req_size then area - off else req_size in
        Send (read_req id off req_size) (fun rp =>
          match rp with
          | RRaise e => Raise e
          | RBytes d =>
              match dec_read d with
              | Ok (c, dat) => read_loop fuel' id (off + c) area req_size (acc ++ dat)
              | Err (CCError cc) =>
                  if is_backoff_cc cc then
                    if req_size <=? 2 then Raise (CCError cc)
                    else read_loop fuel' id off area (req_size - 2) acc
                  else Raise (CCError cc)
              | Err e => Raise e
              end
          end)
      else Ret acc
  end.

Definition read_fuel (off area : N) : nat := (N.to_nat (area - off) + 40)%nat.

(* Fru.read_fru_data(offset=None, count=None, fru_id): [None] = whole inventory area
   (size asked from the device first), [Some (offset, count)] = the given range *)
Definition read_fru_data (rng : option (N * N)) (id : N) : prog (list N) :=
  match rng with
  | None =>
      dop area <- get_fru_inventory_area_info id;
      read_loop (read_fuel 0 area) id 0 area 32 []
  | Some (off, cnt) => read_loop (read_fuel off (off + cnt)) id off (off + cnt) 32 []
  end.

(* Fru.read_fru_data_full(fru_id) *)
Definition read_fru_data_full (id : N) : prog (list N) := read_fru_data None id.

(* pyipmi/utils.py:chunks(data, count): data[i:i+count] for i in range(0, len(data), count) *)
Fixpoint chunks_aux (fuel : nat) (data : list N) (n : nat) : list (list N) :=
  match fuel with
  | O => []
  | S f => match data with
           | [] => []
           | _ => firstn n data :: chunks_aux f (skipn n data) n
           end
  end.
Definition chunks (data : list N) (n : nat) : list (list N) := chunks_aux (length data) data n.

(* Fru.write_fru_data: for chunk in chunks(data, self.write_length):
     rsp = WriteFruData(fru_id, offset, data=chunk)
     if rsp.count_written != len(chunk): raise Exception(...)
     offset += len(chunk) *)
Fixpoint write_chunks (id off : N) (cs : list (list N)) : prog unit :=
  match cs with
  | [] => Ret tt
  | c :: r =>
      dop w <- send_msg (write_req id off c) dec_write;
      if w =? len c then write_chunks id (off + len c) r
      else Raise (OtherError OtherExc)
  end.
(* write_length = 0 makes range() raise ValueError before anything is sent *)
Definition write_fru_data (write_length : N) (data : list N) (off id : N) : prog unit :=
  if write_length =? 0 then Raise (OtherError ValueError)
  else write_chunks id off (chunks data (N.to_nat write_length)).

(* ---------------------------------------------------------------------------
   area reads.  InventoryCommonHeader._from_data (the only parser needed for the
   control flow): length 8, offsets = data[1..5] * 8 "or None", checksum.
   Returned: (chassis, board, product, multirecord) offsets, None for 0. *)
Definition off_or_none (b : N) : option N := if b =? 0 then None else Some (b * 8).
Definition common_header (d : list N) : res (option N * option N * option N * option N) :=
  match d with
  | [_; _; c; b; p; m; _; _] =>
      if sum d mod 256 =? 0 then Ok (off_or_none c, off_or_none b, off_or_none p, off_or_none m)
      else Err DecodingError
  | _ => Err DecodingError
  end.

(* Fru.get_fru_inventory_header *)
Definition get_fru_inventory_header (id : N) :=
  dop d <- read_fru_data (Some (0, 8)) id; lift (common_header d).

(* Fru._read_fru_area(offset, fru_id): header of 5 bytes, then data[1] * 8 bytes.
   offset may be None when a second header read disagrees with the first: then
   read_fru_data(offset=None, ...) reads the whole area (count ignored). *)
Definition rng_of (off : option N) (cnt : N) : option (N * N) :=
  match off with Some o => Some (o, cnt) | None => None end.
Definition read_fru_area (off : option N) (id : N) : prog (list N) :=
  dop d <- read_fru_data (rng_of off 5) id;
  read_fru_data (rng_of off (nth 1 d 0 * 8)) id.

Section Inventory.
  (* the area parsers (InventoryChassisInfoArea = 1, Board = 2, Product = 3,
     InventoryMultiRecordArea = 4) are property C15; here only whether they raise.
     FruData.__init__ / InventoryMultiRecordArea.__init__ skip empty data. *)
  Variable parse : N -> list N -> res unit.
  Definition parse_area (kind : N) (d : list N) : prog (list N) :=
    match d with
    | [] => Ret d
    | _ => dop _ <- lift (parse kind d); Ret d
    end.

  (* get_fru_chassis_area / get_fru_board_area / get_fru_product_area: each reads the
     common header again, then the area at the offset it names *)
  Definition sel4 (kind : N) (h : option N * option N * option N * option N) : option N :=
    let '(c, b, p, m) := h in
    if kind =? 1 then c else if kind =? 2 then b else if kind =? 3 then p else m.
  Definition get_fru_info_area (kind id : N) : prog (list N) :=
    dop h <- get_fru_inventory_header id;
    dop d <- read_fru_area (sel4 kind h) id;
    parse_area kind d.

  (* get_fru_multirecord_area, the `while True` loop over the record headers:
       data = read_fru_data(offset, 5, fru_id)      [fru_id: fix F10]
       end_of_list = data[1] & 0x80; length = data[2]
       count += length + 5; offset += length + 5 *)
  Fixpoint mr_scan (fuel : nat) (id off count : N) : prog N :=
    match fuel with
    | O => Raise OutOfFuel
    | S f =>
        dop d <- read_fru_data (Some (off, 5)) id;
        let length := nth 2 d 0 in
        if N.testbit (nth 1 d 0) 7 then Ret (count + length + 5)
        else mr_scan f id (off + length + 5) (count + length + 5)
    end.
  Definition get_fru_multirecord_area (fuel : nat) (id : N) : prog (list N) :=
    dop h <- get_fru_inventory_header id;
    match sel4 4 h with
    | None =>
        (* offset None: whole-area read, then `offset += length + 5` is a TypeError
           (IndexError first when fewer than 3 bytes came back) *)
        dop d <- read_fru_data None id;
        if len d <? 3 then Raise (OtherError IndexError) else Raise (OtherError TypeError)
    | Some off =>
        dop count <- mr_scan fuel id off 0;
        dop d <- read_fru_data (Some (off, count)) id;
        parse_area 4 d
    end.

  (* Fru.get_fru_inventory: header, then each area whose offset is non-zero.
     Result: the raw bytes handed to the four parsers (None = area absent). *)
  Definition opt_area (present : option N) (p : prog (list N)) : prog (option (list N)) :=
    match present with
    | None => Ret None
    | Some _ => dop d <- p; Ret (Some d)
    end.
  Definition get_fru_inventory (fuel : nat) (id : N) : prog (list (option (list N))) :=
    dop h <- get_fru_inventory_header id;
    dop c <- opt_area (sel4 1 h) (get_fru_info_area 1 id);
    dop b <- opt_area (sel4 2 h) (get_fru_info_area 2 id);
    dop p <- opt_area (sel4 3 h) (get_fru_info_area 3 id);
    dop m <- opt_area (sel4 4 h) (get_fru_multirecord_area fuel id);
    Ret [c; b; p; m].
End Inventory.

(* ---------------------------------------------------------------------------
   the FRU device the theorems quantify over (specification side; its Python twin is
   harness/c10.py:FruDevice, compared on every recorded exchange).
   - one memory per FRU id
   - reads larger than [fd_limit] are rejected with [fd_rej]; reads past the end with 0xC9
   - writes store the acknowledged prefix of the chunk; [fd_ack k n] is the count the
     device acknowledges for the k-th write of n bytes (conforming: n) *)
Record frudev := mkFruDev {
  fd_mem : N -> list N;
  fd_limit : N;
  fd_rej : N;
  fd_ack : nat -> N -> N;
  fd_writes : nat
}.
Definition splice (l : list N) (off : N) (d : list N) : list N :=
  firstn (N.to_nat off) l ++ d ++ skipn (N.to_nat off + length d) l.
Definition set_mem (s : frudev) (id : N) (m : list N) : frudev :=
  mkFruDev (fun i => if i =? id then m else fd_mem s i) (fd_limit s) (fd_rej s) (fd_ack s)
           (S (fd_writes s)).

Definition fru_dev : device frudev := fun s r =>
  if negb ((q_netfn r =? NETFN_STORAGE) && (q_lun r =? 0)) then (s, RBytes [0xc1])
  else if q_cmd r =? CMD_FRU_INFO then
    match q_data r with
    | [id] => (s, RBytes (0 :: le_bytes 2 (len (fd_mem s id)) ++ [0]))
    | _ => (s, RBytes [0xc7])
    end
  else if q_cmd r =? CMD_FRU_READ then
    match q_data r with
    | [id; o0; o1; cnt] =>
        let off := o0 + 256 * o1 in
        if fd_limit s <? cnt then (s, RBytes [fd_rej s])
        else if len (fd_mem s id) <? off + cnt then (s, RBytes [0xc9])
        else (s, RBytes (0 :: cnt :: slice (fd_mem s id) off cnt))
    | _ => (s, RBytes [0xc7])
    end
  else if q_cmd r =? CMD_FRU_WRITE then
    match q_data r with
    | id :: o0 :: o1 :: dat =>
        let off := o0 + 256 * o1 in
        if len (fd_mem s id) <? off + len dat then (s, RBytes [0xc9])
        else
          let w := fd_ack s (fd_writes s) (len dat) in
          (set_mem s id (splice (fd_mem s id) off (firstn (N.to_nat w) dat)), RBytes [0; w mod 256])
    | _ => (s, RBytes [0xc7])
    end
  else (s, RBytes [0xc1]).

(* which FRU id a request addresses (None: not a FRU storage request) *)
Definition req_fru_id (r : request) : option N :=
  if (q_netfn r =? NETFN_STORAGE)
     && ((q_cmd r =? CMD_FRU_INFO) || (q_cmd r =? CMD_FRU_READ) || (q_cmd r =? CMD_FRU_WRITE))
  then hd_error (q_data r) else None.
