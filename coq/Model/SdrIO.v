(* Hand model (H) of SDR retrieval: pyipmi/helper.py get_sdr_chunk_helper +
   get_sdr_data_helper composed with the store-specific chunk readers and reservation
   commands of pyipmi/sdr.py (repository) and pyipmi/sensor.py (device SDR), and the two
   list generators - as [prog]s (Lib/Prog.v) - plus the Gallina SDR device the theorems
   quantify over.  Executable definitions only.

   The code modelled is the code REPAIRED by
     fixes/F11a-sdr-helper-skip-refused-chunk.diff  (no append after a refused read),
     fixes/F11b-sdr-same-store-reservation.diff     (repository reads renew with
                                                      ReserveSdrRepository),
     fixes/F13-send-message-reraise.diff            (send_message).
   [chunk_prog] keeps the store of the renewal command as a parameter so that the
   unrepaired wiring can still be written down (Props: ..._unrepaired_refuted). *)
From Coq Require Import NArith ZArith List Bool.
From PyIpmi Require Import Lib.Res Lib.Bytes Lib.Prog.
Import ListNotations.
Open Scope N_scope.

Inductive store := Repo | DevSdr.
(* NETFN_STORAGE / NETFN_SENSOR_EVENT; CMDID_GET_SDR / CMDID_GET_DEVICE_SDR;
   CMDID_RESERVE_SDR_REPOSITORY = CMDID_RESERVE_DEVICE_SDR_REPOSITORY = 0x22 *)
Definition st_netfn (st : store) : N := match st with Repo => 0x0a | DevSdr => 0x04 end.
Definition st_get_cmd (st : store) : N := match st with Repo => 0x23 | DevSdr => 0x21 end.
Definition RESERVE_CMD : N := 0x22.

Definition CC_NODE_BUSY := 0xC0.
Definition CC_TIMEOUT := 0xC3.
Definition CC_RES_CANCELED := 0xC5.
Definition CC_CANT_RET_NUM_REQ_BYTES := 0xCA.
Definition CC_RESP_COULD_NOT_BE_PRV := 0xCE.

(* UnsignedInt(name, 1).encode -> ByteBuffer.push_unsigned_int(value, 1): value & 0xff *)
Definition byteZ (z : Z) : N := Z.to_N (z mod 256).

(* GetSdrReq / GetDeviceSdrReq: reservation_id(2) record_id(2) offset(1) bytes_to_read(1) *)
Definition get_req (st : store) (resv rid : N) (off len : Z) : request :=
  mkReq (st_netfn st) (st_get_cmd st) 0 (le_bytes 2 resv ++ le_bytes 2 rid ++ [byteZ off; byteZ len]).
(* ReserveSdrRepositoryReq / ReserveDeviceSdrRepositoryReq: no fields *)
Definition reserve_req (st : store) : request := mkReq (st_netfn st) RESERVE_CMD 0 [].

(* Message._decode on Get(Device)SdrRsp = CompletionCode, next_record_id(2), RemainingBytes:
   decoding stops at a completion code <> 0 (the other fields keep their defaults) *)
Definition dec_get_rsp (d : list N) : res (N * N * list N) :=
  match d with
  | [] => Err DecodingError
  | cc :: r =>
    if cc =? 0 then
      match r with
      | lo :: hi :: data => Ok (0, lo + 256 * hi, data)
      | _ => Err DecodingError
      end
    else Ok (cc, 0, [])
  end.
(* Reserve(Device)SdrRepositoryRsp = CompletionCode, reservation_id(2); extra bytes rejected *)
Definition dec_reserve_rsp (d : list N) : res (N * N) :=
  match d with
  | [] => Err DecodingError
  | cc :: r =>
    if cc =? 0 then
      match r with
      | [lo; hi] => Ok (0, lo + 256 * hi)
      | _ => Err DecodingError
      end
    else Ok (cc, 0)
  end.

(* Ipmi.send_message(req, retry=3) (repaired, F13): resend only after a raised node-busy.
   The interface's send_and_receive returns the reply bytes (decoded by the callers below;
   a DecodingError raised inside send_and_receive propagates the same way). *)
Fixpoint send_msg_loop (retry : nat) (r : request) : prog (list N) :=
  match retry with
  | O => Raise RetryError
  | S n =>
    Send r (fun rp =>
      match rp with
      | RBytes d => Ret d
      | RRaise (CCError cc) => if cc =? CC_NODE_BUSY then send_msg_loop n r else Raise (CCError cc)
      | RRaise e => Raise e
      end)
  end.
Definition send_message (r : request) : prog (list N) := send_msg_loop 3 r.

(* reserve_sdr_repository / reserve_device_sdr_repository:
     rsp = self.send_message_with_name('Reserve...'); return rsp.reservation_id
   send_message_with_name checks the completion code *)
Definition reserve (st : store) : prog N :=
  dop d <- send_message (reserve_req st);
  match dec_reserve_rsp d with
  | Err e => Raise e
  | Ok (cc, id) => if cc =? 0 then Ret id else Raise (CCError cc)
  end.

(* _get_sdr_chunk / _get_device_sdr_chunk: build the request, then
   get_sdr_chunk_helper(self.send_message, req, <reserve_fn>, retry=5); n = retry - 1 after
   the decrement (cf. Model/Helper.v chunk_iter); [rst] = the store whose reservation
   command renews a cancelled reservation.  Returns (rsp.next_record_id, rsp.record_data) *)
Fixpoint chunk_prog (n : nat) (st rst : store) (resv rid : N) (off len : Z) : prog (N * list N) :=
  match n with
  | O => Raise RetryError
  | S n' =>
    dop d <- send_message (get_req st resv rid off len);
    match dec_get_rsp d with
    | Err e => Raise e
    | Ok (cc, next, data) =>
      if cc =? 0 then Ret (next, data)
      else if cc =? CC_RES_CANCELED then
        Sleep 1000 (dop nr <- reserve rst; chunk_prog n' st rst nr rid off len)
      else if cc =? CC_TIMEOUT then Sleep 100 (chunk_prog n' st rst resv rid off len)
      else if cc =? CC_RESP_COULD_NOT_BE_PRV then Sleep (100 * N.of_nat n) (chunk_prog n' st rst resv rid off len)
      else Raise (CCError cc)
    end
  end.
Definition get_chunk (st : store) (resv rid : N) (off len : Z) : prog (N * list N) :=
  chunk_prog 4 st st resv rid off len.

(* the loop of get_sdr_data_helper (repaired, F11a: "continue" after a refused read):
       while True:
           retry -= 1
           if retry == 0: raise RetryError()
           length = max_req_len
           if (offset + length) > record_length: length = record_length - offset
           try: (next_id, data) = get_fn(reservation_id, record_id, offset, length)
           except CompletionCodeError as e:
               if e.cc == CC_CANT_RET_NUM_REQ_BYTES:
                   max_req_len -= 4
                   if max_req_len <= 0: retry = 0
                   continue
               else: raise CompletionCodeError(e.cc)
           record_data.extend(data[:]); offset = len(record_data)
           if len(record_data) >= record_length: break
       return (next_id, record_data)
   n = retry - 1 after the decrement.  With max_req_len <= 0 the code sets retry = 0, which
   the next "retry -= 1" turns into -1: the test "== 0" never fires again and the loop
   does not end by itself - the model stops with the model-only OutOfFuel there (cannot
   happen for a device whose limit is >= 4, see C11_budget). *)
Definition catch_ca {A} (p : prog A) : prog (option A) :=
  pcatch (dop x <- p; Ret (Some x))
         (fun e => match e with
                   | CCError cc => if cc =? CC_CANT_RET_NUM_REQ_BYTES then Ret None else Raise (CCError cc)
                   | _ => Raise e
                   end).

Fixpoint data_loop (n : nat) (st : store) (resv rid : N) (reclen maxlen : Z) (next : N) (acc : list N)
  : prog (N * list N) :=
  match n with
  | O => Raise RetryError
  | S n' =>
    let off := Z.of_nat (length acc) in
    let len := if (off + maxlen >? reclen)%Z then (reclen - off)%Z else maxlen in
    dop r <- catch_ca (get_chunk st resv rid off len);
    match r with
    | Some (nx, d) =>
      let acc' := acc ++ d in
      if (Z.of_nat (length acc') >=? reclen)%Z then Ret (nx, acc')
      else data_loop n' st resv rid reclen maxlen nx acc'
    | None =>
      if (maxlen - 4 <=? 0)%Z then Raise OutOfFuel
      else data_loop n' st resv rid reclen (maxlen - 4)%Z next acc
    end
  end.

(* get_sdr_data_helper(reserve_fn, get_fn, record_id, reservation_id=None) as called by
   get_repository_sdr / get_device_sdr (SdrCommon.from_data keeps the bytes as .data; the
   parse is not modelled here - C16):
       if reservation_id is None: reservation_id = reserve_fn()
       (next_id, data) = get_fn(reservation_id, record_id, 0, 5)
       header = ByteBuffer(data); record_id = header.pop_unsigned_int(2); version; type;
       record_payload_length = header.pop_unsigned_int(1); record_length = payload + 5
       record_data = ByteBuffer(data); offset = len(record_data); max_req_len = 20; retry = 20 *)
Definition get_sdr (st : store) (rid : N) (resv : option N) : prog (N * list N) :=
  dop r <- match resv with Some r => Ret r | None => reserve st end;
  dop h <- get_chunk st r rid 0 5;
  let '(next, data) := h in
  match data with
  | b0 :: b1 :: _ :: _ :: b4 :: _ =>
      data_loop 19 st r (b0 + 256 * b1) (Z.of_N b4 + 5)%Z 20 next data
  | _ => Raise DecodingError
  end.

(* sdr_repository_entries / device_sdr_entries (consumed by list(...)):
       reservation_id = self.reserve_...(); record_id = 0
       while True:
           s = self.get_..._sdr(record_id, reservation_id); yield s
           if s.next_id == 0xffff: break
           record_id = s.next_id
   SdrCommon.__init__ sets next_id only "if next_id": AttributeError for next id 0.
   The generator has no bound of its own: explicit fuel (one unit per record). *)
Fixpoint entries_loop (fuel : nat) (st : store) (resv rid : N) (acc : list (N * list N))
  : prog (list (N * list N)) :=
  match fuel with
  | O => Raise OutOfFuel
  | S f =>
    dop s <- get_sdr st rid (Some resv);
    let acc' := acc ++ [s] in
    if fst s =? 0 then Raise (OtherError AttributeError)
    else if fst s =? 0xFFFF then Ret acc'
    else entries_loop f st resv (fst s) acc'
  end.
Definition sdr_entries (fuel : nat) (st : store) : prog (list (N * list N)) :=
  dop r <- reserve st; entries_loop fuel st r 0 [].

(* ------------------------------------------------------------------------- *)
(* the SDR device (specification side)                                        *)
(* ------------------------------------------------------------------------- *)
(* what happens to the request with this index: nothing / the reservations of both stores
   are cancelled just before it / it is answered with a transient completion code / the
   transport raises CompletionCodeError(node busy) *)
Inductive fault := FNone | FCancel | FCode (cc : N) | FBusy.

Record sdr_state := mkSdr {
  s_repo : list (list N);          (* records of the SDR repository, in order *)
  s_dev : list (list N);           (* records of the device SDR store *)
  s_limit : N;                     (* bytes per read; more is answered with 0xCA *)
  s_rres : N; s_rvalid : bool;     (* repository reservation: current id / still valid *)
  s_dres : N; s_dvalid : bool;     (* device SDR reservation *)
  s_plan : list fault }.           (* fault plan, one entry consumed per request *)

Definition rec_id (r : list N) : N := match r with b0 :: b1 :: _ => b0 + 256 * b1 | _ => 0 end.
Definition next_id (rest : list (list N)) : N := match rest with [] => 0xFFFF | r :: _ => rec_id r end.
Fixpoint find_rec (recs : list (list N)) (rid : N) : option (list N * N) :=
  match recs with
  | [] => None
  | r :: rest => if rec_id r =? rid then Some (r, next_id rest) else find_rec rest rid
  end.
(* record id 0 addresses the first record *)
Definition lookup (recs : list (list N)) (rid : N) : option (list N * N) :=
  if rid =? 0 then match recs with [] => None | r :: rest => Some (r, next_id rest) end
  else find_rec recs rid.
Definition slice (off len : N) (r : list N) : list N := firstn (N.to_nat len) (skipn (N.to_nat off) r).
Definition new_res (old : N) : N := old mod 65535 + 1.

Definition recs_of (st : store) (s : sdr_state) := match st with Repo => s_repo s | DevSdr => s_dev s end.
Definition res_of (st : store) (s : sdr_state) := match st with Repo => s_rres s | DevSdr => s_dres s end.
Definition valid_of (st : store) (s : sdr_state) := match st with Repo => s_rvalid s | DevSdr => s_dvalid s end.

Definition set_plan (s : sdr_state) (p : list fault) : sdr_state :=
  mkSdr (s_repo s) (s_dev s) (s_limit s) (s_rres s) (s_rvalid s) (s_dres s) (s_dvalid s) p.
Definition cancel_all (s : sdr_state) : sdr_state :=
  mkSdr (s_repo s) (s_dev s) (s_limit s) (s_rres s) false (s_dres s) false (s_plan s).
Definition do_reserve (st : store) (s : sdr_state) : sdr_state :=
  match st with
  | Repo => mkSdr (s_repo s) (s_dev s) (s_limit s) (new_res (s_rres s)) true (s_dres s) (s_dvalid s) (s_plan s)
  | DevSdr => mkSdr (s_repo s) (s_dev s) (s_limit s) (s_rres s) (s_rvalid s) (new_res (s_dres s)) true (s_plan s)
  end.

Definition store_of_netfn (nf : N) : option store :=
  if nf =? 0x0a then Some Repo else if nf =? 0x04 then Some DevSdr else None.

(* the answer of the device proper (no fault) *)
Definition sdr_answer (s : sdr_state) (r : request) : sdr_state * reply :=
  match store_of_netfn (q_netfn r) with
  | None => (s, RBytes [0xC1])
  | Some st =>
    if q_cmd r =? RESERVE_CMD then
      match q_data r with
      | [] => let s' := do_reserve st s in
              (s', RBytes (0 :: le_bytes 2 (res_of st s')))
      | _ => (s, RBytes [0xC7])
      end
    else if q_cmd r =? st_get_cmd st then
      match q_data r with
      | [r0; r1; i0; i1; off; len] =>
        if negb (valid_of st s && (r0 + 256 * r1 =? res_of st s)) then (s, RBytes [CC_RES_CANCELED])
        else match lookup (recs_of st s) (i0 + 256 * i1) with
             | None => (s, RBytes [0xCB])
             | Some (rec, nx) =>
               if s_limit s <? len then (s, RBytes [CC_CANT_RET_NUM_REQ_BYTES])
               else (s, RBytes (0 :: le_bytes 2 nx ++ slice off len rec))
             end
      | _ => (s, RBytes [0xC7])
      end
    else (s, RBytes [0xC1])
  end.

Definition sdr_dev : device sdr_state := fun s r =>
  let '(f, s1) := match s_plan s with [] => (FNone, s) | f :: p => (f, set_plan s p) end in
  match f with
  | FNone => sdr_answer s1 r
  | FCancel => sdr_answer (cancel_all s1) r
  | FCode cc => (s1, RBytes [cc])
  | FBusy => (s1, RRaise (CCError CC_NODE_BUSY))
  end.

(* For the record (F11b): the wiring of the unrepaired Sdr._get_sdr_chunk renews a
   repository reservation with ReserveDeviceSdrRepository. *)
Definition get_chunk_repo_unrepaired (resv rid : N) (off len : Z) : prog (N * list N) :=
  chunk_prog 4 Repo DevSdr resv rid off len.
