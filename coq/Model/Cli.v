(* Model of the command-line tool pyipmi/ipmitool.py (C20).  Executable definitions
   only.  Part 1: the types of the table that gen/gen_cli.py REGENERATES from the source
   on every run (Gen/CliTable.v) and the decidable checks over it.  Part 2: hand model
   of the algorithmic parts: command lookup, getopt + main's option loop, interface
   options, target / routing / session set-up, cmd_raw, error -> exit status. *)
From Coq Require Import String Ascii.
From Coq Require Import NArith ZArith List Bool.
From Coq Require Decimal Hexadecimal DecimalString HexadecimalString.
From PyIpmi Require Import Lib.Res Lib.Bytes Lib.Prog.
Import ListNotations.
Open Scope string_scope.
Open Scope list_scope.
Local Notation "a +++ b" := (String.append a b) (at level 60, right associativity).

(* ======================================================================== *)
(* Part 1 - table types (instantiated by Gen/CliTable.v)                     *)
(* ======================================================================== *)

(* a use `<ipmi>.<method>` inside a handler: a call with n positional arguments and
   the given keywords, or (None) a bare reference such as `iter_fct = ipmi.device_sdr_entries` *)
Record call := mkCall { k_method : string; k_npos : option nat; k_kw : list string }.

(* Command('<name>', lambda i, a: ...) | Command('<name>', cmd_x) *)
Inductive handler :=
| HLambda (calls : list call)
| HDef (name : string) (calls : list call)
| HUntranslated (why : string).
Record command := mkCmd { c_name : string; c_handler : handler }.

(* a handler that makes exactly one call <ipmi>.<method>(<args>): each argument an integer constant
   or int(args[idx], base) (base 10 = int(args[idx])) *)
Inductive argspec := AConst (z : Z) | AInt (idx : nat) (base : N).
Inductive callspec := CSingle (method : string) (args : list argspec) | CMulti (why : string).

(* a public callable of pyipmi.Ipmi *)
Record api_method := mkApi { a_name : string; a_min : nat; a_max : option nat;
                             a_kw : list string; a_anykw : bool }.

(* main(): what an option does.  Variables are named by their sink (role). *)
Inductive hop_elem := HConst (n : N) | HNone | HArg (base : N).
Inductive conv :=
| CStr                                   (* x = a *)
| CTrue                                  (* x = True *)
| CInt (base : N)                        (* x = int(a, base)   (base 10: int(a)) *)
| CHop (a b c : hop_elem).               (* x = [(a, b, c)] *)
Inductive optaction :=
| AStore (role : string) (c : conv)
| AExit (what : string) (code : Z)       (* usage()/version(); sys.exit(code) *)
| AUntranslated (why : string).
Record optbinding := mkOpt { o_flag : string; o_action : optaction }.
Inductive optdefault := DBool (b : bool) | DInt (z : Z) | DStr (s : string) | DNone | DEmpty
                      | DUntranslated (why : string).

(* except <exc> as e: print(<text> [% e.cc]); sys.exit(<code>) *)
Record exit_entry := mkExit { x_exc : string; x_text : option string; x_uses_cc : bool;
                              x_code : option Z; x_bad : option string }.

(* where main opens / closes the connection relative to the try around cmd(ipmi, args) *)
Inductive run_shape_t :=
| RunShape (open_in_try : bool) (close_in_finally : bool)
| RunUntranslated (why : string).

Inductive power_entry := PCode (method : string) (code : N) | PUntranslated (why : string).
Inductive chassis_control_shape :=
| CCReq (netfn cmd lun bit_off bit_width : N)
| CCUntranslated (why : string).

(* ---- string helpers ---- *)
Definition str_in (s : string) (l : list string) : bool := existsb (String.eqb s) l.

Fixpoint split_on (sep : ascii) (s : string) (cur : string) : list string :=
  match s with
  | EmptyString => [cur]
  | String c r => if Ascii.eqb c sep then cur :: split_on sep r EmptyString
                  else split_on sep r (cur +++ String c EmptyString)
  end.
(* str.split(sep) for a one-character separator *)
Definition py_split (sep : ascii) (s : string) : list string := split_on sep s EmptyString.
(* ' '.join(ws) *)
Definition join_words (ws : list string) : string := String.concat " " ws.

(* ---- C20_resolves: every handler names existing operations with a possible arity ---- *)
Definition handler_calls (h : handler) : option (list call) :=
  match h with HLambda cs => Some cs | HDef _ cs => Some cs | HUntranslated _ => None end.

Definition call_ok (api : list api_method) (k : call) : bool :=
  match find (fun a => String.eqb (a_name a) (k_method k)) api with
  | None => false
  | Some a =>
      match k_npos k with
      | None => true
      | Some n =>
          (a_min a <=? n + length (k_kw k))%nat
          && (match a_max a with None => true | Some m => (n <=? m)%nat end)
          && forallb (fun kw => a_anykw a || str_in kw (a_kw a)) (k_kw k)
      end
  end.

Definition handler_resolves (api : list api_method) (h : handler) : bool :=
  match handler_calls h with
  | None => false
  | Some [] => false
  | Some cs => forallb (call_ok api) cs
  end.

(* an entry whose handler the translator refused in this run is not judged here (downgrade rule: the
   oracle of the check must pass for it) *)
Definition handler_translated (h : handler) : bool :=
  match handler_calls h with Some _ => true | None => false end.

Definition resolves_b (cmds : list command) (api : list api_method) : bool :=
  negb (match cmds with [] => true | _ => false end)
  && forallb (fun c => negb (handler_translated (c_handler c)) || handler_resolves api (c_handler c)) cmds.

(* ---- command lookup (ipmitool.py:_get_command_function, main 615-622) ---- *)
(* for cmd in COMMANDS: if cmd.name == name: return cmd.fn   (index kept for comparison) *)
Fixpoint get_command_function (cmds : list command) (name : string) (i : nat) : option (nat * handler) :=
  match cmds with
  | [] => None
  | c :: r => if String.eqb (c_name c) name then Some (i, c_handler c)
              else get_command_function r name (S i)
  end.

(* for i in range(len(args)): cmd = _get_command_function(' '.join(args[0:i+1]));
   if cmd is not None: args = args[i+1:]; break        (pre = args[0:i]) *)
Fixpoint find_from (cmds : list command) (pre rest : list string) : option (nat * handler * list string) :=
  match rest with
  | [] => None
  | w :: rest' =>
      let pre' := pre ++ [w] in
      match get_command_function cmds (join_words pre') 0 with
      | Some (i, h) => Some (i, h, rest')
      | None => find_from cmds pre' rest'
      end
  end.
Definition find_command (cmds : list command) (args : list string) := find_from cmds [] args.

(* own command string of every entry finds that entry (by position), nothing left over *)
Definition finds_itself (all : list command) (j : nat) (c : command) : bool :=
  match find_command all (py_split " " (c_name c)) with
  | Some (i, _, []) => Nat.eqb i j
  | _ => false
  end.
Fixpoint lookup_ok_from (all : list command) (j : nat) (cs : list command) : bool :=
  match cs with
  | [] => true
  | c :: t => finds_itself all j c && lookup_ok_from all (S j) t
  end.
Definition lookup_ok_b (cmds : list command) : bool := lookup_ok_from cmds 0 cmds.

(* ======================================================================== *)
(* Part 2 - hand model                                                      *)
(* ======================================================================== *)

(* ---- Python int(s, 0) / int(s) on the fragment: optional sign, decimal digits,
   0x/0X hex digits.  Python accepts more (underscores, surrounding whitespace, 0o/0b,
   non-ASCII digits): those inputs are [Err OutOfFuel] = "outside the model". ---- *)
Definition lower_hex (c : ascii) : ascii :=
  let n := nat_of_ascii c in
  if (65 <=? n)%nat && (n <=? 70)%nat then ascii_of_nat (n + 32) else c.
Fixpoint map_string (f : ascii -> ascii) (s : string) : string :=
  match s with EmptyString => EmptyString | String c r => String (f c) (map_string f r) end.
Fixpoint string_exists (p : ascii -> bool) (s : string) : bool :=
  match s with EmptyString => false | String c r => p c || string_exists p r end.

Definition is_extra_syntax (c : ascii) : bool :=
  let n := nat_of_ascii c in
  Ascii.eqb c "_" || Ascii.eqb c " " || ((9 <=? n)%nat && (n <=? 13)%nat) || (127 <? n)%nat.

(* ValueError, unless the string uses syntax the model does not cover *)
Definition int_fail (s : string) : res Z :=
  if string_exists is_extra_syntax s then Err OutOfFuel else Err (OtherError ValueError).

Definition dec_unsigned (leading_zero_rule : bool) (s : string) : option N :=
  match DecimalString.NilEmpty.uint_of_string s with
  | None => None
  | Some Decimal.Nil => None
  | Some (Decimal.D0 d) =>
      if leading_zero_rule then (if N.eqb (N.of_uint (Decimal.D0 d)) 0 then Some 0%N else None)
      else Some (N.of_uint (Decimal.D0 d))
  | Some d => Some (N.of_uint d)
  end.

Definition hex_unsigned (s : string) : option N :=
  match HexadecimalString.NilEmpty.uint_of_string (map_string lower_hex s) with
  | None => None
  | Some Hexadecimal.Nil => None
  | Some d => Some (N.of_hex_uint d)
  end.

Definition split_sign (s : string) : bool * string :=
  match s with
  | String c r => if Ascii.eqb c "-" then (true, r) else if Ascii.eqb c "+" then (false, r) else (false, s)
  | EmptyString => (false, s)
  end.
Definition signed (neg : bool) (n : N) : Z := if neg then (- Z.of_N n)%Z else Z.of_N n.

(* int(s, 0) *)
Definition int_base0 (s : string) : res Z :=
  let '(neg, body) := split_sign s in
  match body with
  | String c0 (String c1 r) =>
      if Ascii.eqb c0 "0" && (Ascii.eqb c1 "x" || Ascii.eqb c1 "X") then
        match hex_unsigned r with Some n => Ok (signed neg n) | None => int_fail s end
      else if Ascii.eqb c0 "0" && (Ascii.eqb c1 "o" || Ascii.eqb c1 "O" || Ascii.eqb c1 "b" || Ascii.eqb c1 "B") then
        Err OutOfFuel
      else match dec_unsigned true body with Some n => Ok (signed neg n) | None => int_fail s end
  | _ => match dec_unsigned true body with Some n => Ok (signed neg n) | None => int_fail s end
  end.

(* int(s) *)
Definition int_base10 (s : string) : res Z :=
  let '(neg, body) := split_sign s in
  match dec_unsigned false body with Some n => Ok (signed neg n) | None => int_fail s end.

Definition py_int (base : N) (s : string) : res Z :=
  if N.eqb base 0 then int_base0 s else if N.eqb base 10 then int_base10 s else Err OutOfFuel.

(* ---- getopt.getopt(args, shortopts) of the standard library, short options only ---- *)
Inductive gres := GOk (opts : list (string * string)) (args : list string) | GError | GUnmodelled.

(* short_has_arg: for i in range(len(shortopts)): if opt == shortopts[i] != ':':
   return shortopts.startswith(':', i+1);  raise GetoptError *)
Fixpoint short_has_arg (opt : ascii) (shortopts : string) : option bool :=
  match shortopts with
  | EmptyString => None
  | String c r =>
      if Ascii.eqb opt c && negb (Ascii.eqb c ":") then
        Some (match r with String c' _ => Ascii.eqb c' ":" | EmptyString => false end)
      else short_has_arg opt r
  end.

Definition flag_of (c : ascii) : string := String "-" (String c EmptyString).

(* do_shorts(opts, optstring, shortopts, args) *)
Fixpoint do_shorts (so : string) (optstring : string) (args : list string) (acc : list (string * string))
  : option (list (string * string) * list string) :=
  match optstring with
  | EmptyString => Some (acc, args)
  | String opt rest =>
      match short_has_arg opt so with
      | None => None
      | Some true =>
          match rest with
          | EmptyString =>
              match args with
              | [] => None                                  (* option requires argument *)
              | a :: args' => Some (acc ++ [(flag_of opt, a)], args')
              end
          | _ => Some (acc ++ [(flag_of opt, rest)], args)
          end
      | Some false => do_shorts so rest args (acc ++ [(flag_of opt, EmptyString)])
      end
  end.

Definition starts_dash (s : string) : bool :=
  match s with String c _ => Ascii.eqb c "-" | EmptyString => false end.

(* while args and args[0].startswith('-') and args[0] != '-': ... *)
Fixpoint getopt_loop (fuel : nat) (so : string) (args : list string) (acc : list (string * string)) : gres :=
  match fuel with
  | O => GUnmodelled
  | S f =>
      match args with
      | [] => GOk acc []
      | a :: rest =>
          if starts_dash a && negb (String.eqb a "-") then
            if String.eqb a "--" then GOk acc rest
            else match a with
                 | String _ (String c1 body) =>
                     if Ascii.eqb c1 "-" then GError       (* long option, longopts = [] : not recognized *)
                     else match do_shorts so (String c1 body) rest acc with
                          | None => GError
                          | Some (acc', args') => getopt_loop f so args' acc'
                          end
                 | _ => GUnmodelled
                 end
          else GOk acc args
      end
  end.
Definition getopt (so : string) (args : list string) : gres := getopt_loop (S (length args)) so args [].

(* ---- main's loop over the options, driven by the GENERATED option table ---- *)
Inductive oval := VBool (b : bool) | VInt (z : Z) | VStr (s : string) | VNone | VEmpty
                | VHops (l : list (list (option Z))).
Definition cfg := list (string * oval).
Fixpoint cfg_get (c : cfg) (role : string) : option oval :=
  match c with [] => None | (r, v) :: t => if String.eqb r role then Some v else cfg_get t role end.
Definition cfg_set (c : cfg) (role : string) (v : oval) : cfg := (role, v) :: c.

Definition default_val (d : optdefault) : option oval :=
  match d with
  | DBool b => Some (VBool b) | DInt z => Some (VInt z) | DStr s => Some (VStr s)
  | DNone => Some VNone | DEmpty => Some VEmpty | DUntranslated _ => None
  end.
Fixpoint default_cfg (ds : list (string * optdefault)) : option cfg :=
  match ds with
  | [] => Some []
  | (r, d) :: t => match default_val d, default_cfg t with
                   | Some v, Some c => Some ((r, v) :: c)
                   | _, _ => None
                   end
  end.

Definition hop_val (e : hop_elem) (a : string) : res (option Z) :=
  match e with
  | HConst n => Ok (Some (Z.of_N n))
  | HNone => Ok None
  | HArg base => do z <- py_int base a; Ok (Some z)
  end.

Definition conv_val (c : conv) (a : string) : res oval :=
  match c with
  | CStr => Ok (VStr a)
  | CTrue => Ok (VBool true)
  | CInt base => do z <- py_int base a; Ok (VInt z)
  | CHop x y z => do x' <- hop_val x a; do y' <- hop_val y a; do z' <- hop_val z a; Ok (VHops [[x'; y'; z']])
  end.

Inductive ores := OCfg (c : cfg) | OExitNow (what : string) (code : Z) | ORaise (e : err) | OUnmodelled.

Fixpoint find_binding (tbl : list optbinding) (flag : string) : option optaction :=
  match tbl with
  | [] => None
  | b :: t => if String.eqb (o_flag b) flag then Some (o_action b) else find_binding t flag
  end.

(* for o, a in opts: if o == '-v': ... elif ...: ... else: assert False *)
Fixpoint apply_opts (tbl : list optbinding) (opts : list (string * string)) (c : cfg) : ores :=
  match opts with
  | [] => OCfg c
  | (o, a) :: rest =>
      match find_binding tbl o with
      | None => ORaise (OtherError AssertionError)
      | Some (AUntranslated _) => OUnmodelled
      | Some (AExit what code) => OExitNow what code
      | Some (AStore role cv) =>
          match conv_val cv a with
          | Ok v => apply_opts tbl rest (cfg_set c role v)
          | Err OutOfFuel => OUnmodelled
          | Err e => ORaise e
          end
      end
  end.

(* ---- parse_interface_options(interface_name, options) ---- *)
Inductive ioval := IStr (s : string) | IBool (b : bool).
Definition iopts := list (string * ioval).
Fixpoint io_set (d : iopts) (k : string) (v : ioval) : iopts :=
  match d with
  | [] => [(k, v)]
  | (k', v') :: t => if String.eqb k' k then (k, v) :: t else (k', v') :: io_set t k v
  end.
Fixpoint io_get (d : iopts) (k : string) : option ioval :=
  match d with [] => None | (k', v) :: t => if String.eqb k' k then Some v else io_get t k end.

(* option.split('=', 1) -> (name, value) ; ValueError when there is no '=' *)
Fixpoint split_eq (s : string) (name : string) : option (string * string) :=
  match s with
  | EmptyString => None
  | String c r => if Ascii.eqb c "=" then Some (name, r) else split_eq r (name +++ String c EmptyString)
  end.

Definition on_off (v : string) : option bool :=
  if String.eqb v "on" then Some true else if String.eqb v "off" then Some false else None.

Definition one_iopt (iface : string) (d : iopts) (name value : string) : iopts :=
  if String.eqb iface "aardvark" then
    if String.eqb name "serial" then io_set d "serial_number" (IStr value)
    else if String.eqb name "pullups" then
      match on_off value with Some b => io_set d "enable_i2c_pullups" (IBool b) | None => d end
    else if String.eqb name "power" then
      match on_off value with Some b => io_set d "enable_target_power" (IBool b) | None => d end
    else if String.eqb name "fastmode" then
      match on_off value with Some b => io_set d "enable_fastmode" (IBool b) | None => d end
    else d                                                     (* Warning: unknown option *)
  else if String.eqb iface "ipmitool" then
    if String.eqb name "interface_type" then io_set d "interface_type" (IStr value)
    else if String.eqb name "cipher" then io_set d "cipher" (IStr value)
    else d
  else if String.eqb iface "ipmbdev" then
    if String.eqb name "port" then io_set d "port" (IStr value) else d
  else d.

Fixpoint iopts_loop (iface : string) (pieces : list string) (d : iopts) : res iopts :=
  match pieces with
  | [] => Ok d
  | p :: t => match split_eq p EmptyString with
              | None => Err (OtherError ValueError)           (* not enough values to unpack *)
              | Some (n, v) => iopts_loop iface t (one_iopt iface d n v)
              end
  end.

(* if options: options = options.split(',') ; for option in options: ... *)
Definition parse_interface_options (iface : string) (options : oval) : res iopts :=
  match options with
  | VEmpty => Ok []
  | VStr EmptyString => Ok []
  | VStr s => iopts_loop iface (py_split "," s) []
  | _ => Err OutOfFuel
  end.

(* ---- Session.set_priv_level: LEVELS[level.lower()] ---- *)
Definition lower_ascii (c : ascii) : ascii :=
  let n := nat_of_ascii c in
  if (65 <=? n)%nat && (n <=? 90)%nat then ascii_of_nat (n + 32) else c.
Definition priv_level (l : string) : res N :=
  let s := map_string lower_ascii l in
  if string_exists (fun c => (127 <? nat_of_ascii c)%nat) l then Err OutOfFuel
  else if String.eqb s "user" then Ok 2%N
  else if String.eqb s "operator" then Ok 3%N
  else if String.eqb s "administrator" then Ok 4%N
  else Err (OtherError KeyError).

(* ---- what main hands to the library before the command runs ---- *)
Record session := mkSession { s_host : string; s_port : Z; s_user : string; s_password : string; s_priv : N }.
Record plan := mkPlan {
  p_iface : string; p_iopts : iopts;            (* create_interface(name, options as keywords) *)
  p_cmd : nat; p_args : list string;             (* COMMANDS[p_cmd].fn(ipmi, p_args) *)
  p_addr : option Z;                             (* ipmi.target.ipmb_address *)
  p_routing : option (list (list (option Z)));   (* ipmi.target.routing as (rq_sa, rs_sa, channel) *)
  p_session : option session;                    (* set only with -H *)
  p_verbose : bool; p_json : bool }.

Inductive outcome :=
| Exit (code : Z)                 (* sys.exit(code) before any command ran *)
| Raise (e : err)                 (* a Python exception leaves main *)
| Run (p : plan)
| Unmodelled.

Definition get_str (c : cfg) (role : string) : option string :=
  match cfg_get c role with Some (VStr s) => Some s | _ => None end.
Definition get_bool (c : cfg) (role : string) : bool :=
  match cfg_get c role with Some (VBool b) => b | _ => false end.

Section WithLiteralEval.
  (* ast.literal_eval of the standard library, restricted to lists of tuples of int/None *)
  Variable literal_eval : string -> res (list (list (option Z))).

  (* Target.set_routing: one Routing object per (rq_sa, rs_sa, channel) tuple *)
  Definition set_routing (v : oval) : res (option (list (list (option Z)))) :=
    match v with
    | VNone => Ok None
    | VHops l => Ok (Some l)
    | VStr s =>
        do l <- literal_eval s;
        if forallb (fun t => Nat.eqb (length t) 3) l then Ok (Some l) else Err (OtherError TypeError)
    | _ => Err OutOfFuel
    end.

  Definition mk_session (c : cfg) : res (option session) :=
    match cfg_get c "rmcp_host" with
    | Some VNone => Ok None
    | Some (VStr h) =>
        match cfg_get c "rmcp_port", get_str c "rmcp_user", get_str c "rmcp_password" with
        | Some (VInt port), Some u, Some pw =>
            match cfg_get c "rmcp_priv_level" with
            | Some VNone => Ok (Some (mkSession h port u pw 4))
            | Some (VStr l) => do p <- priv_level l; Ok (Some (mkSession h port u pw p))
            | _ => Err OutOfFuel
            end
        | _, _, _ => Err OutOfFuel
        end
    | _ => Err OutOfFuel
    end.

  Definition lift_out {A} (r : res A) (k : A -> outcome) : outcome :=
    match r with Ok a => k a | Err OutOfFuel => Unmodelled | Err e => Raise e end.

  (* main(), second half: from the parsed options to just before ipmi.open() *)
  Definition plan_stage (cmds : list command) (ifaces : list string) (c : cfg) (args : list string) : outcome :=
    match args with
    | [] => Exit 1
    | _ =>
        match find_command cmds args with
        | None => Exit 1
        | Some (idx, _, rest) =>
            match get_str c "interface_name", cfg_get c "interface_options",
                  cfg_get c "target_address", cfg_get c "target_routing" with
            | Some iface, Some io, Some (VInt addr), Some rt =>
                lift_out (parse_interface_options iface io) (fun d =>
                if negb (str_in iface ifaces) then Exit 1       (* RuntimeError: print, exit 1 *)
                else
                lift_out (set_routing rt) (fun routing =>
                lift_out (mk_session c) (fun sess =>
                Run (mkPlan iface d idx rest
                            (if Z.eqb addr 0 then None else Some addr)   (* Target: `if ipmb_address:` *)
                            routing sess
                            (get_bool c "verbose") (get_bool c "global:json_output")))))
            | _, _, _, _ => Unmodelled
            end
        end
    end.

  (* main(), first half: getopt and the loop over the options *)
  Inductive parsed := PCfg (c : cfg) (args : list string) | POut (o : outcome).
  Definition parse_stage (so : option string) (longs : list string) (tbl : list optbinding)
             (defaults : list (string * optdefault)) (argv : list string) : parsed :=
    match so, longs, default_cfg defaults with
    | Some so, [], Some c0 =>
        match getopt so argv with
        | GUnmodelled => POut Unmodelled
        | GError => POut (Exit 2)
        | GOk opts args =>
            match apply_opts tbl opts c0 with
            | OUnmodelled => POut Unmodelled
            | ORaise e => POut (Raise e)
            | OExitNow _ code => POut (Exit code)
            | OCfg c => PCfg c args
            end
        end
    | _, _, _ => POut Unmodelled
    end.

  Definition main_model (cmds : list command) (so : option string) (longs : list string)
             (tbl : list optbinding) (defaults : list (string * optdefault)) (ifaces : list string)
             (argv : list string) : outcome :=
    match parse_stage so longs tbl defaults argv with
    | POut o => o
    | PCfg c args => plan_stage cmds ifaces c args
    end.
End WithLiteralEval.

(* ---- cmd_raw ---- *)
Inductive raw_action := RawUsage | RawSend (lun netfn : Z) (data : list N).

Fixpoint raw_bytes (args : list string) : res (list N) :=
  match args with
  | [] => Ok []
  | a :: t =>
      do z <- int_base0 a;
      do r <- raw_bytes t;
      Ok (Z.to_N z :: r)
  end.
Fixpoint ints0 (args : list string) : res (list Z) :=
  match args with
  | [] => Ok []
  | a :: t => do z <- int_base0 a; do r <- ints0 t; Ok (z :: r)
  end.

(* lun = 0; if len(args) > 1 and args[0] == 'lun': lun = int(args[1], 0); args = args[2:]
   if len(args) < 2: usage(); return
   netfn = int(args[0], 0); raw_bytes = array('B', [int(d, 0) for d in args[1:]])
   rsp = ipmi.raw_command(lun, netfn, raw_bytes.tobytes()) *)
Definition cmd_raw (args : list string) : res raw_action :=
  do '(lun, args1) <- match args with
                      | a0 :: a1 :: t => if String.eqb a0 "lun" then do l <- int_base0 a1; Ok (l, t)
                                         else Ok (0%Z, args)
                      | _ => Ok (0%Z, args)
                      end;
  match args1 with
  | n :: d0 :: dt =>
      do netfn <- int_base0 n;
      do zs <- ints0 (d0 :: dt);
      (* array('B', ...): OverflowError outside 0..255 *)
      if forallb (fun z => (0 <=? z)%Z && (z <? 256)%Z) zs
      then Ok (RawSend lun netfn (map Z.to_N zs))
      else Err (OtherError OtherExc)
  | _ => Ok RawUsage
  end.

(* '%02x' % d *)
Definition fmt_02x (d : N) : string :=
  let s := HexadecimalString.NilEmpty.string_of_uint (N.to_hex_uint d) in
  if (String.length s <? 2)%nat then "0" +++ s else s.
(* ' '.join('%02x' % d for d in rsp) *)
Definition print_hex (rsp : list N) : string := String.concat " " (map fmt_02x rsp).

(* ---- the except clauses around cmd(ipmi, args): message and exit status ---- *)
Definition exc_name (e : err) : option string :=
  match e with
  | CCError _ => Some "CompletionCodeError"
  | TimeoutError => Some "IpmiTimeoutError"
  | _ => None
  end.

(* text % e.cc for the one directive the tool uses *)
Fixpoint subst_02x (text : string) (v : string) : option string :=
  match text with
  | EmptyString => Some EmptyString
  | String "%" (String "0" (String "2" (String "x" r))) =>
      if string_exists (fun c => Ascii.eqb c "%") r then None else Some (v +++ r)
  | String c r => if Ascii.eqb c "%" then None
                  else match subst_02x r v with Some r' => Some (String c r') | None => None end
  end.

Fixpoint find_exit (tbl : list exit_entry) (name : string) : option exit_entry :=
  match tbl with
  | [] => None
  | x :: t => if String.eqb (x_exc x) name then Some x else find_exit t name
  end.

Inductive cmd_end :=
| EndStatus (printed : option string) (code : Z)     (* handled: message, sys.exit(code) *)
| EndPropagates                                      (* no except clause: the exception leaves main *)
| EndUnmodelled.

Definition command_error_end (tbl : list exit_entry) (e : err) : cmd_end :=
  match exc_name e with
  | None => EndPropagates
  | Some n =>
      match find_exit tbl n with
      | None => EndPropagates
      | Some x =>
          match x_bad x, x_code x with
          | Some _, _ => EndUnmodelled
          | None, None => EndUnmodelled                (* handler falls through: not in the fragment *)
          | None, Some code =>
              match x_text x, x_uses_cc x, e with
              | None, _, _ => EndStatus None code
              | Some t, false, _ => if string_exists (fun c => Ascii.eqb c "%") t then EndUnmodelled
                                    else EndStatus (Some t) code
              | Some t, true, CCError cc =>
                  match subst_02x t (fmt_02x cc) with
                  | Some s => EndStatus (Some s) code
                  | None => EndUnmodelled
                  end
              | Some _, true, _ => EndUnmodelled
              end
          end
      end
  end.

(* ---- the stages main goes through once the connection is configured (main 647-666,
   Ipmi.open / Ipmi.close, Session.establish / Session.close):
     [ipmi.open()]  try: [ipmi.open()] cmd(ipmi, args)  except ...  finally: ipmi.close()
   as calls on the interface object: open, establish_session, <the command>, close_session, close.
   At most one of them raises (the fault); the others succeed. ---- *)
Inductive istep := IOpen | IEstablish | ICommand | ICloseSession | IClose.
Definition istep_eqb (a b : istep) : bool :=
  match a, b with
  | IOpen, IOpen | IEstablish, IEstablish | ICommand, ICommand | ICloseSession, ICloseSession | IClose, IClose => true
  | _, _ => false
  end.

Inductive run_end :=
| RunReturns                                   (* main returns: exit status 0 *)
| RunExit (printed : option string) (code : Z) (* handled: message, sys.exit(code) *)
| RunRaises (e : err)                          (* the exception leaves main *)
| RunUnmodelled.

(* run the steps in order until the faulty one; returns the calls made and the error, if any *)
Fixpoint do_steps (steps : list istep) (fault : option (istep * err)) : list istep * option err :=
  match steps with
  | [] => ([], None)
  | s :: t =>
      match fault with
      | Some (fs, e) => if istep_eqb fs s then ([s], Some e)
                        else let '(c, r) := do_steps t fault in (s :: c, r)
      | None => let '(c, r) := do_steps t fault in (s :: c, r)
      end
  end.

Definition main_run (shape : run_shape_t) (tbl : list exit_entry) (fault : option (istep * err))
  : list istep * run_end :=
  match shape with
  | RunShape open_in_try true =>
      let opening := [IOpen; IEstablish] in
      (* before the try *)
      let '(c0, r0) := if open_in_try then ([], None) else do_steps opening fault in
      match r0 with
      | Some e => (c0, RunRaises e)                          (* nothing catches it, no finally yet *)
      | None =>
          (* try body *)
          let '(c1, r1) := do_steps ((if open_in_try then opening else []) ++ [ICommand]) fault in
          let pending := match r1 with
                         | None => RunReturns
                         | Some e => match command_error_end tbl e with
                                     | EndStatus p code => RunExit p code
                                     | EndPropagates => RunRaises e
                                     | EndUnmodelled => RunUnmodelled
                                     end
                         end in
          (* finally: ipmi.close() = session.close() -> interface.close_session(); interface.close();
             an exception raised there replaces whatever was pending *)
          let '(c2, r2) := do_steps [ICloseSession; IClose] (match r1 with None => fault | Some _ => None end) in
          (c0 ++ c1 ++ c2, match r2 with Some e => RunRaises e | None => pending end)
      end
  | RunShape _ false => ([], RunUnmodelled)
  | RunUntranslated _ => ([], RunUnmodelled)
  end.

(* ---- chassis power: the request a sub-command sends ---- *)
Definition power_request (shape : chassis_control_shape) (code : N) : option request :=
  match shape with
  | CCReq netfn cmd lun off w =>
      if (code <? 2 ^ w)%N && (off + w <=? 8)%N then Some (mkReq netfn cmd lun [(code * 2 ^ off)%N]) else None
  | CCUntranslated _ => None
  end.

Fixpoint assoc_str {A} (l : list (string * A)) (k : string) : option A :=
  match l with [] => None | (k', v) :: t => if String.eqb k' k then Some v else assoc_str t k end.

(* 'chassis power <sub>': COMMANDS entry -> handler that only calls i.<m>() -> Chassis.<m> ->
   chassis_control(code) -> ChassisControl request *)
Definition power_sends (cmds : list command) (ptbl : list (string * power_entry))
           (shape : chassis_control_shape) (sub : string) : option request :=
  match get_command_function cmds ("chassis power " +++ sub) 0, assoc_str ptbl sub with
  | Some (_, h), Some (PCode m' code) =>
      match handler_calls h with
      | Some [mkCall m (Some O) []] => if String.eqb m m' then power_request shape code else None
      | _ => None
      end
  | _, _ => None
  end.
