(* C19, SPECIFICATION side (independent of pyipmi's code): which argument vector the
   ipmitool program has to receive for a configuration - written from ipmitool(1):
     -I intf -H host -p port -L level [-C cipher] -U user -P password
     [-T transit_addr -B transit_channel] [-t target_addr [-b target_channel]]
     -l lun raw <netfn> <bytes...>
   - and what ipmitool prints: the raw reply (lib/ipmi_raw.c: " %2.2x" per byte, a newline
   before every 16th byte and at the end) and the failure line
   "Unable to send RAW command (channel=0x%x netfn=0x%x lun=0x%x cmd=0x%x rsp=0x%x): %s".
   Numbers are rendered with the text functions of Model/IpmitoolIf.v ([dec], [ox2], [hexl],
   [hex2]); these are compared with Python's formatting by the correspondence run.
   Executable definitions only. *)
From Coq Require Import String Ascii.
From Coq Require Import NArith List Bool.
From PyIpmi Require Import Lib.Res Lib.Bytes Model.Shell Model.IpmitoolIf.
Import ListNotations.
Open Scope N_scope.

(* ---- domain of the property ---- *)
Definition level_name (l : N) : list N :=
  if l =? 2 then B "USER" else if l =? 3 then B "OPERATOR" else B "ADMINISTRATOR".
Definition wf_config (c : config) : bool :=
  match c_type c with
  | Lan | Lanplus =>
      plain_word (c_host c) && ((c_priv c =? 2) || (c_priv c =? 3) || (c_priv c =? 4)) &&
      match c_auth c with
      | AuthNone => true
      | AuthPassword u p => nonul u && nonul p        (* EVERY user / password without NUL *)
      | AuthOther => false
      end
  | SerialTerminal => plain_word (c_serial_port c)
  | OpenIf => true
  end.
(* routing of depth 1..3 with the channels the options need, or a plain address, or none *)
Definition wf_target (t : option target) : bool :=
  match t with
  | None => true
  | Some t =>
      match t_routing t with
      | None => true
      | Some [_] => true
      | Some [r0; _] => match r_channel r0 with Some _ => true | None => false end
      | Some [r0; r1; _] => match r_channel r0, r_channel r1 with Some _, Some _ => true | _, _ => false end
      | Some _ => false
      end
  end.

(* ---- expected argument vector ---- *)
Definition ch (c : option N) : list N := dec (match c with Some n => n | None => 0 end).
Definition target_args (t : option target) : list (list N) :=
  match t with
  | None => []
  | Some t =>
      match t_routing t with
      | Some [r0; r1] => [B "-t"; ox2 (r_rs_sa r1); B "-b"; ch (r_channel r0)]
      | Some [r0; r1; r2] => [B "-T"; ox2 (r_rs_sa r1); B "-B"; ch (r_channel r0);
                              B "-t"; ox2 (r_rs_sa r2); B "-b"; ch (r_channel r1)]
      | Some _ => []                                  (* depth 1: addressed directly *)
      | None => match t_addr t with
                | Some a => if a =? 0 then [] else [B "-t"; ox2 a]
                | None => []
                end
      end
  end.
Definition cipher_args (c : option N) : list (list N) :=
  match c with Some n => [B "-C"; dec n] | None => [] end.
Definition cred_args (a : auth) : list (list N) :=
  match a with AuthPassword u p => [B "-U"; u; B "-P"; p] | _ => [B "-P"; []] end.
Definition raw_args (lun netfn : N) (raw : list N) : list (list N) :=
  [B "-l"; dec lun; B "raw"] ++ map ox2 (netfn :: raw).

Definition spec_argv (c : config) (t : option target) (lun netfn : N) (raw : list N) : list (list N) :=
  [B "ipmitool"; B "-I"; iftype_name (c_type c)] ++
  match c_type c with
  | Lan | Lanplus =>
      [B "-H"; c_host c; B "-p"; dec (c_port c); B "-L"; level_name (c_priv c)] ++
      cipher_args (c_cipher c) ++ cred_args (c_auth c)
  | SerialTerminal => [B "-D"; c_serial_port c ++ [58] ++ dec (c_baud c)]
  | OpenIf => []
  end ++ target_args t ++ raw_args lun netfn raw.
(* stderr joins stdout for lan, lanplus and open; the serial command line has no 2>&1 *)
Definition spec_err2out (c : config) : bool :=
  match c_type c with SerialTerminal => false | _ => true end.

Definition spec_ping_argv (c : config) : list (list N) :=
  [B "ipmitool"; B "-I"; iftype_name (c_type c); B "-H"; c_host c; B "-p"; dec (c_port c)] ++
  match c_auth c with
  | AuthNone => [B "-A"; B "NONE"]
  | AuthPassword u p => [B "-U"; u; B "-P"; p]
  | AuthOther => []
  end ++ [B "session"; B "info"; B "all"].

(* ---- what ipmitool prints ---- *)
(* one output line per chunk of the reply: " xx xx ... xx" newline; [format_lines] takes
   ANY chunking (any line wrapping); ipmitool's own is [chunks 16] *)
Definition reply_line (chunk : list N) : list N := flat_map (fun b => 32 :: hex2 b) chunk ++ [10].
Definition format_lines (chunks : list (list N)) : list N :=
  match chunks with [] => [10] | _ => flat_map reply_line chunks end.
Fixpoint chunks_aux (fuel : nat) (w : nat) (bs : list N) : list (list N) :=
  match fuel, bs with
  | _, [] => []
  | O, _ => [bs]
  | S f, _ => firstn w bs :: chunks_aux f w (skipn w bs)
  end.
Definition chunks (w : nat) (bs : list N) : list (list N) := chunks_aux (length bs) w bs.
Definition format16 (bs : list N) : list N := format_lines (chunks 16 bs).

(* lprintf(LOG_ERR, "Unable to send RAW command (channel=0x%x netfn=0x%x lun=0x%x cmd=0x%x rsp=0x%x): %s") *)
Definition rsp_body (chn netfn lun cmd cc : N) (text : list N) : list N :=
  B "Unable to send RAW command (channel=0x" ++ hexl chn ++ B " netfn=0x" ++ hexl netfn ++
  B " lun=0x" ++ hexl lun ++ B " cmd=0x" ++ hexl cmd ++ B " rsp=0x" ++ hexl cc ++ B "): " ++ text.
Definition rsp_line (chn netfn lun cmd cc : N) (text : list N) : list N :=
  rsp_body chn netfn lun cmd cc text ++ [10].
(* the same message when no response arrived at all *)
Definition timeout_line (chn netfn lun cmd : N) : list N :=
  B "Unable to send RAW command (channel=0x" ++ hexl chn ++ B " netfn=0x" ++ hexl netfn ++
  B " lun=0x" ++ hexl lun ++ B " cmd=0x" ++ hexl cmd ++ B ")" ++ [10].

(* val2str(rsp->ccode, completion_code_vals): ipmitool's texts for the generic completion codes *)
Definition cc_texts : list (list N) :=
  map B ["Node busy"; "Invalid command"; "Invalid command on LUN"; "Timeout"; "Out of space";
         "Reservation cancelled or invalid"; "Request data truncated"; "Request data length invalid";
         "Request data field length limit exceeded"; "Parameter out of range";
         "Cannot return number of requested data bytes";
         "Requested sensor, data, or record not found"; "Invalid data field in request";
         "Command illegal for specified sensor or record type";
         "Command response could not be provided"; "Cannot execute duplicated request";
         "SDR Repository in update mode"; "Device firmeware in update mode";
         "BMC initialization in progress"; "Destination unavailable"; "Insufficient privilege level";
         "Command not supported in present state"; "Cannot execute command, command disabled";
         "Unspecified error"; "Unknown (0x81)"; ""]%string.
(* (channel, netfn, lun, cmd) samples for the computed sweep *)
Definition field_samples : list (N * N * N * N) :=
  [(0, 6, 0, 1); (7, 44, 3, 255); (15, 63, 1, 204); (12, 12, 0, 236); (1, 10, 2, 0)].

(* session set-up failures and the over-long password message of ipmitool *)
Definition connection_msgs : list (list N) :=
  map B ["Error: Unable to establish IPMI v2 / RMCP+ session" ; "Error: Unable to establish LAN session";
         "Error: Unable to establish IPMI v1.5 / RMCP session"]%string.
Definition long_password_msgs : list (list N) :=
  map B ["lanplus: password is longer than 20 bytes."; "lan: password is longer than 16 bytes."]%string.
Definition preceding_noise : list (list N) :=
  [[]; B "Get Session Challenge command failed" ++ [10]; B "Activate Session command failed" ++ [10]].

(* rmcp_ping *)
Definition wf_ping (c : config) : bool :=
  match c_type c with SerialTerminal => false | _ => true end && plain_word (c_host c) &&
  match c_auth c with AuthPassword u p => nonul u && nonul p | _ => true end.
