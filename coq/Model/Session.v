(* Hand model (H) of LAN session handling in pyipmi/interfaces/rmcp.py (C06):
   Rmcp.ping, _get_channel_auth_cap, _get_session_challenge, _activate_session,
   _set_session_privilege_level, establish_session, close_session, the send side of
   _send_and_receive (one exchange is atomic: C04 owns the receive loop), and
   pyipmi/messaging.py:ChannelAuthenticationCapabilities._from_response/get_max_auth_type,
   with the request encodings / response decodings of the five session messages of
   pyipmi/msgs/device_messaging.py.  Built on Model/Rmcp.v (datagrams, Session state)
   and Model/Ipmb.v (IPMB frame).  Executable definitions only; md5 is a Section variable. *)
From Coq Require Import NArith List Bool.
From PyIpmi Require Import Lib.Res Lib.Bytes Model.Ipmb Model.Rmcp.
Import ListNotations.
Open Scope N_scope.

(* what comes back for one datagram handed to sendto:
   LData: for the presence ping the datagram returned by recvfrom; for an IPMI request
          the response data rx_data[6:-1] (completion code first) of the matching reply;
   LTimeout: socket.timeout;  LRaise: any other exception out of the receive path *)
Inductive lreply := LData (d : list N) | LTimeout | LRaise (e : err).

Inductive lprog (A : Type) :=
| LRet (a : A)
| LSend (dg : list N) (k : lreply -> lprog A).
Arguments LRet {A} a.
Arguments LSend {A} dg k.

Fixpoint lbind {A B} (p : lprog A) (f : A -> lprog B) : lprog B :=
  match p with
  | LRet a => f a
  | LSend dg k => LSend dg (fun r => lbind (k r) f)
  end.

(* the mutable objects: the caller's Session object (auth_type, sid, sequence_number,
   activated, password), whether Rmcp._session refers to it (else None), Rmcp.seq_number,
   Rmcp.next_sequence_number, and whether _stop_keep_alive is set (a keep-alive was started; the thread itself is C14's) *)
Record lstate := mkL { l_so : sess; l_att : bool; l_rseq : N; l_nseq : N; l_keep : bool }.

(* configuration that does not change: user name bytes (empty = None / ''), requested
   privilege level, max_retries, keep_alive_interval != 0 *)
Record cfg := mkCfg { c_user : list N; c_priv : N; c_retries : nat; c_keepalive : bool }.

(* stateful computations that may raise: the state survives the exception *)
Definition M (A : Type) := lstate -> lprog (lstate * res A).
Definition mret {A} (a : A) : M A := fun st => LRet (st, Ok a).
Definition mfail {A} (e : err) : M A := fun st => LRet (st, Err e).
Definition mbind {A B} (m : M A) (f : A -> M B) : M B := fun st =>
  lbind (m st) (fun x => match snd x with Ok a => f a (fst x) | Err e => LRet (fst x, Err e) end).
Definition mlift {A} (r : res A) : M A := fun st => LRet (st, r).
Definition mget : M lstate := fun st => LRet (st, Ok st).
Definition mmod (f : lstate -> lstate) : M unit := fun st => LRet (f st, Ok tt).
Notation "'dom' x <- m ; k" := (mbind m (fun x => k))
  (at level 200, x name, m at level 100, k at level 200).

Definition socket_timeout : err := OtherError OtherExc.

Definition cur_sess (st : lstate) : option sess := if l_att st then Some (l_so st) else None.
Definition set_after_send (st : lstate) (so' : option sess) (rseq' : N) : lstate :=
  mkL (match so' with Some s => s | None => l_so st end) (l_att st) rseq' (l_nseq st) (l_keep st).
Definition upd_so (f : sess -> sess) (st : lstate) : lstate :=
  mkL (f (l_so st)) (l_att st) (l_rseq st) (l_nseq st) (l_keep st).

Section WithMd5.
Variable md5 : list N -> list N.

(* the retry loop of Rmcp._send_and_receive around _send_ipmi_msg (every attempt packs
   again, so an activated session's sequence number advances per datagram);
   fuel = max_retries + 1; socket.timeout -> next attempt; exhausted -> RetryError *)
Fixpoint xchg_loop (fuel : nat) (tx : list N) : M (list N) := fun st =>
  match fuel with
  | O => LRet (st, Err RetryError)
  | S f =>
      let '(so', rseq', r) := send_ipmi_msg md5 (cur_sess st) (l_rseq st) tx in
      let st' := set_after_send st so' rseq' in
      match r with
      | Err e => LRet (st', Err e)
      | Ok dg => LSend dg (fun rp =>
                   match rp with
                   | LData d => LRet (st', Ok d)
                   | LTimeout => xchg_loop f tx st'
                   | LRaise e => LRet (st', Err e)
                   end)
      end
  end.

(* Rmcp._send_and_receive(target = host_target 0x20 without routing, lun, netfn, cmdid,
   payload): _inc_sequence_number, IPMB header (rq_sa = slave_address 0x81, rq_lun 0),
   encode_ipmb_msg, retry loop; returns rx_data[6:-1] *)
Definition xchg (c : cfg) (netfn lun cmd : N) (data : list N) : M (list N) := fun st =>
  let n := (l_nseq st + 1) mod 64 in
  let st1 := mkL (l_so st) (l_att st) (l_rseq st) n (l_keep st) in
  match encode_ipmb_msg (mkHdr 0x20 lun 0x81 0 n netfn cmd) data with
  | Err e => LRet (st1, Err e)
  | Ok tx => xchg_loop (S (c_retries c)) tx st1
  end.

(* Rmcp.ping: AsfPing through _send_rmcp_msg (class ASF), then _receive_asf_msg(AsfPong);
   a socket.timeout is not caught here *)
Definition ping : M unit := fun st =>
  match asf_ping with
  | Err e => LRet (st, Err e)
  | Ok b =>
    match rmcp_pack (Some b) (l_rseq st) CLASS_ASF with
    | Err e => LRet (st, Err e)
    | Ok dg =>
      let st' := mkL (l_so st) (l_att st) (rmcp_seq_next (l_rseq st)) (l_nseq st) (l_keep st) in
      LSend dg (fun rp =>
        match rp with
        | LData d => LRet (st', match receive_pong d with Ok _ => Ok tt | Err e => Err e end)
        | LTimeout => LRet (st', Err socket_timeout)
        | LRaise e => LRet (st', Err e)
        end)
    end
  end.

(* ---- response decoding (decode_message of the *Rsp classes): (completion code, fields).
   Decoding stops after a non-zero completion code; otherwise too few bytes for an
   integer / bitfield or bytes left over raise DecodingError.  pop_string is lenient. *)
Definition dec_cc (d : list N) : res (N * list N) :=
  match d with [] => Err DecodingError | cc :: r => Ok (cc, r) end.

(* GetChannelAuthenticationCapabilitiesRsp -> (cc, support byte) *)
Definition decode_caps (d : list N) : res (N * N) :=
  do '(cc, r) <- dec_cc d;
  if negb (cc =? 0) then Ok (cc, 0)
  else if Nat.eqb (length r) 8 then Ok (0, nth 1 r 0) else Err DecodingError.

(* GetSessionChallengeRsp -> (cc, temporary_session_id, challenge_string) *)
Definition decode_challenge (d : list N) : res (N * N * list N) :=
  do '(cc, r) <- dec_cc d;
  if negb (cc =? 0) then Ok (cc, 0, [])
  else if Nat.ltb (length r) 4 then Err DecodingError
  else if Nat.ltb 20 (length r) then Err DecodingError
  else Ok (0, le_val (firstn 4 r), firstn 16 (skipn 4 r)).

(* ActivateSessionRsp -> (cc, session_id, initial_inbound_sequence_number) *)
Definition decode_activate (d : list N) : res (N * N * N) :=
  do '(cc, r) <- dec_cc d;
  if negb (cc =? 0) then Ok (cc, 0, 0)
  else if Nat.eqb (length r) 10 then Ok (0, le_val (firstn 4 (skipn 1 r)), le_val (firstn 4 (skipn 5 r)))
  else Err DecodingError.

(* SetSessionPrivilegeLevelRsp / CloseSessionRsp -> cc *)
Definition decode_cc_n (n : nat) (d : list N) : res N :=
  do '(cc, r) <- dec_cc d;
  if negb (cc =? 0) then Ok cc
  else if Nat.eqb (length r) n then Ok 0 else Err DecodingError.

Definition check_cc (cc : N) : M unit := if cc =? 0 then mret tt else mfail (CCError cc).

(* ChannelAuthenticationCapabilities._from_response + get_max_auth_type(supported_auth_types)
   [repaired code, fixes/F6-auth-type-implemented.diff]: support bits none=0 md2=1 md5=2
   straight=4 oem=5; preference md5, md2, straight, oem, none; a type that is offered but not in
   supported_auth_types (when given) is skipped *)
Definition auth_pref : list (N * N) :=          (* (support bit, Session auth type constant) *)
  [(2, AUTH_MD5); (1, AUTH_MD2); (4, AUTH_PASSWORD); (5, AUTH_OEM); (0, AUTH_NONE)].
Fixpoint pick_auth (pref : list (N * N)) (support : N) (supported : option (list N)) : option N :=
  match pref with
  | [] => None
  | (bit, a) :: r =>
      if N.testbit support bit then
        match supported with
        | Some l => if existsb (N.eqb a) l then Some a else pick_auth r support supported
        | None => Some a
        end
      else pick_auth r support supported
  end.
Definition max_auth_type (support : N) (supported : option (list N)) : option N :=
  pick_auth auth_pref support supported.
(* IpmiMsg.SUPPORTED_AUTH_TYPES *)
Definition SUPPORTED_AUTH_TYPES : list N := [AUTH_NONE; AUTH_PASSWORD; AUTH_MD5].

Definition NETFN_APP := 6.

(* Rmcp._get_channel_auth_cap(session): channel 0xE, requested privilege *)
Definition get_channel_auth_cap (c : cfg) : M N :=
  dom d <- xchg c NETFN_APP 0 0x38 [0x0e; N.land (c_priv c) 0xf];
  dom x <- mlift (decode_caps d);
  dom _ <- check_cc (fst x);
  mret (snd x).

(* req.user_name = username.ljust(16, '\x00') if username else the default 16 zeros;
   String.encode pushes the bytes whatever their number *)
Definition user_field (u : list N) : list N :=
  match u with [] => repeat 0 16 | _ => ljust16 u end.

Definition auth_nibble (a : option N) : N := match a with Some v => N.land v 0xf | None => 0 end.

(* Rmcp._get_session_challenge(session) -> (temporary_session_id, challenge_string) *)
Definition get_session_challenge (c : cfg) : M (N * list N) :=
  dom st <- mget;
  dom d <- xchg c NETFN_APP 0 0x39 (auth_nibble (s_auth (l_so st)) :: user_field (c_user c));
  dom x <- mlift (decode_challenge d);
  dom _ <- check_cc (fst (fst x));
  mret (snd (fst x), snd x).

(* Rmcp._activate_session(session, challenge); rnd = random.randrange(1, 0xffffffff) *)
Definition activate_session (c : cfg) (chal : list N) (rnd : N) : M (N * N) :=
  dom st <- mget;
  dom d <- xchg c NETFN_APP 0 0x3a
             ([auth_nibble (s_auth (l_so st)); N.land (c_priv c) 0xf] ++ chal ++ le_bytes 4 rnd);
  dom x <- mlift (decode_activate d);
  dom _ <- check_cc (fst (fst x));
  mret (snd (fst x), snd x).

(* Rmcp._set_session_privilege_level(level) *)
Definition set_session_privilege_level (c : cfg) : M unit :=
  dom d <- xchg c NETFN_APP 0 0x3b [N.land (c_priv c) 0xf];
  dom cc <- mlift (decode_cc_n 1 d);
  check_cc cc.

(* Rmcp.establish_session(session) *)
Definition establish (c : cfg) (rnd : N) : M unit :=
  dom _ <- mmod (fun st => mkL (l_so st) false (l_rseq st) (l_nseq st) (l_keep st));   (* self._session = None *)
  dom _ <- ping;
  dom support <- get_channel_auth_cap c;
  dom _ <- mmod (upd_so (fun s => mkSess (max_auth_type support (Some SUPPORTED_AUTH_TYPES))
                                          (s_sid s) (s_seq s) (s_act s) (s_pw s)));
  dom _ <- (match max_auth_type support (Some SUPPORTED_AUTH_TYPES) with
            | None => mfail NotSupported          (* no supported authentication type offered *)
            | Some _ => mret tt
            end);
  dom ch <- get_session_challenge c;
  dom _ <- mmod (upd_so (fun s => mkSess (s_auth s) (fst ch) (s_seq s) (s_act s) (s_pw s)));
  dom _ <- mmod (fun st => mkL (l_so st) true (l_rseq st) (l_nseq st) (l_keep st));    (* self._session = session *)
  dom a <- activate_session c (snd ch) rnd;
  dom _ <- mmod (upd_so (fun s => mkSess (s_auth s) (fst a) (snd a) true (s_pw s)));
  dom _ <- set_session_privilege_level c;
  mmod (fun st => mkL (l_so st) (l_att st) (l_rseq st) (l_nseq st) (l_keep st || c_keepalive c)).

(* a later request through send_and_receive_raw on the host target *)
Definition request (c : cfg) (netfn lun cmd : N) (data : list N) : M (list N) :=
  xchg c netfn lun cmd data.

(* Rmcp.close_session() *)
Definition close_session (c : cfg) : M unit := fun st =>
  (* "if self._stop_keep_alive: self._stop_keep_alive()" stops the thread; the attribute stays set *)
  if negb (l_att st) then LRet (st, Err (OtherError AttributeError))         (* None.activated *)
  else if negb (s_act (l_so st)) then LRet (st, Ok tt)
  else
    (dom d <- xchg c NETFN_APP 0 0x3c (le_bytes 4 (s_sid (l_so st)));
     dom cc <- mlift (decode_cc_n 0 d);
     dom _ <- check_cc cc;
     mmod (upd_so (fun s => mkSess (s_auth s) (s_sid s) (s_seq s) false (s_pw s)))) st.

End WithMd5.

(* ---- interpreters ---- *)
(* against recorded replies (correspondence): outcome, datagrams sent, replies left *)
Fixpoint lreplay {A} (p : lprog A) (rs : list lreply) (sent : list (list N))
  : option A * list (list N) * list lreply :=
  match p with
  | LRet a => (Some a, sent, rs)
  | LSend dg k => match rs with
                  | [] => (None, sent ++ [dg], [])
                  | r :: rs' => lreplay (k r) rs' (sent ++ [dg])
                  end
  end.

(* against a Gallina device (theorems) *)
Fixpoint lrun {A S} (p : lprog A) (dev : S -> list N -> S * lreply) (s : S) (sent : list (list N))
  : A * S * list (list N) :=
  match p with
  | LRet a => (a, s, sent)
  | LSend dg k => let '(s', r) := dev s dg in lrun (k r) dev s' (sent ++ [dg])
  end.
