(* C20: the request a single-call command of the command-line tool sends, computed from the
   regenerated CLI table (Gen/CliTable.v: which operation the handler calls, where its arguments
   come from) and the regenerated CONTENT of that operation (Gen/ApiContent.v, interpreted by
   Model/ApiSem.v over the regenerated layouts).  Executable definitions only. *)
From Coq Require Import String Ascii.
From Coq Require Import NArith ZArith List Bool.
From PyIpmi Require Import Lib.Res Lib.Bytes Lib.Prog Model.ApiSem Model.ApiRun Model.Cli.
Import ListNotations.
Open Scope string_scope.
Open Scope list_scope.

(* int(args[idx], base) / a constant *)
Definition eval_arg (args : list string) (a : argspec) : res Z :=
  match a with
  | AConst z => Ok z
  | AInt i b => match nth_error args i with
                | Some s => py_int b s
                | None => Err (OtherError IndexError)
                end
  end.
Fixpoint eval_args (args : list string) (l : list argspec) : res (list Z) :=
  match l with
  | [] => Ok []
  | a :: t => do z <- eval_arg args a; do r <- eval_args args t; Ok (z :: r)
  end.

(* Python binds positional arguments to the parameters in order (more arguments than
   parameters: TypeError) *)
Fixpoint bind_positional (ps : list (string * option pv)) (vs : list Z) : option (list (string * pv)) :=
  match vs, ps with
  | [], _ => Some []
  | _ :: _, [] => None
  | v :: vt, (p, _) :: pt => match bind_positional pt vt with
                             | Some r => Some ((p, PInt v) :: r)
                             | None => None
                             end
  end.

(* the one request the translated operation [m] sends when called with the named arguments
   (the reply only matters afterwards; an error reply ends every single-request operation) *)
Definition first_request (m : string) (named : list (string * pv)) : option request :=
  match find_cop m with
  | Some o =>
      if supported o then
        match replay (run_cop o named) [RBytes [193%N]] [] [] with
        | (_, [r], _, []) => Some r
        | _ => None
        end
      else None
  | None => None
  end.

(* the request the command [name] sends for the remaining command-line arguments [args] *)
Definition cli_request (specs : list (string * callspec)) (name : string) (args : list string) : option request :=
  match assoc_str specs name with
  | Some (CSingle m al) =>
      match eval_args args al, find_cop m with
      | Ok vs, Some o => match bind_positional (c_params o) vs with
                         | Some named => first_request m named
                         | None => None
                         end
      | _, _ => None
      end
  | _ => None
  end.

(* was the operation the command calls translated (without refusal) by the API translator in THIS run? *)
Definition cli_translated (specs : list (string * callspec)) (name : string) : bool :=
  match assoc_str specs name with
  | Some (CSingle m _) => is_supported m
  | _ => false
  end.
