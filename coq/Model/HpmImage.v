(* Hand model (H) of the HPM.1 upgrade-image parser of pyipmi/hpm.py
   (UpgradeImageHeaderRecord, UpgradeActionRecord*, UpgradeImage._from_file) and of
   pyipmi/fields.py:VersionField.  Executable definitions only.

   The header's OEM data slice is modelled as the REPAIRED code
   (fixes/F18-hpm-oem-data-slice.diff): data[34:34 + oem_data_length]; /repo at the time
   of writing has data[34:-1] (defect F18, reported by the oracle of harness/c18.py). *)
From Coq Require Import NArith List Bool.
From PyIpmi Require Import Lib.Res Lib.Bytes.
Import ListNotations.
Open Scope N_scope.

(* Python slices data[a:a+n] / data[a:] with an N length that may be huge (a declared
   firmware length is a 32-bit number): clamp before converting to nat. *)
Definition take (n : N) (l : list N) : list N :=
  firstn (N.to_nat (N.min n (N.of_nat (length l)))) l.
Definition drop (n : N) (l : list N) : list N :=
  skipn (N.to_nat (N.min n (N.of_nat (length l)))) l.
(* data[a:a+n] for small constant a, n *)
Definition sl (a n : nat) (l : list N) : list N := firstn n (skipn a l).
Arguments sl (a n)%nat l.
(* data[a] once the length has been checked *)
Definition at_ (a : nat) (l : list N) : N := nth a l 0.
Arguments at_ a%nat l.

(* ---- fields.py: VersionField ---- *)
Record version := mkVer { v_major : N; v_minor : N; v_aux : option (list N) }.

(* VersionField._decode_data, the minor byte:
     if data[1] == 0xff: minor = 0xff
     elif data[1] <= 0x99: minor = int(bytes([data[1]]).decode('bcd+'))
     else: raise DecodingError()
   bcd_decode maps the nibbles through BCD_MAP = '0'..'9',' ','-','.' (IndexError ->
   ValueError beyond); int() strips the trailing blank of nibble 0xa and raises
   ValueError on '-' and '.'. *)
Definition dec_minor (m : N) : res N :=
  if m =? 0xff then Ok m
  else if m <=? 0x99 then
    let hi := m / 16 in
    let lo := m mod 16 in
    if lo <=? 9 then Ok (10 * hi + lo)
    else if lo =? 10 then Ok hi
    else Err (OtherError ValueError)
  else Err DecodingError.

(* VersionField(data)._from_data for a non-empty slice: major = data[0]; minor as above;
   auxiliary = data[2:6] only when len(data) == 6.  (An empty slice would leave every
   attribute None; the callers below never pass one: they run after the struct.unpack
   calls that need the same bytes.) *)
Definition version_field (d : list N) : res version :=
  match d with
  | major :: minor :: rest =>
      do m <- dec_minor minor;
      Ok (mkVer major m (if Nat.eqb (length d) 6%nat then Some (firstn 4%nat rest) else None))
  | _ => Err (OtherError IndexError)
  end.

(* ---- UpgradeImageHeaderRecord._from_data ---- *)
Record header := mkHeader {
  h_signature : list N;            (* data[0:8] *)
  h_format_version : N;            (* 'B' @8 *)
  h_device_id : N;                 (* 'B' @9 *)
  h_manufacturer_id : N;           (* data[10] | data[11] << 8 | data[12] << 16 *)
  h_product_id : N;                (* '<H' @13 *)
  h_time : N;                      (* '<L' @15 *)
  h_capabilities : N;              (* 'B' @19 *)
  h_components : list N;           (* [i for i in range(8) if data[20] & (1 << i)] *)
  h_selftest_timeout : N;          (* 'B' @21 *)
  h_rollback_timeout : N;          (* 'B' @22 *)
  h_inaccessibility_timeout : N;   (* 'B' @23 *)
  h_earliest : version;            (* VersionField(data[24:26]) *)
  h_firmware_revision : version;   (* VersionField(data[26:32]) *)
  h_oem_data_length : N;           (* '<H' @32 *)
  h_oem_data : option (list N);    (* attribute set only "if self.oem_data_length" *)
  h_checksum : N;                  (* data[34 + oem_data_length] *)
  h_length : N                     (* 34 + oem_data_length + 1 *)
}.

Definition bits_set (b : N) : list N :=
  filter (fun i => negb (N.land b (N.shiftl 1 i) =? 0)) [0; 1; 2; 3; 4; 5; 6; 7].

(* data is a bytes object, every element < 256: `a | b << 8 | c << 16` and
   struct.unpack('<H' / '<L') are the little-endian value [le_val]. *)
Definition parse_header (data : list N) : res header :=
  (* the struct.unpack loop over FORMAT needs data[32:34] (struct.error otherwise); an
     empty buffer skips _from_data and `header.length` raises AttributeError *)
  if Nat.ltb (length data) 34%nat then Err (OtherError OtherExc)
  else
    do ecr <- version_field (sl 24 2 data);
    do fwr <- version_field (sl 26 6 data);
    let oem_len := le_val (sl 32 2 data) in
    (* repaired (F18): self.oem_data = data[34:34 + self.oem_data_length] *)
    let oem := if oem_len =? 0 then None else Some (take oem_len (skipn 34%nat data)) in
    (* self.checksum = data[34 + self.oem_data_length]  (IndexError when truncated) *)
    match drop oem_len (skipn 34%nat data) with
    | [] => Err (OtherError IndexError)
    | ck :: _ =>
        Ok (mkHeader (sl 0 8 data) (at_ 8 data) (at_ 9 data) (le_val (sl 10 3 data)) (le_val (sl 13 2 data))
                     (le_val (sl 15 4 data)) (at_ 19 data) (bits_set (at_ 20 data)) (at_ 21 data) (at_ 22 data) (at_ 23 data)
                     ecr fwr oem_len oem ck (34 + oem_len + 1))
    end.

(* ---- UpgradeActionRecord.create_from_data and subclasses ---- *)
Record upload := mkUpload {
  u_version : version;     (* VersionField(data[3:9]) *)
  u_description : list N;  (* data[9:30].decode('raw_unicode_escape') as code points; modelled for
                              descriptions without a "\u" / "\U" escape, where it is the identity *)
  u_firmware_length : N;   (* '<L' @30 *)
  u_data : list N          (* data[34:34 + firmware_length] *)
}.
Record action := mkAction {
  a_type : N; a_components : N; a_checksum : N;   (* struct.unpack('BBB', data[0:3]) *)
  a_length : N;                                   (* 3, or 3 + 31 + firmware_length *)
  a_upload : option upload                        (* UpgradeActionRecordUploadForUpgrade only *)
}.

Definition parse_action (d : list N) : res action :=
  match d with
  | t :: c :: k :: _ =>
      (* action_type 0 Backup, 1 Prepare, 3 UploadForCompare: the bare 3-byte record *)
      if 3 <? t then Err HpmError
      else if t =? 2 then
        do v <- version_field (sl 3 6 d);
        if Nat.ltb (length d) 34%nat then Err (OtherError OtherExc)    (* struct.error on data[30:34] *)
        else
          let fl := le_val (sl 30 4 d) in
          Ok (mkAction t c k (3 + 31 + fl) (Some (mkUpload v (sl 9 21 d) fl (take fl (skipn 34%nat d)))))
      else Ok (mkAction t c k 3 None)
  | t :: _ => if 3 <? t then Err HpmError else Err (OtherError OtherExc)  (* struct.error 'BBB' *)
  | [] => Err (OtherError IndexError)
  end.

(* while (off + HPM_IMAGE_CHECKSUM_SIZE) < len(file_data):
       action = UpgradeActionRecord.create_from_data(file_data[off:]); off += action.length
   [rest] is file_data[off:]; an action is at least 3 bytes long, so [length rest]
   iterations always suffice (HpmImageProofs.parse_image_fuel). *)
Fixpoint parse_actions (fuel : nat) (rest : list N) : res (list action * list N) :=
  match fuel with
  | O => Err OutOfFuel
  | S f =>
      if Nat.ltb 16%nat (length rest) then
        do a <- parse_action rest;
        do '(acts, tail) <- parse_actions f (drop (a_length a) rest);
        Ok (a :: acts, tail)
      else Ok ([], rest)
  end.

Record image := mkImage {
  i_header : header;
  i_actions : list action;
  i_checksum : option (list N);       (* ImageChecksumRecord(file_data[off:]).data = [0:16], set "if data" *)
  i_checksum_expected : list N        (* _check_md5_sum: filedata[-16:]; checksum_actual is
                                         hashlib.md5().update(...) = None and is never compared *)
}.

(* UpgradeImage._from_file on the file content *)
Definition parse_image (data : list N) : res image :=
  do h <- parse_header data;
  do '(acts, tail) <- parse_actions (S (length data)) (drop (h_length h) data);
  Ok (mkImage h acts
              (match tail with [] => None | _ => Some (firstn 16%nat tail) end)
              (skipn (length data - 16)%nat data)).
