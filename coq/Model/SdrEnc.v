(* SPECIFICATION side of C16 (not a model of the library): an independent encoder of
   the sensor data record formats of IPMI v2.0 section 43 -
     table 43-1 full sensor record (type 01h)      table 43-7 FRU device locator (11h)
     table 43-2 compact sensor record (02h)        table 43-8 management controller device locator (12h)
     table 43-3 event-only record (03h)            table 43-9 management controller confirmation (13h)
     table 43-12 OEM record (C0h)                  and records of any other type (header + body)
   written with arithmetic (times, plus, div, mod) from the tables' bit positions, the spec
   record types [srec] it takes, their ranges, and [expected] = the attributes a
   reader of the library's objects should see for a given spec record.
   Where the tables and the library's attribute names differ in granularity, the
   library's names decide what a spec field is (e.g. the FRU locator's
   "logical_physical" and "channel_number" are whole bytes 8 and 9; the compact
   record's "record_sharing" is bytes 24-25 as one little-endian number). Sub-fields
   the library does not expose (channel number in the owner-LUN byte, sensor
   direction, reserved bits) are separate spec fields with their full range, so that
   the parser has to mask them out.
   Executable definitions only. *)
From Coq Require Import String Ascii.
From Coq Require Import NArith ZArith List Bool.
From PyIpmi Require Import Lib.Res Lib.Bytes Model.SdrParse.
Import ListNotations.
Open Scope string_scope.
Open Scope list_scope.
Open Scope N_scope.

(* ------------------------------------------------------------ id strings *)
(* type/length byte (section 43.15): [7:6] type 0 = unicode, 1 = BCD plus,
   2 = 6-bit ASCII packed, 3 = 8-bit ASCII + Latin 1; [4:0] number of bytes. *)
Record sid := mkSId { si_type : N; si_chars : list N }.

Definition bcd_nibble (c : N) : N :=
  if c =? 32 then 10 else if c =? 45 then 11 else if c =? 46 then 12 else c - 48.
Definition is_bcd_char (c : N) : bool :=
  ((48 <=? c) && (c <=? 57)) || (c =? 32) || (c =? 45) || (c =? 46).
(* two digits per byte, first digit in the high nibble; an odd last digit is
   completed with the BCD-plus space (Ah) *)
Fixpoint enc_bcd (s : list N) : list N :=
  match s with
  | [] => []
  | [a] => [bcd_nibble a * 16 + 10]
  | a :: b :: r => (bcd_nibble a * 16 + bcd_nibble b) :: enc_bcd r
  end.
(* 6-bit ASCII: character code - 20h, four characters in three bytes, first
   character in the least significant bits; unused high bits are zero *)
Fixpoint pack6 (v : list N) : list N :=
  match v with
  | [] => []
  | [a] => [a]
  | [a; b] => [a + (b mod 4) * 64; b / 4]
  | [a; b; c] => [a + (b mod 4) * 64; b / 4 + (c mod 16) * 16; c / 16]
  | a :: b :: c :: d :: r =>
      (a + (b mod 4) * 64) :: (b / 4 + (c mod 16) * 16) :: (c / 16 + d * 4) :: pack6 r
  end.
Definition enc_6bit (s : list N) : list N := pack6 (map (fun c => c - 32) s).

Definition id_payload (i : sid) : list N :=
  if si_type i =? 1 then enc_bcd (si_chars i)
  else if si_type i =? 2 then enc_6bit (si_chars i)
  else si_chars i.
Definition enc_id (i : sid) : list N :=
  (si_type i * 64 + N.of_nat (length (id_payload i))) :: id_payload i.

(* The characters a reader gets back: the packed encodings cannot tell a string
   from the same string followed by one padding character when the padding fills
   a whole character position (BCD: odd length; 6-bit: length = 3 mod 4). *)
Definition visible_chars (i : sid) : list N :=
  let n := N.of_nat (length (si_chars i)) in
  if si_type i =? 1 then (if n mod 2 =? 1 then si_chars i ++ [32] else si_chars i)
  else if si_type i =? 2 then (if n mod 4 =? 3 then si_chars i ++ [32] else si_chars i)
  else si_chars i.
Definition expected_id (i : sid) : idstr :=
  mkId (si_type i) (N.of_nat (length (id_payload i))) (visible_chars i).

Definition char_ok (ty c : N) : bool :=
  if ty =? 1 then is_bcd_char c else if ty =? 2 then (32 <=? c) && (c <? 96) else c <? 256.
Definition sid_ok (i : sid) : bool :=
  (si_type i <? 4) && (length (si_chars i) <=? 16)%nat && forallb (char_ok (si_type i)) (si_chars i).

(* ------------------------------------------------------------ spec records *)
Record shdr := mkSHdr { s_id : N; s_version : N }.

(* table 43-1; fields in byte order *)
Record sfull := mkSFull {
  sf_owner_id : N;                                   (* byte 6 *)
  sf_channel : N; sf_key_rsvd : N; sf_owner_lun : N; (* byte 7: [7:4] [3:2] [1:0] *)
  sf_number : N;                                     (* byte 8 *)
  sf_entity_id : N; sf_entity_instance : N;          (* bytes 9, 10 *)
  sf_init_settable : N; sf_init_flags : N;           (* byte 11: [7] [6:0] *)
  sf_cap_ignore : N; sf_cap_rearm : N; sf_cap_hyst : N; sf_cap_thr : N; sf_cap_evctl : N;
                                                     (* byte 12: [7] [6] [5:4] [3:2] [1:0] *)
  sf_sensor_type : N; sf_event_type : N;             (* bytes 13, 14 *)
  sf_assertion_mask : N; sf_deassertion_mask : N; sf_reading_mask : N;  (* 15-20, LS byte first *)
  sf_analog_fmt : N; sf_rate_unit : N; sf_modifier_unit : N; sf_percentage : N;
                                                     (* byte 21: [7:6] [5:3] [2:1] [0] *)
  sf_units_2 : N; sf_units_3 : N;                    (* bytes 22, 23 *)
  sf_lin_rsvd : N; sf_linearization : N;             (* byte 24: [7] [6:0] *)
  sf_m : Z; sf_tolerance : N;                        (* byte 25 M LS 8 bits; 26: [7:6] M MS 2 bits, [5:0] tolerance *)
  sf_b : Z; sf_accuracy : N; sf_accuracy_exp : N; sf_direction : N;
            (* 27 B LS 8; 28: [7:6] B MS 2, [5:0] accuracy LS 6; 29: [7:4] accuracy MS 4, [3:2] exp, [1:0] direction *)
  sf_k2 : Z; sf_k1 : Z;                              (* byte 30: [7:4] R exponent (K2), [3:0] B exponent (K1) *)
  sf_achar_rsvd : N; sf_achar_flags : N;             (* byte 31: [7:3] [2:0] *)
  sf_nominal : N; sf_normal_max : N; sf_normal_min : N; sf_sensor_max : N; sf_sensor_min : N; (* 32-36 *)
  sf_unr : N; sf_ucr : N; sf_unc : N; sf_lnr : N; sf_lcr : N; sf_lnc : N;  (* 37-42 *)
  sf_hyst_pos : N; sf_hyst_neg : N;                  (* 43, 44 *)
  sf_reserved : N; sf_oem : N;                       (* 45-46, 47 *)
  sf_id : sid }.                                     (* 48.. *)

(* n-bit two's complement of z *)
Definition tc (bits : N) (z : Z) : N := Z.to_N (z mod Z.of_N (2 ^ bits)).

Definition full_body (f : sfull) : list N :=
  [ sf_owner_id f;
    sf_channel f * 16 + sf_key_rsvd f * 4 + sf_owner_lun f;
    sf_number f;
    sf_entity_id f; sf_entity_instance f;
    sf_init_settable f * 128 + sf_init_flags f;
    sf_cap_ignore f * 128 + sf_cap_rearm f * 64 + sf_cap_hyst f * 16 + sf_cap_thr f * 4 + sf_cap_evctl f;
    sf_sensor_type f; sf_event_type f;
    sf_assertion_mask f mod 256; sf_assertion_mask f / 256;
    sf_deassertion_mask f mod 256; sf_deassertion_mask f / 256;
    sf_reading_mask f mod 256; sf_reading_mask f / 256;
    sf_analog_fmt f * 64 + sf_rate_unit f * 8 + sf_modifier_unit f * 2 + sf_percentage f;
    sf_units_2 f; sf_units_3 f;
    sf_lin_rsvd f * 128 + sf_linearization f;
    tc 10 (sf_m f) mod 256;
    (tc 10 (sf_m f) / 256) * 64 + sf_tolerance f;
    tc 10 (sf_b f) mod 256;
    (tc 10 (sf_b f) / 256) * 64 + sf_accuracy f mod 64;
    (sf_accuracy f / 64) * 16 + sf_accuracy_exp f * 4 + sf_direction f;
    tc 4 (sf_k2 f) * 16 + tc 4 (sf_k1 f);
    sf_achar_rsvd f * 8 + sf_achar_flags f;
    sf_nominal f; sf_normal_max f; sf_normal_min f; sf_sensor_max f; sf_sensor_min f;
    sf_unr f; sf_ucr f; sf_unc f; sf_lnr f; sf_lcr f; sf_lnc f;
    sf_hyst_pos f; sf_hyst_neg f;
    sf_reserved f mod 256; sf_reserved f / 256;
    sf_oem f ] ++ enc_id (sf_id f).

(* table 43-2 *)
Record scompact := mkSCompact {
  sc_owner_id : N; sc_channel : N; sc_key_rsvd : N; sc_owner_lun : N; sc_number : N;
  sc_entity_id : N; sc_entity_instance : N;
  sc_sensor_init : N; sc_capabilities : N; sc_sensor_type : N; sc_event_type : N;
  sc_assertion_mask : N; sc_deassertion_mask : N; sc_reading_mask : N;
  sc_units_1 : N; sc_units_2 : N; sc_units_3 : N;
  sc_record_sharing : N;                             (* bytes 24-25 *)
  sc_hyst_pos : N; sc_hyst_neg : N;                  (* 26, 27 *)
  sc_reserved : N; sc_oem : N;                       (* 28-30, 31 *)
  sc_id : sid }.                                     (* 32.. *)

Definition compact_body (c : scompact) : list N :=
  [ sc_owner_id c; sc_channel c * 16 + sc_key_rsvd c * 4 + sc_owner_lun c; sc_number c;
    sc_entity_id c; sc_entity_instance c;
    sc_sensor_init c; sc_capabilities c; sc_sensor_type c; sc_event_type c;
    sc_assertion_mask c mod 256; sc_assertion_mask c / 256;
    sc_deassertion_mask c mod 256; sc_deassertion_mask c / 256;
    sc_reading_mask c mod 256; sc_reading_mask c / 256;
    sc_units_1 c; sc_units_2 c; sc_units_3 c;
    sc_record_sharing c mod 256; sc_record_sharing c / 256;
    sc_hyst_pos c; sc_hyst_neg c;
    sc_reserved c mod 256; (sc_reserved c / 256) mod 256; sc_reserved c / 65536;
    sc_oem c ] ++ enc_id (sc_id c).

(* table 43-3 *)
Record sevent := mkSEvent {
  se_owner_id : N; se_channel : N; se_key_rsvd : N; se_owner_lun : N; se_number : N;
  se_entity_id : N; se_entity_instance : N;
  se_sensor_type : N; se_event_type : N;
  se_record_sharing : N;                             (* bytes 13-14 *)
  se_reserved : N; se_oem : N;                       (* 15, 16 *)
  se_id : sid }.                                     (* 17.. *)

Definition event_body (e : sevent) : list N :=
  [ se_owner_id e; se_channel e * 16 + se_key_rsvd e * 4 + se_owner_lun e; se_number e;
    se_entity_id e; se_entity_instance e;
    se_sensor_type e; se_event_type e;
    se_record_sharing e mod 256; se_record_sharing e / 256;
    se_reserved e; se_oem e ] ++ enc_id (se_id e).

(* table 43-7 *)
Record sfruloc := mkSFruLoc {
  sl_access_address : N; sl_access_rsvd : N;         (* byte 6: [7:1] [0] *)
  sl_fru_device_id : N;                              (* 7 *)
  sl_logical_physical : N;                           (* 8 (whole byte) *)
  sl_channel_number : N;                             (* 9 (whole byte) *)
  sl_reserved : N; sl_device_type : N; sl_device_type_modifier : N;  (* 10, 11, 12 *)
  sl_entity_id : N; sl_entity_instance : N; sl_oem : N;             (* 13, 14, 15 *)
  sl_id : sid }.                                     (* 16.. *)

Definition fruloc_body (l : sfruloc) : list N :=
  [ sl_access_address l * 2 + sl_access_rsvd l; sl_fru_device_id l; sl_logical_physical l;
    sl_channel_number l; sl_reserved l; sl_device_type l; sl_device_type_modifier l;
    sl_entity_id l; sl_entity_instance l; sl_oem l ] ++ enc_id (sl_id l).

(* table 43-8 *)
Record smcloc := mkSMcLoc {
  sm_slave_address : N; sm_slave_rsvd : N;           (* byte 6: [7:1] [0] *)
  sm_channel : N; sm_channel_rsvd : N;               (* byte 7: [3:0] [7:4] *)
  sm_power_state : N;                                (* 8 (whole byte) *)
  sm_capabilities : N;                               (* 9 *)
  sm_reserved : N;                                   (* 10-12 *)
  sm_entity_id : N; sm_entity_instance : N; sm_oem : N;             (* 13, 14, 15 *)
  sm_id : sid }.                                     (* 16.. *)

Definition mcloc_body (m : smcloc) : list N :=
  [ sm_slave_address m * 2 + sm_slave_rsvd m; sm_channel_rsvd m * 16 + sm_channel m;
    sm_power_state m; sm_capabilities m;
    sm_reserved m mod 256; (sm_reserved m / 256) mod 256; sm_reserved m / 65536;
    sm_entity_id m; sm_entity_instance m; sm_oem m ] ++ enc_id (sm_id m).

(* table 43-9 *)
Record smcconf := mkSMcConf {
  sn_slave_address : N; sn_slave_rsvd : N;           (* byte 6: [7:1] [0] *)
  sn_device_id : N; sn_channel_number : N;           (* 7, 8 (whole byte) *)
  sn_firmware_1 : N; sn_firmware_2 : N; sn_ipmi_version : N;        (* 9, 10, 11 *)
  sn_manufacturer : N; sn_manufacturer_rsvd : N;     (* 12-14: 20 bits LS first, [23:20] reserved *)
  sn_product_id : N;                                 (* 15-16 *)
  sn_guid : list N }.                                (* 17-32 *)

Definition mcconf_body (m : smcconf) : list N :=
  let mid := sn_manufacturer_rsvd m * 1048576 + sn_manufacturer m in
  [ sn_slave_address m * 2 + sn_slave_rsvd m; sn_device_id m; sn_channel_number m;
    sn_firmware_1 m; sn_firmware_2 m; sn_ipmi_version m;
    mid mod 256; (mid / 256) mod 256; mid / 65536;
    sn_product_id m mod 256; sn_product_id m / 256 ] ++ sn_guid m.

Inductive srec :=
| SFull (h : shdr) (f : sfull)
| SCompact (h : shdr) (c : scompact)
| SEvent (h : shdr) (e : sevent)
| SFruLoc (h : shdr) (l : sfruloc)
| SMcLoc (h : shdr) (m : smcloc)
| SMcConf (h : shdr) (m : smcconf)
| SOem (h : shdr) (manufacturer : N) (oem_data : list N)     (* table 43-12 *)
| SOther (h : shdr) (ty : N) (body : list N).                 (* any other record type *)

(* section 43 header: record id (2, LS first), SDR version, record type, record length
   = number of remaining bytes *)
Definition with_header (h : shdr) (ty : N) (body : list N) : list N :=
  s_id h mod 256 :: s_id h / 256 :: s_version h :: ty :: N.of_nat (length body) :: body.

Definition s_hdr (s : srec) : shdr :=
  match s with
  | SFull h _ | SCompact h _ | SEvent h _ | SFruLoc h _ | SMcLoc h _ | SMcConf h _
  | SOem h _ _ | SOther h _ _ => h
  end.
Definition s_type (s : srec) : N :=
  match s with
  | SFull _ _ => 0x01 | SCompact _ _ => 0x02 | SEvent _ _ => 0x03 | SFruLoc _ _ => 0x11
  | SMcLoc _ _ => 0x12 | SMcConf _ _ => 0x13 | SOem _ _ _ => 0xC0 | SOther _ ty _ => ty
  end.
Definition s_body (s : srec) : list N :=
  match s with
  | SFull _ f => full_body f | SCompact _ c => compact_body c | SEvent _ e => event_body e
  | SFruLoc _ l => fruloc_body l | SMcLoc _ m => mcloc_body m | SMcConf _ m => mcconf_body m
  | SOem _ mid d => [mid mod 256; (mid / 256) mod 256; mid / 65536] ++ d
  | SOther _ _ b => b
  end.
Definition enc_sdr (s : srec) : list N := with_header (s_hdr s) (s_type s) (s_body s).

(* ------------------------------------------------------------ ranges *)
Definition range_ok (l : list (N * N)) : bool := forallb (fun p => fst p <? snd p) l.
Definition zrange_ok (l : list (Z * Z * Z)) : bool :=
  forallb (fun p => (fst (fst p) <=? snd (fst p))%Z && (snd (fst p) <=? snd p)%Z) l.
Definition known_type (t : N) : bool :=
  (t =? 0x01) || (t =? 0x02) || (t =? 0x03) || (t =? 0x11) || (t =? 0x12) || (t =? 0x13) || (t =? 0xC0).

Definition hdr_ok (h : shdr) : bool := range_ok [(s_id h, 65536); (s_version h, 256)].

Definition key_ranges (oid ch rs lun num eid ei : N) : list (N * N) :=
  [(oid, 256); (ch, 16); (rs, 4); (lun, 4); (num, 256); (eid, 256); (ei, 256)].

Definition full_ok (f : sfull) : bool :=
  range_ok (key_ranges (sf_owner_id f) (sf_channel f) (sf_key_rsvd f) (sf_owner_lun f) (sf_number f)
                       (sf_entity_id f) (sf_entity_instance f) ++
    [(sf_init_settable f, 2); (sf_init_flags f, 128);
     (sf_cap_ignore f, 2); (sf_cap_rearm f, 2); (sf_cap_hyst f, 4); (sf_cap_thr f, 4); (sf_cap_evctl f, 4);
     (sf_sensor_type f, 256); (sf_event_type f, 256);
     (sf_assertion_mask f, 65536); (sf_deassertion_mask f, 65536); (sf_reading_mask f, 65536);
     (sf_analog_fmt f, 4); (sf_rate_unit f, 8); (sf_modifier_unit f, 4); (sf_percentage f, 2);
     (sf_units_2 f, 256); (sf_units_3 f, 256);
     (sf_lin_rsvd f, 2); (sf_linearization f, 128);
     (sf_tolerance f, 64); (sf_accuracy f, 1024); (sf_accuracy_exp f, 4); (sf_direction f, 4);
     (sf_achar_rsvd f, 32); (sf_achar_flags f, 8);
     (sf_nominal f, 256); (sf_normal_max f, 256); (sf_normal_min f, 256);
     (sf_sensor_max f, 256); (sf_sensor_min f, 256);
     (sf_unr f, 256); (sf_ucr f, 256); (sf_unc f, 256); (sf_lnr f, 256); (sf_lcr f, 256); (sf_lnc f, 256);
     (sf_hyst_pos f, 256); (sf_hyst_neg f, 256);
     (sf_reserved f, 65536); (sf_oem f, 256)]) &&
  zrange_ok [(-512, sf_m f, 511); (-512, sf_b f, 511); (-8, sf_k2 f, 7); (-8, sf_k1 f, 7)]%Z &&
  sid_ok (sf_id f).

Definition compact_ok (c : scompact) : bool :=
  range_ok (key_ranges (sc_owner_id c) (sc_channel c) (sc_key_rsvd c) (sc_owner_lun c) (sc_number c)
                       (sc_entity_id c) (sc_entity_instance c) ++
    [(sc_sensor_init c, 256); (sc_capabilities c, 256); (sc_sensor_type c, 256); (sc_event_type c, 256);
     (sc_assertion_mask c, 65536); (sc_deassertion_mask c, 65536); (sc_reading_mask c, 65536);
     (sc_units_1 c, 256); (sc_units_2 c, 256); (sc_units_3 c, 256);
     (sc_record_sharing c, 65536); (sc_hyst_pos c, 256); (sc_hyst_neg c, 256);
     (sc_reserved c, 16777216); (sc_oem c, 256)]) && sid_ok (sc_id c).

Definition event_ok (e : sevent) : bool :=
  range_ok (key_ranges (se_owner_id e) (se_channel e) (se_key_rsvd e) (se_owner_lun e) (se_number e)
                       (se_entity_id e) (se_entity_instance e) ++
    [(se_sensor_type e, 256); (se_event_type e, 256); (se_record_sharing e, 65536);
     (se_reserved e, 256); (se_oem e, 256)]) && sid_ok (se_id e).

Definition fruloc_ok (l : sfruloc) : bool :=
  range_ok [(sl_access_address l, 128); (sl_access_rsvd l, 2); (sl_fru_device_id l, 256);
            (sl_logical_physical l, 256); (sl_channel_number l, 256); (sl_reserved l, 256);
            (sl_device_type l, 256); (sl_device_type_modifier l, 256);
            (sl_entity_id l, 256); (sl_entity_instance l, 256); (sl_oem l, 256)] && sid_ok (sl_id l).

Definition mcloc_ok (m : smcloc) : bool :=
  range_ok [(sm_slave_address m, 128); (sm_slave_rsvd m, 2); (sm_channel m, 16); (sm_channel_rsvd m, 16);
            (sm_power_state m, 256); (sm_capabilities m, 256); (sm_reserved m, 16777216);
            (sm_entity_id m, 256); (sm_entity_instance m, 256); (sm_oem m, 256)] && sid_ok (sm_id m).

Definition mcconf_ok (m : smcconf) : bool :=
  range_ok [(sn_slave_address m, 128); (sn_slave_rsvd m, 2); (sn_device_id m, 256);
            (sn_channel_number m, 256); (sn_firmware_1 m, 256); (sn_firmware_2 m, 256);
            (sn_ipmi_version m, 256); (sn_manufacturer m, 1048576); (sn_manufacturer_rsvd m, 16);
            (sn_product_id m, 65536)] && (length (sn_guid m) =? 16)%nat && bytes_ok (sn_guid m).

Definition in_range_b (s : srec) : bool :=
  hdr_ok (s_hdr s) &&
  match s with
  | SFull _ f => full_ok f | SCompact _ c => compact_ok c | SEvent _ e => event_ok e
  | SFruLoc _ l => fruloc_ok l | SMcLoc _ m => mcloc_ok m | SMcConf _ m => mcconf_ok m
  | SOem _ mid d => (mid <? 16777216) && bytes_ok d && (length d <=? 252)%nat
  | SOther _ ty b => (ty <? 256) && negb (known_type ty) && bytes_ok b && (length b <=? 255)%nat
  end.
Definition in_range (s : srec) : Prop := in_range_b s = true.

(* ------------------------------------------------------------ expected attributes *)
(* names of the set bits, most significant first *)
Definition flag_names (tbl : list (N * string)) (x : N) : list string :=
  map snd (filter (fun p => N.testbit x (fst p)) tbl).
Definition init_tbl : list (N * string) :=
  [(6, "scanning"); (5, "events"); (4, "thresholds"); (3, "hysteresis"); (2, "type");
   (1, "default_event_generation"); (0, "default_scanning")].
Definition achar_tbl : list (N * string) :=
  [(0, "nominal_reading"); (1, "normal_max"); (2, "normal_min")].
(* byte 12 [5:4]: 0 none, 1 readable, 2 readable and settable, 3 fixed;
   [3:2]: 0 none, 1 readable, 2 readable and settable, 3 fixed - the library names
   code 1 "threshold_read_and_setable" and code 2 "threshold_readable" (constants
   THRESHOLD_IS_READABLE = 0x08, THRESHOLD_IS_READ_AND_SETTABLE = 0x04); its names are
   taken as they are. *)
Definition expected_caps_of (ignore rearm hyst thr : N) : list string :=
  (if ignore =? 1 then ["ignore_sensor"] else []) ++
  (if rearm =? 1 then ["auto_rearm"] else []) ++
  [nth (N.to_nat hyst)
       ["hysteresis_not_supported"; "hysteresis_readable"; "hysteresis_read_and_setable"; "hysteresis_fixed"] ""] ++
  [nth (N.to_nat thr)
       ["threshold_not_supported"; "threshold_read_and_setable"; "threshold_readable"; "threshold_fixed"] ""].
Definition expected_caps (f : sfull) : list string :=
  expected_caps_of (sf_cap_ignore f) (sf_cap_rearm f) (sf_cap_hyst f) (sf_cap_thr f).

Definition expected_hdr (s : srec) : hdr :=
  mkHdr (s_id (s_hdr s)) (s_version (s_hdr s)) (s_type s) (N.of_nat (length (s_body s))).

Definition expected_full (f : sfull) : full :=
  mkFull (mkKey (sf_owner_id f) (sf_owner_lun f) (sf_number f))
         (mkEnt (sf_entity_id f) (sf_entity_instance f))
         (flag_names init_tbl (sf_init_flags f)) (expected_caps f)
         (sf_sensor_type f) (sf_event_type f)
         (sf_assertion_mask f) (sf_deassertion_mask f) (sf_reading_mask f)
         (sf_analog_fmt f * 64 + sf_rate_unit f * 8 + sf_modifier_unit f * 2 + sf_percentage f)
         (sf_units_2 f) (sf_units_3 f)
         (sf_analog_fmt f) (sf_rate_unit f) (sf_modifier_unit f) (sf_percentage f)
         (sf_linearization f)
         (sf_m f) (sf_tolerance f) (sf_b f) (sf_accuracy f) (sf_accuracy_exp f)
         (sf_k2 f) (sf_k1 f)
         (flag_names achar_tbl (sf_achar_flags f))
         (sf_nominal f) (sf_normal_max f) (sf_normal_min f) (sf_sensor_max f) (sf_sensor_min f)
         [sf_unr f; sf_ucr f; sf_unc f; sf_lnr f; sf_lcr f; sf_lnc f]
         [sf_hyst_pos f; sf_hyst_neg f]
         (sf_reserved f) (sf_oem f) (expected_id (sf_id f)).

Definition expected (s : srec) : record :=
  let h := expected_hdr s in
  match s with
  | SFull _ f => RFull h (expected_full f)
  | SCompact _ c =>
      RCompact h (mkCompact (mkKey (sc_owner_id c) (sc_owner_lun c) (sc_number c))
        (mkEnt (sc_entity_id c) (sc_entity_instance c))
        (sc_sensor_init c) (sc_capabilities c) (sc_sensor_type c) (sc_event_type c)
        (sc_assertion_mask c) (sc_deassertion_mask c) (sc_reading_mask c)
        (sc_units_1 c) (sc_units_2 c) (sc_units_3 c) (sc_record_sharing c)
        (sc_hyst_pos c) (sc_hyst_neg c) (sc_reserved c) (sc_oem c) (expected_id (sc_id c)))
  | SEvent _ e =>
      REventOnly h (mkEventOnly (mkKey (se_owner_id e) (se_owner_lun e) (se_number e))
        (mkEnt (se_entity_id e) (se_entity_instance e))
        (se_sensor_type e) (se_event_type e) (se_record_sharing e) (se_reserved e) (se_oem e)
        (expected_id (se_id e)))
  | SFruLoc _ l =>
      RFruLoc h (mkFruLoc (sl_access_address l) (sl_fru_device_id l) (sl_logical_physical l)
        (sl_channel_number l) (sl_reserved l) (sl_device_type l) (sl_device_type_modifier l)
        (mkEnt (sl_entity_id l) (sl_entity_instance l)) (sl_oem l) (expected_id (sl_id l)))
  | SMcLoc _ m =>
      (* the library's global_initialization attribute is the constant 0 *)
      RMcLoc h (mkMcLoc (sm_slave_address m) (sm_channel m) (sm_power_state m) 0
        (sm_capabilities m) (sm_reserved m)
        (mkEnt (sm_entity_id m) (sm_entity_instance m)) (sm_oem m) (expected_id (sm_id m)))
  | SMcConf _ m =>
      RMcConf h (mkMcConf (sn_slave_address m) (sn_device_id m) (sn_channel_number m)
        (sn_firmware_1 m) (sn_firmware_2 m) (sn_ipmi_version m) (sn_manufacturer m)
        (sn_product_id m) (le_val (sn_guid m)))
  | SOem _ mid _ =>
      (* the library reads the three manufacturer-id bytes as a sensor "record key" *)
      ROem h (mkKey (mid mod 256) ((mid / 256) mod 4) (mid / 65536))
  | SOther _ _ _ => RUnknown h
  end.

(* section 43: the record type byte names the record kind *)
Definition kind_of_type (t : N) : kind :=
  if t =? 0x01 then KFull else if t =? 0x02 then KCompact else if t =? 0x03 then KEventOnly
  else if t =? 0x11 then KFruLoc else if t =? 0x12 then KMcLoc else if t =? 0x13 then KMcConf
  else if t =? 0xC0 then KOem else KUnknown.
