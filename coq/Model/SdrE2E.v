(* Hand model (H) of the thin wrappers that turn the bytes fetched by get_sdr_data_helper
   into parsed record objects: Sdr.get_repository_sdr / Sensor.get_device_sdr,
   Sdr.sdr_repository_entries / Sensor.device_sdr_entries and get_repository_sdr_list /
   get_device_sdr_list - the composition of Model/SdrIO.v (retrieval, mine) with
   Model/SdrParse.v (SdrCommon.from_data, property C16).  Executable definitions only. *)
From Coq Require Import NArith ZArith List Bool.
From PyIpmi Require Import Lib.Res Lib.Bytes Lib.Prog Model.SdrIO.
From PyIpmi Require Model.SdrParse.
Import ListNotations.
Open Scope N_scope.

(* SdrCommon.__init__(data, next_id): "if next_id: self.next_id = next_id" - the attribute
   is missing when the successor id is 0 *)
Definition attach (next : N) : option N := if next =? 0 then None else Some next.

(* an SDR object as returned to the caller: the parsed record (its .data are exactly the
   bytes handed to from_data) and the next_id attribute *)
Definition sdr_obj : Type := SdrParse.record * option N.

(* def get_repository_sdr(self, record_id, reservation_id=None):      (get_device_sdr alike)
       (next_id, record_data) = get_sdr_data_helper(self.reserve_sdr_repository,
                                                    self._get_sdr_chunk, record_id, reservation_id)
       return SdrCommon.from_data(record_data, next_id)
   from_data is applied to exactly the helper's bytes; next_id is attached afterwards *)
Definition get_sdr_obj (st : store) (rid : N) (resv : option N) : prog sdr_obj :=
  dop r <- get_sdr st rid resv;
  match SdrParse.sdr_from_data (snd r) with
  | Err e => Raise e
  | Ok rec => Ret (rec, attach (fst r))
  end.

(* def sdr_repository_entries(self):                                   (device_sdr_entries alike)
       reservation_id = self.reserve_sdr_repository(); record_id = 0
       while True:
           s = self.get_repository_sdr(record_id, reservation_id); yield s
           if s.next_id == 0xffff: break        (AttributeError when the attribute is missing)
           record_id = s.next_id
   get_repository_sdr_list(self, reservation_id=None) = list(self.sdr_repository_entries()) *)
Fixpoint entries_obj_loop (fuel : nat) (st : store) (resv rid : N) (acc : list sdr_obj) : prog (list sdr_obj) :=
  match fuel with
  | O => Raise OutOfFuel
  | S f =>
    dop o <- get_sdr_obj st rid (Some resv);
    let acc' := acc ++ [o] in
    match snd o with
    | None => Raise (OtherError AttributeError)
    | Some nx => if nx =? 0xFFFF then Ret acc' else entries_obj_loop f st resv nx acc'
    end
  end.
Definition sdr_list_obj (fuel : nat) (st : store) : prog (list sdr_obj) :=
  dop r <- reserve st; entries_obj_loop fuel st r 0 [].
