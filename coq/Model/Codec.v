(* Hand model (H) of the declarative message codec, pyipmi/msgs/message.py +
   ByteBuffer in pyipmi/utils.py: a deep embedding of the field classes and an
   interpreter for create / encode / decode.  The layouts themselves are NOT written by
   hand: Gen/Layouts.v is regenerated from /repo on every run (gen/gen_layouts.py).
   Executable definitions only. *)
From Coq Require Import String.
From Coq Require Import NArith List Bool.
From PyIpmi Require Import Lib.Res Lib.Bytes Lib.Bits.
Import ListNotations.
Open Scope N_scope.

(* ---- layouts ---- *)
Inductive base :=
| BUInt (n : nat)                (* UnsignedInt / UnsignedIntMask / Timestamp / GroupExtensionIdentifier / EventMessageRevision *)
| BCC                            (* CompletionCode *)
| BBits (n : nat) (ws : list N)  (* Bitfield of n bytes, member widths in declaration order *)
| BBytes (n : nat)               (* ByteArray *)
| BVar (ref : nat)               (* VariableByteArray; length function = value of the field at position ref *)
| BStr (n : nat)                 (* String *)
| BRem.                          (* RemainingBytes *)

(* Conditional predicates: obj.<bitfield>.<bit> == k, combined with or / and.
   Fields are referred to by position (resolved by the translator, validated by the
   correspondence run which executes every generated layout against its class). *)
Inductive cond :=
| CBit (fi bi : nat) (k : N)
| COr (a b : cond)
| CAnd (a b : cond).

Inductive kind := KPlain | KOpt | KCond (c : cond).

Inductive val := VInt (n : N) | VBits (vs : list N) | VBytes (bs : list N) | VNone.

Record fld := mkFld { f_name : string; f_kind : kind; f_base : base; f_dflt : val;
                      f_bitnames : list string }.

Inductive layout :=
| Fields (l : list fld)
| NoFields                       (* class without __fields__ *)
| Malformed (why : string)       (* __fields__ is not a tuple of field objects: instantiation raises TypeError *)
| Untranslated (why : string).   (* outside the translator's fragment: fail closed *)

Definition env := list val.

(* ---- evaluation of Conditional predicates on the object's current attribute values ---- *)
Fixpoint eval_cond (e : env) (c : cond) : res bool :=
  match c with
  | CBit fi bi k =>
      match nth_error e fi with
      | Some (VBits vs) => match nth_error vs bi with
                           | Some v => Ok (v =? k)
                           | None => Err (OtherError AttributeError)
                           end
      | _ => Err (OtherError AttributeError)
      end
  | COr a b => do x <- eval_cond e a; if x then Ok true else eval_cond e b
  | CAnd a b => do x <- eval_cond e a; if x then eval_cond e b else Ok false
  end.

(* ---- encode ---- *)
Definition mask_bytes (l : list N) : list N := map (fun b => b mod 256) l.

(* BitWrapper._get_value: value |= (bit_value & (2**w - 1)) << offset *)
Definition bits_value (ws vs : list N) : N := pack_at 0 (combine ws vs) 0.

Definition enc_base (e : env) (b : base) (v : val) : res (list N) :=
  match b, v with
  | BUInt n, VInt x => Ok (le_bytes n x)                  (* push_unsigned_int: (value >> 8i) & 0xff *)
  | BCC, VInt x => Ok (le_bytes 1 x)
  | BBits n ws, VBits vs =>
      if Nat.eqb (length vs) (length ws) then Ok (le_bytes n (bits_value ws vs))
      else Err (OtherError AttributeError)
  | BBytes n, VBytes l =>
      if Nat.eqb (length l) n then Ok (mask_bytes l) else Err EncodingError
  | BVar ref, VBytes l =>
      match nth_error e ref with
      | Some (VInt k) => if N.of_nat (length l) =? k then Ok (mask_bytes l) else Err EncodingError
      | _ => Err (OtherError TypeError)
      end
  | BStr _, VBytes l => Ok l                              (* push_string: no length check *)
  | BRem, VBytes l => Ok l                                (* data.extend(a) *)
  | _, _ => Err (OtherError TypeError)
  end.

Definition enc_fld (e : env) (f : fld) (v : val) : res (list N) :=
  match f_kind f with
  | KPlain => enc_base e (f_base f) v
  | KOpt => match v with VNone => Ok [] | _ => enc_base e (f_base f) v end
  | KCond c => do b <- eval_cond e c; if b then enc_base e (f_base f) v else Ok []
  end.

(* fields in declaration order; predicates read the whole object [e] *)
Fixpoint enc_fields (e : env) (fs : list fld) (vs : list val) : res (list N) :=
  match fs, vs with
  | [], [] => Ok []
  | f :: fs', v :: vs' =>
      do hd <- enc_fld e f v;
      do tl <- enc_fields e fs' vs';
      Ok (hd ++ tl)
  | _, _ => Err (OtherError AttributeError)
  end.

(* ---- decode ---- *)
Definition take (n : nat) (d : list N) : res (list N * list N) :=
  if Nat.leb n (length d) then Ok (firstn n d, skipn n d) else Err DecodingError.

Definition dec_base (done : env) (b : base) (d : list N) : res (val * list N) :=
  match b with
  | BUInt n => do '(h, t) <- take n d; Ok (VInt (le_val h), t)
  | BCC => do '(h, t) <- take 1 d; Ok (VInt (le_val h), t)
  | BBits n ws => do '(h, t) <- take n d; Ok (VBits (unpack_at 0 ws (le_val h)), t)
  | BBytes n => do '(h, t) <- take n d; Ok (VBytes h, t)
  | BVar ref =>
      match nth_error done ref with
      | Some (VInt k) => do '(h, t) <- take (N.to_nat k) d; Ok (VBytes h, t)
      | _ => Err (OtherError TypeError)
      end
  | BStr n => Ok (VBytes (firstn n d), skipn n d)        (* pop_string: silent truncation *)
  | BRem => Ok (VBytes d, [])
  end.

(* Message._decode: returns the values of [fs] (the object is [done ++ result]) and
   whether decoding was stopped by a non-OK completion code.  Predicates see the
   already decoded fields followed by the created defaults of the others. *)
Fixpoint dec_fields (fs : list fld) (done : env) (d : list N) : res (list val * bool) :=
  match fs with
  | [] => match d with [] => Ok ([], false) | _ => Err DecodingError end   (* 'Data has extra bytes' *)
  | f :: fs' =>
      let step :=
        do '(v, d') <- dec_base done (f_base f) d;
        match f_base f, v with
        | BCC, VInt (Npos _) => Ok (v :: map f_dflt fs', true)             (* stop on cc != 0 *)
        | _, _ => do '(r, st) <- dec_fields fs' (done ++ [v]) d'; Ok (v :: r, st)
        end in
      match f_kind f with
      | KPlain => step
      | KOpt => match d with
                | [] => do '(r, st) <- dec_fields fs' (done ++ [VNone]) []; Ok (VNone :: r, st)
                | _ => step
                end
      | KCond c =>
          do b <- eval_cond (done ++ map f_dflt (f :: fs')) c;
          if b then step
          else do '(r, st) <- dec_fields fs' (done ++ [f_dflt f]) d; Ok (f_dflt f :: r, st)
      end
  end.

(* ---- create (Message._create_fields, BitWrapper.__init__) ---- *)
Definition reserved_names : list string := ["cmdid"; "netfn"; "lun"; "group_extension"]%string.

Fixpoint str_in (s : string) (l : list string) : bool :=
  match l with [] => false | x :: r => String.eqb s x || str_in s r end.
Fixpoint str_nodup (l : list string) : bool :=
  match l with [] => true | x :: r => negb (str_in x r) && str_nodup r end.

Definition create_fields (fs : list fld) : res env :=
  if existsb (fun f => str_in (f_name f) reserved_names) fs then Err DescriptionError
  else if negb (str_nodup (map f_name fs)) then Err DescriptionError
  else if negb (forallb (fun f => str_nodup (f_bitnames f)) fs) then Err DescriptionError
  else Ok (map f_dflt fs).

Definition create (m : layout) : res env :=
  match m with
  | Fields l => create_fields l
  | NoFields => Ok []
  | Malformed _ => Err (OtherError TypeError)
  | Untranslated _ => Err (OtherError OtherExc)
  end.

Definition encode (m : layout) (e : env) : res (list N) :=
  match m with
  | Fields l => enc_fields e l e
  | NoFields => Ok []
  | Malformed _ => Err (OtherError TypeError)
  | Untranslated _ => Err (OtherError OtherExc)
  end.

(* decode into a fresh object *)
Definition decode (m : layout) (d : list N) : res (env * bool) :=
  match m with
  | Fields l => dec_fields l [] d
  | NoFields => Ok ([], false)      (* Message._decode returns at once: nothing is checked *)
  | Malformed _ => Err (OtherError TypeError)
  | Untranslated _ => Err (OtherError OtherExc)
  end.

(* ---- registry entries ---- *)
Record msgdef := mkMsg { m_name : string; m_netfn : N; m_cmd : N; m_grp : option N;
                         m_lun : N; m_layout : layout }.

(* ---- well-formedness: the exact condition under which the code is lossless ---- *)
Definition is_opt (f : fld) : bool := match f_kind f with KOpt => true | _ => false end.

Definition ref_uint (pre : list fld) (r : nat) : bool :=
  match nth_error pre r with
  | Some f => match f_kind f, f_base f with KPlain, BUInt _ => true | _, _ => false end
  | None => false
  end.
Definition ref_bit (pre : list fld) (fi bi : nat) : bool :=
  match nth_error pre fi with
  | Some f => match f_kind f, f_base f with
              | KPlain, BBits _ ws => Nat.ltb bi (length ws)
              | _, _ => false
              end
  | None => false
  end.
Fixpoint cond_ok (pre : list fld) (c : cond) : bool :=
  match c with
  | CBit fi bi _ => ref_bit pre fi bi
  | COr a b | CAnd a b => cond_ok pre a && cond_ok pre b
  end.

Definition base_ok (pre : list fld) (b : base) (rest : list fld) : bool :=
  match b with
  | BBits n ws => total_width ws =? 8 * N.of_nat n
  | BVar r => ref_uint pre r
  | BRem => match rest with [] => true | _ => false end
  | _ => true
  end.

Definition fld_ok (pre : list fld) (f : fld) (rest : list fld) : bool :=
  base_ok pre (f_base f) rest &&
  match f_kind f with
  | KPlain => true
  | KOpt => forallb is_opt rest &&
            match f_base f with
            | BUInt n | BBytes n => Nat.ltb 0 n
            | BRem => true
            | _ => false
            end
  | KCond c => cond_ok pre c && match f_base f with BUInt _ => true | _ => false end
  end.

Fixpoint wf_from (pre fs : list fld) : bool :=
  match fs with
  | [] => true
  | f :: r => fld_ok pre f r && wf_from (pre ++ [f]) r
  end.

Definition names_ok (fs : list fld) : bool :=
  negb (existsb (fun f => str_in (f_name f) reserved_names) fs)
  && str_nodup (map f_name fs)
  && forallb (fun f => str_nodup (f_bitnames f)) fs.

Definition wf_layout (m : layout) : bool :=
  match m with
  | Fields l => wf_from [] l && names_ok l
  | NoFields => true
  | _ => false
  end.

Definition has_fields (m : layout) : bool := match m with Fields _ => true | _ => false end.

(* boolean equality on values, for the case checkers *)
Definition val_eqb (a b : val) : bool :=
  match a, b with
  | VInt x, VInt y => x =? y
  | VBits x, VBits y => bytes_eqb x y
  | VBytes x, VBytes y => bytes_eqb x y
  | VNone, VNone => true
  | _, _ => false
  end.
