(* Specification side of C18 (upgrade drivers): a reference HPM.1 upgrade target for the
   whole upgrade procedure (wrapping the block receiver of Model/HpmDevice.v), the decoder
   that reads the HPM.1 step sequence off a transcript, and the sequence an installation of
   one component from an image must produce.  Written from the HPM.1 command descriptions,
   not from pyipmi/hpm.py. *)
From Coq Require Import NArith List Bool.
From PyIpmi Require Import Lib.Res Lib.Bytes Lib.Prog Model.HpmDevice Model.HpmImageSpec.
Import ListNotations.
Open Scope N_scope.

(* ---------------------------------------------------------------- reference device *)
Record ustate := mkU {
  u_core : dstate;                     (* block receiver of the current upload + pending status polls *)
  u_block_plans : list (list answer);  (* block plan of the 1st, 2nd, ... upload action *)
  u_cmd_plan : list answer;            (* answer to the i-th upgrade command (abort, initiate, finish,
                                          activate, manual rollback, self-test / rollback query) *)
  u_cmds : nat;                        (* such commands received so far *)
  u_ident : N * N * N;                 (* device id, manufacturer id, product id *)
  u_present : N;                       (* component-present mask *)
  u_active : bool;                     (* Activate Firmware accepted: the controller restarts *)
  u_down : nat                         (* requests that stay unanswered (time out) after activation *)
}.
Definition u_init (block_plans : list (list answer)) (cmd_plan : list answer)
           (ident : N * N * N) (present : N) (down : nat) : ustate :=
  mkU (d_init []) block_plans cmd_plan 0 ident present false down.

Definition with_core (s : ustate) (c : dstate) : ustate :=
  mkU c (u_block_plans s) (u_cmd_plan s) (u_cmds s) (u_ident s) (u_present s) (u_active s) (u_down s).
Definition set_pending (c : dstate) (k : nat) : dstate := mkD (d_plan c) (d_count c) k (d_received c).

Inductive ucmd := UPlain | UStartUpload | UActivate.

(* an upgrade command governed by the plan: accepted at once, as a long duration command
   (0x80, then k status polls report "in progress"), or refused *)
Definition planned (s : ustate) (kind : ucmd) (payload : list N) : ustate * reply :=
  let a := nth (u_cmds s) (u_cmd_plan s) Accept in
  let start (k : nat) : ustate :=
    match kind with
    | UPlain => mkU (set_pending (u_core s) k) (u_block_plans s) (u_cmd_plan s) (S (u_cmds s))
                    (u_ident s) (u_present s) (u_active s) (u_down s)
    | UStartUpload => mkU (set_pending (d_init (hd [] (u_block_plans s))) k) (tl (u_block_plans s))
                          (u_cmd_plan s) (S (u_cmds s)) (u_ident s) (u_present s) (u_active s) (u_down s)
    | UActivate => mkU (set_pending (u_core s) k) (u_block_plans s) (u_cmd_plan s) (S (u_cmds s))
                       (u_ident s) (u_present s) true (u_down s)
    end in
  match a with
  | Accept => (start 0%nat, RBytes (0x00 :: 0x00 :: payload))
  | InProgress k => (start k, RBytes [0x80; 0x00])
  | Fail cc => (mkU (u_core s) (u_block_plans s) (u_cmd_plan s) (S (u_cmds s)) (u_ident s) (u_present s)
                    (u_active s) (u_down s), RBytes [cc; 0x00])
  end.

Definition upg_device : device ustate := fun s q =>
  let invalid := (s, RBytes [0xc1]) in
  if u_active s && negb (Nat.eqb (u_down s) 0) then
    (mkU (u_core s) (u_block_plans s) (u_cmd_plan s) (u_cmds s) (u_ident s) (u_present s) true (pred (u_down s)),
     RRaise TimeoutError)
  else if (q_netfn q =? 0x2c) && (q_lun q =? 0) then
    let c := q_cmd q in
    if (c =? 0x32) || (c =? 0x34) then
      let '(core', rp) := hpm_device (u_core s) q in (with_core s core', rp)
    else if c =? 0x30 then match q_data q with [0] => planned s UPlain [] | _ => invalid end
    else if c =? 0x31 then
      match q_data q with
      | [0; mask; action] => planned s (if (action =? 2) || (action =? 3) then UStartUpload else UPlain) []
      | _ => invalid
      end
    else if c =? 0x33 then
      match q_data q with [0; comp; l0; l1; l2; l3] => planned s UPlain [] | _ => invalid end
    else if c =? 0x35 then
      match q_data q with [0] | [0; _] => planned s UActivate [] | _ => invalid end
    else if c =? 0x38 then match q_data q with [0] => planned s UPlain [] | _ => invalid end
    else if c =? 0x36 then match q_data q with [0] => planned s UPlain [0x55; 0x00] | _ => invalid end
    else if c =? 0x37 then match q_data q with [0] => planned s UPlain [0x00] | _ => invalid end
    else if c =? 0x2e then
      match q_data q with
      | [0] => (s, RBytes [0x00; 0x00; 0x00; 0x00; 0x00; 0x00; 0x00; 0x00; u_present s])
      | _ => invalid
      end
    else invalid
  else if (q_netfn q =? 0x06) && (q_lun q =? 0) && (q_cmd q =? 0x01) then
    match q_data q with
    | [] => let '(dev, man, prod) := u_ident s in
            (s, RBytes ([0x00; dev; 0x00; 0x00; 0x00; 0x02; 0x00] ++ le_bytes 3 man ++ le_bytes 2 prod))
    | _ => invalid
    end
  else invalid.

(* ---------------------------------------------------------------- reading the steps off the wire *)
Inductive step :=
| TAbort | TDeviceId | TCaps
| TInitiate (components action : N)
| TUpload (data : list N)                (* the blocks after an Initiate(upload): numbered 0,1,.. mod 256,
                                            none above the block size; their data concatenated *)
| TFinish (component length : N)
| TActivate (rollback_override : option N)
| TOther (q : request)
| TBad.                                  (* a block out of place / misnumbered / too large *)

Inductive event := EBlock (number : N) (data : list N) | EStep (s : step).

Definition is_hpm (q : request) (cmd : N) : bool :=
  (q_netfn q =? 0x2c) && (q_lun q =? 0) && (q_cmd q =? cmd).

(* Get Upgrade Status polls are not steps of the procedure: None *)
Definition event_of (q : request) : option event :=
  if is_status q then None
  else if is_block q then Some (EBlock (nth 1 (q_data q) 0) (skipn 2 (q_data q)))
  else Some (EStep (
    if is_hpm q 0x30 then match q_data q with [0] => TAbort | _ => TOther q end
    else if is_hpm q 0x2e then match q_data q with [0] => TCaps | _ => TOther q end
    else if is_hpm q 0x31 then match q_data q with [0; m; a] => TInitiate m a | _ => TOther q end
    else if is_hpm q 0x33 then
      match q_data q with [0; c; l0; l1; l2; l3] => TFinish c (le_val [l0; l1; l2; l3]) | _ => TOther q end
    else if is_hpm q 0x35 then
      match q_data q with [0] => TActivate None | [0; v] => TActivate (Some v) | _ => TOther q end
    else if (q_netfn q =? 0x06) && (q_cmd q =? 0x01) then match q_data q with [] => TDeviceId | _ => TOther q end
    else TOther q)).

Fixpoint events_of (tr : list exch) : list event :=
  match tr with
  | [] => []
  | (q, _) :: r => match event_of q with Some e => e :: events_of r | None => events_of r end
  end.

Definition starts_upload (s : step) : bool :=
  match s with TInitiate _ a => (a =? 2) || (a =? 3) | _ => false end.

(* [cur] = Some (index of the next block, data so far) while inside the block run of an upload *)
Fixpoint steps_go (block_size : nat) (evs : list event) (cur : option (nat * list N)) : list step :=
  let close := match cur with Some (_, d) => [TUpload d] | None => [] end in
  match evs with
  | [] => close
  | EBlock n d :: r =>
      match cur with
      | Some (i, acc) =>
          if (n =? N.of_nat i mod 256) && Nat.leb (length d) block_size
          then steps_go block_size r (Some (S i, acc ++ d))
          else close ++ TBad :: steps_go block_size r None
      | None => TBad :: steps_go block_size r None
      end
  | EStep s :: r =>
      close ++ s :: steps_go block_size r (if starts_upload s then Some (0%nat, []) else None)
  end.
Definition steps_of (block_size : nat) (tr : list exch) : list step := steps_go block_size (events_of tr) None.

(* ---------------------------------------------------------------- the HPM.1 sequence for one component *)
Definition s_action_components (a : s_action) : N :=
  match a with SBackup c | SPrepare c | SUpload c _ _ _ => c end.

(* per action record of the image that names the component, in order: Initiate Upgrade
   Action (the record's action, for this component); for an upload record the blocks of
   exactly its firmware, then Finish Firmware Upload with the component and the firmware
   length *)
Definition record_steps (component : N) (a : s_action) : list step :=
  if N.testbit (s_action_components a) component then
    match a with
    | SBackup _ => [TInitiate (2 ^ component) 0]
    | SPrepare _ => [TInitiate (2 ^ component) 1]
    | SUpload _ _ _ fw =>
        [TInitiate (2 ^ component) 2; TUpload fw; TFinish component (N.of_nat (length fw))]
    end
  else [].

(* Abort Firmware Upgrade (clean start), Get Device Id and Get Target Upgrade Capabilities
   (preparation), the records, Activate Firmware (no rollback override) *)
Definition install_steps (i : s_image) (component : N) : list step :=
  [TAbort; TDeviceId; TCaps] ++ flat_map (record_steps component) (si_actions i) ++ [TActivate None].

(* ---------------------------------------------------------------- refusals *)
(* commands whose 0x80 answer the drivers follow up by polling (everything else treats
   0x80 like any other error code) *)
Definition waits (q : request) : bool :=
  is_hpm q 0x31 || is_hpm q 0x32 || is_hpm q 0x33 || is_hpm q 0x35 || is_hpm q 0x38.

(* the device refuses: a completion code that is neither "ok" nor a followed-up "in progress" *)
Definition refusal (x : exch) : bool :=
  match snd x with
  | RBytes (cc :: _) => negb (cc =? 0) && negb ((cc =? 0x80) && waits (fst x))
  | _ => false
  end.
Definition clean (tr : list exch) : bool := forallb (fun x => negb (refusal x)) tr.
(* what the library raises for it: HpmError from the *_and_wait drivers and upload_binary,
   the CompletionCodeError itself everywhere else *)
Definition err_for (q : request) (cc : N) : err := if waits q then HpmError else CCError cc.

(* ---------------------------------------------------------------- long duration commands *)
(* a Get Upgrade Status reply that reports the long duration command complete
   (last completion code other than 0x80) *)
Definition poll_done (rp : reply) : bool :=
  match rp with
  | RBytes [0; _; _; lcc] | RBytes [0; _; _; lcc; _] => negb (lcc =? 0x80)
  | _ => false
  end.
(* the polls after an "in progress" answer end with a completion report *)
Definition polls_complete (polls : list exch) : Prop :=
  exists pre q rp, polls = pre ++ [(q, rp)] /\ poll_done rp = true.
