(* Model of the word splitting performed by `/bin/sh -c <cmd>` (POSIX token
   recognition, as implemented by dash) for exactly the constructs the ipmitool
   command lines of pyipmi/interfaces/ipmitool.py can contain.  This is the model of an
   EXTERNAL program (the shell that subprocess.Popen(cmd, shell=True) starts), not of
   library code; it is validated on every run against the real /bin/sh by the C19
   harness (stub executable dumping its argv).  Executable definitions only.

   A command line is a list of bytes.  The outcome [Words argv err2out] means: the shell
   starts exactly one simple command whose argument vector is [argv] (argv[0] first),
   with stderr redirected to stdout iff [err2out].  Nothing is ever expanded or
   evaluated by the model: reaching a parameter expansion, a command substitution, a
   glob character, an operator ... is reported as such, and is already a failure of
   property C19.  Where the model is unsure it answers [Other] (never [Words]). *)
From Coq Require Import String Ascii.
From Coq Require Import NArith List Bool.
From PyIpmi Require Import Lib.Bytes.
Import ListNotations.
Open Scope N_scope.

Inductive outcome :=
| Words (argv : list (list N)) (err2out : bool)
| Expansion        (* $name ${...} $1 $? ... would be expanded *)
| Substitution     (* `...` or $(...) would be executed *)
| Unterminated     (* quote not closed: the shell reports a syntax error *)
| Other.           (* operator, glob, comment, newline, NUL, reserved word, assignment ... *)

Definition blank (c : N) : bool := (c =? 32) || (c =? 9).
Definition digit (c : N) : bool := (48 <=? c) && (c <=? 57).
Definition alpha_ (c : N) : bool :=
  ((65 <=? c) && (c <=? 90)) || ((97 <=? c) && (c <=? 122)) || (c =? 95).
(* after an unquoted or double-quoted '$': start of a parameter expansion.
   name | digit | one of @ * # ? $ ! - | '{' *)
Definition exp_start (d : N) : bool :=
  alpha_ d || digit d || (d =? 64) || (d =? 42) || (d =? 35) || (d =? 63) || (d =? 36)
  || (d =? 33) || (d =? 45) || (d =? 123).

(* characters that are special somewhere outside quotes; every other byte is a literal
   character of the current word wherever it stands *)
Definition special (c : N) : bool :=
  (c =? 0) || blank c || (c =? 10) || (c =? 92) || (c =? 34) || (c =? 39) || (c =? 36)
  || (c =? 96) || (c =? 42) || (c =? 63) || (c =? 91) || (c =? 59) || (c =? 124)
  || (c =? 38) || (c =? 60) || (c =? 62) || (c =? 40) || (c =? 41) || (c =? 126)
  || (c =? 35).
Definition lit (c : N) : bool := negb (special c).

(* lexer modes: unquoted; inside "..."; inside '...'; after the io-number redirection
   prefix "2>" ; after "2>&" ; after "2>&1" (a delimiter must follow) *)
Inductive mode := MW | MDq | MSq | MR1 | MR2 | MR3.

(* the word being assembled: None between words; Some (pure, bytes) where pure = "so far
   only unquoted literal characters" (needed to recognise the io-number in 2>&1) *)
Definition cur := option (bool * list N).

Definition push (c : cur) (acc : list (list N)) : list (list N) :=
  match c with None => acc | Some (_, w) => acc ++ [w] end.
Definition addc (c : cur) (pure : bool) (x : N) : cur :=
  match c with None => Some (pure, [x]) | Some (p, w) => Some (p && pure, w ++ [x]) end.
Definition quoted (c : cur) : cur :=
  match c with None => Some (false, []) | Some (_, w) => Some (false, w) end.

(* ---- the quoting rule of the (repaired) library, Ipmitool._quote: every backslash,
   double quote, dollar and backquote gets a backslash in front; all else unchanged ---- *)
Definition dq_special (c : N) : bool := (c =? 92) || (c =? 34) || (c =? 36) || (c =? 96).
Definition dq_escape (s : list N) : list N :=
  flat_map (fun c => if dq_special c then [92; c] else [c]) s.

Definition reserved : list (list N) :=
  map bytes_of_string ["!"; "{"; "}"; "if"; "then"; "else"; "elif"; "fi"; "for"; "while";
                       "until"; "do"; "done"; "case"; "esac"; "in"]%string.
Definition in_list (w : list N) (l : list (list N)) : bool := existsb (bytes_eqb w) l.

(* end of input: the command word must be an ordinary command name (the model does not
   track how the first word was quoted, so it is conservative: a reserved word or an
   '=' anywhere in it - a variable assignment - gives Other) *)
Definition finish (acc : list (list N)) (r : bool) : outcome :=
  match acc with
  | [] => Words [] r
  | w :: _ => if in_list w reserved || existsb (N.eqb 61) w then Other else Words acc r
  end.

Fixpoint lex (m : mode) (c : cur) (acc : list (list N)) (r : bool) (s : list N) : outcome :=
  match s with
  | [] =>
      match m with
      | MW => finish (push c acc) r
      | MR3 => finish acc true
      | MDq | MSq => Unterminated
      | MR1 | MR2 => Other
      end
  | x :: s' =>
      match m with
      | MSq =>
          if x =? 0 then Other
          else if x =? 39 then lex MW c acc r s'
          else lex MSq (addc c false x) acc r s'
      | MDq =>
          if x =? 0 then Other
          else if x =? 34 then lex MW c acc r s'
          else if x =? 96 then Substitution
          else if x =? 36 then
            match s' with
            | d :: _ => if d =? 40 then Substitution
                        else if exp_start d then Expansion
                        else lex MDq (addc c false 36) acc r s'
            | [] => lex MDq (addc c false 36) acc r s'
            end
          else if x =? 92 then
            match s' with
            | d :: s'' =>
                if dq_special d
                then lex MDq (addc c false d) acc r s''          (* escape removed *)
                else if d =? 10 then lex MDq c acc r s''          (* line continuation *)
                else lex MDq (addc c false 92) acc r s'           (* backslash stays *)
            | [] => lex MDq (addc c false 92) acc r s'
            end
          else lex MDq (addc c false x) acc r s'
      | MW =>
          if blank x then lex MW None (push c acc) r s'
          else if x =? 34 then lex MDq (quoted c) acc r s'
          else if x =? 39 then lex MSq (quoted c) acc r s'
          else if x =? 92 then
            match s' with
            | d :: s'' =>
                if d =? 0 then Other
                else if d =? 10 then lex MW c acc r s''
                else lex MW (addc c false d) acc r s''
            | [] => Other
            end
          else if x =? 96 then Substitution
          else if x =? 36 then
            match s' with
            | d :: _ => if d =? 40 then Substitution
                        else if exp_start d then Expansion
                        else if (d =? 34) || (d =? 39) then Other
                        else lex MW (addc c true 36) acc r s'
            | [] => lex MW (addc c true 36) acc r s'
            end
          else if x =? 62 then
            match c with
            | Some (true, [50]) => lex MR1 None acc r s'          (* io-number 2 *)
            | _ => Other
            end
          else if (x =? 126) || (x =? 35) then
            match c with
            | None => Other                                        (* ~ expansion, # comment *)
            | Some _ => lex MW (addc c true x) acc r s'
            end
          else if special x then Other
          else lex MW (addc c true x) acc r s'
      | MR1 => if x =? 38 then lex MR2 None acc r s' else Other
      | MR2 => if x =? 49 then lex MR3 None acc r s' else Other
      | MR3 => if blank x then lex MW None acc true s' else Other
      end
  end.

Definition sh_lex (cmd : list N) : outcome := lex MW None [] false cmd.

(* domain predicates used by the statements: no NUL byte; a word that needs no quoting *)
Definition nonul (s : list N) : bool := forallb (fun c => negb (c =? 0)) s.
Definition plain_word (w : list N) : bool := forallb lit w && negb (bytes_eqb w []).

Definition outcome_eqb (a b : outcome) : bool :=
  match a, b with
  | Words x r, Words y q => list_eqb bytes_eqb x y && Bool.eqb r q
  | Expansion, Expansion | Substitution, Substitution | Unterminated, Unterminated
  | Other, Other => true
  | _, _ => false
  end.
