(* Hand model (H) of the SDR record parsers of pyipmi/sdr.py (SdrCommon and its
   subclasses) together with the id-string decoding they use from pyipmi/fields.py
   (TypeLengthString / SdrTypeLengthString, _unpack6bitascii) and pyipmi/utils.py
   (ByteBuffer.pop_unsigned_int / pop_slice, bcd_decode, BCD_MAP).
   Executable definitions only.

   The model follows the code WITH the proposed repairs
     fixes/F16a-sdr-accuracy-shift.diff    (accuracy  << 2)
     fixes/F16b-sdr-unit-masks.diff        (rate_unit & 7, modifier_unit & 3)
     fixes/F16c-sdr-idstring-type.diff     (device_id_string_type >> 6)
     fixes/F15a-bcdplus-array.diff         (BCD+ on array input)
     fixes/F15b-6bit-partial-group.diff    (6-bit tail of 1 or 2 bytes)
   Each repaired line is marked "REPAIRED" with the original text next to it. *)
From Coq Require Import String Ascii.
From Coq Require Import NArith ZArith List Bool.
From PyIpmi Require Import Lib.Res Lib.Bytes.
Import ListNotations.
Open Scope string_scope.
Open Scope list_scope.
Open Scope N_scope.

(* ---------------------------------------------------------------- ByteBuffer *)
(* ByteBuffer.pop_unsigned_int(length):
     value = 0
     for i in range(length): value |= self.array.pop(0) << (8*i)   (IndexError -> DecodingError)
   For bytes (< 256) "|" of disjoint shifted bytes is "+"; the recursion returns
   first + 256 * (rest), the same number. *)
Fixpoint pop_uint (n : nat) (b : list N) : res (N * list N) :=
  match n with
  | O => Ok (0, b)
  | S O => match b with [] => Err DecodingError | x :: r => Ok (x, r) end
  | S n' => match b with
            | [] => Err DecodingError
            | x :: r => do '(v, r') <- pop_uint n' r; Ok (x + 256 * v, r')
            end
  end.

(* ByteBuffer.pop_slice(length): DecodingError when fewer bytes are left *)
Definition pop_slice (n : nat) (b : list N) : res (list N * list N) :=
  if (length b <? n)%nat then Err DecodingError else Ok (firstn n b, skipn n b).

(* ---------------------------------------------------------------- fields.py *)
(* utils.BCD_MAP / bcd_decode: BCD_MAP[data >> 4 & 0xf] + BCD_MAP[data & 0xf];
   IndexError (nibble > 12) -> ValueError *)
Definition BCD_MAP : list N := [48; 49; 50; 51; 52; 53; 54; 55; 56; 57; 32; 45; 46].
Definition bcd_char (nib : N) : res N :=
  match nth_error BCD_MAP (N.to_nat nib) with
  | Some c => Ok c
  | None => Err (OtherError ValueError)
  end.
Fixpoint bcd_decode (d : list N) : res (list N) :=
  match d with
  | [] => Ok []
  | x :: r =>
      do hi <- bcd_char (N.land (N.shiftr x 4) 0xf);
      do lo <- bcd_char (N.land x 0xf);
      do rest <- bcd_decode r;
      Ok (hi :: lo :: rest)
  end.

(* fields._unpack6bitascii, REPAIRED (F15b): a last group of 1 or 2 bytes is padded
   with zero bytes and the result cut to len(data)*8//6 characters, i.e. a 1-byte
   tail gives 1 character and a 2-byte tail gives 2.  (Original: d[1] / d[2] raise
   IndexError on such a tail.) *)
Definition c6_1 (a : N) : N := 0x20 + N.land a 0x3f.
Definition c6_2 (a b : N) : N := 0x20 + N.lor (N.shiftr (N.land a 0xc0) 6) (N.shiftl (N.land b 0xf) 2).
Definition c6_3 (b c : N) : N := 0x20 + N.lor (N.shiftr (N.land b 0xf0) 4) (N.shiftl (N.land c 0x3) 4).
Definition c6_4 (c : N) : N := 0x20 + N.shiftr (N.land c 0xfc) 2.
Fixpoint unpack6bitascii (d : list N) : list N :=
  match d with
  | [] => []
  | [a] => [c6_1 a]
  | [a; b] => [c6_1 a; c6_2 a b]
  | a :: b :: c :: r => c6_1 a :: c6_2 a b :: c6_3 b c :: c6_4 c :: unpack6bitascii r
  end.

(* TypeLengthString._from_data(data, offset=0) as reached from
   SdrTypeLengthString(data=...): data is non-empty here.
     field_type = data[0] >> 6 & 3; length = data[0] & 0x3f; raw = data[1:1+length]
     BCD_PLUS (1): REPAIRED (F15a) bytes(bytearray(raw)).decode('bcd+')
                   (original: raw.decode -> AttributeError for the array passed by sdr.py)
     6BIT (2): _unpack6bitascii(raw);   else: ''.join(chr(c) for c in raw) *)
Definition tl_string (data : list N) : res (list N) :=
  let b0 := nth 0 data 0 in
  let field_type := N.land (N.shiftr b0 6) 3 in
  let len := N.land b0 0x3f in
  let raw := firstn (N.to_nat len) (skipn 1 data) in
  if field_type =? 1 then bcd_decode raw
  else if field_type =? 2 then Ok (unpack6bitascii raw)
  else Ok raw.

(* ---------------------------------------------------------------- sdr.py *)
Record hdr := mkHdr { h_id : N; h_version : N; h_type : N; h_length : N }.
Record key := mkKey { owner_id : N; owner_lun : N; number : N }.
Record ent := mkEnt { entity_id : N; entity_instance : N }.
(* device_id_string_type, device_id_string_length, device_id_string (code points) *)
Record idstr := mkId { ids_type : N; ids_length : N; ids_string : list N }.

(* SdrCommon._common_header: five pops; IndexError/short -> DecodingError *)
Definition common_header (data : list N) : res hdr :=
  do '(i, b) <- pop_uint 2 data;
  do '(v, b) <- pop_uint 1 b;
  do '(t, b) <- pop_uint 1 b;
  do '(l, b) <- pop_uint 1 b;
  Ok (mkHdr i v t l).

(* SdrCommon._common_record_key(buffer) on the 3-byte slice *)
Definition common_record_key (b : list N) : res key :=
  do '(oid, b) <- pop_uint 1 b;
  do '(lun, b) <- pop_uint 1 b;
  do '(num, b) <- pop_uint 1 b;
  Ok (mkKey oid (N.land lun 0x3) num).

(* SdrCommon._entity(buffer) on the 2-byte slice *)
Definition entity (b : list N) : res ent :=
  do '(i, b) <- pop_uint 1 b;
  do '(n, b) <- pop_uint 1 b;
  Ok (mkEnt i n).

(* SdrCommon._device_id_string(buffer): buffer[0] raises IndexError on an empty
   buffer; the slice buffer[0:1+length] is silently shortened.
   REPAIRED (F16c): type = (buffer[0] & 0xc0) >> 6   (original: >> 4) *)
Definition device_id_string (b : list N) : res idstr :=
  match b with
  | [] => Err (OtherError IndexError)
  | b0 :: _ =>
      let ty := N.shiftr (N.land b0 0xc0) 6 in
      let len := N.land b0 0x3f in
      do s <- tl_string (firstn (1 + N.to_nat len) b);
      Ok (mkId ty len s)
  end.

(* SdrFullSensorRecord._convert_complement(value, size) *)
Definition convert_complement (value size : N) : Z :=
  if N.land value (N.shiftl 1 (size - 1)) =? 0 then Z.of_N value
  else (- Z.of_N (N.shiftl 1 size) + Z.of_N value)%Z.

Definition flag (x mask : N) (name : string) : list string :=
  if N.land x mask =? 0 then [] else [name].

(* SdrFullSensorRecord._decode_capabilities *)
Definition decode_capabilities (c : N) : list string :=
  flag c 0x80 "ignore_sensor" ++ flag c 0x40 "auto_rearm" ++
  (let h := N.land c 0x30 in
   if h =? 0x00 then ["hysteresis_not_supported"]
   else if h =? 0x10 then ["hysteresis_readable"]
   else if h =? 0x20 then ["hysteresis_read_and_setable"]
   else if h =? 0x30 then ["hysteresis_fixed"] else []) ++
  (let t := N.land c 0x0c in
   if t =? 0x00 then ["threshold_not_supported"]
   else if t =? 0x08 then ["threshold_readable"]
   else if t =? 0x04 then ["threshold_read_and_setable"]
   else if t =? 0x0c then ["threshold_fixed"] else []).

(* _from_data, byte 11: the seven "if initialization & mask: append(name)" statements *)
Definition decode_initialization (initialization : N) : list string :=
  flag initialization 0x40 "scanning" ++ flag initialization 0x20 "events" ++
  flag initialization 0x10 "thresholds" ++ flag initialization 0x08 "hysteresis" ++
  flag initialization 0x04 "type" ++
  flag initialization 0x02 "default_event_generation" ++
  flag initialization 0x01 "default_scanning".
(* _from_data, byte 31: the three "if analog_characteristics & mask" statements *)
Definition decode_analog_characteristic (ac : N) : list string :=
  flag ac 0x01 "nominal_reading" ++ flag ac 0x02 "normal_max" ++ flag ac 0x04 "normal_min".

Record full := mkFull {
  f_key : key; f_ent : ent;
  f_initialization : list string; f_capabilities : list string;
  f_sensor_type_code : N; f_event_reading_type_code : N;
  f_assertion_mask : N; f_deassertion_mask : N; f_discrete_reading_mask : N;
  f_units_1 : N; f_units_2 : N; f_units_3 : N;
  f_analog_data_format : N; f_rate_unit : N; f_modifier_unit : N; f_percentage : N;
  f_linearization : N;
  f_m : Z; f_tolerance : N; f_b : Z; f_accuracy : N; f_accuracy_exp : N;
  f_k2 : Z; f_k1 : Z;
  f_analog_characteristic : list string;
  f_nominal_reading : N; f_normal_maximum : N; f_normal_minimum : N;
  f_sensor_maximum_reading : N; f_sensor_minimum_reading : N;
  f_threshold : list N;            (* unr ucr unc lnr lcr lnc *)
  f_hysteresis : list N;           (* positive_going negative_going *)
  f_reserved : N; f_oem : N; f_id : idstr }.

(* SdrFullSensorRecord._from_data *)
Definition full_from_data (data : list N) : res full :=
  let buffer := skipn 5 data in
  do '(kb, buffer) <- pop_slice 3 buffer;
  do k <- common_record_key kb;
  do '(eb, buffer) <- pop_slice 2 buffer;
  do e <- entity eb;
  do '(initialization, buffer) <- pop_uint 1 buffer;
  let init := decode_initialization initialization in
  do '(capb, buffer) <- pop_uint 1 buffer;
  let caps := decode_capabilities capb in
  do '(stc, buffer) <- pop_uint 1 buffer;
  do '(ertc, buffer) <- pop_uint 1 buffer;
  do '(am, buffer) <- pop_uint 2 buffer;
  do '(dm, buffer) <- pop_uint 2 buffer;
  do '(rm, buffer) <- pop_uint 2 buffer;
  do '(units_1, buffer) <- pop_uint 1 buffer;
  do '(units_2, buffer) <- pop_uint 1 buffer;
  do '(units_3, buffer) <- pop_uint 1 buffer;
  let analog_data_format := N.land (N.shiftr units_1 6) 0x3 in
  (* REPAIRED (F16b): original  (units_1 >> 3) >> 0x7  and  (units_1 >> 1) & 0x2 *)
  let rate_unit := N.land (N.shiftr units_1 3) 0x7 in
  let modifier_unit := N.land (N.shiftr units_1 1) 0x3 in
  let percentage := N.land units_1 0x1 in
  do '(lin, buffer) <- pop_uint 1 buffer;
  let linearization := N.land lin 0x7f in
  do '(m, buffer) <- pop_uint 1 buffer;
  do '(m_tol, buffer) <- pop_uint 1 buffer;
  let mm := convert_complement (N.lor (N.land m 0xff) (N.shiftl (N.land m_tol 0xc0) 2)) 10 in
  let tolerance := N.land m_tol 0x3f in
  do '(b, buffer) <- pop_uint 1 buffer;
  do '(b_acc, buffer) <- pop_uint 1 buffer;
  do '(acc_accexp, buffer) <- pop_uint 1 buffer;
  let bb := convert_complement (N.lor (N.land b 0xff) (N.shiftl (N.land b_acc 0xc0) 2)) 10 in
  (* REPAIRED (F16a): original  ((acc_accexp & 0xf0) << 4) *)
  let accuracy := N.lor (N.land b_acc 0x3f) (N.shiftl (N.land acc_accexp 0xf0) 2) in
  let accuracy_exp := N.shiftr (N.land acc_accexp 0x0c) 2 in
  do '(rexp_bexp, buffer) <- pop_uint 1 buffer;
  let k2 := convert_complement (N.shiftr (N.land rexp_bexp 0xf0) 4) 4 in
  let k1 := convert_complement (N.land rexp_bexp 0x0f) 4 in
  do '(ac, buffer) <- pop_uint 1 buffer;
  let achar := decode_analog_characteristic ac in
  do '(nominal, buffer) <- pop_uint 1 buffer;
  do '(nmax, buffer) <- pop_uint 1 buffer;
  do '(nmin, buffer) <- pop_uint 1 buffer;
  do '(smax, buffer) <- pop_uint 1 buffer;
  do '(smin, buffer) <- pop_uint 1 buffer;
  do '(unr, buffer) <- pop_uint 1 buffer;
  do '(ucr, buffer) <- pop_uint 1 buffer;
  do '(unc, buffer) <- pop_uint 1 buffer;
  do '(lnr, buffer) <- pop_uint 1 buffer;
  do '(lcr, buffer) <- pop_uint 1 buffer;
  do '(lnc, buffer) <- pop_uint 1 buffer;
  do '(hp, buffer) <- pop_uint 1 buffer;
  do '(hn, buffer) <- pop_uint 1 buffer;
  do '(reserved, buffer) <- pop_uint 2 buffer;
  do '(oem, buffer) <- pop_uint 1 buffer;
  do ids <- device_id_string buffer;
  Ok (mkFull k e init caps stc ertc am dm rm units_1 units_2 units_3
        analog_data_format rate_unit modifier_unit percentage linearization
        mm tolerance bb accuracy accuracy_exp k2 k1 achar
        nominal nmax nmin smax smin [unr; ucr; unc; lnr; lcr; lnc] [hp; hn]
        reserved oem ids).

Record compact := mkCompact {
  c_key : key; c_ent : ent;
  c_sensor_initialization : N; c_capabilities : N;
  c_sensor_type_code : N; c_event_reading_type_code : N;
  c_assertion_mask : N; c_deassertion_mask : N; c_discrete_reading_mask : N;
  c_units_1 : N; c_units_2 : N; c_units_3 : N;
  c_record_sharing : N;
  c_positive_going_hysteresis : N; c_negative_going_hysteresis : N;
  c_reserved : N; c_oem : N; c_id : idstr }.

(* SdrCompactSensorRecord._from_data *)
Definition compact_from_data (data : list N) : res compact :=
  let buffer := skipn 5 data in
  do '(kb, buffer) <- pop_slice 3 buffer;
  do k <- common_record_key kb;
  do '(eb, buffer) <- pop_slice 2 buffer;
  do e <- entity eb;
  do '(si, buffer) <- pop_uint 1 buffer;
  do '(cap, buffer) <- pop_uint 1 buffer;
  do '(stc, buffer) <- pop_uint 1 buffer;
  do '(ertc, buffer) <- pop_uint 1 buffer;
  do '(am, buffer) <- pop_uint 2 buffer;
  do '(dm, buffer) <- pop_uint 2 buffer;
  do '(rm, buffer) <- pop_uint 2 buffer;
  do '(u1, buffer) <- pop_uint 1 buffer;
  do '(u2, buffer) <- pop_uint 1 buffer;
  do '(u3, buffer) <- pop_uint 1 buffer;
  do '(rs, buffer) <- pop_uint 2 buffer;
  do '(hp, buffer) <- pop_uint 1 buffer;
  do '(hn, buffer) <- pop_uint 1 buffer;
  do '(reserved, buffer) <- pop_uint 3 buffer;
  do '(oem, buffer) <- pop_uint 1 buffer;
  do ids <- device_id_string buffer;
  Ok (mkCompact k e si cap stc ertc am dm rm u1 u2 u3 rs hp hn reserved oem ids).

Record eventonly := mkEventOnly {
  e_key : key; e_ent : ent; e_sensor_type : N; e_event_reading_type_code : N;
  e_record_sharing : N; e_reserved : N; e_oem : N; e_id : idstr }.

(* SdrEventOnlySensorRecord._from_data *)
Definition eventonly_from_data (data : list N) : res eventonly :=
  let buffer := skipn 5 data in
  do '(kb, buffer) <- pop_slice 3 buffer;
  do k <- common_record_key kb;
  do '(eb, buffer) <- pop_slice 2 buffer;
  do e <- entity eb;
  do '(st, buffer) <- pop_uint 1 buffer;
  do '(ertc, buffer) <- pop_uint 1 buffer;
  do '(rs, buffer) <- pop_uint 2 buffer;
  do '(reserved, buffer) <- pop_uint 1 buffer;
  do '(oem, buffer) <- pop_uint 1 buffer;
  do ids <- device_id_string buffer;
  Ok (mkEventOnly k e st ertc rs reserved oem ids).

Record fruloc := mkFruLoc {
  fl_device_access_address : N; fl_fru_device_id : N; fl_logical_physical : N;
  fl_channel_number : N; fl_reserved : N; fl_device_type : N;
  fl_device_type_modifier : N; fl_ent : ent; fl_oem : N; fl_id : idstr }.

(* SdrFruDeviceLocator._from_data *)
Definition fruloc_from_data (data : list N) : res fruloc :=
  let buffer := skipn 5 data in
  do '(a, buffer) <- pop_uint 1 buffer;
  do '(fid, buffer) <- pop_uint 1 buffer;
  do '(lp, buffer) <- pop_uint 1 buffer;
  do '(ch, buffer) <- pop_uint 1 buffer;
  do '(reserved, buffer) <- pop_uint 1 buffer;
  do '(dt, buffer) <- pop_uint 1 buffer;
  do '(dtm, buffer) <- pop_uint 1 buffer;
  do '(eb, buffer) <- pop_slice 2 buffer;
  do e <- entity eb;
  do '(oem, buffer) <- pop_uint 1 buffer;
  do ids <- device_id_string buffer;
  Ok (mkFruLoc (N.shiftr a 1) fid lp ch reserved dt dtm e oem ids).

Record mcloc := mkMcLoc {
  ml_device_slave_address : N; ml_channel_number : N; ml_power_state_notification : N;
  ml_global_initialization : N; ml_device_capabilities : N; ml_reserved : N;
  ml_ent : ent; ml_oem : N; ml_id : idstr }.

(* SdrManagementControllerDeviceLocator._from_data (global_initialization = 0, constant) *)
Definition mcloc_from_data (data : list N) : res mcloc :=
  let buffer := skipn 5 data in
  do '(a, buffer) <- pop_uint 1 buffer;
  do '(ch, buffer) <- pop_uint 1 buffer;
  do '(psn, buffer) <- pop_uint 1 buffer;
  do '(cap, buffer) <- pop_uint 1 buffer;
  do '(reserved, buffer) <- pop_uint 3 buffer;
  do '(eb, buffer) <- pop_slice 2 buffer;
  do e <- entity eb;
  do '(oem, buffer) <- pop_uint 1 buffer;
  do ids <- device_id_string buffer;
  Ok (mkMcLoc (N.shiftr a 1) (N.land ch 0xf) psn 0 cap reserved e oem ids).

Record mcconf := mkMcConf {
  mc_device_slave_address : N; mc_device_id : N; mc_channel_number : N;
  mc_firmware_revision_1 : N; mc_firmware_revision_2 : N; mc_ipmi_version : N;
  mc_manufacturer_id : N; mc_product_id : N; mc_device_guid : N }.

(* SdrManagementControllerConfirmationRecord._from_data *)
Definition mcconf_from_data (data : list N) : res mcconf :=
  let buffer := skipn 5 data in
  do '(a, buffer) <- pop_uint 1 buffer;
  do '(did, buffer) <- pop_uint 1 buffer;
  do '(ch, buffer) <- pop_uint 1 buffer;
  do '(f1, buffer) <- pop_uint 1 buffer;
  do '(f2, buffer) <- pop_uint 1 buffer;
  do '(ver, buffer) <- pop_uint 1 buffer;
  do '(mid, buffer) <- pop_uint 3 buffer;
  do '(pid, buffer) <- pop_uint 2 buffer;
  do '(guid, buffer) <- pop_uint 16 buffer;
  Ok (mkMcConf (N.shiftr a 1) did ch f1 f2 ver (N.land mid 0xfffff) pid guid).

(* SdrOEMSensorRecord._from_data: only the three "record key" bytes *)
Definition oem_from_data (data : list N) : res key :=
  let buffer := skipn 5 data in
  do '(kb, buffer) <- pop_slice 3 buffer;
  common_record_key kb.

Inductive record :=
| RFull (h : hdr) (r : full)
| RCompact (h : hdr) (r : compact)
| REventOnly (h : hdr) (r : eventonly)
| RFruLoc (h : hdr) (r : fruloc)
| RMcLoc (h : hdr) (r : mcloc)
| RMcConf (h : hdr) (r : mcconf)
| ROem (h : hdr) (k : key)
| RUnknown (h : hdr).

(* SdrCommon.from_data(data): sdr_type = data[3] (IndexError when shorter); class by
   the dict, default SdrUnknownSensorRecord; cls(data): SdrCommon.__init__ runs
   _common_header then the class's _from_data. *)
Definition sdr_from_data (data : list N) : res record :=
  match nth_error data 3 with
  | None => Err (OtherError IndexError)
  | Some sdr_type =>
      do h <- common_header data;
      if sdr_type =? 0x01 then do r <- full_from_data data; Ok (RFull h r)
      else if sdr_type =? 0x02 then do r <- compact_from_data data; Ok (RCompact h r)
      else if sdr_type =? 0x03 then do r <- eventonly_from_data data; Ok (REventOnly h r)
      else if sdr_type =? 0x11 then do r <- fruloc_from_data data; Ok (RFruLoc h r)
      else if sdr_type =? 0x12 then do r <- mcloc_from_data data; Ok (RMcLoc h r)
      else if sdr_type =? 0x13 then do r <- mcconf_from_data data; Ok (RMcConf h r)
      else if sdr_type =? 0xC0 then do r <- oem_from_data data; Ok (ROem h r)
      else Ok (RUnknown h)
  end.

(* which class was instantiated *)
Inductive kind := KFull | KCompact | KEventOnly | KFruLoc | KMcLoc | KMcConf | KOem | KUnknown.
Definition kind_of_record (r : record) : kind :=
  match r with
  | RFull _ _ => KFull | RCompact _ _ => KCompact | REventOnly _ _ => KEventOnly
  | RFruLoc _ _ => KFruLoc | RMcLoc _ _ => KMcLoc | RMcConf _ _ => KMcConf
  | ROem _ _ => KOem | RUnknown _ => KUnknown
  end.

(* ---- arbitrary data: the common header of whatever record comes back ---- *)
Definition record_hdr (r : record) : hdr :=
  match r with
  | RFull h _ | RCompact h _ | REventOnly h _ | RFruLoc h _ | RMcLoc h _ | RMcConf h _
  | ROem h _ | RUnknown h => h
  end.

