(* Hand model (H) of pyipmi/interfaces/ipmitool.py: the command-line builders, the
   target/bridging options, the raw-data operands, rmcp_ping, _parse_output and the
   result/error mapping of send_and_receive_raw and _run_ipmitool.
   Executable definitions only.  Text is a list of bytes (the bytes /bin/sh receives:
   Popen encodes the str with os.fsencode).

   The model follows the REPAIRED code (fixes/F19-*.diff, F19b, F19c):
     - user and password go through Ipmitool._quote (escape of backslash, double quote,
       dollar, backquote inside the existing double quotes);       [F19]
     - a routing of depth 1 adds no option (the code said "pass" but fell into the
       RuntimeError branch);                                       [F19b]
     - "-C" is emitted whenever a cipher is configured, also for the integer 0.  [F19c]
   The historical behaviour is kept as a parameter ([qf := fun s => s], [legacy := true])
   so that the refutation witnesses can be stated. *)
From Coq Require Import String Ascii.
From Coq Require Import NArith List Bool.
From PyIpmi Require Import Lib.Res Lib.Bytes Model.Shell.
Import ListNotations.
Open Scope N_scope.

Definition B (s : string) : list N := bytes_of_string s.
Definition runtime_error {A} : res A := Err (OtherError OtherExc).

(* ---------------------------------------------------------------- numbers as text *)
Definition digit_char (d : N) : N :=
  nth (N.to_nat d) [48; 49; 50; 51; 52; 53; 54; 55; 56; 57; 97; 98; 99; 100; 101; 102] 48.
Fixpoint digits_aux (base : N) (fuel : nat) (n : N) (acc : list N) : list N :=
  match fuel with
  | O => acc
  | S f => let acc' := digit_char (n mod base) :: acc in
           if n / base =? 0 then acc' else digits_aux base f (n / base) acc'
  end.
Definition digits (base n : N) : list N := digits_aux base (S (N.size_nat n)) n [].
Definition dec (n : N) : list N := digits 10 n.              (* '%d' % n, '{:d}', '%s' % int *)
Definition hexl (n : N) : list N := digits 16 n.             (* '%x' % n *)
Definition hex2 (n : N) : list N :=                          (* '%02x' % n *)
  if n <? 16 then [48; digit_char n] else hexl n.
Definition ox2 (n : N) : list N := 48 :: 120 :: hex2 n.      (* '0x%02x' % n *)

Fixpoint join (sep : list N) (l : list (list N)) : list N :=   (* sep.join(l) *)
  match l with [] => [] | [x] => x | x :: r => x ++ sep ++ join sep r end.

(* ---------------------------------------------------------------- configuration *)
Inductive iftype := Lan | Lanplus | SerialTerminal | OpenIf.
Definition iftype_name (t : iftype) : list N :=
  match t with Lan => B "lan" | Lanplus => B "lanplus"
             | SerialTerminal => B "serial-terminal" | OpenIf => B "open" end.

(* Session.auth_type with the attributes read for it *)
Inductive auth := AuthNone | AuthPassword (user pw : list N) | AuthOther.

(* Routing(rq_sa, rs_sa, channel): rq_sa is never read by this back-end *)
Record route := mkRoute { r_rs_sa : N; r_channel : option N }.
(* Target: ipmb_address (None or int), routing (None or list) *)
Record target := mkTarget { t_addr : option N; t_routing : option (list route) }.

Record config := mkConfig {
  c_type : iftype;              (* self._interface_type *)
  c_cipher : option N;          (* self._cipher: None, an int, or its decimal text *)
  c_host : list N;              (* session.rmcp_host *)
  c_port : N;                   (* session.rmcp_port *)
  c_priv : N;                   (* session.priv_level *)
  c_auth : auth;
  c_serial_port : list N;       (* session.serial_port *)
  c_baud : N                    (* session.serial_baudrate *)
}.

(* ---------------------------------------------------------------- builders *)
(* Ipmitool._quote (repaired code) is Shell.dq_escape; the builders take the quoting
   function as a parameter: [dq_escape] = current code, [fun s => s] = before F19. *)
Section Builders.
Variable qf : list N -> list N.
Variable legacy : bool.      (* true: the behaviour before F19b / F19c *)

(* '%d' % channel: TypeError when channel is None *)
Definition chan (c : option N) : res (list N) :=
  match c with Some n => Ok (dec n) | None => Err (OtherError TypeError) end.

(* _build_ipmitool_target *)
Definition build_target (t : option target) : res (list N) :=
  match t with
  | None => Ok []
  | Some t =>
      match t_routing t with
      | Some rt =>
          match rt with
          | [_] => if legacy then runtime_error else Ok []
          | [r0; r1] =>
              do b <- chan (r_channel r0);
              Ok (B " -t " ++ ox2 (r_rs_sa r1) ++ B " -b " ++ b)
          | [r0; r1; r2] =>
              do bb <- chan (r_channel r0);
              do b <- chan (r_channel r1);
              Ok (B " -T " ++ ox2 (r_rs_sa r1) ++ B " -B " ++ bb ++
                  B " -t " ++ ox2 (r_rs_sa r2) ++ B " -b " ++ b)
          | _ => runtime_error
          end
      | None =>
          match t_addr t with
          | Some a => if a =? 0 then Ok [] else Ok (B " -t " ++ ox2 a)
          | None => Ok []
          end
      end
  end.

(* _build_ipmitool_raw_data: array('B', raw) rejects values outside 0..255 *)
Definition build_raw (lun netfn : N) (raw : list N) : res (list N) :=
  if bytes_ok raw
  then Ok (B " -l " ++ dec lun ++ B " raw " ++ join [32] (map ox2 (netfn :: raw)))
  else Err (OtherError OtherExc).

(* _build_ipmitool_priv_level: LEVELS[level], KeyError otherwise *)
Definition priv_name (l : N) : res (list N) :=
  if l =? 2 then Ok (B "USER") else if l =? 3 then Ok (B "OPERATOR")
  else if l =? 4 then Ok (B "ADMINISTRATOR") else Err (OtherError KeyError).

Definition cipher_opt (c : option N) : list N :=
  match c with
  | None => []
  | Some n => if legacy && (n =? 0) then [] else B " -C " ++ dec n
  end.

Definition auth_opt (a : auth) : res (list N) :=
  match a with
  | AuthNone => Ok (B " -P """"")
  | AuthPassword u p => Ok (B " -U """ ++ qf u ++ B """" ++ B " -P """ ++ qf p ++ B """")
  | AuthOther => runtime_error
  end.

(* _build_ipmitool_cmd *)
Definition build_lan_cmd (c : config) (t : option target) (lun netfn : N) (raw : list N)
  : res (list N) :=
  do lvl <- priv_name (c_priv c);
  do au <- auth_opt (c_auth c);
  do tg <- build_target t;
  do rd <- build_raw lun netfn raw;
  Ok (B "ipmitool" ++ B " -I " ++ iftype_name (c_type c) ++ B " -H " ++ c_host c ++
      B " -p " ++ dec (c_port c) ++ B " -L " ++ lvl ++ cipher_opt (c_cipher c) ++ au ++
      tg ++ rd ++ B " 2>&1").

(* _build_serial_ipmitool_cmd *)
Definition build_serial_cmd (c : config) (t : option target) (lun netfn : N) (raw : list N)
  : res (list N) :=
  do tg <- build_target t;
  do rd <- build_raw lun netfn raw;
  Ok (B "ipmitool" ++ B " -I " ++ iftype_name (c_type c) ++ B " -D " ++ c_serial_port c ++
      [58] ++ dec (c_baud c) ++ tg ++ rd).

(* _build_open_ipmitool_cmd *)
Definition build_open_cmd (c : config) (t : option target) (lun netfn : N) (raw : list N)
  : res (list N) :=
  do tg <- build_target t;
  do rd <- build_raw lun netfn raw;
  Ok (B "ipmitool" ++ B " -I " ++ iftype_name (c_type c) ++ tg ++ rd ++ B " 2>&1").

(* the dispatch at the top of send_and_receive_raw *)
Definition build_cmd (c : config) (t : option target) (lun netfn : N) (raw : list N)
  : res (list N) :=
  match c_type c with
  | Lan | Lanplus => build_lan_cmd c t lun netfn raw
  | OpenIf => build_open_cmd c t lun netfn raw
  | SerialTerminal => build_serial_cmd c t lun netfn raw
  end.

(* rmcp_ping: the command line (auth types other than NONE / PASSWORD add nothing) *)
Definition build_ping_cmd (c : config) : res (list N) :=
  match c_type c with
  | SerialTerminal => runtime_error
  | _ =>
      Ok (B "ipmitool" ++ B " -I " ++ iftype_name (c_type c) ++ B " -H " ++ c_host c ++
          B " -p " ++ dec (c_port c) ++
          match c_auth c with
          | AuthNone => B " -A NONE"
          | AuthPassword u p => B " -U """ ++ qf u ++ B """" ++ B " -P """ ++ qf p ++ B """"
          | AuthOther => []
          end ++ B " session info all")
  end.
End Builders.

(* ---------------------------------------------------------------- _parse_output *)
Fixpoint starts (pat s : list N) : bool :=
  match pat, s with
  | [], _ => true
  | p :: pr, c :: sr => (p =? c) && starts pr sr
  | _ :: _, [] => false
  end.
Fixpoint strip_prefix (pat s : list N) : option (list N) :=
  match pat, s with
  | [], _ => Some s
  | p :: pr, c :: sr => if p =? c then strip_prefix pr sr else None
  | _ :: _, [] => None
  end.
(* 'pat' in s *)
Fixpoint contains (pat s : list N) : bool :=
  starts pat s || match s with [] => false | _ :: t => contains pat t end.

(* str.split(sep) for a one-character separator *)
Fixpoint split_on (sep : N) (s : list N) : list (list N) :=
  match s with
  | [] => [[]]
  | c :: r => if c =? sep then [] :: split_on sep r
              else match split_on sep r with
                   | h :: t => (c :: h) :: t
                   | [] => [[c]]
                   end
  end.

(* str.isspace for the characters a raw_unicode_escape-decoded byte string can hold *)
Definition py_space (c : N) : bool :=
  ((9 <=? c) && (c <=? 13)) || ((28 <=? c) && (c <=? 32)) || (c =? 133) || (c =? 160).
Fixpoint lstrip (s : list N) : list N :=
  match s with c :: r => if py_space c then lstrip r else s | [] => [] end.
Definition strip (s : list N) : list N := rev (lstrip (rev (lstrip s))).
Definition remove_cr (s : list N) : list N := filter (fun c => negb (c =? 13)) s.

Definition hexlow (c : N) : bool := digit c || ((97 <=? c) && (c <=? 102)).   (* [0-9a-f] *)
Definition hexdig_val (c : N) : option N :=
  if digit c then Some (c - 48)
  else if (97 <=? c) && (c <=? 102) then Some (c - 87)
  else if (65 <=? c) && (c <=? 70) then Some (c - 55) else None.
Fixpoint span_hex (s : list N) : list N * list N :=
  match s with
  | c :: r => if hexlow c then let (h, a) := span_hex r in (c :: h, a) else ([], s)
  | [] => ([], [])
  end.
Fixpoint hexval_acc (acc : N) (s : list N) : N :=
  match s with
  | c :: r => match hexdig_val c with Some v => hexval_acc (16 * acc + v) r | None => acc end
  | [] => acc
  end.

(* at the start of t:  key [0-9a-f]+ \)   -> the hex digits *)
Definition try_key (key t : list N) : option (list N) :=
  match strip_prefix key t with
  | Some u => let (h, a) := span_hex u in
              match h with [] => None | _ => if starts [41] a then Some h else None end
  | None => None
  end.
(* ".*" followed by try_key, greedy: the LAST position where it succeeds *)
Fixpoint last_key (key s : list N) : option (list N) :=
  match s with
  | [] => None
  | _ :: t => match last_key key t with Some h => Some h | None => try_key key s end
  end.

Definition unable_prefix := B "Unable to send RAW command (".
(* re_timeout.match(line):  Unable to send RAW command \(.*cmd=0x[0-9a-f]+\) *)
Definition timeout_match (line : list N) : bool :=
  match strip_prefix unable_prefix line with
  | Some rest => match last_key (B "cmd=0x") rest with Some _ => true | None => false end
  | None => false
  end.
(* re_completion_code.match(line): Unable to send RAW command \(.*rsp=(0x[0-9a-f]+)\)
   -> int(group(1), 16) *)
Definition cc_match (line : list N) : option N :=
  match strip_prefix unable_prefix line with
  | Some rest => match last_key (B "rsp=0x") rest with
                 | Some h => Some (hexval_acc 0 h)
                 | None => None
                 end
  | None => None
  end.

(* int(value, 16) for one blank-separated field, then array('B', ...) range check.
   whitespace stripped; optional sign; optional 0x/0X; single underscores between
   digits (and after the prefix).  None = ValueError / OverflowError. *)
Fixpoint hexdigits_us (first : bool) (prev_us : bool) (acc : N) (s : list N) : option N :=
  match s with
  | [] => if prev_us || first then None else Some acc
  | c :: r =>
      if c =? 95 then (if prev_us || first then None else hexdigits_us false true acc r)
      else match hexdig_val c with
           | Some v => hexdigits_us false false (16 * acc + v) r
           | None => None
           end
  end.
Definition py_int16_mag (s : list N) : option N :=
  match s with
  | 48 :: x :: r =>
      if (x =? 120) || (x =? 88)
      then match r with
           | 95 :: r' => hexdigits_us true false 0 r'        (* 0x_1f *)
           | _ => hexdigits_us true false 0 r
           end
      else hexdigits_us true false 0 s
  | _ => hexdigits_us true false 0 s
  end.
Definition py_byte16 (tok : list N) : option N :=
  let t := strip tok in
  match t with
  | 45 :: r => match py_int16_mag r with Some 0 => Some 0 | _ => None end
  | 43 :: r => match py_int16_mag r with Some v => if v <? 256 then Some v else None | None => None end
  | _ => match py_int16_mag t with Some v => if v <? 256 then Some v else None | None => None end
  end.

Fixpoint all_some {A} (l : list (option A)) : option (list A) :=
  match l with
  | [] => Some []
  | Some a :: r => match all_some r with Some t => Some (a :: t) | None => None end
  | None :: _ => None
  end.

(* the for-loop over the lines; returns (cc, hexstr) *)
Fixpoint parse_lines (lines : list (list N)) (hexstr : list N) : res (option N * list N) :=
  match lines with
  | [] => Ok (None, hexstr)
  | line :: rest =>
      if contains (B "failed") line then parse_lines rest hexstr
      else if timeout_match line then Err TimeoutError
      else if contains (B "Unable to establish") line then Err ConnectionError
      else match cc_match line with
           | Some cc => Ok (Some cc, hexstr)                       (* break *)
           | None =>
               if contains (B "Could not open device") line then runtime_error
               else if contains (B "password is longer than") line then Err LongPasswordError
               else parse_lines rest (hexstr ++ strip (remove_cr line) ++ [32])
           end
  end.

(* _parse_output(output) -> (cc, rsp).  Precondition (not modelled): the output holds
   no backslash-u / backslash-U sequence (raw_unicode_escape would decode it). *)
Definition parse_output (out : list N) : res (option N * option (list N)) :=
  do '(cc, hexstr) <- parse_lines (split_on 10 out) [];
  let h := strip hexstr in
  match h with
  | [] => Ok (cc, None)
  | _ => match all_some (map py_byte16 (split_on 32 h)) with
         | Some bs => Ok (cc, Some bs)
         | None => Err (OtherError ValueError)
         end
  end.

(* _run_ipmitool's status rule + the tail of send_and_receive_raw:
   what is returned for the output bytes and exit status of the child *)
Definition receive (out : list N) (rc : N) : res (list N) :=
  if rc =? 127 then runtime_error
  else
    do '(cc, rsp) <- parse_output out;
    match cc with
    | Some c => if c <? 256 then Ok [c] else Err (OtherError OtherExc)
    | None => if negb (rc =? 0) then runtime_error
              else Ok (0 :: match rsp with Some bs => bs | None => [] end)
    end.

(* rmcp_ping after the command ran *)
Definition ping_result (rc : N) : res unit :=
  if rc =? 127 then runtime_error else if negb (rc =? 0) then Err TimeoutError else Ok tt.

(* the current code *)
Definition cmd_of := build_cmd dq_escape false.
Definition ping_cmd_of := build_ping_cmd dq_escape.
(* the code before the repairs (only for the refutation witnesses) *)
Definition cmd_of_legacy := build_cmd (fun s => s) true.
