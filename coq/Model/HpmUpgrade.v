(* Hand model (H) of the HPM.1 upgrade drivers of pyipmi/hpm.py that sit on top of
   upload_binary: abort_firmware_upgrade, initiate_upgrade_action(_and_wait),
   finish_firmware_upload / finish_upload_and_wait, activate_firmware(_and_wait),
   query_selftest_results, query_rollback_status, initiate_manual_rollback(_and_wait),
   get_target_upgrade_capabilities, preparation_stage, upgrade_stage,
   wait_until_new_firmware_comes_up, activation_stage, install_component_from_image /
   _from_file, get_upgrade_version_from_file (+ Bmc.get_device_id / DeviceId as far as
   preparation_stage reads it).  Executable definitions only.

   activation_stage is modelled as REPAIRED by fixes/F18b-hpm-activation-args.diff
   (/repo passes the image's inaccessibility time-out positionally, i.e. as the
   rollback-override byte of the Activate Firmware request, and waits 1 s).

   Clock: as in HpmUpload.v time passes only in time.sleep, except inside
   wait_until_new_firmware_comes_up, a busy loop without sleep on success: there every
   time.time() call costs [tick] clock units (the harness switches its scripted clock to
   that regime for the duration of the call).  Clock units: milliseconds. *)
From Coq Require Import NArith ZArith List Bool.
From PyIpmi Require Import Lib.Res Lib.Bytes Lib.Prog Model.HpmImage Model.HpmUpload.
Import ListNotations.
Open Scope N_scope.

Definition NETFN_APP : N := 0x06.
Definition CMDID_GET_DEVICE_ID : N := 0x01.
Definition CMDID_HPM_GET_TARGET_UPGRADE_CAPABILITIES : N := 0x2e.
Definition CMDID_HPM_ABORT_FIRMWARE_UPGRADE : N := 0x30.
Definition CMDID_HPM_INITIATE_UPGRADE_ACTION : N := 0x31.
Definition CMDID_HPM_FINISH_FIRMWARE_UPLOAD : N := 0x33.
Definition CMDID_HPM_ACTIVATE_FIRMWARE : N := 0x35.
Definition CMDID_HPM_QUERY_SELFTEST_RESULTS : N := 0x36.
Definition CMDID_HPM_QUERY_ROLLBACK_STATUS : N := 0x37.
Definition CMDID_HPM_INITIATE_MANUAL_ROLLBACK : N := 0x38.

(* seconds of the Python API in clock units *)
Definition sec : N := 1000.
Definition DEFAULT_TIMEOUT : N := 2 * sec.         (* timeout=2 *)
Definition DEFAULT_INTERVAL : N := 100.            (* interval=0.1 *)

(* a PICMG request: picmg_identifier first *)
Definition hpm_req (cmd : N) (data : list N) : request :=
  mkReq NETFN_GROUP_EXTENSION cmd 0 (PICMG_IDENTIFIER :: data).

Definition abort_req : request := hpm_req CMDID_HPM_ABORT_FIRMWARE_UPGRADE [].
Definition caps_req : request := hpm_req CMDID_HPM_GET_TARGET_UPGRADE_CAPABILITIES [].
(* InitiateUpgradeActionReq: components, action (push_unsigned_int(v, 1) = v & 0xff) *)
Definition initiate_req (components action : N) : request :=
  hpm_req CMDID_HPM_INITIATE_UPGRADE_ACTION [components mod 256; action mod 256].
(* FinishFirmwareUploadReq: component_id, image_length (4 bytes, little-endian) *)
Definition finish_req (component length : N) : request :=
  hpm_req CMDID_HPM_FINISH_FIRMWARE_UPLOAD (component mod 256 :: le_bytes 4 length).
(* ActivateFirmwareReq: Optional(rollback_override_policy) *)
Definition activate_req (rollback_override : option N) : request :=
  hpm_req CMDID_HPM_ACTIVATE_FIRMWARE
          (match rollback_override with None => [] | Some v => [v mod 256] end).
Definition selftest_req : request := hpm_req CMDID_HPM_QUERY_SELFTEST_RESULTS [].
Definition rollback_status_req : request := hpm_req CMDID_HPM_QUERY_ROLLBACK_STATUS [].
Definition manual_rollback_req : request := hpm_req CMDID_HPM_INITIATE_MANUAL_ROLLBACK [].
Definition device_id_req : request := mkReq NETFN_APP CMDID_GET_DEVICE_ID 0 [].

(* send_message_with_name + Message._decode of a response whose fields after the
   completion code take one of the byte counts [lens] (mandatory fields, then Optional
   ones): shorter / longer / in between is DecodingError; a completion code != 0 stops
   decoding and check_rsp_completion_code raises.  Returns the bytes after the code. *)
Definition dec_fixed (lens : list nat) (rp : reply) : res (list N) :=
  match rp with
  | RRaise e => Err e
  | RBytes [] => Err DecodingError
  | RBytes (cc :: d) =>
      if cc =? 0 then
        if existsb (Nat.eqb (length d)) lens then Ok d else Err DecodingError
      else Err (CCError cc)
  end.
(* CompletionCode, picmg_identifier: Abort / Initiate / Finish / Activate / Manual Rollback *)
Definition LEN_PLAIN : list nat := [1%nat].

(* a command without long-duration handling: the method itself *)
Definition simple_cmd (q : request) (lens : list nat) : prog (list N) :=
  Send q (fun rp => lift (dec_fixed lens rp)).

(* the common shape of the four *_and_wait methods:
     try: <send q, check completion code>
     except CompletionCodeError as e:
         if e.cc == 0x80: self.wait_for_long_duration_command(cmd, timeout, interval)
         else: raise HpmError(...)
     [except IpmiTimeoutError: pass]        (activate / manual rollback only) *)
Definition and_wait (q : request) (timeout interval : N) (swallow_timeout : bool) : prog unit :=
  Send q (fun rp =>
    match dec_fixed LEN_PLAIN rp with
    | Ok _ => Ret tt
    | Err (CCError cc) =>
        if cc =? CC_LONG_DURATION_CMD_IN_PROGRESS
        then wait_for_long_duration_command timeout interval
        else Raise HpmError
    | Err TimeoutError => if swallow_timeout then Ret tt else Raise TimeoutError
    | Err e => Raise e
    end).

(* Hpm.abort_firmware_upgrade *)
Definition abort_firmware_upgrade : prog unit :=
  dop _ <- simple_cmd abort_req LEN_PLAIN; Ret tt.

(* Hpm._get_component_count: bin(components).count('1') *)
Fixpoint pos_popcount (p : positive) : nat :=
  match p with xH => 1 | xO q => pos_popcount q | xI q => S (pos_popcount q) end.
Definition component_count (components : N) : nat :=
  match components with N0 => 0 | Npos p => pos_popcount p end.

(* the guard of Hpm.initiate_upgrade_action: upload actions take exactly one component *)
Definition initiate_guard (components action : N) : bool :=
  ((action =? 2) || (action =? 3)) && negb (Nat.eqb (component_count components) 1).

(* Hpm.initiate_upgrade_action *)
Definition initiate_upgrade_action (components action : N) : prog unit :=
  if initiate_guard components action then Raise HpmError
  else dop _ <- simple_cmd (initiate_req components action) LEN_PLAIN; Ret tt.

(* Hpm.initiate_upgrade_action_and_wait (HpmError of the guard is not a CompletionCodeError:
   it passes through the try) *)
Definition initiate_upgrade_action_and_wait (components action timeout interval : N) : prog unit :=
  if initiate_guard components action then Raise HpmError
  else and_wait (initiate_req components action) timeout interval false.

(* Hpm.finish_firmware_upload / finish_upload_and_wait *)
Definition finish_firmware_upload (component length : N) : prog unit :=
  dop _ <- simple_cmd (finish_req component length) LEN_PLAIN; Ret tt.
Definition finish_upload_and_wait (component length timeout interval : N) : prog unit :=
  and_wait (finish_req component length) timeout interval false.

(* Hpm.activate_firmware / activate_firmware_and_wait *)
Definition activate_firmware (rollback_override : option N) : prog unit :=
  dop _ <- simple_cmd (activate_req rollback_override) LEN_PLAIN; Ret tt.
Definition activate_firmware_and_wait (rollback_override : option N) (timeout interval : N) : prog unit :=
  and_wait (activate_req rollback_override) timeout interval true.

(* Hpm.query_selftest_results -> SelfTestResult: status, and
   [fail_sel; fail_sdrr; fail_bmc_fru; fail_ipmb] only when status != 0x57, then
   [fail_sdrr_empty; fail_bmc_fru_interanl_area; fail_bootblock; fail_mc] *)
Definition bit_of (v : N) (i : N) : N := N.shiftr (N.land v (N.shiftl 1 i)) i.
Definition query_selftest_results : prog (N * option (list N) * list N) :=
  dop d <- simple_cmd selftest_req [3%nat];
  let r1 := nth 1 d 0 in
  let r2 := nth 2 d 0 in
  Ret (r1, (if r1 =? 0x57 then None else Some [bit_of r2 7; bit_of r2 6; bit_of r2 5; bit_of r2 4]),
       [bit_of r2 3; bit_of r2 2; bit_of r2 1; bit_of r2 0]).

(* RollbackStatus(rsp): percent_complete only if the response has a truthy completion_estimate *)
Definition rollback_status_of (d : list N) : option N :=
  match d with
  | [_; _; est] => if est =? 0 then None else Some est
  | _ => None
  end.
(* Hpm.query_rollback_status: QueryRollbackStatusRsp = cc, picmg, rollback_status, Optional(estimate) *)
Definition query_rollback_status : prog (option N) :=
  dop d <- simple_cmd rollback_status_req [2%nat; 3%nat]; Ret (rollback_status_of d).
(* Hpm.initiate_manual_rollback: InitiateManualRollbackRsp = cc, picmg (no estimate) *)
Definition initiate_manual_rollback : prog (option N) :=
  dop d <- simple_cmd manual_rollback_req LEN_PLAIN; Ret (rollback_status_of d).
(* Hpm.initiate_manual_rollback_and_wait(timeout, interval): waits with the literal 60,
   not with its timeout argument *)
Definition initiate_manual_rollback_and_wait (timeout interval : N) : prog unit :=
  and_wait manual_rollback_req (60 * sec) interval true.

(* Bmc.get_device_id as far as preparation_stage uses it: GetDeviceIdRsp = cc, device_id,
   device_revision, firmware_revision (2), ipmi_version, additional_support,
   manufacturer_id (3), product_id (2), Optional(auxiliary: 4).  DeviceId._from_response
   builds VersionField((major, minor)) for the firmware revision (minor through the BCD
   decoder) and VersionField((v & 0xf, v >> 4 & 0xf)) for the IPMI version: both can raise. *)
Definition dec_device_id (rp : reply) : res (N * N * N) :=
  do d <- dec_fixed [11%nat; 15%nat] rp;
  do _ <- dec_minor (nth 3 d 0);
  do _ <- dec_minor ((nth 4 d 0 / 16) mod 16);
  Ok (nth 0 d 0, le_val (sl 6 3 d), le_val (sl 9 2 d)).
Definition get_device_id : prog (N * N * N) := Send device_id_req (fun rp => lift (dec_device_id rp)).

(* Hpm.get_target_upgrade_capabilities -> TargetUpgradeCapabilities.components:
   rsp = cc, picmg, hpm_1_version, capabilities, timeout (4), component_present *)
Definition get_target_upgrade_capabilities : prog (list N) :=
  dop d <- simple_cmd caps_req [8%nat]; Ret (bits_set (nth 7 d 0)).

(* Hpm.preparation_stage(image) *)
Definition preparation_stage (h : header) : prog unit :=
  dop id <- get_device_id;
  let '(dev, man, prod) := id in
  if negb (h_device_id h =? dev) then Raise HpmError
  else if negb (h_manufacturer_id h =? man) then Raise HpmError
  else if negb (h_product_id h =? prod) then Raise HpmError
  else
    dop target <- get_target_upgrade_capabilities;
    if existsb (fun c => existsb (N.eqb c) target) (h_components h) then Ret tt
    else Raise HpmError.

(* Hpm.upgrade_stage(image, component):
     for action in image.actions:
         if action.components & (1 << component) == 0: continue
         self.initiate_upgrade_action_and_wait(1 << component, action.action_type)
         if isinstance(action, UpgradeActionRecordUploadForUpgrade):
             self.upload_binary(action.firmware_image_data)
             self.finish_upload_and_wait(component, action.firmware_length)
   all with the default timeout=2, interval=0.1, retry=3, block size 22 *)
Definition BLOCK_SIZE : nat := 22.
Fixpoint upgrade_stage (acts : list action) (component : N) : prog unit :=
  match acts with
  | [] => Ret tt
  | a :: rest =>
      if N.land (a_components a) (N.shiftl 1 component) =? 0 then upgrade_stage rest component
      else
        dop _ <- initiate_upgrade_action_and_wait (N.shiftl 1 component) (a_type a)
                   DEFAULT_TIMEOUT DEFAULT_INTERVAL;
        dop _ <- match a_upload a with
                 | Some u =>
                     dop _ <- upload_binary BLOCK_SIZE (u_data u) DEFAULT_TIMEOUT DEFAULT_INTERVAL 3;
                     finish_upload_and_wait component (u_firmware_length u) DEFAULT_TIMEOUT DEFAULT_INTERVAL
                 | None => Ret tt
                 end;
        upgrade_stage rest component
  end.

(* Hpm.wait_until_new_firmware_comes_up(timeout, interval):
     start_time = time.time()
     while time.time() < start_time + timeout:
         try: self.get_upgrade_status(); self.get_device_id()
         except IpmiTimeoutError: time.sleep(interval)
         except IOError: time.sleep(interval)           (not modelled)
     time.sleep(5)
   no sleep after a successful pair of requests: every time.time() costs [tick] here. *)
Fixpoint comeup_loop (fuel : nat) (elapsed timeout interval tick : N) : prog unit :=
  match fuel with
  | O => Raise OutOfFuel
  | S f =>
      let e := elapsed + tick in
      if e <? timeout then
        Send status_req (fun rp =>
          match dec_status_rsp rp with
          | Ok _ =>
              Send device_id_req (fun rp2 =>
                match dec_device_id rp2 with
                | Ok _ => comeup_loop f e timeout interval tick
                | Err TimeoutError => Sleep interval (comeup_loop f (e + interval) timeout interval tick)
                | Err x => Raise x
                end)
          | Err TimeoutError => Sleep interval (comeup_loop f (e + interval) timeout interval tick)
          | Err x => Raise x
          end)
      else Ret tt
  end.
Definition wait_until_new_firmware_comes_up (timeout interval tick : N) : prog unit :=
  dop _ <- comeup_loop (N.to_nat (timeout / tick) + 2) 0 timeout interval tick;
  Sleep (5 * sec) (Ret tt).

(* Hpm.activation_stage(image, component), repaired (F18b):
     self.activate_firmware_and_wait(timeout=image.header.inaccessibility_timeout, interval=1)
     self.wait_until_new_firmware_comes_up(image.header.inaccessibility_timeout, 1)
     self._activation_state_do_self_testing()      (pass) *)
Definition activation_stage (h : header) (tick : N) : prog unit :=
  dop _ <- activate_firmware_and_wait None (h_inaccessibility_timeout h * sec) (1 * sec);
  wait_until_new_firmware_comes_up (h_inaccessibility_timeout h * sec) (1 * sec) tick.

(* Hpm.install_component_from_image(image, component) *)
Definition install_component_from_image (img : image) (component tick : N) : prog unit :=
  dop _ <- abort_firmware_upgrade;
  if negb (existsb (N.eqb component) (h_components (i_header img))) then Raise HpmError
  else
    dop _ <- preparation_stage (i_header img);
    dop _ <- upgrade_stage (i_actions img) component;
    activation_stage (i_header img) tick.

(* Hpm.install_component_from_file(filename, component): UpgradeImage(filename) first *)
Definition install_component_from_file (file : list N) (component tick : N) : prog unit :=
  dop img <- lift (parse_image file); install_component_from_image img component tick.

(* Hpm.get_upgrade_version_from_file: firmware_version of the first upload record, or None *)
Definition get_upgrade_version_from_file (file : list N) : res (option version) :=
  do img <- parse_image file;
  Ok (match filter (fun a => match a_upload a with Some _ => true | None => false end) (i_actions img) with
      | a :: _ => match a_upload a with Some u => Some (u_version u) | None => None end
      | [] => None
      end).
