(* Hand model (H) of the retry / reservation loops of pyipmi/helper.py
   (_clear_repository, clear_repository_helper, get_sdr_chunk_helper) and of
   Ipmi.send_message (pyipmi/__init__.py), as functions of an OUTCOME ORACLE: the list of
   outcomes that the supplied callables (reserve_fn, clear_fn, send_fn) resp. the
   interface (send_and_receive) produce, in call order.  Each model returns the exact
   sequence of events (calls with their outcome, and time.sleep calls), the final
   outcome, and the unread rest of the oracle.  Executable definitions only.

   Loops are structurally recursive on the retry counter.  When the oracle runs dry the
   model stops with [Err OutOfFuel] (model-only value: "would have made one more call").

   send_message is modelled as REPAIRED by fixes/F13-send-message-reraise.diff. *)
From Coq Require Import NArith ZArith List Bool.
From PyIpmi Require Import Lib.Res.
Import ListNotations.
Open Scope N_scope.

(* what one call to a supplied callable did *)
Inductive outcome :=
| OVal (v : N)      (* returned: clear_fn -> erase status; reserve_fn -> reservation id;
                       send_fn -> response whose completion_code is v;
                       send_and_receive -> a response (v is only a tag) *)
| OCc (cc : N)      (* raised CompletionCodeError(cc) *)
| OExc (e : err).   (* raised any other exception (e is not a CCError) *)

Inductive call :=
| CReserve                    (* reserve_fn() *)
| CClear (ctrl resv : N)      (* clear_fn(ctrl, reservation) *)
| CSend (resv : N)            (* send_fn(req) with req.reservation_id = resv *)
| CXfer.                      (* interface.send_and_receive(req) *)

Inductive event := ECall (c : call) (o : outcome) | ESleep (ms : N).

Definition CC_NODE_BUSY := 0xC0.
Definition CC_TIMEOUT := 0xC3.
Definition CC_RES_CANCELED := 0xC5.
Definition CC_RESP_COULD_NOT_BE_PRV := 0xCE.
Definition INITIATE_ERASE := 0xAA.
Definition GET_ERASE_STATUS := 0x00.
Definition ERASURE_IN_PROGRESS := 0x0.

Definition result (A : Type) : Type := list event * res A * list outcome.

Definition raised {A} (o : outcome) : res A :=
  match o with
  | OVal _ => Err (OtherError OtherExc)     (* not used on OVal *)
  | OCc cc => Err (CCError cc)
  | OExc e => Err e
  end.

Definition prepend {A} (l : list event) (r : result A) : result A :=
  let '(t, x, rs) := r in (l ++ t, x, rs).

(* def _clear_repository(reserve_fn, clear_fn, ctrl, retry, reservation):
       while True:
           retry -= 1
           if retry <= 0: raise RetryError()
           try: in_progress = clear_fn(ctrl, reservation)
           except CompletionCodeError as e:
               if e.cc == CC_RES_CANCELED:
                   time.sleep(0.2); reservation = reserve_fn(); continue
               else: check_completion_code(e.cc)
           if in_progress == REPOSITORY_ERASURE_IN_PROGRESS:
               time.sleep(0.5); continue
           break
       return reservation
   [seen] = the local in_progress is bound by an earlier iteration; its value is then
   REPOSITORY_ERASURE_IN_PROGRESS, because any other value leaves the loop.  It matters
   only for a CompletionCodeError(0): that passes check_completion_code and falls through
   to the test of in_progress (UnboundLocalError when unbound). *)
Fixpoint clear_iter (n : nat) (ctrl resv : N) (seen : bool) (os : list outcome)
  : result N :=
  match n with
  | O => ([], Err RetryError, os)              (* retry - 1 <= 0 *)
  | S n' =>                                    (* n = retry - 1 > 0 *)
    match os with
    | [] => ([], Err OutOfFuel, [])
    | o :: os1 =>
      let ev := ECall (CClear ctrl resv) o in
      match o with
      | OVal v =>
        if v =? ERASURE_IN_PROGRESS
        then prepend [ev; ESleep 500] (clear_iter n' ctrl resv true os1)
        else ([ev], Ok resv, os1)
      | OCc cc =>
        if cc =? CC_RES_CANCELED then
          match os1 with
          | [] => ([ev; ESleep 200], Err OutOfFuel, [])
          | o2 :: os2 =>
            match o2 with
            | OVal nv => prepend [ev; ESleep 200; ECall CReserve o2] (clear_iter n' ctrl nv seen os2)
            | _ => ([ev; ESleep 200; ECall CReserve o2], raised o2, os2)
            end
          end
        else if cc =? 0 then
          if seen then prepend [ev; ESleep 500] (clear_iter n' ctrl resv true os1)
          else ([ev], Err (OtherError OtherExc), os1)
        else ([ev], Err (CCError cc), os1)
      | OExc e => ([ev], Err e, os1)
      end
    end
  end.

(* the counter of the structural recursion is the value of [retry] after the decrement at
   the top of the loop body: retry - 1 (0 for every retry <= 1) *)
Definition clear_loop (retry : nat) := clear_iter (pred retry).

(* a Python int budget as the structural counter: retry <= 0 behaves like 0 *)
Definition budget (z : Z) : nat := Z.to_nat z.

(* def clear_repository_helper(reserve_fn, clear_fn, retry=5, reservation=None):
       if reservation is None: reservation = reserve_fn()
       reservation = _clear_repository(reserve_fn, clear_fn, INITIATE_ERASE, retry, reservation)
       time.sleep(0.5)
       reservation = _clear_repository(reserve_fn, clear_fn, GET_ERASE_STATUS, retry, reservation) *)
Definition clear_phases (retry : nat) (resv : N) (os : list outcome) : result unit :=
  match clear_loop retry INITIATE_ERASE resv false os with
  | (t1, Ok r1, os1) =>
      match clear_loop retry GET_ERASE_STATUS r1 false os1 with
      | (t2, Ok _, os2) => (t1 ++ ESleep 500 :: t2, Ok tt, os2)
      | (t2, Err e, os2) => (t1 ++ ESleep 500 :: t2, Err e, os2)
      end
  | (t1, Err e, os1) => (t1, Err e, os1)
  end.

Definition clear_repository_helper (retry : nat) (reservation : option N) (os : list outcome)
  : result unit :=
  match reservation with
  | Some r => clear_phases retry r os
  | None =>
    match os with
    | [] => ([], Err OutOfFuel, [])
    | o :: os1 =>
      match o with
      | OVal r => prepend [ECall CReserve o] (clear_phases retry r os1)
      | _ => ([ECall CReserve o], raised o, os1)
      end
    end
  end.

(* def get_sdr_chunk_helper(send_fn, req, reserve_fn, retry=5):
       while True:
           retry -= 1
           if retry == 0: raise RetryError()
           rsp = send_fn(req)
           if rsp.completion_code == CC_OK: break
           elif rsp.completion_code == CC_RES_CANCELED:
               time.sleep(1); req.reservation_id = reserve_fn(); continue
           elif rsp.completion_code == CC_TIMEOUT: time.sleep(0.1); continue
           elif rsp.completion_code == CC_RESP_COULD_NOT_BE_PRV: time.sleep(0.1 * retry); continue
           else: check_completion_code(rsp.completion_code)
       return rsp
   Result: req.reservation_id at return (the response itself is the last OVal 0 event).
   Modelled for retry >= 1 only (every caller passes the default 5): with retry <= 0 the
   test [retry == 0] never fires; the model answers OutOfFuel there. *)
Fixpoint chunk_iter (n : nat) (resv : N) (os : list outcome) : result N :=
  match n with
  | O => ([], Err RetryError, os)              (* retry - 1 == 0 *)
  | S n' =>                                    (* n = retry - 1 *)
    match os with
    | [] => ([], Err OutOfFuel, [])
    | o :: os1 =>
      let ev := ECall (CSend resv) o in
      match o with
      | OVal cc =>
        if cc =? 0 then ([ev], Ok resv, os1)
        else if cc =? CC_RES_CANCELED then
          match os1 with
          | [] => ([ev; ESleep 1000], Err OutOfFuel, [])
          | o2 :: os2 =>
            match o2 with
            | OVal nv => prepend [ev; ESleep 1000; ECall CReserve o2] (chunk_iter n' nv os2)
            | _ => ([ev; ESleep 1000; ECall CReserve o2], raised o2, os2)
            end
          end
        else if cc =? CC_TIMEOUT then prepend [ev; ESleep 100] (chunk_iter n' resv os1)
        else if cc =? CC_RESP_COULD_NOT_BE_PRV
        then prepend [ev; ESleep (100 * N.of_nat n)] (chunk_iter n' resv os1)
        else ([ev], Err (CCError cc), os1)
      | _ => ([ev], raised o, os1)
      end
    end
  end.

Definition chunk_loop (retry : nat) (resv : N) (os : list outcome) : result N :=
  match retry with
  | O => ([], Err OutOfFuel, os)               (* retry <= 0: not modelled *)
  | S n => chunk_iter n resv os
  end.

Definition get_sdr_chunk_helper (retry : nat) (resv : N) (os : list outcome) : result N :=
  chunk_loop retry resv os.

(* def send_message(self, req, retry=3):            (with fix F13: the added "raise")
       rsp = None
       while retry > 0:
           retry -= 1
           try: rsp = self.interface.send_and_receive(req); break
           except CompletionCodeError as e:
               if e.cc == CC_NODE_BUSY: continue
               raise
       else: raise RetryError()
       return rsp *)
Fixpoint send_loop (retry : nat) (os : list outcome) : result N :=
  match retry with
  | O => ([], Err RetryError, os)
  | S r =>
    match os with
    | [] => ([], Err OutOfFuel, [])
    | o :: os1 =>
      let ev := ECall CXfer o in
      match o with
      | OVal v => ([ev], Ok v, os1)
      | OCc cc => if cc =? CC_NODE_BUSY then prepend [ev] (send_loop r os1)
                  else ([ev], Err (CCError cc), os1)
      | OExc e => ([ev], Err e, os1)
      end
    end
  end.

Definition send_message (retry : nat) (os : list outcome) : result N := send_loop retry os.

(* The code as it is in the unrepaired tree (any CompletionCodeError is swallowed and the
   send repeated); kept only to state what the repair changes (Props: C13_F13_unrepaired). *)
Fixpoint send_loop_unrepaired (retry : nat) (os : list outcome) : result N :=
  match retry with
  | O => ([], Err RetryError, os)
  | S r =>
    match os with
    | [] => ([], Err OutOfFuel, [])
    | o :: os1 =>
      let ev := ECall CXfer o in
      match o with
      | OVal v => ([ev], Ok v, os1)
      | OCc cc => prepend [ev] (send_loop_unrepaired r os1)
      | OExc e => ([ev], Err e, os1)
      end
    end
  end.
