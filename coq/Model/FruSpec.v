(* Specification side of C15 - INDEPENDENT of pyipmi: an encoder of the Platform
   Management FRU Information Storage Definition (v1.0 r1.x) written from the format,
   the well-formedness conditions of what it encodes, and the attribute values a correct
   parser has to report for an encoded inventory ([view_*]).  Executable definitions only;
   nothing here looks at Model/FruParse.v except for the result record types.

   Format, as encoded here:
   * common header, 8 bytes: 0x01, offsets (in multiples of 8 bytes, 0 = absent) of the
     internal use, chassis, board, product and multi-record areas, a 0x00 pad, zero-sum
     checksum.
   * chassis / board / product info area: 0x01, length in multiples of 8 bytes, then
     chassis type | language code, (board only) manufacturing date = minutes since
     1996-01-01 00:00 as 3 bytes LS byte first, the predefined type/length fields, the
     custom fields, 0xC1, 0x00 padding, zero-sum checksum as the last byte.
   * type/length byte: bits 7:6 type (00 binary, 01 BCD plus, 10 6-bit ASCII packed,
     11 8-bit text), bits 5:0 number of data bytes; 0xC1 = end of fields.
     BCD plus: two digits per byte, high nibble first; 0-9, Ah space, Bh dash, Ch period.
     6-bit ASCII: code = character - 20h, packed LS bits first (4 characters in 3 bytes).
   * multi-record: header = type id, 0x02 | 0x80 when last, payload length, payload
     zero-sum checksum, header zero-sum checksum; then the payload.  Type 0xC0 payloads
     are PICMG OEM records: manufacturer id (3 bytes LS first), PICMG record id, record
     format version, data; PICMG id 0x27 (MicroTCA power module capability) carries the
     maximum current output in 1/10 A as 2 bytes LS first. *)
From Coq Require Import NArith List Bool.
From PyIpmi Require Import Lib.Res Lib.Bytes Model.FruParse.
Import ListNotations.
Open Scope N_scope.

(* the byte that makes the sum of [l ++ [it]] zero modulo 256 *)
Definition zero_sum_byte (l : list N) : N := (256 - sum l mod 256) mod 256.

(* ------------------------------------------------------------ type/length fields *)
(* values are strings (code points), except binary fields (bytes) *)
Inductive sfield := SBin (raw : list N) | SBcd (s : list N) | S6 (s : list N) | SText (s : list N).

Definition bcd_code (c : N) : N :=
  if (48 <=? c) && (c <=? 57) then c - 48
  else if c =? 32 then 10 else if c =? 45 then 11 else if c =? 46 then 12 else 15.
Definition bcd_char_ok (c : N) : bool := bcd_code c <? 13.

Fixpoint enc_bcd (s : list N) : list N :=
  match s with
  | a :: b :: r => (16 * bcd_code a + bcd_code b) :: enc_bcd r
  | _ => []
  end.

(* 6-bit packing, least significant bits first *)
Fixpoint enc_6bit (s : list N) : list N :=
  match s with
  | [] => []
  | [a] => [a - 32]
  | [a; b] => [(a - 32) + ((b - 32) mod 4) * 64; (b - 32) / 4]
  | [a; b; c] => [(a - 32) + ((b - 32) mod 4) * 64; (b - 32) / 4 + ((c - 32) mod 16) * 16; (c - 32) / 16]
  | a :: b :: c :: d :: r =>
      [(a - 32) + ((b - 32) mod 4) * 64; (b - 32) / 4 + ((c - 32) mod 16) * 16;
       (c - 32) / 16 + (d - 32) * 4] ++ enc_6bit r
  end.

Definition field_type (f : sfield) : N :=
  match f with SBin _ => 0 | SBcd _ => 1 | S6 _ => 2 | SText _ => 3 end.
Definition field_payload (f : sfield) : list N :=
  match f with SBin r => r | SBcd s => enc_bcd s | S6 s => enc_6bit s | SText s => s end.
Definition field_string (f : sfield) : list N :=
  match f with SBin r => r | SBcd s => s | S6 s => s | SText s => s end.
Definition enc_field (f : sfield) : list N :=
  (field_type f * 64 + N.of_nat (length (field_payload f))) :: field_payload f.

Definition six_char_ok (c : N) : bool := (32 <=? c) && (c <? 96).

(* A field is well formed when its data fits 0..63 bytes and its value is expressible:
   BCD plus: an even number of characters from "0123456789 -.";
   6-bit: characters 20h..5Fh, and - because n data bytes always decode to 8n/6
   characters - not 3 modulo 4 characters (such a string is indistinguishable from the
   same string followed by a space). *)
Definition wf_field (f : sfield) : bool :=
  (Nat.leb (length (field_payload f)) 63) &&
  match f with
  | SBin r => bytes_ok r
  | SBcd s => forallb bcd_char_ok s && Nat.even (length s)
  | S6 s => forallb six_char_ok s && negb (Nat.eqb (Nat.modulo (length s) 4) 3)
  | SText s => bytes_ok s
  end.
(* a custom field must not start with the end-of-fields byte (8-bit text of length 1) *)
Definition wf_custom (f : sfield) : bool :=
  wf_field f && negb (field_type f * 64 + N.of_nat (length (field_payload f)) =? 0xc1).

(* what a parser has to report for field f found at offset off *)
Definition view_field (off : N) (f : sfield) : tlfield :=
  mkF off (field_type f) (N.of_nat (length (field_payload f))) (field_payload f) (field_string f).
Fixpoint view_fields (off : N) (fs : list sfield) : list tlfield :=
  match fs with
  | [] => []
  | f :: r => view_field off f :: view_fields (off + N.of_nat (length (field_payload f)) + 1) r
  end.

(* --------------------------------------------------------------------- info areas *)
(* sa_b2 = chassis type / language code; sa_minutes only for the board area *)
Record sarea := mkSArea { sa_b2 : N; sa_minutes : N; sa_fields : list sfield; sa_custom : list sfield }.

Definition enc_fields (fs : list sfield) : list N := concat (map enc_field fs).

Definition area_body (dated : bool) (a : sarea) : list N :=
  [sa_b2 a] ++ (if dated then le_bytes 3 (sa_minutes a) else [])
  ++ enc_fields (sa_fields a) ++ enc_fields (sa_custom a) ++ [0xc1].

(* number of 8-byte blocks: 2 header bytes + body + checksum, rounded up *)
Definition area_blocks (dated : bool) (a : sarea) : nat :=
  Nat.div (2 + length (area_body dated a) + 1 + 7) 8.

Definition enc_area (dated : bool) (a : sarea) : list N :=
  let body := area_body dated a in
  let blocks := area_blocks dated a in
  let pre := [1; N.of_nat blocks] ++ body
             ++ repeat 0 (blocks * 8 - (2 + length body + 1))%nat in
  pre ++ [zero_sum_byte pre].

Definition wf_area (dated : bool) (nf : nat) (a : sarea) : bool :=
  (sa_b2 a <? 256) && (sa_minutes a <? (if dated then 16777216 else 1)) &&
  Nat.eqb (length (sa_fields a)) nf &&
  forallb wf_field (sa_fields a) && forallb wf_custom (sa_custom a) &&
  Nat.leb (area_blocks dated a) 255.

Definition view_area (dated : bool) (a : sarea) : info_area :=
  let off := if dated then 6 else 3 in
  mkArea 1 (8 * N.of_nat (area_blocks dated a)) (sa_b2 a) (sa_minutes a)
         (view_fields off (sa_fields a)) (view_fields 0 (sa_custom a)).

(* ------------------------------------------------------------------ multi records *)
Record srec := mkSRec { sr_type : N; sr_payload : list N }.

Definition enc_rec (last : bool) (r : srec) : list N :=
  let h := [sr_type r; (if last then 0x80 else 0) + 2; N.of_nat (length (sr_payload r));
            zero_sum_byte (sr_payload r)] in
  h ++ [zero_sum_byte h] ++ sr_payload r.

Fixpoint enc_recs (l : list srec) : list N :=
  match l with
  | [] => []
  | [r] => enc_rec true r
  | r :: rs => enc_rec false r ++ enc_recs rs
  end.

(* type 0xC0 is the PICMG OEM record: it has at least manufacturer id, PICMG record id and
   format version (5 bytes); the power module capability record (0x27) 2 more. *)
Definition wf_rec (r : srec) : bool :=
  (sr_type r <? 256) && bytes_ok (sr_payload r) && Nat.leb (length (sr_payload r)) 255 &&
  (if sr_type r =? 0xc0 then
     Nat.leb 5 (length (sr_payload r)) &&
     (if nth 3 (sr_payload r) 0 =? 0x27 then Nat.leb 7 (length (sr_payload r)) else true)
   else true).

Definition view_rec (last : bool) (r : srec) : mrec :=
  let p := sr_payload r in
  let len := N.of_nat (length p) in
  if sr_type r =? 0xc0 then
    let mfr := le_val (firstn 3 p) in
    let pt := nth 3 p 0 in
    mkRec 0xc0 (nth 4 p 0) last len p
          (if pt =? 0x27 then KPower mfr pt (le_val (firstn 2 (skipn 5 p))) else KPicmg mfr pt)
  else mkRec (sr_type r) 2 last len p KUnknown.

Fixpoint view_recs (l : list srec) : list mrec :=
  match l with
  | [] => []
  | [r] => [view_rec true r]
  | r :: rs => view_rec false r :: view_recs rs
  end.

(* ---------------------------------------------------------------------- inventory *)
(* s_internal: content of the internal use area ([] = absent; whole 8-byte blocks);
   s_multi: [] = no multi-record area *)
Record sinv := mkSInv { s_internal : list N; s_chassis : option sarea; s_board : option sarea;
                        s_product : option sarea; s_multi : list srec }.

Definition enc_opt_area (dated : bool) (o : option sarea) : list N :=
  match o with Some a => enc_area dated a | None => [] end.

(* offset byte of an area that starts after [before] bytes *)
Definition off_byte (present : bool) (before : nat) : N :=
  if present then N.of_nat (Nat.div before 8) else 0.
Definition is_some {A} (o : option A) : bool := match o with Some _ => true | None => false end.
Definition nonempty {A} (l : list A) : bool := match l with [] => false | _ => true end.

Definition enc_inventory (s : sinv) : list N :=
  let int := s_internal s in
  let ch := enc_opt_area false (s_chassis s) in
  let bd := enc_opt_area true (s_board s) in
  let pr := enc_opt_area false (s_product s) in
  let mr := enc_recs (s_multi s) in
  let n1 := (8 + length int)%nat in
  let n2 := (n1 + length ch)%nat in
  let n3 := (n2 + length bd)%nat in
  let n4 := (n3 + length pr)%nat in
  let h := [1; off_byte (nonempty int) 8; off_byte (is_some (s_chassis s)) n1;
            off_byte (is_some (s_board s)) n2; off_byte (is_some (s_product s)) n3;
            off_byte (nonempty mr) n4; 0] in
  h ++ [zero_sum_byte h] ++ int ++ ch ++ bd ++ pr ++ mr.

Definition wf_opt_area (dated : bool) (nf : nat) (o : option sarea) : bool :=
  match o with Some a => wf_area dated nf a | None => true end.
(* an area that is present must start below 256 * 8 *)
Definition start_ok (present : bool) (before : nat) : bool :=
  if present then Nat.ltb before 2048 else true.

Definition wf_inv_gen (wfr : srec -> bool) (s : sinv) : bool :=
  bytes_ok (s_internal s) && Nat.eqb (Nat.modulo (length (s_internal s)) 8) 0 &&
  wf_opt_area false 2 (s_chassis s) && wf_opt_area true 5 (s_board s) &&
  wf_opt_area false 7 (s_product s) && forallb wfr (s_multi s) &&
  (let n1 := (8 + length (s_internal s))%nat in
   let n2 := (n1 + length (enc_opt_area false (s_chassis s)))%nat in
   let n3 := (n2 + length (enc_opt_area true (s_board s)))%nat in
   let n4 := (n3 + length (enc_opt_area false (s_product s)))%nat in
   start_ok (is_some (s_chassis s)) n1 && start_ok (is_some (s_board s)) n2 &&
   start_ok (is_some (s_product s)) n3 && start_ok (nonempty (s_multi s)) n4).

Definition wf_inv := wf_inv_gen wf_rec.

(* the full domain of the storage definition: ANY record type with 0..255 payload bytes,
   i.e. also type-0xC0 OEM records that are shorter than the PICMG structure pyipmi
   decodes them as (known finding F15c: C15_parse_enc_refuted) *)
Definition wf_rec_any (r : srec) : bool :=
  (sr_type r <? 256) && bytes_ok (sr_payload r) && Nat.leb (length (sr_payload r)) 255.
Definition wf_inv_full := wf_inv_gen wf_rec_any.

Definition view_opt_area (dated : bool) (o : option sarea) : area_st :=
  match o with Some a => Parsed (view_area dated a) | None => Absent end.

Definition view_multi (l : list srec) : mr_st :=
  match l with [] => MAbsent | _ => MParsed (view_recs l) end.

Definition view_inventory (s : sinv) : inventory :=
  let n1 := (8 + length (s_internal s))%nat in
  let n2 := (n1 + length (enc_opt_area false (s_chassis s)))%nat in
  let n3 := (n2 + length (enc_opt_area true (s_board s)))%nat in
  let n4 := (n3 + length (enc_opt_area false (s_product s)))%nat in
  mkInv (mkHeader 1 (if nonempty (s_internal s) then 8 else 0)
                  (if is_some (s_chassis s) then N.of_nat n1 else 0)
                  (if is_some (s_board s) then N.of_nat n2 else 0)
                  (if is_some (s_product s) then N.of_nat n3 else 0)
                  (if nonempty (s_multi s) then N.of_nat n4 else 0))
        (view_opt_area false (s_chassis s)) (view_opt_area true (s_board s))
        (view_opt_area false (s_product s))
        (view_multi (s_multi s)).
