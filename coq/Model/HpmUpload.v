(* Hand model (H) of the firmware upload loop of pyipmi/hpm.py: Hpm.upload_binary,
   upload_firmware_block, wait_for_long_duration_command, get_upgrade_status, and
   pyipmi/utils.py:chunks; request/response layouts of pyipmi/msgs/hpm.py
   (UploadFirmwareBlockReq/Rsp, GetUpgradeStatusReq/Rsp) as seen at
   Interface.send_and_receive.  Executable definitions only.

   Clock: time.time() is only read by wait_for_long_duration_command, relative to its own
   start; under the scripted clock of the harness time advances exactly by the arguments
   of time.sleep, so the loop is a function of (timeout, interval) in clock units. *)
From Coq Require Import NArith ZArith List Bool.
From PyIpmi Require Import Lib.Res Lib.Bytes Lib.Prog.
Import ListNotations.
Open Scope N_scope.

Definition NETFN_GROUP_EXTENSION : N := 0x2c.
Definition CMDID_HPM_UPLOAD_FIRMWARE_BLOCK : N := 0x32.
Definition CMDID_HPM_GET_UPGRADE_STATUS : N := 0x34.
Definition PICMG_IDENTIFIER : N := 0.
Definition CC_LONG_DURATION_CMD_IN_PROGRESS : N := 0x80.

(* utils.chunks(data, count): for i in range(0, len(data), count): yield data[i:i+count].
   [fuel] = len(data) suffices for count >= 1 (count = 0: range() raises ValueError, see
   upload_binary below). *)
Fixpoint chunks_f (fuel : nat) (count : nat) (l : list N) : list (list N) :=
  match fuel with
  | O => []
  | S f => match l with
           | [] => []
           | _ => firstn count l :: chunks_f f count (skipn count l)
           end
  end.
Definition chunks (l : list N) (count : nat) : list (list N) := chunks_f (length l) count l.

(* UploadFirmwareBlockReq encoded: picmg_identifier, number (push_unsigned_int(v, 1) =
   v & 0xff), data (RemainingBytes: array.extend) *)
Definition block_req (number : N) (data : list N) : request :=
  mkReq NETFN_GROUP_EXTENSION CMDID_HPM_UPLOAD_FIRMWARE_BLOCK 0
        ([PICMG_IDENTIFIER; number mod 256] ++ data).
Definition status_req : request :=
  mkReq NETFN_GROUP_EXTENSION CMDID_HPM_GET_UPGRADE_STATUS 0 [PICMG_IDENTIFIER].

(* send_message_with_name('UploadFirmwareBlock'): Message._decode of
   UploadFirmwareBlockRsp = CompletionCode, picmg_identifier, Optional(section_offset:4),
   Optional(section_length:4); decoding stops at a completion code != 0; "extra bytes" and
   "too short" are DecodingError; then check_rsp_completion_code. *)
Definition dec_block_rsp (rp : reply) : res unit :=
  match rp with
  | RRaise e => Err e
  | RBytes [] => Err DecodingError
  | RBytes (cc :: d) =>
      if cc =? 0 then
        match length d with
        | 1%nat | 5%nat | 9%nat => Ok tt
        | _ => Err DecodingError
        end
      else Err (CCError cc)
  end.

(* get_upgrade_status: GetUpgradeStatusRsp = CompletionCode, picmg_identifier,
   command_in_progress, last_completion_code, Optional(completion_estimate:1) *)
Definition dec_status_rsp (rp : reply) : res (N * N) :=
  match rp with
  | RRaise e => Err e
  | RBytes [] => Err DecodingError
  | RBytes (cc :: d) =>
      if cc =? 0 then
        match d with
        | [_; cip; lcc] | [_; cip; lcc; _] => Ok (cip, lcc)
        | _ => Err DecodingError
        end
      else Err (CCError cc)
  end.

(* wait_for_long_duration_command(expected_cmd, timeout, interval):
     start_time = time.time()
     while time.time() < start_time + timeout:
         try:
             status = self.get_upgrade_status()
             (comparison of status.command_in_progress: `pass`)
             if status.last_completion_code == 0x80: time.sleep(interval)
             else: return
         except IpmiTimeoutError: time.sleep(interval)
         except IOError: time.sleep(interval)      (not modelled: no err constructor for OSError)
   [elapsed] = time.time() - start_time.  Falling out of the loop (time-out) returns None
   like the normal return.  Other exceptions (CompletionCodeError of the status command,
   DecodingError) propagate. *)
Fixpoint wait_loop (fuel : nat) (elapsed timeout interval : N) : prog unit :=
  match fuel with
  | O => Raise OutOfFuel
  | S f =>
      if elapsed <? timeout then
        Send status_req (fun rp =>
          match dec_status_rsp rp with
          | Ok (_, lcc) =>
              if lcc =? CC_LONG_DURATION_CMD_IN_PROGRESS
              then Sleep interval (wait_loop f (elapsed + interval) timeout interval)
              else Ret tt
          | Err TimeoutError => Sleep interval (wait_loop f (elapsed + interval) timeout interval)
          | Err e => Raise e
          end)
      else Ret tt
  end.
(* with interval >= 1 at most timeout/interval + 1 iterations run
   (HpmUploadProofs.wait_fuel_ok); interval = 0 can loop forever in Python *)
Definition wait_for_long_duration_command (timeout interval : N) : prog unit :=
  wait_loop (N.to_nat (timeout / interval) + 2) 0 timeout interval.

(* the body of upload_binary's for loop, for the remaining chunks:
     try: self.upload_firmware_block(block_number, chunk)
     except CompletionCodeError as e:
         if e.cc == 0x80: self.wait_for_long_duration_command(0x32, timeout, interval)
         else: raise HpmError(...)
     except IpmiTimeoutError:
         retry -= 1
         if retry == 0: raise IpmiTimeoutError()
     block_number += 1; block_number &= 0xff
   array('B').extend(chunk) raises OverflowError for an element > 255 (lists only; a
   bytes object cannot hold one). *)
Fixpoint upload_loop (cs : list (list N)) (block_number : N) (retry : Z)
         (timeout interval : N) : prog unit :=
  match cs with
  | [] => Ret tt
  | chunk :: cs' =>
      if negb (bytes_ok chunk) then Raise (OtherError OtherExc)
      else
      Send (block_req block_number chunk) (fun rp =>
        let next r := upload_loop cs' ((block_number + 1) mod 256) r timeout interval in
        match dec_block_rsp rp with
        | Ok _ => next retry
        | Err (CCError cc) =>
            if cc =? CC_LONG_DURATION_CMD_IN_PROGRESS
            then dop _ <- wait_for_long_duration_command timeout interval; next retry
            else Raise HpmError
        | Err TimeoutError =>
            let retry' := (retry - 1)%Z in
            if (retry' =? 0)%Z then Raise TimeoutError else next retry'
        | Err e => Raise e
        end)
  end.

(* Hpm.upload_binary(binary, timeout, interval, retry) with block_size =
   self._determine_max_block_size() (22 in /repo) *)
Definition upload_binary (block_size : nat) (binary : list N) (timeout interval : N) (retry : Z)
  : prog unit :=
  match block_size with
  | O => Raise (OtherError ValueError)     (* range() arg 3 must not be zero *)
  | _ => upload_loop (chunks binary block_size) 0 retry timeout interval
  end.
