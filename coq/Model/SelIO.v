(* C12 - SEL retrieval and get-and-clear: executable model of the Sel mix-in of
   pyipmi/sel.py (get_sel_entries_count, get_sel_reservation_id, delete_sel_entry,
   get_sel_entry, sel_entries/get_sel_entries, get_and_clear_sel_entry,
   SelEntry._from_response) and a Gallina SEL device with a partial-read limit,
   reservations and an adversary that changes the log between requests.
   Definitions only, no proofs. *)
From Coq Require Import NArith ZArith List Bool.
From PyIpmi Require Import Lib.Res Lib.Bytes Lib.Prog.
Import ListNotations.
Open Scope N_scope.

Definition len (l : list N) : N := N.of_nat (length l).
Definition slice (l : list N) (off cnt : N) : list N :=
  firstn (N.to_nat cnt) (skipn (N.to_nat off) l).

(* ---------------------------------------------------------------------------
   message layouts of pyipmi/msgs/sel.py (netfn Storage = 0x0a, lun 0) *)
Definition NETFN_STORAGE : N := 0x0a.
Definition CMD_SEL_INFO : N := 0x40.
Definition CMD_RESERVE_SEL : N := 0x42.
Definition CMD_GET_SEL_ENTRY : N := 0x43.
Definition CMD_DELETE_SEL_ENTRY : N := 0x46.
Definition CMD_CLEAR_SEL : N := 0x47.
Definition CC_RES_CANCELED : N := 0xc5.
Definition CC_CANT_RET : N := 0xca.

(* push_unsigned_int masks each byte: a negative Python int is encoded modulo 256 *)
Definition enc1 (z : Z) : list N := [Z.to_N (z mod 256)].

Definition sel_info_req : request := mkReq NETFN_STORAGE CMD_SEL_INFO 0 [].
Definition reserve_req : request := mkReq NETFN_STORAGE CMD_RESERVE_SEL 0 [].
(* GetSelEntryReq: reservation_id(2) record_id(2) offset(1) length(1) *)
Definition get_entry_req (resv rid off : N) (length : Z) : request :=
  mkReq NETFN_STORAGE CMD_GET_SEL_ENTRY 0
        (le_bytes 2 resv ++ le_bytes 2 rid ++ le_bytes 1 off ++ enc1 length).
(* DeleteSelEntryReq: reservation_id(2) record_id(2) *)
Definition delete_req (resv rid : N) : request :=
  mkReq NETFN_STORAGE CMD_DELETE_SEL_ENTRY 0 (le_bytes 2 resv ++ le_bytes 2 rid).

(* ClearSelReq: reservation_id(2) key 'CLR'(3) cmd(1) *)
Definition clear_req (resv cmd : N) : request :=
  mkReq NETFN_STORAGE CMD_CLEAR_SEL 0 (le_bytes 2 resv ++ [0x43; 0x4c; 0x52] ++ le_bytes 1 cmd).
(* ClearSelRsp: cc status(1) -> rsp.status.erase_in_progress (low nibble) *)
Definition dec_clear (d : list N) : res N :=
  match d with
  | [] => Err DecodingError
  | cc :: r =>
      if cc =? 0 then match r with [st] => Ok (N.land st 0xf) | _ => Err DecodingError end
      else Err (CCError cc)
  end.

(* GetSelInfoRsp: cc version(1) entries(2) free(2) addition(4) erase(4) support(1) -> entries *)
Definition dec_sel_info (d : list N) : res N :=
  match d with
  | [] => Err DecodingError
  | cc :: r =>
      if cc =? 0 then
        match r with
        | [_; e0; e1; _; _; _; _; _; _; _; _; _; _; _] => Ok (e0 + 256 * e1)
        | _ => Err DecodingError
        end
      else Err (CCError cc)
  end.
(* ReserveSelRsp / DeleteSelEntryRsp: cc, 16-bit id *)
Definition dec_id16 (d : list N) : res N :=
  match d with
  | [] => Err DecodingError
  | cc :: r =>
      if cc =? 0 then match r with [a; b] => Ok (a + 256 * b) | _ => Err DecodingError end
      else Err (CCError cc)
  end.

(* Ipmi.send_message_with_name: send, decode, check_rsp_completion_code *)
Definition send_msg {A} (r : request) (dec : list N -> res A) : prog A :=
  Send r (fun rp => match rp with RRaise e => Raise e | RBytes d => lift (dec d) end).

(* Sel.get_sel_entries_count: SelInfo(rsp).entries *)
Definition get_sel_entries_count : prog N := send_msg sel_info_req dec_sel_info.
(* Sel.get_sel_reservation_id *)
Definition get_sel_reservation_id : prog N := send_msg reserve_req dec_id16.
(* Sel.delete_sel_entry(record_id, reservation) *)
Definition delete_sel_entry (rid resv : N) : prog N := send_msg (delete_req resv rid) dec_id16.

(* Sel._clear_sel(cmd, reservation) *)
Definition clear_sel_cmd (cmd resv : N) : prog N := send_msg (clear_req resv cmd) dec_clear.

(* helper._clear_repository(reserve_fn, clear_fn, ctrl, retry, reservation) with
   reserve_fn = get_sel_reservation_id, clear_fn = _clear_sel.  The counter is retry - 1
   (value after the decrement at the top of the loop body), as in Model/Helper.v:
     retry -= 1; if retry <= 0: raise RetryError()
     try: in_progress = clear_fn(ctrl, reservation)
     except CompletionCodeError: 0xC5 -> sleep(0.2); reservation = reserve_fn(); continue
                                 else check_completion_code(cc)   [cc != 0 here: raises]
     if in_progress == 0: sleep(0.5); continue
     break; return reservation *)
Fixpoint clear_repository (n : nat) (ctrl resv : N) : prog N :=
  match n with
  | O => Raise RetryError
  | S n' =>
      Send (clear_req resv ctrl) (fun rp =>
        match rp with
        | RRaise e => Raise e
        | RBytes d =>
            match dec_clear d with
            | Ok st => if st =? 0 then Sleep 500 (clear_repository n' ctrl resv) else Ret resv
            | Err (CCError cc) =>
                if cc =? CC_RES_CANCELED
                then Sleep 200 (dop r <- get_sel_reservation_id; clear_repository n' ctrl r)
                else Raise (CCError cc)
            | Err e => Raise e
            end
        end)
  end.
(* Sel.clear_sel(retry=5) = helper.clear_repository_helper(get_sel_reservation_id, _clear_sel, retry):
   reserve; initiate erase (0xAA); sleep(0.5); poll the erase status (0x00) *)
Definition clear_sel (retry : nat) : prog unit :=
  dop r <- get_sel_reservation_id;
  dop r1 <- clear_repository (pred retry) 0xaa r;
  Sleep 500 (dop _ <- clear_repository (pred retry) 0 r1; Ret tt).

(* ---------------------------------------------------------------------------
   SelEntry._from_response(data): 16 bytes; record id, type (0x02 or 0xC0..0xFF, else
   DecodingError), timestamp, generator id, EvM rev, sensor type, sensor number,
   event direction (bit 7) and type (bits 6..0), three event data bytes *)
Record selentry := mkSelEntry {
  se_data : list N; se_record_id : N; se_type : N; se_timestamp : N; se_generator_id : N;
  se_evm_rev : N; se_sensor_type : N; se_sensor_number : N; se_event_direction : N;
  se_event_type : N; se_event_data : list N
}.
Definition sel_type_ok (t : N) : bool := (t =? 0x02) || ((0xc0 <=? t) && (t <? 0x100)).
Definition sel_entry_decode (d : list N) : res selentry :=
  if negb (length d =? 16)%nat then Err DecodingError
  else
    let t := nth 2 d 0 in
    if negb (sel_type_ok t) then Err DecodingError
    else
      let desc := nth 12 d 0 in
      Ok (mkSelEntry d (le_val (slice d 0 2)) t (le_val (slice d 3 4)) (le_val (slice d 7 2))
                     (nth 9 d 0) (nth 10 d 0) (nth 11 d 0)
                     (if N.testbit desc 7 then 1 else 0) (N.land desc 0x7f) (slice d 13 3)).

(* GetSelEntryRsp as used by get_sel_entry through Ipmi.send_message (no automatic code
   check): (completion_code, next_record_id, record_data); after a non-zero code the
   fields keep their defaults *)
Definition dec_get_entry (d : list N) : res (N * N * list N) :=
  match d with
  | [] => Err DecodingError
  | cc :: r =>
      if cc =? 0 then
        match r with
        | a :: b :: dat => Ok (0, a + 256 * b, dat)
        | _ => Err DecodingError
        end
      else Ok (cc, 0, [])
  end.

(* Sel.get_sel_entry(record_id, reservation): the `while True` loop.
     req.length = self.max_req_len
     if max_req_len != 0xff and req.offset + req.length > 16: req.length = 16 - req.offset
     rsp = send_message(req)
     if rsp.completion_code == 0xCA: max_req_len = 16 if it was 0xff else max_req_len - 1; continue
     else check_completion_code
     record_data.extend(rsp.record_data); req.offset = len(record_data)
     if len(record_data) >= 16: break
   returns (SelEntry(record_data), rsp.next_record_id).
   max_req_len is an integer that the loop may drive below zero against a device that
   keeps refusing; it is a Z here.  [fuel]: the Python loop has no budget. *)
Fixpoint get_entry_loop (fuel : nat) (resv rid : N) (max_req_len : Z) (acc : list N)
  : prog (selentry * N) :=
  match fuel with
  | O => Raise OutOfFuel
  | S f =>
      let off := len acc in
      let length := if negb (max_req_len =? 0xff)%Z && (16 <? Z.of_N off + max_req_len)%Z
                    then (16 - Z.of_N off)%Z else max_req_len in
      Send (get_entry_req resv rid off length) (fun rp =>
        match rp with
        | RRaise e => Raise e
        | RBytes d =>
            match dec_get_entry d with
            | Err e => Raise e
            | Ok (cc, next, dat) =>
                if cc =? CC_CANT_RET then
                  get_entry_loop f resv rid (if (max_req_len =? 0xff)%Z then 16 else max_req_len - 1)%Z acc
                else if negb (cc =? 0) then Raise (CCError cc)
                else
                  let acc' := acc ++ dat in
                  if 16 <=? len acc' then
                    match sel_entry_decode acc' with
                    | Ok e => Ret (e, next)
                    | Err e => Raise e
                    end
                  else get_entry_loop f resv rid max_req_len acc'
            end
        end)
  end.
Definition get_sel_entry (fuel : nat) (rid resv : N) : prog (selentry * N) :=
  get_entry_loop fuel resv rid 0xff [].

(* Sel.sel_entries / get_sel_entries: nothing for an empty log; otherwise one
   reservation, then along next_record_id from 0 until 0xFFFF *)
Fixpoint entries_loop (fuel fi : nat) (resv next : N) (acc : list selentry) : prog (list selentry) :=
  match fuel with
  | O => Raise OutOfFuel
  | S f =>
      dop r <- get_sel_entry fi next resv;
      let '(e, next') := r in
      if next' =? 0xffff then Ret (acc ++ [e]) else entries_loop f fi resv next' (acc ++ [e])
  end.
Definition get_sel_entries (fuel fi : nat) : prog (list selentry) :=
  dop n <- get_sel_entries_count;
  if n =? 0 then Ret []
  else dop resv <- get_sel_reservation_id; entries_loop fuel fi resv 0 [].

(* Sel.get_and_clear_sel_entry(record_id): while True:
     reservation = get_sel_reservation_id()
     try: entry, _ = get_sel_entry(record_id, reservation)
     except CompletionCodeError: 0xC5 -> continue, else raise
     try: delete_sel_entry(record_id, reservation)
     except CompletionCodeError: 0xC5 -> continue, else raise
     return entry *)
Definition on_cancel {A} (p : prog A) : prog (option A) :=
  pcatch (dop a <- p; Ret (Some a))
         (fun e => match e with
                   | CCError cc => if cc =? CC_RES_CANCELED then Ret None else Raise e
                   | _ => Raise e
                   end).
Fixpoint get_and_clear_sel_entry (fuel fi : nat) (rid : N) : prog selentry :=
  match fuel with
  | O => Raise OutOfFuel
  | S f =>
      dop resv <- get_sel_reservation_id;
      dop x <- on_cancel (get_sel_entry fi rid resv);
      match x with
      | None => get_and_clear_sel_entry f fi rid
      | Some (entry, _) =>
          dop y <- on_cancel (delete_sel_entry rid resv);
          match y with
          | None => get_and_clear_sel_entry f fi rid
          | Some _ => Ret entry
          end
      end
  end.

(* ---------------------------------------------------------------------------
   the SEL device the theorems quantify over (specification side; Python twin:
   harness/c12.py:SelDevice).
   - the log is a list of 16-byte records; a record's id is its first two bytes (LE)
   - [sd_limit] = 0xFF: whole-record reads served; otherwise only reads of at most
     [sd_limit] bytes (1..16), anything larger - incl. 0xFF - refused with 0xCA
   - Reserve issues a fresh non-zero id; a log change cancels it
   - [sd_plan]: the adversary; one element is consumed per request, [Some r] = another
     party appends record r (cancelling the reservation) just before this request
   - [sd_deleted]: the deletion record *)
Record seldev := mkSelDev {
  sd_log : list (list N);
  sd_limit : N;
  sd_resv : N;
  sd_valid : bool;
  sd_plan : list (option (list N));
  sd_deleted : list (list N)
}.
Definition rec_id (r : list N) : N := le_val (firstn 2 r).
Definition next_of (rest : list (list N)) : N :=
  match rest with [] => 0xffff | r :: _ => rec_id r end.
(* record addressed by an id (0 = first, 0xFFFF = last) and the id following it *)
Fixpoint lookup (log : list (list N)) (rid : N) : option (list N * N) :=
  match log with
  | [] => None
  | r :: rest =>
      if rid =? 0 then Some (r, next_of rest)
      else if rid =? 0xffff then match rest with [] => Some (r, 0xffff) | _ => lookup rest rid end
      else if rec_id r =? rid then Some (r, next_of rest)
      else lookup rest rid
  end.
Fixpoint remove_rec (log : list (list N)) (rid : N) : list (list N) :=
  match log with
  | [] => []
  | r :: rest =>
      if rid =? 0 then rest
      else if rid =? 0xffff then match rest with [] => [] | _ => r :: remove_rec rest rid end
      else if rec_id r =? rid then rest
      else r :: remove_rec rest rid
  end.

Definition adversary (s : seldev) : seldev :=
  match hd None (sd_plan s) with
  | None => mkSelDev (sd_log s) (sd_limit s) (sd_resv s) (sd_valid s) (tl (sd_plan s)) (sd_deleted s)
  | Some r => mkSelDev (sd_log s ++ [r]) (sd_limit s) (sd_resv s) false (tl (sd_plan s)) (sd_deleted s)
  end.
Definition resv_ok (s : seldev) (resv : N) : bool := sd_valid s && (resv =? sd_resv s).

Definition sel_handle (s : seldev) (r : request) : seldev * reply :=
  if negb ((q_netfn r =? NETFN_STORAGE) && (q_lun r =? 0)) then (s, RBytes [0xc1])
  else if q_cmd r =? CMD_SEL_INFO then
    match q_data r with
    | [] => (s, RBytes ([0; 0x51] ++ le_bytes 2 (len (map (fun _ => 0) (sd_log s)))
                        ++ [0; 0; 0; 0; 0; 0; 0; 0; 0; 0; 0x0a]))
    | _ => (s, RBytes [0xc7])
    end
  else if q_cmd r =? CMD_RESERVE_SEL then
    match q_data r with
    | [] => let id := sd_resv s mod 65535 + 1 in
            (mkSelDev (sd_log s) (sd_limit s) id true (sd_plan s) (sd_deleted s),
             RBytes (0 :: le_bytes 2 id))
    | _ => (s, RBytes [0xc7])
    end
  else if q_cmd r =? CMD_GET_SEL_ENTRY then
    match q_data r with
    | [r0; r1; i0; i1; off; ln] =>
        let resv := r0 + 256 * r1 in
        let rid := i0 + 256 * i1 in
        match sd_log s with
        | [] => (s, RBytes [0xcb])
        | _ =>
          if negb (if resv =? 0 then off =? 0 else resv_ok s resv) then (s, RBytes [CC_RES_CANCELED])
          else
            match lookup (sd_log s) rid with
            | None => (s, RBytes [0xcb])
            | Some (rc, next) =>
                if ln =? 0xff then
                  if sd_limit s =? 0xff then
                    if 16 <=? off then (s, RBytes [0xc9])
                    else (s, RBytes (0 :: le_bytes 2 next ++ slice rc off (16 - off)))
                  else (s, RBytes [CC_CANT_RET])
                else if negb (sd_limit s =? 0xff) && (sd_limit s <? ln) then (s, RBytes [CC_CANT_RET])
                else if 16 <? off + ln then (s, RBytes [0xc9])
                else (s, RBytes (0 :: le_bytes 2 next ++ slice rc off ln))
            end
        end
    | _ => (s, RBytes [0xc7])
    end
  else if q_cmd r =? CMD_DELETE_SEL_ENTRY then
    match q_data r with
    | [r0; r1; i0; i1] =>
        let resv := r0 + 256 * r1 in
        let rid := i0 + 256 * i1 in
        if negb (resv_ok s resv) then (s, RBytes [CC_RES_CANCELED])
        else
          match lookup (sd_log s) rid with
          | None => (s, RBytes [0xcb])
          | Some (rc, _) =>
              (mkSelDev (remove_rec (sd_log s) rid) (sd_limit s) (sd_resv s) false (sd_plan s)
                        (sd_deleted s ++ [rc]),
               RBytes (0 :: le_bytes 2 (rec_id rc)))
          end
    | _ => (s, RBytes [0xc7])
    end
  else if q_cmd r =? CMD_CLEAR_SEL then
    (* Clear SEL: key 'CLR'; 0xAA erases the whole log at once (deletion record untouched, the
       reservation stays usable for the status poll); 0x00 reports "erase completed" *)
    match q_data r with
    | [r0; r1; k0; k1; k2; cmd] =>
        let resv := r0 + 256 * r1 in
        if negb ((k0 =? 0x43) && (k1 =? 0x4c) && (k2 =? 0x52)) then (s, RBytes [0xcc])
        else if negb (resv_ok s resv) then (s, RBytes [CC_RES_CANCELED])
        else if cmd =? 0xaa then
          (mkSelDev [] (sd_limit s) (sd_resv s) true (sd_plan s) (sd_deleted s), RBytes [0; 1])
        else if cmd =? 0 then (s, RBytes [0; 1])
        else (s, RBytes [0xcc])
    | _ => (s, RBytes [0xc7])
    end
  else (s, RBytes [0xc1]).

Definition sel_dev : device seldev := fun s r => sel_handle (adversary s) r.
