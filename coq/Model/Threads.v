(* Hand model (H) of the concurrency skeleton of pyipmi/interfaces/rmcp.py:
   several threads (the keep-alive is one of them) calling Rmcp._send_and_receive on
   ONE interface object.  Small-step transition system, one step per access to state
   shared between threads, at the granularity the code gives.  Executable definitions
   only.

   Shared state (Rmcp.__init__, Session.__init__):
     next_sequence_number, transaction_lock, _q, _session.sequence_number, the socket.
   Per request the code performs, in this order (rmcp.py:577-649):
     1 read   next_sequence_number            (_inc_sequence_number, OUTSIDE the lock)
     2 write  (r + 1) % 64                    (_inc_sequence_number, OUTSIDE the lock)
     3 read   next_sequence_number -> header.rq_seq            (OUTSIDE the lock)
     4 acquire transaction_lock               (with self.transaction_lock:)
     5 _send_ipmi_msg: IpmiMsg.pack (session.increment_sequence_number when the
       session is activated) + sendto         (inside)
     6 _q.get() if not _q.empty() else recvfrom; rx_filter; a frame that does not
       answer the request is dropped (since the F4 repair it is no longer put on _q;
       nothing in the code fills _q any more) and counted; loop        (inside)
     7 release (leaving the with block, also on an exception)
     8 the code after the with block: `if retry > self.max_retries: raise RetryError`,
       `return rx_data[6:-1]` - it reads locals only, so it changes nothing shared, but
       it is a step of its own: other threads may run between the release and the return.
   Bridged targets (target.routing): one more unlocked read of next_sequence_number
   (the `seq` argument of encode_bridged_message) after step 3, and in step 6 a frame whose
   command is Send Message is an acknowledge: decode_bridged_message strips it to nothing
   and the loop continues WITHOUT counting a retry; the forwarded reply comes in the next
   datagram.  The acknowledge's own rqSeq is not looked at by the code and not modelled.
   Not modelled: a forwarded reply embedded in a Send Message response, the byte layout
   of the datagrams (C03/C05), logging. *)
From Coq Require Import NArith List Bool.
From PyIpmi Require Import Lib.Res.
Import ListNotations.
Open Scope N_scope.

Definition tid := nat.

(* what the caller asks for: netfn / cmdid (the payload does not influence the filter) *)
(* q_depth = number of Send Message wrappers (len(target.routing) - 1 when the target is
   bridged, 0 for a direct target).  Requests whose own command is Send Message (0x34) are
   outside the model: the code would treat their reply as a bridging acknowledge. *)
Record treq := mkTReq { q_netfn : N; q_cmd : N; q_depth : nat }.

(* a reply datagram, reduced to the fields rx_filter compares by default (rq_seq,
   netfn, cmdid) plus its payload, which the reference BMC makes unique: the number
   of the datagram it answers *)
Record frame := mkFrame { p_seq : N; p_netfn : N; p_cmd : N; p_serial : N }.

(* socket events, as the scripted socket of the harness sees them *)
Inductive event :=
| Sent (t : tid) (k : nat) (sseq : N) (seq : N) (q : treq)  (* k-th request of t; session seq; IPMB rq_seq *)
| Rcvd (t : tid) (r : frame).

(* labels: what a step did (compared with the harness' event trace) *)
Inductive label :=
| LRead (v : N) | LWrite (v : N) | LHdr (v : N) | LAcq | LSend | LRecv | LQGet | LTimeout | LRel | LRet.

(* where a thread is inside _send_and_receive; the arguments are its locals *)
Inductive pc :=
| PIdle                                    (* not inside a request; next: step 1 of the next request *)
| PInc (r : N)                             (* after step 1: r = value read *)
| PHdr                                     (* after step 2 *)
| PAcq (h : N)                             (* after step 3: h = header.rq_seq *)
| PSend (h : N) (retry : nat)              (* lock held; at `self._send_ipmi_msg(tx_data)` *)
| PRecv (h : N) (retry rr : nat)           (* lock held; in the inner while, rr = received_retry *)
| PRel (h : N) (o : res frame)             (* lock held; leaving the with block with this outcome *)
| PRet (h : N) (o : res frame)             (* lock released; at the code after the with block *)
| PSeq (h : N).                            (* bridged target, after step 3: next the read for `seq=` *)

Record thread := mkT { t_reqs : list treq;           (* the requests this thread issues, in order *)
                       t_k : nat;                    (* index of the current / next request *)
                       t_pc : pc;
                       t_done : list (res frame) }.  (* outcomes so far, oldest first *)

Record gstate := mkG {
  g_nsn : N;                (* Rmcp.next_sequence_number *)
  g_lock : option tid;      (* owner of Rmcp.transaction_lock *)
  g_sseq : N;               (* Rmcp._session.sequence_number *)
  g_q : list frame;         (* Rmcp._q (read first when non-empty; nothing fills it since the F4 repair) *)
  g_inbox : list frame;     (* datagrams waiting in the socket: the BMC's answers not yet read *)
  g_nrx : N;                (* reference BMC: number of datagrams received so far *)
  g_wire : list event;      (* socket log, NEWEST FIRST *)
  g_thr : list thread }.

Record cfg := mkCfg { c_max_retries : nat;   (* Rmcp.max_retries *)
                      c_active : bool;       (* Session.activated *)
                      c_stale : list N;      (* reference BMC: the datagram numbers it answers with
                                                an unrelated (stale rq_seq) frame BEFORE the reply *)
                      c_lose : list N }.     (* reference BMC: the datagram numbers whose reply is lost
                                                (recvfrom raises socket.timeout) *)

(* Session.increment_sequence_number:
     self.sequence_number += 1
     if self.sequence_number > 0xffffffff: self.sequence_number = 1 *)
Definition next_sseq (s : N) : N := if 0xffffffff <? s + 1 then 1 else s + 1.

(* IpmiMsg.pack: if self.session.activated: self.session.increment_sequence_number() *)
Definition pack_sseq (c : cfg) (s : N) : N := if c_active c then next_sseq s else s.

(* the in-order reference BMC: answers datagram number n (request q, rq_seq h) with a
   frame carrying the same rq_seq and cmd, netfn | 1, and n as its payload *)
Definition bmc_reply (n h : N) (q : treq) : frame := mkFrame h (N.lor (q_netfn q) 1) (q_cmd q) n.

(* ... optionally preceded by an unrelated frame: same netfn/cmd, a different (stale)
   sequence number, another payload *)
Definition is_stale (c : cfg) (n : N) : bool := existsb (N.eqb n) (c_stale c).
Definition stale_seq (h : N) : N := if h =? 0 then 1 else h - 1.
Definition stale_frame (n h : N) (q : treq) : frame :=
  mkFrame (stale_seq h) (N.lor (q_netfn q) 1) (q_cmd q) (n + 100).
Definition bmc_frames (c : cfg) (n h : N) (q : treq) : list frame :=
  (if is_stale c n then [stale_frame n h q] else []) ++ [bmc_reply n h q].
(* a bridged request: the BMC first acknowledges each Send Message wrapper (a frame whose
   command is Send Message, 0x34), then forwards the reply *)
Definition CMD_SEND_MESSAGE : N := 0x34.
Definition ack_frame (n : N) : frame := mkFrame 0 7 CMD_SEND_MESSAGE n.
Definition is_ack (r : frame) : bool := p_cmd r =? CMD_SEND_MESSAGE.
Definition cmd_ok (q : treq) : Prop := q_cmd q <> CMD_SEND_MESSAGE.
(* what reaches the socket: nothing when the reply to datagram n is lost *)
Definition is_lost (c : cfg) (n : N) : bool := existsb (N.eqb n) (c_lose c).
Definition bmc_delivers (c : cfg) (n h : N) (q : treq) : list frame :=
  if is_lost c n then [] else repeat (ack_frame n) (q_depth q) ++ bmc_frames c n h q.

(* rx_filter(header, rx_data, rq_seq=True) on the abstract frame *)
Definition rx_match (h : N) (q : treq) (r : frame) : bool :=
  (p_netfn r =? N.lor (q_netfn q) 1) && (p_cmd r =? q_cmd q) && (p_seq r =? h).

Fixpoint upd {A} (l : list A) (i : nat) (x : A) : list A :=
  match l, i with
  | [], _ => []
  | _ :: r, O => x :: r
  | a :: r, S j => a :: upd r j x
  end.

Definition set_pc (th : thread) (p : pc) : thread := mkT (t_reqs th) (t_k th) p (t_done th).
(* leaving _send_and_receive: the outcome goes to the caller, next request *)
Definition finish (th : thread) (o : res frame) : thread :=
  mkT (t_reqs th) (S (t_k th)) PIdle (t_done th ++ [o]).

Definition set_thr (g : gstate) (t : tid) (th : thread) : gstate :=
  mkG (g_nsn g) (g_lock g) (g_sseq g) (g_q g) (g_inbox g) (g_nrx g) (g_wire g) (upd (g_thr g) t th).
Definition set_nsn (g : gstate) (v : N) : gstate :=
  mkG v (g_lock g) (g_sseq g) (g_q g) (g_inbox g) (g_nrx g) (g_wire g) (g_thr g).
Definition set_lock (g : gstate) (o : option tid) : gstate :=
  mkG (g_nsn g) o (g_sseq g) (g_q g) (g_inbox g) (g_nrx g) (g_wire g) (g_thr g).

(* the tail of one iteration of the inner while loop, after rx_data was obtained:
     if rx_data[5] == CMDID_SEND_MESSAGE: rx_data = decode_bridged_message(rx_data)
         if not rx_data: continue          # the acknowledge; not counted
     received = rx_filter(header, rx_data, ...)
     # a frame that does not answer this request is dropped
     received_retry += 1
   then the loop condition / `if not received: raise RetryError` / break *)
Definition after_rx (c : cfg) (g : gstate) (t : tid) (th : thread) (q : treq)
           (h : N) (retry rr : nat) (rx : frame) : gstate :=
  if is_ack rx then set_thr g t (set_pc th (PRecv h retry rr))   (* `if not rx_data: continue` *)
  else if rx_match h q rx then set_thr g t (set_pc th (PRel h (Ok rx)))
  else if Nat.leb (S rr) (c_max_retries c) then set_thr g t (set_pc th (PRecv h retry (S rr)))
  else set_thr g t (set_pc th (PRel h (Err RetryError))).

(* one atomic step of thread t; None = t does not exist, has finished, or is blocked
   on the lock *)
Definition step_l (c : cfg) (g : gstate) (t : tid) : option (label * gstate) :=
  match nth_error (g_thr g) t with
  | None => None
  | Some th =>
    match nth_error (t_reqs th) (t_k th) with
    | None => None                                          (* all requests done *)
    | Some q =>
      match t_pc th with
      | PIdle =>   (* _inc_sequence_number: evaluate self.next_sequence_number *)
          Some (LRead (g_nsn g), set_thr g t (set_pc th (PInc (g_nsn g))))
      | PInc r =>  (* self.next_sequence_number = (r + 1) % 64 *)
          let v := (r + 1) mod 64 in
          Some (LWrite v, set_thr (set_nsn g v) t (set_pc th PHdr))
      | PHdr =>    (* header.rq_seq = self.next_sequence_number *)
          Some (LHdr (g_nsn g),
                set_thr g t (set_pc th (match q_depth q with
                                        | O => PAcq (g_nsn g)
                                        | S _ => PSeq (g_nsn g)     (* if target.routing: *)
                                        end)))
      | PSeq h =>  (* encode_bridged_message(..., self.next_sequence_number): the value only
                      goes into the Send Message wrapper, which nobody compares *)
          Some (LHdr (g_nsn g), set_thr g t (set_pc th (PAcq h)))
      | PAcq h =>  (* with self.transaction_lock: ; retry = 0 *)
          match g_lock g with
          | None => Some (LAcq, set_thr (set_lock g (Some t)) t (set_pc th (PSend h 0)))
          | Some _ => None
          end
      | PSend h retry =>
          (* self._send_ipmi_msg(tx_data): pack (session sequence number) + sendto;
             the BMC receives the datagram and puts its answer on the socket;
             received = False; received_retry = 0 *)
          let s := pack_sseq c (g_sseq g) in
          Some (LSend,
                set_thr (mkG (g_nsn g) (g_lock g) s (g_q g)
                             (g_inbox g ++ bmc_delivers c (g_nrx g) h q) (g_nrx g + 1)
                             (Sent t (t_k th) s h q :: g_wire g) (g_thr g))
                        t (set_pc th (PRecv h retry 0)))
      | PRecv h retry rr =>
          match g_q g with
          | rx :: q' =>  (* if not self._q.empty(): rx_data = self._q.get() *)
              Some (LQGet,
                    after_rx c (mkG (g_nsn g) (g_lock g) (g_sseq g) q' (g_inbox g) (g_nrx g) (g_wire g) (g_thr g))
                             t th q h retry rr rx)
          | [] =>
              match g_inbox g with
              | rx :: ib =>  (* rx_data = self._receive_ipmi_msg(...) *)
                  Some (LRecv,
                        after_rx c (mkG (g_nsn g) (g_lock g) (g_sseq g) [] ib (g_nrx g)
                                        (Rcvd t rx :: g_wire g) (g_thr g))
                                 t th q h retry rr rx)
              | [] =>        (* socket.timeout: retry += 1; loop or leave; after the
                                with block `if retry > self.max_retries: raise RetryError` *)
                  Some (LTimeout,
                        set_thr g t (set_pc th (if Nat.leb (S retry) (c_max_retries c)
                                                then PSend h (S retry)
                                                else PRel h (Err RetryError))))
              end
          end
      | PRel h o =>  (* __exit__ of the with block releases *)
          Some (LRel, set_thr (set_lock g None) t (set_pc th (PRet h o)))
      | PRet h o =>  (* if retry > self.max_retries: raise ... ; return rx_data[6:-1] (locals) *)
          Some (LRet, set_thr g t (finish th o))
      end
    end
  end.

Definition step (c : cfg) (g : gstate) (t : tid) : option gstate :=
  match step_l c g t with Some (_, g') => Some g' | None => None end.

(* a schedule is any list of thread identifiers; choosing a thread that cannot move
   leaves the state unchanged *)
Definition exec1 (c : cfg) (g : gstate) (t : tid) : gstate :=
  match step c g t with Some g' => g' | None => g end.
Definition exec (c : cfg) (sched : list tid) (g : gstate) : gstate := fold_left (exec1 c) sched g.

(* same, collecting the labels of the steps taken (newest first) *)
Definition exec_l (c : cfg) (sched : list tid) (g : gstate) : list (tid * label) * gstate :=
  fold_left (fun a t => match step_l c (snd a) t with
                        | Some (l, g') => ((t, l) :: fst a, g')
                        | None => a
                        end) sched ([], g).

(* initial state: Rmcp.__init__ (lock free, empty _q, next_sequence_number = nsn0 - 0 in
   the code, any value here), a session whose sequence number is s0, an idle BMC *)
Definition init (nsn0 s0 : N) (progs : list (list treq)) : gstate :=
  mkG nsn0 None s0 [] [] 0 [] (map (fun p => mkT p 0 PIdle []) progs).

(* observations *)
Definition in_cs (p : pc) : bool :=
  match p with PSend _ _ | PRecv _ _ _ | PRel _ _ => true | _ => false end.

(* session sequence numbers on the wire, in transmission order *)
Fixpoint sseqs_nf (w : list event) : list N :=   (* newest first *)
  match w with
  | [] => []
  | Sent _ _ s _ _ :: l => s :: sseqs_nf l
  | Rcvd _ _ :: l => sseqs_nf l
  end.
Definition tx_sseqs (g : gstate) : list N := rev (sseqs_nf (g_wire g)).

(* number of datagrams sent in a log *)
Fixpoint nsent (w : list event) : N :=
  match w with
  | [] => 0
  | Sent _ _ _ _ _ :: l => nsent l + 1
  | Rcvd _ _ :: l => nsent l
  end.

(* one complete exchange of thread t (its k-th request, datagram number n): newest
   first / in transmission order *)
Definition exch_mid (c : cfg) (t : tid) (n h : N) (q : treq) : list event :=
  if is_stale c n then [Rcvd t (stale_frame n h q)] else [].
Definition exch_acks (t : tid) (n : N) (q : treq) : list event :=
  repeat (Rcvd t (ack_frame n)) (q_depth q).
Definition exch_nf (c : cfg) (t : tid) (k : nat) (s h : N) (q : treq) (n : N) : list event :=
  Rcvd t (bmc_reply n h q) :: exch_mid c t n h q ++ exch_acks t n q ++ [Sent t k s h q].
Definition exch_tx (c : cfg) (t : tid) (k : nat) (s h : N) (q : treq) (n : N) : list event :=
  Sent t k s h q :: exch_acks t n q ++ exch_mid c t n h q ++ [Rcvd t (bmc_reply n h q)].

(* the BMC sends at most one unrelated frame per datagram: max_retries must allow
   reading past it *)
Definition stale_ok (c : cfg) : Prop := c_stale c = [] \/ (1 <= c_max_retries c)%nat.
(* the BMC the exchange theorems are about: in order, no reply lost, unrelated frames only
   within the retry budget.  (Lost replies - the socket.timeout / re-pack / re-send path - are
   executed by the model in the correspondence runs and covered by the sequence-number
   theorems, which need no assumption on the BMC at all.) *)
Definition bmc_ok (c : cfg) : Prop := stale_ok c /\ c_lose c = [].

Definition finished (th : thread) : bool := Nat.leb (length (t_reqs th)) (t_k th).
Definition all_finished (g : gstate) : bool := forallb finished (g_thr g).
