(* Hand model (H) of the FRU inventory parsers (C15):
     pyipmi/fru.py    FruData, InventoryCommonHeader, CommonInfoArea,
                      InventoryChassisInfoArea, InventoryBoardInfoArea,
                      InventoryProductInfoArea, _decode_custom_fields,
                      FruDataMultiRecord, FruDataUnknown, FruPicmgRecord,
                      FruPicmgPowerModuleCapabilityRecord, InventoryMultiRecordArea,
                      FruInventory, get_fru_inventory_from_file
     pyipmi/fields.py TypeLengthString._from_data / FruTypeLengthString, _unpack6bitascii
     pyipmi/utils.py  bcd_decode (BCD_MAP itself is regenerated: Gen/FruTables.v)
   Executable definitions only.

   The model follows the code WITH the two proposed repairs
     fixes/F15a-bcd-plus-on-array.diff   (raw is converted to bytes before .decode('bcd+'))
     fixes/F15b-6bit-partial-group.diff  (last group zero-padded, result cut to 8n/6 chars)
   so it does not depend on whether the image is bytes, array('B') or a list.

   Conventions: a Python string is the list of its code points (all < 256 here);
   `x or None` attributes are N with 0 standing for None (x*8 is never 0 otherwise);
   data[i] on a too short sequence is Err (OtherError IndexError);
   data[a:b] is firstn/skipn (Python slices never raise). *)
From Coq Require Import NArith List Bool.
From PyIpmi Require Import Lib.Res Lib.Bytes Gen.FruTables.
Import ListNotations.
Open Scope N_scope.

(* data[i] *)
Definition idx (d : list N) (i : nat) : res N :=
  match nth_error d i with Some b => Ok b | None => Err (OtherError IndexError) end.

(* ---------------------------------------------------------------- utils.py *)
(* BCD_MAP[n]  (IndexError is turned into ValueError by bcd_decode) *)
Definition bcd_char (n : N) : res (list N) :=
  match nth_error bcd_map (N.to_nat n) with
  | Some s => Ok s
  | None => Err (OtherError ValueError)
  end.

(* bcd_decode(encoded_input)[0]:
     for data in encoded_input: chars.append(BCD_MAP[data >> 4 & 0xf] + BCD_MAP[data & 0xf])
     except IndexError: raise ValueError() *)
Fixpoint bcd_decode (raw : list N) : res (list N) :=
  match raw with
  | [] => Ok []
  | b :: r =>
      do hi <- bcd_char (N.land (N.shiftr b 4) 0xf);
      do lo <- bcd_char (N.land b 0xf);
      do rest <- bcd_decode r;
      Ok (hi ++ lo ++ rest)
  end.

(* --------------------------------------------------------------- fields.py *)
(* the four characters of one group d[0], d[1], d[2] of _unpack6bitascii *)
Definition quad (d0 d1 d2 : N) : list N :=
  [ 0x20 + N.land d0 0x3f;
    0x20 + N.lor (N.shiftr (N.land d0 0xc0) 6) (N.shiftl (N.land d1 0xf) 2);
    0x20 + N.lor (N.shiftr (N.land d1 0xf0) 4) (N.shiftl (N.land d2 0x3) 4);
    0x20 + N.shiftr (N.land d2 0xfc) 2 ].

(* for i in range(0, len(data), 3): d = list(data[i:i+3]) + [0, 0]; string += <quad> *)
Fixpoint unpack6_groups (d : list N) : list N :=
  match d with
  | [] => []
  | [a] => quad a 0 0
  | [a; b] => quad a b 0
  | a :: b :: c :: r => quad a b c ++ unpack6_groups r
  end.

(* _unpack6bitascii (repaired, F15b): return string[:len(data) * 8 // 6] *)
Definition unpack6 (d : list N) : list N :=
  firstn (Nat.div (Nat.mul (length d) 8) 6) (unpack6_groups d).

(* TypeLengthString: attributes offset, field_type, length, raw, string *)
Record tlfield := mkF { f_off : N; f_type : N; f_len : N; f_raw : list N; f_str : list N }.

(* TypeLengthString._from_data(data, offset); [rest] = data[offset:]
     self.field_type = data[offset] >> 6 & 0x3 ; self.length = data[offset] & 0x3f
     self.raw = data[offset+1:offset+1+self.length]
     BCD_PLUS: bytes(bytearray(self.raw)).decode('bcd+')   (repaired, F15a)
     6BIT_ASCII: _unpack6bitascii(self.raw) ; else ''.join(chr(c) for c in self.raw) *)
Definition tls (off : N) (rest : list N) : res tlfield :=
  match rest with
  | [] => Err (OtherError IndexError)
  | b :: tl =>
      let ty := N.land (N.shiftr b 6) 0x3 in
      let len := N.land b 0x3f in
      let raw := firstn (N.to_nat len) tl in
      do s <- (if ty =? 1 then bcd_decode raw
               else if ty =? 2 then Ok (unpack6 raw)
               else Ok raw);
      Ok (mkF off ty len raw s)
  end.

(* --------------------------------------------------------------------- fru.py *)
(* the runs  x = FruTypeLengthString(data, offset); offset += x.length + 1  (n times);
   [rest] = data[offset:]; returns the fields, the final offset and data[offset:] *)
Fixpoint parse_fields (n : nat) (off : N) (rest : list N) : res (list tlfield * N * list N) :=
  match n with
  | O => Ok ([], off, rest)
  | S n' =>
      do f <- tls off rest;
      do '(fs, off', rest') <- parse_fields n' (off + f_len f + 1)
                                 (skipn (N.to_nat (f_len f) + 1) rest);
      Ok (f :: fs, off', rest')
  end.

(* _decode_custom_fields(data): while data[offset] != CUSTOM_FIELD_END: ...
   Every turn advances by >= 1 and data[offset] raises past the end, so
   fuel = len(data) + 1 is never exhausted (FruParseProofs.custom_fields_fuel). *)
Fixpoint custom_fields (fuel : nat) (off : N) (rest : list N) : res (list tlfield) :=
  match fuel with
  | O => Err OutOfFuel
  | S k =>
      match rest with
      | [] => Err (OtherError IndexError)
      | b :: _ =>
          if b =? custom_field_end then Ok []
          else
            do f <- tls off rest;
            do fs <- custom_fields k (off + f_len f + 1) (skipn (N.to_nat (f_len f) + 1) rest);
            Ok (f :: fs)
      end
  end.
Definition decode_custom_fields (d : list N) : res (list tlfield) :=
  custom_fields (S (length d)) 0 d.

(* CommonInfoArea._from_data: format_version (must be 1), length = data[1]*8,
   sum(data[:length]) % 256 must be 0 *)
Definition common_info (d : list N) : res (N * N) :=
  do b0 <- idx d 0;
  let ver := N.land b0 0x0f in
  if negb (ver =? 1) then Err DecodingError
  else
    do b1 <- idx d 1;
    let len := b1 * 8 in
    if negb (sum256 (firstn (N.to_nat len) d) =? 0) then Err DecodingError
    else Ok (ver, len).

(* The three info areas differ only in: byte 2 (chassis type / language code), the
   3-byte manufacturing date of the board area, the number of predefined fields
   (2 / 5 / 7, in the order of the Python attributes) and the first field offset.
     a_b2      = .type (chassis) / .language_code (board, product)
     a_minutes = minutes since 1996-01-01 00:00 (board; mfg_date = that datetime + minutes)
     a_fields  = chassis: part_number, serial_number
                 board:   manufacturer, product_name, serial_number, part_number, fru_file_id
                 product: manufacturer, name, part_number, version, serial_number,
                          asset_tag, fru_file_id
     a_custom  = custom_chassis_info / custom_mfg_info *)
Record info_area := mkArea { a_version : N; a_length : N; a_b2 : N; a_minutes : N;
                             a_fields : list tlfield; a_custom : list tlfield }.

Definition parse_area (dated : bool) (nf : nat) (d : list N) : res info_area :=
  do '(ver, len) <- common_info d;
  do b2 <- idx d 2;
  do mins <- (if dated then
                do b5 <- idx d 5; do b4 <- idx d 4; do b3 <- idx d 3;
                (* data[5] << 16 | data[4] << 8 | data[3] *)
                Ok (N.lor (N.lor (N.shiftl b5 16) (N.shiftl b4 8)) b3)
              else Ok 0);
  let off := if dated then 6 else 3 in
  do '(fs, off', rest) <- parse_fields nf off (skipn (N.to_nat off) d);
  do cs <- decode_custom_fields rest;
  Ok (mkArea ver len b2 mins fs cs).

Definition chassis_area := parse_area false 2.   (* InventoryChassisInfoArea._from_data *)
Definition board_area := parse_area true 5.      (* InventoryBoardInfoArea._from_data *)
Definition product_area := parse_area false 7.   (* InventoryProductInfoArea._from_data *)

(* FruData.__init__: "if data:" - an empty slice gives an object without attributes *)
Inductive area_st := Absent | Shell | Parsed (a : info_area).

(* Cls(data) for one of the three area classes *)
Definition area_obj (dated : bool) (nf : nat) (d : list N) : res area_st :=
  match d with
  | [] => Ok Shell
  | _ => do a <- parse_area dated nf d; Ok (Parsed a)
  end.

(* if self.common_header.X_offset: self.X = Cls(data[X_offset:]) *)
Definition area_at (dated : bool) (nf : nat) (off : N) (img : list N) : res area_st :=
  if off =? 0 then Ok Absent else area_obj dated nf (skipn (N.to_nat off) img).

(* multi records.  r_fver = .format_version (header low nibble; a PICMG record
   overwrites it with data[9]); KPower's last member is data[10] | data[11] << 8,
   maximum_current_output = float(that / 10). *)
Inductive rec_kind := KUnknown | KPicmg (mfr ptype : N) | KPower (mfr ptype cur10 : N).
Record mrec := mkRec { r_type : N; r_fver : N; r_eol : bool; r_len : N; r_raw : list N;
                       r_kind : rec_kind }.

(* FruDataMultiRecord._from_data: len >= 5, header zero-sum over data[:5],
   raw = data[5:5+length], (sum(raw) + data[3]) % 256 == 0 *)
Definition mr_base (d : list N) : res mrec :=
  match d with
  | t :: b1 :: l :: c :: h :: body =>
      if negb (sum256 [t; b1; l; c; h] =? 0) then Err DecodingError
      else
        let raw := firstn (N.to_nat l) body in
        if negb ((sum raw + c) mod 256 =? 0) then Err DecodingError
        else Ok (mkRec t (N.land b1 0x0f) (negb (N.land b1 0x80 =? 0)) l raw KUnknown)
  | _ => Err DecodingError
  end.

(* FruDataMultiRecord.create_from_record_id(data) with FruPicmgRecord.create_from_record_id,
   FruPicmgRecord._from_data (len >= 10) and
   FruPicmgPowerModuleCapabilityRecord._from_data (len >= 12).  The same data is parsed
   twice by the code; parsing is a function of data, so once here. *)
Definition parse_record (d : list N) : res mrec :=
  match d with
  | [] => Err (OtherError IndexError)
  | t :: _ =>
      if t =? 0xc0 then
        if Nat.ltb (length d) 10 then Err DecodingError
        else
          do r <- mr_base d;
          let mfr := N.lor (N.lor (nth 5 d 0) (N.shiftl (nth 6 d 0) 8)) (N.shiftl (nth 7 d 0) 16) in
          let pt := nth 8 d 0 in
          let fv := nth 9 d 0 in
          if pt =? 0x27 then
            if Nat.ltb (length d) 12 then Err DecodingError
            else Ok (mkRec (r_type r) fv (r_eol r) (r_len r) (r_raw r)
                           (KPower mfr pt (N.lor (nth 10 d 0) (N.shiftl (nth 11 d 0) 8))))
          else Ok (mkRec (r_type r) fv (r_eol r) (r_len r) (r_raw r) (KPicmg mfr pt))
      else mr_base d
  end.

(* InventoryMultiRecordArea._from_data: while True: record = create(data[offset:]);
   offset += record.length + 5; if record.end_of_list: break.
   Every turn consumes >= 5 bytes or raises; fuel = len(data) + 1
   (FruParseProofs.parse_records_fuel). *)
Fixpoint parse_records (fuel : nat) (d : list N) : res (list mrec) :=
  match fuel with
  | O => Err OutOfFuel
  | S k =>
      do r <- parse_record d;
      if r_eol r then Ok [r]
      else do rs <- parse_records k (skipn (N.to_nat (r_len r) + 5) d); Ok (r :: rs)
  end.

(* InventoryMultiRecordArea.__init__: "if data:" *)
Inductive mr_st := MAbsent | MShell | MParsed (l : list mrec).
Definition multi_obj (d : list N) : res mr_st :=
  match d with
  | [] => Ok MShell
  | _ => do rs <- parse_records (S (length d)) d; Ok (MParsed rs)
  end.
Definition multi_at (off : N) (img : list N) : res mr_st :=
  if off =? 0 then Ok MAbsent else multi_obj (skipn (N.to_nat off) img).

(* InventoryCommonHeader._from_data on data[:8] (non-empty, see parse_inventory) *)
Record header := mkHeader { h_version : N; h_internal : N; h_chassis : N; h_board : N;
                            h_product : N; h_multi : N }.
Definition parse_header (d : list N) : res header :=
  match d with
  | [d0; d1; d2; d3; d4; d5; d6; d7] =>
      if negb (sum256 d =? 0) then Err DecodingError
      else Ok (mkHeader (N.land d0 0x0f) (d1 * 8) (d2 * 8) (d3 * 8) (d4 * 8) (d5 * 8))
  | _ => Err DecodingError
  end.

Record inventory := mkInv { i_header : header; i_chassis : area_st; i_board : area_st;
                            i_product : area_st; i_multi : mr_st }.

(* FruInventory(data): "if data:" - None = nothing parsed (an inventory object whose four
   areas are None and which has no common_header).  The same function models
   get_fru_inventory_from_file (which wraps the file content in array('B')). *)
Definition parse_inventory (img : list N) : res (option inventory) :=
  match img with
  | [] => Ok None
  | _ =>
      do h <- parse_header (firstn 8 img);
      do ch <- area_at false 2 (h_chassis h) img;
      do bd <- area_at true 5 (h_board h) img;
      do pr <- area_at false 7 (h_product h) img;
      do mr <- multi_at (h_multi h) img;
      Ok (Some (mkInv h ch bd pr mr))
  end.
