(* Specification side of C18 (image part): an encoder of the PICMG HPM.1 upgrade image
   format written from the format description, NOT from pyipmi/hpm.py, and the
   observation a faithful parser must produce for an encoded image.

   HPM.1 upgrade image = image header, upgrade action records, 16-byte MD5 of everything
   before it.
   Image header:  0..7  signature "PICMGFWU"   8 format version (0)   9 device id
     10..12 manufacturer id (IANA, LS byte first)   13..14 product id (LS first)
     15..18 time (LS first)   19 image capabilities   20 components (bit mask)
     21 self-test timeout   22 rollback timeout   23 inaccessibility timeout
     24..25 earliest compatible revision (major, minor BCD)
     26..31 firmware revision (major, minor BCD, 4 auxiliary bytes)
     32..33 OEM data length (LS first)   34.. OEM data   then the header (zero) checksum.
   Upgrade action record:  0 action type (0 backup, 1 prepare, 2 upload firmware image)
     1 components (bit mask)   2 zero checksum of bytes 0..2
     only for type 2:  3..8 firmware version (major, minor BCD, 4 aux)
     9..29 firmware description string (21 bytes)   30..33 firmware length (LS first)
     34.. firmware image data. *)
From Coq Require Import String Ascii.
From Coq Require Import NArith List Bool.
From PyIpmi Require Import Lib.Res Lib.Bytes Model.HpmImage.
Import ListNotations.
Open Scope N_scope.

(* a revision: major, minor as a decimal number 0..99 (or 255 = unspecified), 4 aux bytes *)
Record s_version := mkSVer { sv_major : N; sv_minor : N; sv_aux : list N }.

Record s_header := mkSHeader {
  sh_device_id : N; sh_manufacturer_id : N; sh_product_id : N; sh_time : N;
  sh_capabilities : N; sh_components : N;
  sh_selftest_timeout : N; sh_rollback_timeout : N; sh_inaccessibility_timeout : N;
  sh_earliest_major : N; sh_earliest_minor : N;
  sh_firmware_revision : s_version;
  sh_oem_data : list N
}.

Inductive s_action :=
| SBackup (components : N)
| SPrepare (components : N)
| SUpload (components : N) (ver : s_version) (description : list N) (firmware : list N).

Record s_image := mkSImage { si_header : s_header; si_actions : list s_action }.

Definition zero_cksum (l : list N) : N := (256 - sum l mod 256) mod 256.
(* BCD byte of a decimal 0..99; 0xff = "unspecified" *)
Definition bcd (m : N) : N := if m =? 255 then 255 else 16 * (m / 10) + m mod 10.
Definition signature : list N := bytes_of_string "PICMGFWU".

Definition enc_version (v : s_version) : list N := [sv_major v; bcd (sv_minor v)] ++ sv_aux v.

Definition enc_header_body (h : s_header) : list N :=
    signature ++ [0; sh_device_id h] ++ le_bytes 3 (sh_manufacturer_id h)
    ++ le_bytes 2 (sh_product_id h) ++ le_bytes 4 (sh_time h)
    ++ [sh_capabilities h; sh_components h;
        sh_selftest_timeout h; sh_rollback_timeout h; sh_inaccessibility_timeout h]
    ++ [sh_earliest_major h; bcd (sh_earliest_minor h)]
    ++ enc_version (sh_firmware_revision h)
    ++ le_bytes 2 (N.of_nat (length (sh_oem_data h))) ++ sh_oem_data h.
Definition enc_header (h : s_header) : list N :=
  enc_header_body h ++ [zero_cksum (enc_header_body h)].

Definition enc_action_head (ty comps : N) : list N := [ty; comps; zero_cksum [ty; comps]].

Definition enc_action (a : s_action) : list N :=
  match a with
  | SBackup c => enc_action_head 0 c
  | SPrepare c => enc_action_head 1 c
  | SUpload c v d fw =>
      enc_action_head 2 c ++ enc_version v ++ d ++ le_bytes 4 (N.of_nat (length fw)) ++ fw
  end.

Definition enc_body (i : s_image) : list N :=
  enc_header (si_header i) ++ concat (map enc_action (si_actions i)).

Section WithMd5.
  Variable md5 : list N -> list N.

  Definition enc_image (i : s_image) : list N := enc_body i ++ md5 (enc_body i).

  (* ---- what parsing must yield ---- *)
  Definition exp_version (v : s_version) : version :=
    mkVer (sv_major v) (sv_minor v) (Some (sv_aux v)).

  Definition comps_of (mask : N) : list N := filter (N.testbit mask) [0; 1; 2; 3; 4; 5; 6; 7].

  Definition exp_header (h : s_header) : header :=
    let n := N.of_nat (length (sh_oem_data h)) in
    mkHeader signature 0 (sh_device_id h) (sh_manufacturer_id h) (sh_product_id h) (sh_time h)
             (sh_capabilities h) (comps_of (sh_components h))
             (sh_selftest_timeout h) (sh_rollback_timeout h) (sh_inaccessibility_timeout h)
             (mkVer (sh_earliest_major h) (sh_earliest_minor h) None)
             (exp_version (sh_firmware_revision h))
             n (match sh_oem_data h with [] => None | o => Some o end)
             (zero_cksum (enc_header_body h)) (35 + n).

  Definition exp_action (a : s_action) : action :=
    match a with
    | SBackup c => mkAction 0 c (zero_cksum [0; c]) 3 None
    | SPrepare c => mkAction 1 c (zero_cksum [1; c]) 3 None
    | SUpload c v d fw =>
        mkAction 2 c (zero_cksum [2; c]) (34 + N.of_nat (length fw))
                 (Some (mkUpload (exp_version v) d (N.of_nat (length fw)) fw))
    end.

  Definition exp_image (i : s_image) : image :=
    mkImage (exp_header (si_header i)) (map exp_action (si_actions i))
            (Some (md5 (enc_body i))) (md5 (enc_body i)).
End WithMd5.

(* ---- well-formedness of what is encoded (ranges of the format's fields) ---- *)
Definition minor_ok (m : N) : Prop := m <= 99 \/ m = 255.
Definition s_version_ok (v : s_version) : Prop :=
  sv_major v < 256 /\ minor_ok (sv_minor v) /\ length (sv_aux v) = 4%nat /\ bytes_ok (sv_aux v) = true.

Definition s_header_ok (h : s_header) : Prop :=
  sh_device_id h < 256 /\ sh_manufacturer_id h < 2 ^ 24 /\ sh_product_id h < 2 ^ 16 /\
  sh_time h < 2 ^ 32 /\ sh_capabilities h < 256 /\ sh_components h < 256 /\
  sh_selftest_timeout h < 256 /\ sh_rollback_timeout h < 256 /\
  sh_inaccessibility_timeout h < 256 /\
  sh_earliest_major h < 256 /\ minor_ok (sh_earliest_minor h) /\
  s_version_ok (sh_firmware_revision h) /\
  N.of_nat (length (sh_oem_data h)) < 2 ^ 16 /\ bytes_ok (sh_oem_data h) = true.

Definition s_action_ok (a : s_action) : Prop :=
  match a with
  | SBackup c | SPrepare c => c < 256
  | SUpload c v d fw =>
      c < 256 /\ s_version_ok v /\ length d = 21%nat /\ bytes_ok d = true /\
      N.of_nat (length fw) < 2 ^ 32 /\ bytes_ok fw = true
  end.

Definition s_image_ok (i : s_image) : Prop :=
  s_header_ok (si_header i) /\ Forall s_action_ok (si_actions i).
