(* C15 x C10: Ipmi.get_fru_inventory(fru_id) = the FRU transfer model of C10
   (Model/FruIO.v, read-only here) instantiated with the real area parsers of
   Model/FruParse.v.  Executable definitions only.

   FruIO.get_fru_inventory takes the parsers as a parameter [parse : N -> list N -> res unit]
   (only whether they raise matters for the requests sent) and returns the bytes it handed
   to them; [area_parser] is that parameter, [build_inventory] is what the Python objects
   built from those bytes expose (the classes are functions of their data, so parsing the
   same bytes again gives the object that get_fru_*_area returned). *)
From Coq Require Import NArith List Bool.
From PyIpmi Require Import Lib.Res Lib.Bytes Lib.Prog Model.FruIO Model.FruParse.
Import ListNotations.
Open Scope N_scope.

(* 1 InventoryChassisInfoArea, 2 InventoryBoardInfoArea, 3 InventoryProductInfoArea,
   4 InventoryMultiRecordArea (the numbering of FruIO.v) *)
Definition area_parser (kind : N) (d : list N) : res unit :=
  if kind =? 1 then do _ <- area_obj false 2 d; Ok tt
  else if kind =? 2 then do _ <- area_obj true 5 d; Ok tt
  else if kind =? 3 then do _ <- area_obj false 7 d; Ok tt
  else do _ <- multi_obj d; Ok tt.

(* the FruInventory() filled in by Fru.get_fru_inventory: the four area attributes
   (None = Absent / MAbsent); it has no common_header attribute *)
Definition dev_inventory : Type := area_st * area_st * area_st * mr_st.

Definition opt_area_obj (dated : bool) (nf : nat) (o : option (list N)) : res area_st :=
  match o with None => Ok Absent | Some d => area_obj dated nf d end.
Definition opt_multi_obj (o : option (list N)) : res mr_st :=
  match o with None => Ok MAbsent | Some d => multi_obj d end.

Definition build_inventory (l : list (option (list N))) : res dev_inventory :=
  match l with
  | [c; b; p; m] =>
      do c' <- opt_area_obj false 2 c;
      do b' <- opt_area_obj true 5 b;
      do p' <- opt_area_obj false 7 p;
      do m' <- opt_multi_obj m;
      Ok (c', b', p', m')
  | _ => Err (OtherError OtherExc)
  end.

(* Ipmi.get_fru_inventory(fru_id); [fuel] bounds the record-header scan of
   get_fru_multirecord_area (a model device, not the code) *)
Definition device_inventory (fuel : nat) (id : N) : prog dev_inventory :=
  dop l <- get_fru_inventory area_parser fuel id; lift (build_inventory l).

(* the same four attributes of FruInventory(image) *)
Definition areas_of (i : inventory) : dev_inventory :=
  (i_chassis i, i_board i, i_product i, i_multi i).
