(* Hand model (H) of the bridging code of pyipmi/interfaces/ipmb.py:
   encode_send_message, encode_bridged_message, decode_bridged_message
   (+ the one byte of SendMessageReq / the completion code of SendMessageRsp from
   pyipmi/msgs/device_messaging.py, and pyipmi/__init__.py:Routing),
   followed by the SPECIFICATION side, written independently of the code:
   what a conforming bridge does with a Send Message request ([bridge_hop], [peel])
   and what it returns ([wrap_reply]).  Executable definitions only. *)
From Coq Require Import NArith List Bool.
From PyIpmi Require Import Lib.Res Lib.Bytes Lib.Bits Model.Ipmb.
Import ListNotations.
Open Scope N_scope.

(* ------------------------------------------------------------------------- *)
(* model of the code                                                          *)
(* ------------------------------------------------------------------------- *)

(* pyipmi/__init__.py: class Routing(rq_sa, rs_sa, channel); Target.set_routing builds
   one Routing per tuple of the given list.  The channel of the last entry is None in
   the documented usage and is never read; it is 0 here. *)
Record route := mkRoute { r_rq_sa : N; r_rs_sa : N; r_chan : N }.

Definition CMDID_SEND_MESSAGE : N := 0x34.
Definition NETFN_APP : N := 6.

(* encode_message(SendMessageReq) with req.channel.number = channel,
   req.channel.tracking = tracking, data = array('B') (empty RemainingBytes):
   Bitfield('channel', 1, Bit('number',4,0), Bit('authenticated',1,0),
            Bit('encrypted',1,0), Bit('tracking',2,0))
   BitWrapper._get_value: value |= (bit_value & (2**width - 1)) << offset;
   push_unsigned_int(value, 1) keeps the low byte *)
Definition send_message_req_bytes (channel tracking : N) : list N :=
  [pack_at 0 [(4, channel); (1, 0); (1, 0); (2, tracking)] 0 mod 256].

(* def encode_send_message(payload, rq_sa, rs_sa, channel, seq, tracking=1):
     data = encode_message(req)
     header.netfn = req.__netfn__; header.rs_lun = 0; header.rs_sa = rs_sa
     header.rq_seq = seq; header.rq_lun = 0; header.rq_sa = rq_sa
     header.cmdid = req.__cmdid__
     return encode_ipmb_msg(header, data + payload) *)
Definition encode_send_message (payload : list N) (rq_sa rs_sa channel seq tracking : N)
  : res (list N) :=
  let data := send_message_req_bytes channel tracking in
  let header := mkHdr rs_sa 0 rq_sa 0 seq NETFN_APP CMDID_SEND_MESSAGE in
  encode_ipmb_msg header (data ++ payload).

(* header.rq_sa = routing[-1].rq_sa; header.rs_sa = routing[-1].rs_sa
   (the header object is mutated: the caller's later rx_filter sees these addresses);
   routing[-1] of an empty list raises IndexError *)
Definition bridged_header (routing : list route) (h : hdr) : res hdr :=
  match rev routing with
  | [] => Err (OtherError IndexError)
  | l :: _ => Ok (mkHdr (r_rs_sa l) (rs_lun h) (r_rq_sa l) (rq_lun h) (rq_seq h) (netfn h) (cmdid h))
  end.

(* def encode_bridged_message(routing, header, payload, seq):
     header.rq_sa = routing[-1].rq_sa; header.rs_sa = routing[-1].rs_sa
     tx_data = encode_ipmb_msg(header, payload)
     for bridge in reversed(routing[:-1]):
         tx_data = encode_send_message(tx_data, rq_sa=bridge.rq_sa, rs_sa=bridge.rs_sa,
                                       channel=bridge.channel, seq=seq)
     return tx_data *)
Definition encode_bridged (routing : list route) (h : hdr) (payload : list N) (seq : N)
  : res (list N) :=
  do h' <- bridged_header routing h;
  fold_left
    (fun (tx : res (list N)) (bridge : route) =>
       do tx_data <- tx;
       encode_send_message tx_data (r_rq_sa bridge) (r_rs_sa bridge) (r_chan bridge) seq 1)
    (rev (removelast routing))
    (encode_ipmb_msg h' payload).

(* Python slices rx_data[6:-1] and rx_data[7:-1] *)
Definition slice_6_m1 (d : list N) : list N := firstn (length d - 7) (skipn 6 d).
Definition slice_7_m1 (d : list N) : list N := firstn (length d - 8) (skipn 7 d).

(* def decode_bridged_message(rx_data):
     while array('B', rx_data)[5] == constants.CMDID_SEND_MESSAGE:   # IndexError if shorter
         rsp = create_message(NETFN_APP + 1, CMDID_SEND_MESSAGE, None)
         decode_message(rsp, rx_data[6:])       # CompletionCode, RemainingBytes:
                                                #   no byte -> DecodingError; cc != 0 stops decoding
         check_completion_code(rsp.completion_code)   # CompletionCodeError(cc)
         rx_data = rx_data[7:-1]
         if len(rx_data) < 6: break
     return rx_data
   The loop strips at least one byte per round: fuel = length of the input suffices
   (Proofs/BridgeProofs.v: decode_bridged_never_out_of_fuel). *)
Fixpoint decode_bridged_fuel (fuel : nat) (rx : list N) : res (list N) :=
  match nth_error rx 5 with
  | None => Err (OtherError IndexError)
  | Some c =>
    if c =? CMDID_SEND_MESSAGE then
      match fuel with
      | O => Err OutOfFuel
      | S fuel' =>
        match skipn 6 rx with
        | [] => Err DecodingError
        | cc :: _ =>
          if cc =? 0 then
            let rx' := slice_7_m1 rx in
            if Nat.ltb (length rx') 6 then Ok rx' else decode_bridged_fuel fuel' rx'
          else Err (CCError cc)
        end
      end
    else Ok rx
  end.
Definition decode_bridged (rx : list N) : res (list N) := decode_bridged_fuel (length rx) rx.

(* ------------------------------------------------------------------------- *)
(* specification side (independent of the code above)                         *)
(* ------------------------------------------------------------------------- *)

(* What one conforming bridge (IPMI 2.0 section 22.7, Send Message) sees in a request
   frame addressed to it: it verifies both checksums, that the frame is an App
   request with command 34h and carries a channel byte plus an embedded frame, and
   forwards the embedded frame on the named channel.  Reported: who sent it, to whom,
   on which channel, with which tracking mode and sequence number. *)
Record hop := mkHop { hop_rq_sa : N; hop_rs_sa : N; hop_chan : N; hop_tracking : N; hop_seq : N }.

Definition hop_eqb (a b : hop) : bool :=
  (hop_rq_sa a =? hop_rq_sa b) && (hop_rs_sa a =? hop_rs_sa b) && (hop_chan a =? hop_chan b)
  && (hop_tracking a =? hop_tracking b) && (hop_seq a =? hop_seq b).

Definition bridge_hop (f : list N) : option (hop * list N) :=
  match f with
  | rs :: b1 :: c1 :: rq :: b4 :: cmd :: cb :: rest =>
    if ((rs + b1 + c1) mod 256 =? 0)            (* header checksum *)
       && (sum (rq :: b4 :: cmd :: cb :: rest) mod 256 =? 0)   (* payload checksum *)
       && (b1 =? 6 * 4)                          (* netfn App (request), bridge LUN 0 *)
       && (b4 mod 4 =? 0)                        (* requester LUN 0 *)
       && (cmd =? 0x34)                          (* Send Message *)
       && ((cb / 16) mod 4 =? 0)                 (* no authentication / encryption bits *)
       && Nat.leb 1 (length rest)                  (* at least the trailing checksum *)
    then Some (mkHop rq rs (cb mod 16) (cb / 64) (b4 / 4),
               firstn (length rest - 1) rest)    (* embedded frame, without the checksum *)
    else None
  | _ => None
  end.

(* the frame seen after [n] successive bridges, and what each of them saw *)
Fixpoint peel (n : nat) (f : list N) : option (list hop * list N) :=
  match n with
  | O => Some ([], f)
  | S n' =>
    match bridge_hop f with
    | None => None
    | Some (h, inner) =>
      match peel n' inner with
      | None => None
      | Some (hs, x) => Some (h :: hs, x)
      end
    end
  end.

(* The Send Message response a bridge returns: response header (App response netfn 7,
   command 34h) from the bridge [w_rs_sa] to the requester [w_rq_sa], completion code,
   then - when tracking is on and the forwarded request was answered - the embedded
   reply frame; both checksums. *)
Record wrapinfo := mkWrap { w_rq_sa : N; w_rq_lun : N; w_rs_sa : N; w_rs_lun : N; w_seq : N }.

Definition wrap_reply (w : wrapinfo) (cc : N) (embedded : list N) : list N :=
  let b1 := 7 * 4 + w_rq_lun w in
  let body := [w_rs_sa w; w_seq w * 4 + w_rs_lun w; 0x34; cc] ++ embedded in
  [w_rq_sa w; b1; checksum [w_rq_sa w; b1]] ++ body ++ [checksum body].

(* [ws] outermost first *)
Definition wrap_all (ws : list wrapinfo) (r : list N) : list N :=
  fold_right (fun w acc => wrap_reply w 0 acc) r ws.
