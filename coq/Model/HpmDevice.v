(* Specification side of C18 (upload part): a reference HPM.1 upgrade target as a Gallina
   device, and the decoders that read the property's observables off a transcript.
   Written from the HPM.1 command descriptions, not from pyipmi/hpm.py.

   The device accepts Upload Firmware Block requests (netfn 0x2c, cmd 0x32, data = PICMG
   identifier, block number, block bytes).  A plan fixes how the i-th block request is
   answered: accepted at once (cc 0x00), as a long duration command (cc 0x80; the next k
   Get Upgrade Status polls then report "in progress", later ones "completed"), or refused
   with another completion code.  The harness runs a Python copy of this device; every
   recorded exchange is re-checked against this definition (Corr/C18.v chk_device). *)
From Coq Require Import NArith List Bool.
From PyIpmi Require Import Lib.Res Lib.Bytes Lib.Prog.
Import ListNotations.
Open Scope N_scope.

Inductive answer := Accept | InProgress (k : nat) | Fail (cc : N).

Record dstate := mkD {
  d_plan : list answer;            (* answer to the i-th block request; Accept beyond the end *)
  d_count : nat;                   (* block requests received so far *)
  d_pending : nat;                 (* status polls that will still report "in progress" *)
  d_received : list (N * list N)   (* (block number, data) in order of arrival *)
}.
Definition d_init (plan : list answer) : dstate := mkD plan 0 0 [].

Definition hpm_device : device dstate := fun s q =>
  let invalid := (s, RBytes [0xc1]) in     (* invalid command / malformed request *)
  if (q_netfn q =? 0x2c) && (q_lun q =? 0) then
    if q_cmd q =? 0x32 then
      match q_data q with
      | 0 :: number :: data =>
          let s' k := mkD (d_plan s) (S (d_count s)) k (d_received s ++ [(number, data)]) in
          match nth (d_count s) (d_plan s) Accept with
          | Accept => (s' 0%nat, RBytes [0x00; 0x00])
          | InProgress k => (s' k, RBytes [0x80; 0x00])
          | Fail cc => (s' 0%nat, RBytes [cc; 0x00])
          end
      | _ => invalid
      end
    else if q_cmd q =? 0x34 then
      match q_data q with
      | [0] =>
          match d_pending s with
          | O => (s, RBytes [0x00; 0x00; 0x32; 0x00])
          | S k => (mkD (d_plan s) (d_count s) k (d_received s), RBytes [0x00; 0x00; 0x32; 0x80])
          end
      | _ => invalid
      end
    else invalid
  else invalid.

(* a refusal is a completion code other than "ok" and "in progress" *)
Definition answer_ok (a : answer) : bool :=
  match a with Fail cc => negb (cc =? 0) && negb (cc =? 0x80) && (cc <? 256) | _ => true end.
Definition is_fail (a : answer) : bool := match a with Fail _ => true | _ => false end.

(* ---- reading the observables off a transcript ---- *)
Definition exch := (request * reply)%type.
Definition is_block (q : request) : bool := (q_netfn q =? 0x2c) && (q_cmd q =? 0x32).
Definition is_status (q : request) : bool := (q_netfn q =? 0x2c) && (q_cmd q =? 0x34).
Definition reply_is_cc (cc : N) (rp : reply) : bool :=
  match rp with RBytes (c :: _) => c =? cc | _ => false end.

(* the Upload Firmware Block requests, in order: (block number, block data) *)
Fixpoint blocks_of (tr : list exch) : list (N * list N) :=
  match tr with
  | [] => []
  | (q, _) :: r =>
      if is_block q then (nth 1 (q_data q) 0, skipn 2 (q_data q)) :: blocks_of r else blocks_of r
  end.

(* every block answered "in progress" is followed by at least one status poll
   (before anything else, in particular before the next block) *)
Fixpoint polls_ok (tr : list exch) : bool :=
  match tr with
  | [] => true
  | (q, rp) :: r =>
      (if is_block q && reply_is_cc 0x80 rp
       then match r with (q2, _) :: _ => is_status q2 | [] => false end
       else true) && polls_ok r
  end.

(* block numbers 0, 1, 2, ... modulo 256 *)
Definition numbering (n : nat) : list N := map (fun i => N.of_nat i mod 256) (seq 0 n).
