(* C08 - exchange shapes of the high-level API methods (pyipmi.Ipmi and its mix-ins).

   The shapes themselves are NOT written by hand: Gen/ApiOps.v is regenerated from /repo
   on every run by gen/gen_api.py (ast only, fail closed).  This file holds
     - the type of shapes,
     - the syntactic class [simple_checked] (straight line: every exchange is followed by
       its completion-code check; no handler, no loop; calls only to methods that are
       themselves in the class),
     - the meaning of an operation of the class as a [prog] (Lib/Prog.v),
     - hand models (H) of the operations with handlers that are small:
       Ipmi.send_message (as REPAIRED by fixes/F13-send-message-reraise.diff) and
       Hpm.get_component_properties (as REPAIRED by fixes/F8b-...diff),
     - the recorded shapes of the operations outside the class (loops / handlers /
       helpers with callbacks): they are judged by the implementation oracle only, and a
       change of their exchange structure breaks [classified].
   Executable definitions only. *)
From Coq Require Import String.
From Coq Require Import NArith List Bool.
From PyIpmi Require Import Lib.Res Lib.Bytes Lib.Prog.
Import ListNotations.
Open Scope N_scope.

(* how the completion code of an exchange is checked by the statement that follows it *)
Inductive chk :=
| ChkNone                (* not checked right after *)
| ChkCC                  (* check_completion_code(rsp.completion_code) *)
| ChkRsp.                (* check_rsp_completion_code(rsp) *)

(* where a step sits: inside a try with handlers / inside a loop / on a conditional path *)
Record ctx := mkCtx { in_try : bool; in_loop : bool; in_branch : bool }.

Inductive step :=
| Exch (msg : string) (c : chk) (x : ctx)   (* req = create_request_by_name(msg); rsp = self.send_message(req) *)
| ExchParam (c : chk) (x : ctx)             (* the same with the message name as a parameter *)
| CallName (msg : string) (x : ctx)         (* self.send_message_with_name(msg, ...) *)
| Call (m : string) (x : ctx)               (* self.m(...) *)
| Xfer (x : ctx)                            (* self.interface.send_and_receive(req) *)
| Other (what : string)
| Untranslated (why : string).

Record op := mkOp { o_class : string; o_name : string; o_public : bool; o_steps : list step }.

Definition chk_eqb (a b : chk) : bool :=
  match a, b with ChkNone, ChkNone | ChkCC, ChkCC | ChkRsp, ChkRsp => true | _, _ => false end.
Definition ctx_eqb (a b : ctx) : bool :=
  Bool.eqb (in_try a) (in_try b) && Bool.eqb (in_loop a) (in_loop b) && Bool.eqb (in_branch a) (in_branch b).
Definition step_eqb (a b : step) : bool :=
  match a, b with
  | Exch m c x, Exch m' c' x' => String.eqb m m' && chk_eqb c c' && ctx_eqb x x'
  | ExchParam c x, ExchParam c' x' => chk_eqb c c' && ctx_eqb x x'
  | CallName m x, CallName m' x' => String.eqb m m' && ctx_eqb x x'
  | Call m x, Call m' x' => String.eqb m m' && ctx_eqb x x'
  | Xfer x, Xfer x' => ctx_eqb x x'
  | Other s, Other s' => String.eqb s s'
  | Untranslated s, Untranslated s' => String.eqb s s'
  | _, _ => false
  end.

(* attribute lookup on the Ipmi instance: the translator lists the classes in MRO order
   with shadowed definitions already removed, so the first hit is the method *)
Fixpoint find_op (ops : list op) (m : string) : option op :=
  match ops with
  | [] => None
  | o :: r => if String.eqb (o_name o) m then Some o else find_op r m
  end.

(* ---- the straight-line class ---- *)
Definition straight (x : ctx) : bool := negb (in_try x) && negb (in_loop x).
Definition checked_kind (c : chk) : bool := match c with ChkNone => false | _ => true end.

(* one checked exchange of the flattened operation: message name (None = the name is the
   parameter of send_message_with_name) and whether it is on a conditional path *)
Definition exch := (option string * bool)%type.

(* self.send_message_with_name(msg, ..): the body of Ipmi.send_message_with_name with the
   message name substituted; it must itself be one checked straight-line exchange *)
Definition by_name (ops : list op) (msg : string) (cond : bool) : option (list exch) :=
  match find_op ops "send_message_with_name" with
  | Some o => match o_steps o with
              | [ExchParam c x] => if checked_kind c && straight x then Some [(Some msg, cond || in_branch x)] else None
              | _ => None
              end
  | None => None
  end.

(* inline the calls; the call depth is bounded by [fuel] (a chain longer than the number
   of operations is cyclic); None = outside the class *)
Fixpoint flatten (ops : list op) (fuel : nat) : bool -> list step -> option (list exch) :=
  match fuel with
  | O => fun _ _ => None
  | S fuel' =>
    fix go (cond : bool) (l : list step) : option (list exch) :=
    match l with
    | [] => Some []
    | s :: r =>
      let hd :=
        match s with
        | Exch m c x => if checked_kind c && straight x then Some [(Some m, cond || in_branch x)] else None
        | ExchParam c x => if checked_kind c && straight x then Some [(None, cond || in_branch x)] else None
        | CallName m x => if straight x then by_name ops m (cond || in_branch x) else None
        | Call m x =>
            if straight x then
              match find_op ops m with
              | Some o => flatten ops fuel' (cond || in_branch x) (o_steps o)
              | None => None
              end
            else None
        | Xfer _ | Other _ | Untranslated _ => None
        end in
      match hd, go cond r with
      | Some a, Some b => Some (a ++ b)
      | _, _ => None
      end
    end
  end.

Definition flat (ops : list op) (o : op) : option (list exch) :=
  flatten ops (S (length ops)) false (o_steps o).
Definition simple_checked (ops : list op) (o : op) : bool :=
  match flat ops o with Some _ => true | None => false end.

(* ---- meaning ---- *)
(* Ipmi.send_message(req, retry=3), REPAIRED (fixes/F13-send-message-reraise.diff):
     while retry > 0:
         retry -= 1
         try:    rsp = self.interface.send_and_receive(req); break
         except CompletionCodeError as e:
             if e.cc == CC_NODE_BUSY: continue
             raise
     else: raise RetryError()
     return rsp
   The continuation receives the reply bytes (the decoded response). *)
Definition CC_NODE_BUSY : N := 0xC0.
Fixpoint send_message {A} (retry : nat) (r : request) (k : list N -> prog A) : prog A :=
  match retry with
  | O => Raise RetryError
  | S n => Send r (fun rp =>
             match rp with
             | RBytes d => k d
             | RRaise (CCError cc) => if cc =? CC_NODE_BUSY then send_message n r k else Raise (CCError cc)
             | RRaise e => Raise e
             end)
  end.

(* check_completion_code(rsp.completion_code) / check_rsp_completion_code(rsp) on the
   decoded response: decode_message of an empty reply raises DecodingError *)
Definition check_cc (d : list N) : res (list N) := checked (RBytes d).

(* What the shape does not say is a parameter of the meaning ("instance"): the request
   built from the arguments at each static position, the pure Python code that runs
   before that position given the OK response data so far (it may raise), and which
   conditional positions are executed.  The theorems hold for every instance. *)
Record inst := mkInst {
  i_req : nat -> option string -> request;
  i_glue : nat -> list (list N) -> option err;
  i_taken : nat -> bool }.

Fixpoint sem (I : inst) (l : list exch) (pos : nat) (acc : list (list N)) : prog (list (list N)) :=
  match i_glue I pos acc with
  | Some e => Raise e
  | None =>
    match l with
    | [] => Ret acc
    | (nm, cond) :: r =>
        if cond && negb (i_taken I pos) then sem I r (S pos) acc
        else send_message 3 (i_req I pos nm)
               (fun d => match check_cc d with
                         | Ok body => sem I r (S pos) (acc ++ [body])
                         | Err e => Raise e
                         end)
    end
  end.

Definition op_prog (ops : list op) (o : op) (I : inst) : prog (list (list N)) :=
  match flat ops o with
  | Some l => sem I l 0%nat []
  | None => Raise (OtherError OtherExc)
  end.

(* ---- Hpm.get_component_properties(component_id), REPAIRED (fixes/F8b-...diff):
     properties = []
     for p in (GENERAL, CURRENT_VERSION, DESCRIPTION_STRING, ROLLBACK_VERSION, DEFERRED_VERSION):
         try:
             prop = self.get_component_property(component_id, p)     # one checked exchange
             if prop is not None: properties.append(prop)
         except CompletionCodeError as e:
             if e.cc == CC_GET_COMP_PROP_INVALID_PROPERTIES_SELECTOR: continue
             raise                                                    # <- the repair
     return properties
   Result: the (selector, response data) pairs collected.  [parse] = ComponentProperty.from_data
   (may raise a non-completion-code error on malformed data). *)
Definition CC_INVALID_SELECTOR : N := 0x83.
Definition PROPS : list N := [0; 1; 2; 3; 4].

(* send_message inside a try: what it raises goes to the handler [h] *)
Fixpoint send_message_e {A} (retry : nat) (r : request) (k : list N -> prog A) (h : err -> prog A) : prog A :=
  match retry with
  | O => h RetryError
  | S n => Send r (fun rp =>
             match rp with
             | RBytes d => k d
             | RRaise (CCError cc) => if cc =? CC_NODE_BUSY then send_message_e n r k h else h (CCError cc)
             | RRaise e => h e
             end)
  end.

Fixpoint gcp_loop (mk : N -> request) (parse : N -> list N -> option err) (ps : list N)
                  (acc : list (N * list N)) : prog (list (N * list N)) :=
  match ps with
  | [] => Ret acc
  | p :: r =>
      (* except CompletionCodeError as e *)
      let on_err := fun e => match e with
                             | CCError cc => if cc =? CC_INVALID_SELECTOR then gcp_loop mk parse r acc
                                             else Raise (CCError cc)
                             | _ => Raise e
                             end in
      send_message_e 3 (mk p)
        (fun d => match check_cc d with
                  | Ok body => match parse p body with
                               | Some e => Raise e
                               | None => gcp_loop mk parse r (acc ++ [(p, body)])
                               end
                  | Err e => on_err e
                  end)
        on_err
  end.
Definition get_component_properties mk parse := gcp_loop mk parse PROPS [].

(* ---- operations outside the class: recorded shape, judged by the oracle only ---- *)
Definition T := mkCtx true false false.
Definition L := mkCtx false true false.
Definition B := mkCtx false false true.
Definition TL := mkCtx true true false.
Definition LB := mkCtx false true true.
Definition S0 := mkCtx false false false.

Definition hand_shapes : list (string * list step) := [
  (* the transport exchange itself: hand model [send_message] above *)
  ("Ipmi.send_message", [Xfer TL]);
  (* returns the raw reply including the completion code: nothing to check *)
  ("Ipmi.raw_command", [Xfer S0]);
  ("Ipmi.wait_until_ipmb_is_accessible", [Call "is_ipmc_accessible" TL; Call "is_ipmc_accessible" S0]);
  (* hand model [get_component_properties] above *)
  ("Hpm.get_component_properties", [Call "get_component_property" TL]);
  (* FRU transfer loops (modelled for C10 in Model/FruIO.v) *)
  ("Fru.write_fru_data", [CallName "WriteFruData" L]);
  ("Fru.read_fru_data", [Call "get_fru_inventory_area_info" B; CallName "ReadFruData" TL]);
  ("Fru.read_fru_data_full", [Call "read_fru_data" S0]);
  ("Fru.get_fru_inventory_header", [Call "read_fru_data" S0]);
  ("Fru._read_fru_area", [Call "read_fru_data" S0; Call "read_fru_data" S0]);
  ("Fru.get_fru_chassis_area", [Call "get_fru_inventory_header" S0; Call "_read_fru_area" S0]);
  ("Fru.get_fru_board_area", [Call "get_fru_inventory_header" S0; Call "_read_fru_area" S0]);
  ("Fru.get_fru_product_area", [Call "get_fru_inventory_header" S0; Call "_read_fru_area" S0]);
  ("Fru.get_fru_multirecord_area", [Call "get_fru_inventory_header" S0; Call "read_fru_data" L; Call "read_fru_data" S0]);
  ("Fru.get_fru_inventory", [Call "get_fru_inventory_header" S0; Call "get_fru_chassis_area" B;
                             Call "get_fru_board_area" B; Call "get_fru_product_area" B;
                             Call "get_fru_multirecord_area" B]);
  (* SDR retrieval through pyipmi/helper.py (modelled for C11/C13 in Model/Helper.v, SdrIO.v) *)
  ("Sdr._get_sdr_chunk", [Other "method reference self.send_message passed as a value";
                          Other "method reference self.reserve_sdr_repository passed as a value"]);
  (* the same before fixes/F11b-sdr-same-store-reservation.diff (a C11 finding) *)
  ("Sdr._get_sdr_chunk", [Other "method reference self.send_message passed as a value";
                          Other "method reference self.reserve_device_sdr_repository passed as a value"]);
  ("Sdr.get_repository_sdr", [Other "method reference self.reserve_sdr_repository passed as a value";
                              Other "method reference self._get_sdr_chunk passed as a value"]);
  ("Sdr.sdr_repository_entries", [Other "generator function"; Call "reserve_sdr_repository" S0;
                                  Call "get_repository_sdr" L]);
  ("Sdr.get_repository_sdr_list", [Call "sdr_repository_entries" S0]);
  ("Sdr.clear_sdr_repository", [Other "method reference self.reserve_sdr_repository passed as a value";
                                Other "method reference self._clear_sdr_repository passed as a value"]);
  ("Sensor._get_device_sdr_chunk", [Other "method reference self.send_message passed as a value";
                                    Other "method reference self.reserve_device_sdr_repository passed as a value"]);
  ("Sensor.get_device_sdr", [Other "method reference self.reserve_device_sdr_repository passed as a value";
                             Other "method reference self._get_device_sdr_chunk passed as a value"]);
  ("Sensor.device_sdr_entries", [Other "generator function"; Call "reserve_device_sdr_repository" S0;
                                 Call "get_device_sdr" L]);
  ("Sensor.get_device_sdr_list", [Call "device_sdr_entries" S0]);
  (* SEL (modelled for C12 in Model/SelIO.v) *)
  ("Sel.clear_sel", [Other "method reference self.get_sel_reservation_id passed as a value";
                     Other "method reference self._clear_sel passed as a value"]);
  ("Sel.get_and_clear_sel_entry", [Call "get_sel_reservation_id" L; Call "get_sel_entry" TL;
                                   Call "delete_sel_entry" TL]);
  ("Sel.get_sel_entry", [Exch "GetSelEntry" ChkNone L]);
  ("Sel.sel_entries", [Other "generator function"; Call "get_sel_entries_count" S0;
                       Call "get_sel_reservation_id" B; Call "get_sel_entry" LB]);
  ("Sel.get_sel_entries", [Call "sel_entries" S0]);
  (* HPM.1 upgrade drivers (upload loop modelled for C18 in Model/HpmUpload.v) *)
  ("Hpm.find_component_id_by_descriptor", [Call "get_target_upgrade_capabilities" S0;
                                           Call "get_component_property" L]);
  ("Hpm.initiate_upgrade_action_and_wait", [Call "initiate_upgrade_action" T;
                                            Call "wait_for_long_duration_command" B]);
  ("Hpm.upload_binary", [Call "_determine_max_block_size" S0; Call "upload_firmware_block" TL;
                         Call "wait_for_long_duration_command" LB]);
  ("Hpm.finish_upload_and_wait", [Call "finish_firmware_upload" T; Call "wait_for_long_duration_command" B]);
  ("Hpm.wait_for_long_duration_command", [Call "get_upgrade_status" TL]);
  ("Hpm.activate_firmware_and_wait", [Call "activate_firmware" T; Call "wait_for_long_duration_command" B]);
  ("Hpm.initiate_manual_rollback_and_wait", [Call "initiate_manual_rollback" T;
                                             Call "wait_for_long_duration_command" B]);
  ("Hpm.upgrade_stage", [Call "initiate_upgrade_action_and_wait" L; Call "upload_binary" LB;
                         Call "finish_upload_and_wait" LB]);
  ("Hpm.wait_until_new_firmware_comes_up", [Call "get_upgrade_status" TL; Call "get_device_id" TL]);
  ("Hpm.activation_stage", [Call "activate_firmware_and_wait" S0; Call "wait_until_new_firmware_comes_up" S0;
                            Call "_activation_state_do_self_testing" S0]);
  ("Hpm.install_component_from_image", [Call "abort_firmware_upgrade" S0; Call "preparation_stage" S0;
                                        Call "upgrade_stage" S0; Call "activation_stage" S0]);
  ("Hpm.install_component_from_file", [Call "install_component_from_image" S0])
]%string.

Definition qname (o : op) : string := (o_class o ++ "." ++ o_name o)%string.

(* (a name may be recorded with alternative shapes: before / after a repair of another property) *)
Definition handled (o : op) : bool :=
  existsb (fun '(k, s) => String.eqb k (qname o) && list_eqb step_eqb s (o_steps o)) hand_shapes.

Definition classified (ops : list op) (o : op) : bool := simple_checked ops o || handled o.

(* DOWNGRADE RULE: an operation whose shape the translator could not produce in this run - a step
   [Untranslated why] other than an unresolved attribute ("no such attribute ..." is a fact about the
   code, not a refusal) - or that calls such an operation, is "tainted": the class theorem is not
   claimed for it in this run; the harness lists it as ops_downgraded and requires that the fault
   oracle exercised it.  An operation whose shape IS produced but is neither in the class nor has
   its recorded shape is "reshaped": the same requirement (named in the evidence, clean oracle run
   required); see Props/C08.v. *)
Definition refusal (s : step) : bool :=
  match s with
  | Untranslated w => negb (String.prefix "no such attribute" w)
  | _ => false
  end.
Fixpoint tainted_steps (ops : list op) (fuel : nat) (l : list step) : bool :=
  match fuel with
  | O => false
  | S f =>
    existsb (fun s =>
      refusal s ||
      match s with
      | Call m _ => match find_op ops m with Some o => tainted_steps ops f (o_steps o) | None => false end
      | CallName _ _ => match find_op ops "send_message_with_name" with
                        | Some o => tainted_steps ops f (o_steps o) | None => false end
      | _ => false
      end) l
  end.
Definition tainted (ops : list op) (o : op) : bool := tainted_steps ops (S (length ops)) (o_steps o).
Definition classified_or_downgraded (ops : list op) (o : op) : bool := classified ops o || tainted ops o.
(* shape produced, but neither in the class nor the recorded one: judged by the oracle only in this run *)
Definition reshaped (ops : list op) (o : op) : bool := negb (classified ops o) && negb (tainted ops o).

(* an operation must not be in both lists (a recorded shape that has become straight-line
   would otherwise hide behind the oracle-only label) *)
Definition exclusive (ops : list op) (o : op) : bool := negb (simple_checked ops o && handled o).
