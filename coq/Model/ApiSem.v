(* C07 - meaning of the CONTENT of the straight-line API methods.

   gen/apifrag.py translates the body of each method of the fragment (calls to other
   methods / helpers of the fragment inlined, constant loops unrolled, `return` brought
   into tail position) into a list of [stmt] over a small expression type [pexp] with
   Python value semantics; this file is the interpreter: requests are built by [create]
   on the GENERATED layout (Gen/Layouts.v) + field assignments, encoded by Model.Codec,
   sent through the hand model of Ipmi.send_message, the reply is decoded with the
   generated response layout, and the result expression is evaluated.
   Executable definitions only. *)
From Coq Require Import String Ascii.
From Coq Require Import NArith ZArith List Bool.
From PyIpmi Require Import Lib.Res Lib.Bytes Lib.Prog Model.Codec Model.ApiShape.
Import ListNotations.
Open Scope Z_scope.

(* ---- Python values ---- *)
Inductive pv :=
| PInt (z : Z)
| PBool (b : bool)
| PNone
| PStr (s : string)
| PBytes (l : list N)                       (* bytes / array('B') / ByteBuffer / tuple of byte values from a message field *)
| PList (l : list pv)                       (* list / tuple *)
| PObj (cls : string) (fs : list (string * pv)).   (* instance (State subclass, argument object) / dict with string keys *)

Fixpoint pv_eqb (a b : pv) {struct a} : bool :=
  match a, b with
  | PInt x, PInt y => x =? y
  | PBool x, PBool y => Bool.eqb x y
  | PInt x, PBool y | PBool y, PInt x => x =? (if y then 1 else 0)    (* True == 1 *)
  | PNone, PNone => true
  | PStr x, PStr y => String.eqb x y
  | PBytes x, PBytes y => bytes_eqb x y
  | PList l, PList m =>
      (fix go (l m : list pv) : bool :=
         match l, m with
         | [], [] => true
         | x :: l', y :: m' => pv_eqb x y && go l' m'
         | _, _ => false
         end) l m
  | PObj c f, PObj d g =>
      String.eqb c d &&
      (fix go (f g : list (string * pv)) : bool :=
         match f, g with
         | [], [] => true
         | (k, x) :: f', (k', y) :: g' => String.eqb k k' && pv_eqb x y && go f' g'
         | _, _ => false
         end) f g
  | _, _ => false
  end.

Definition truthy (v : pv) : bool :=
  match v with
  | PInt z => negb (z =? 0)
  | PBool b => b
  | PNone => false
  | PStr s => negb (String.eqb s "")
  | PBytes l => match l with [] => false | _ => true end
  | PList l => match l with [] => false | _ => true end
  | PObj _ _ => true
  end.

Definition as_int (v : pv) : res Z :=
  match v with
  | PInt z => Ok z
  | PBool b => Ok (if b then 1 else 0)
  | _ => Err (OtherError TypeError)
  end.

Inductive binop := Add | Sub | Mul | FloorDiv | Mod | BitAnd | BitOr | BitXor | LShift | RShift.
Inductive cmpop := Eq | NotEq | Lt | LtE | Gt | GtE | In | NotIn | Is | IsNot.

Definition bytes_of_pv (v : pv) : res (list N) :=
  match v with
  | PBytes l => Ok l
  | PStr s => Ok (bytes_of_string s)
  | PList l =>
      (fix go (l : list pv) : res (list N) :=
         match l with
         | [] => Ok []
         | x :: r => do z <- as_int x; do t <- go r;
                     if (z <? 0) || (255 <? z) then Err (OtherError ValueError) else Ok (Z.to_N z :: t)
         end) l
  | _ => Err (OtherError TypeError)
  end.

Definition eval_bin (o : binop) (a b : pv) : res pv :=
  match o, a, b with
  | Add, PBytes x, PBytes y => Ok (PBytes (x ++ y))
  | Add, PList x, PList y => Ok (PList (x ++ y))
  | Add, PStr x, PStr y => Ok (PStr (x ++ y))
  | _, _, _ =>
    do x <- as_int a; do y <- as_int b;
    match o with
    | Add => Ok (PInt (x + y))
    | Sub => Ok (PInt (x - y))
    | Mul => Ok (PInt (x * y))
    | FloorDiv => if y =? 0 then Err (OtherError OtherExc) else Ok (PInt (x / y))
    | Mod => if y =? 0 then Err (OtherError OtherExc) else Ok (PInt (x mod y))
    | BitAnd => Ok (PInt (Z.land x y))
    | BitOr => Ok (PInt (Z.lor x y))
    | BitXor => Ok (PInt (Z.lxor x y))
    | LShift => if y <? 0 then Err (OtherError ValueError) else Ok (PInt (Z.shiftl x y))
    | RShift => if y <? 0 then Err (OtherError ValueError) else Ok (PInt (Z.shiftr x y))
    end
  end.

Definition items (v : pv) : res (list pv) :=
  match v with
  | PList l => Ok l
  | PBytes l => Ok (map (fun b => PInt (Z.of_N b)) l)
  | _ => Err (OtherError TypeError)
  end.

Definition eval_cmp (o : cmpop) (a b : pv) : res pv :=
  match o with
  | Eq => Ok (PBool (pv_eqb a b))
  | NotEq => Ok (PBool (negb (pv_eqb a b)))
  | Is => Ok (PBool (match a, b with PNone, PNone => true | PNone, _ | _, PNone => false | _, _ => pv_eqb a b end))
  | IsNot => Ok (PBool (negb (match a, b with PNone, PNone => true | PNone, _ | _, PNone => false | _, _ => pv_eqb a b end)))
  | In => do l <- items b; Ok (PBool (existsb (pv_eqb a) l))
  | NotIn => do l <- items b; Ok (PBool (negb (existsb (pv_eqb a) l)))
  | Lt => do x <- as_int a; do y <- as_int b; Ok (PBool (x <? y))
  | LtE => do x <- as_int a; do y <- as_int b; Ok (PBool (x <=? y))
  | Gt => do x <- as_int a; do y <- as_int b; Ok (PBool (y <? x))
  | GtE => do x <- as_int a; do y <- as_int b; Ok (PBool (y <=? x))
  end.

(* ---- expressions ---- *)
Inductive pexp :=
| EConst (v : pv)
| EVar (x : string)
| EAttr (e : pexp) (a : string)                  (* attribute of an instance value *)
| EField (x : string) (path : list string)       (* message variable x: x.a or x.a.b *)
| EHasField (x : string) (path : list string)    (* hasattr(x.a, "b") *)
| EIndex (e i : pexp)
| ESlice (e : pexp) (lo hi : option pexp)
| EBin (o : binop) (a b : pexp)
| ECmp (o : cmpop) (a b : pexp)
| ENot (a : pexp)
| EAnd (a b : pexp)
| EOr (a b : pexp)
| EIf (c a b : pexp)
| ETable (t : string) (k : pexp) (d : option pexp)   (* TABLE[k] / TABLE.get(k, d) *)
| ERange (lo hi : Z)                             (* a module-level list(range(lo, hi)) constant *)
| EList (l : list pexp)
| ECall (f : string) (args : list pexp)          (* builtins, see [builtin] *)
| EMsg (x : string).                             (* the message object itself, as a value *)

(* message variables: the generated layout, the field values, the LUN attribute *)
Record mvar := mkMvar { mv_msg : string; mv_layout : layout; mv_env : env; mv_lun : N }.

Record frame := mkFrame {
  fr_locals : list (string * pv);
  fr_msgs : list (string * mvar) }.

Definition table := list (pv * pv).

Fixpoint assoc {A} (k : string) (l : list (string * A)) : option A :=
  match l with
  | [] => None
  | (k', v) :: r => if String.eqb k k' then Some v else assoc k r
  end.

Fixpoint upd {A} (k : string) (v : A) (l : list (string * A)) : list (string * A) :=
  match l with
  | [] => [(k, v)]
  | (k', v') :: r => if String.eqb k k' then (k, v) :: r else (k', v') :: upd k v r
  end.

Fixpoint index_of (s : string) (l : list string) (i : nat) : option nat :=
  match l with
  | [] => None
  | x :: r => if String.eqb s x then Some i else index_of s r (S i)
  end.

Definition val_to_pv (v : val) : pv :=
  match v with
  | VInt n => PInt (Z.of_N n)
  | VBytes b => PBytes b
  | VNone => PNone
  | VBits vs => PList (map (fun n => PInt (Z.of_N n)) vs)     (* not used directly: bit members are read by name *)
  end.

Definition layout_fields (l : layout) : list fld := match l with Fields fs => fs | _ => [] end.

(* a message object as a value: fields by name, bit-field members by name *)
Definition msg_value (m : mvar) : pv :=
  PObj (mv_msg m)
    (map (fun '(f, v) =>
            (f_name f,
             match v with
             | VBits vs => PObj "bits" (combine (f_bitnames f) (map (fun n => PInt (Z.of_N n)) vs))
             | _ => val_to_pv v
             end))
         (combine (layout_fields (mv_layout m)) (mv_env m))).

(* x.a / x.a.b on a message object *)
Definition get_field (m : mvar) (path : list string) : res pv :=
  match path with
  | ["lun"%string] => Ok (PInt (Z.of_N (mv_lun m)))
  | [a] =>
      match index_of a (map f_name (layout_fields (mv_layout m))) 0 with
      | Some i => match nth_error (layout_fields (mv_layout m)) i, nth_error (mv_env m) i with
                  | Some f, Some (VBits vs) =>        (* the bit-field object itself (x = rsp.a; ... x.b) *)
                      Ok (PObj "bits" (combine (f_bitnames f) (map (fun n => PInt (Z.of_N n)) vs)))
                  | _, Some v => Ok (val_to_pv v)
                  | _, None => Err (OtherError AttributeError)
                  end
      | None => Err (OtherError AttributeError)
      end
  | [a; b] =>
      match index_of a (map f_name (layout_fields (mv_layout m))) 0 with
      | Some i =>
          match nth_error (layout_fields (mv_layout m)) i, nth_error (mv_env m) i with
          | Some f, Some (VBits vs) =>
              match index_of b (f_bitnames f) 0 with
              | Some j => match nth_error vs j with
                          | Some n => Ok (PInt (Z.of_N n))
                          | None => Err (OtherError AttributeError)
                          end
              | None => Err (OtherError AttributeError)
              end
          | _, _ => Err (OtherError AttributeError)
          end
      | None => Err (OtherError AttributeError)
      end
  | _ => Err (OtherError AttributeError)
  end.

Definition has_field (m : mvar) (path : list string) : bool :=
  match path with
  | [a] => match index_of a (map f_name (layout_fields (mv_layout m))) 0 with Some _ => true | None => false end
  | [a; b] =>
      match index_of a (map f_name (layout_fields (mv_layout m))) 0 with
      | Some i => match nth_error (layout_fields (mv_layout m)) i with
                  | Some f => match index_of b (f_bitnames f) 0 with Some _ => true | None => false end
                  | None => false
                  end
      | None => false
      end
  | _ => false
  end.

Fixpoint set_nth {A} (i : nat) (v : A) (l : list A) : list A :=
  match l, i with
  | [], _ => []
  | _ :: r, O => v :: r
  | x :: r, S i' => x :: set_nth i' v r
  end.

(* the value stored in a message attribute (the codec sees it at encode time) *)
Definition pv_to_val (v : pv) : res val :=
  match v with
  | PInt z => if z <? 0 then Err (OtherError OtherExc) else Ok (VInt (Z.to_N z))
  | PBool b => Ok (VInt (if b then 1%N else 0%N))
  | PNone => Ok VNone
  | PStr s => Ok (VBytes (bytes_of_string s))
  | PBytes l => Ok (VBytes l)
  | PList _ => do l <- bytes_of_pv v; Ok (VBytes l)
  | PObj _ _ => Err (OtherError TypeError)
  end.

Definition set_field (m : mvar) (path : list string) (v : pv) : res mvar :=
  match path with
  | ["lun"%string] => do z <- as_int v;
                      if z <? 0 then Err (OtherError OtherExc)
                      else Ok (mkMvar (mv_msg m) (mv_layout m) (mv_env m) (Z.to_N z))
  | [a] =>
      match index_of a (map f_name (layout_fields (mv_layout m))) 0 with
      | Some i => do x <- pv_to_val v;
                  Ok (mkMvar (mv_msg m) (mv_layout m) (set_nth i x (mv_env m)) (mv_lun m))
      | None => Err (OtherError OtherExc)        (* a new Python attribute: outside the fragment *)
      end
  | [a; b] =>
      match index_of a (map f_name (layout_fields (mv_layout m))) 0 with
      | Some i =>
          match nth_error (layout_fields (mv_layout m)) i, nth_error (mv_env m) i with
          | Some f, Some (VBits vs) =>
              match index_of b (f_bitnames f) 0 with
              | Some j => do z <- as_int v;
                          if z <? 0 then Err (OtherError OtherExc)
                          else Ok (mkMvar (mv_msg m) (mv_layout m)
                                     (set_nth i (VBits (set_nth j (Z.to_N z) vs)) (mv_env m)) (mv_lun m))
              | None => Err (OtherError OtherExc)
              end
          | _, _ => Err (OtherError AttributeError)
          end
      | None => Err (OtherError AttributeError)
      end
  | _ => Err (OtherError AttributeError)
  end.

Fixpoint ljust (s : string) (n : nat) (c : ascii) : string :=
  match n with
  | O => s
  | S n' => match s with
            | EmptyString => String c (ljust EmptyString n' c)
            | String a r => String a (ljust r n' c)
            end
  end.

(* decimal text of a natural number, and back *)
Fixpoint dec_digits (fuel : nat) (n : N) (acc : string) : string :=
  match fuel with
  | O => acc
  | S f => let d := ascii_of_N (48 + n mod 10)%N in
           if (n <? 10)%N then String d acc else dec_digits f (n / 10)%N (String d acc)
  end.
Definition dec_of_N (n : N) : string := dec_digits 40 n "".
Definition hex_digit (n : N) : ascii := ascii_of_N (if (n <? 10)%N then 48 + n else 87 + n)%N.
Definition hex2 (n : N) : string := String (hex_digit (n / 16 mod 16)%N) (String (hex_digit (n mod 16)%N) "").

Fixpoint join (sep : string) (l : list string) : string :=
  match l with
  | [] => ""
  | [x] => x
  | x :: r => x ++ sep ++ join sep r
  end.

Fixpoint parse_dec (s : string) (acc : option N) : option N :=
  match s with
  | EmptyString => acc
  | String c r =>
      let n := N_of_ascii c in
      if ((48 <=? n) && (n <=? 57))%N then
        parse_dec r (Some (match acc with Some a => a * 10 + (n - 48) | None => n - 48 end)%N)
      else None
  end.

Fixpoint split_on (c : ascii) (s : string) (cur : string) : list string :=
  match s with
  | EmptyString => [cur]
  | String a r => if Ascii.eqb a c then cur :: split_on c r "" else split_on c r (cur ++ String a "")
  end.

(* BCD_MAP of utils.py and int() of the two decoded characters (VersionField._decode_data) *)
Definition bcd_minor (b : N) : res Z :=
  if (b =? 255)%N then Ok 255
  else if (153 <? b)%N then Err DecodingError
  else
    let hi := (b / 16)%N in let lo := (b mod 16)%N in
    if (lo <? 10)%N then Ok (Z.of_N (hi * 10 + lo))
    else if (lo =? 10)%N then Ok (Z.of_N hi)               (* "d " : int() strips the blank *)
    else Err (OtherError ValueError).                      (* "d-", "d.", or no such BCD digit *)

(* builtins with hand-written meaning *)
Definition builtin (f : string) (args : list pv) : res pv :=
  match f, args with
  | "bool"%string, [v] => Ok (PBool (truthy v))
  | "int"%string, [v] => do z <- as_int v; Ok (PInt z)
  | "len"%string, [PBytes l] => Ok (PInt (Z.of_nat (length l)))
  | "len"%string, [PList l] => Ok (PInt (Z.of_nat (length l)))
  | "len"%string, [PStr s] => Ok (PInt (Z.of_nat (String.length s)))
  | "list"%string, [v] => do l <- items v; Ok (PList l)
  | "tuple"%string, [v] => do l <- items v; Ok (PList l)
  | "reversed"%string, [v] => do l <- items v; Ok (PList (rev l))
  | "bytebuffer"%string, [v] => do l <- bytes_of_pv v; Ok (PBytes l)    (* ByteBuffer([..]) = array('B', ..) *)
  | "ljust"%string, [PStr s; PInt n; PStr (String c EmptyString)] => Ok (PStr (ljust s (Z.to_nat n) c))
  | "isinstance_bool"%string, [v] => Ok (PBool (match v with PBool _ => true | _ => false end))
  | "isinstance_int"%string, [v] => Ok (PBool (match v with PBool _ | PInt _ => true | _ => false end))
  (* '.'.join(map(str, data)) *)
  | "join_dot_str"%string, [v] =>
      do l <- bytes_of_pv v; Ok (PStr (join "." (map dec_of_N l)))
  (* ':'.join([f"{i:02x}" for i in data]) *)
  | "join_colon_hex"%string, [v] =>
      do l <- bytes_of_pv v; Ok (PStr (join ":" (map hex2 l)))
  (* ByteBuffer(map(int, s.split('.'))) *)
  | "split_dot_int"%string, [PStr s] =>
      (fix go (l : list string) : res pv :=
         match l with
         | [] => Ok (PBytes [])
         | x :: r => match parse_dec x None with
                     | Some n => do t <- go r;
                                 match t with
                                 | PBytes bs => if (255 <? n)%N then Err (OtherError OtherExc) else Ok (PBytes (n :: bs))
                                 | _ => Err (OtherError TypeError)
                                 end
                     | None => Err (OtherError ValueError)
                     end
         end) (split_on "."%char s "")
  (* '%02x%02x%02x%02x-%02x%02x-%02x%02x-%02x%02x-%02x%02x%02x%02x%02x%02x' % tuple(reversed(guid)) *)
  | "guid_string"%string, [v] =>
      do l <- bytes_of_pv v;
      let r := rev l in
      let hx_ := fun (a b : nat) => join ""%string (map hex2 (firstn (b - a) (skipn a r))) in
      if Nat.eqb (length l) 16
      then Ok (PStr (join "-"%string [hx_ 0 4; hx_ 4 6; hx_ 6 8; hx_ 8 10; hx_ 10 16]%nat))
      else Err (OtherError TypeError)
  (* ComponentProperty.from_data(selector, data) of pyipmi/hpm.py with the five property classes and
     VersionField(data) - hand model *)
  | "component_property"%string, [PInt sel; v] =>
      do l <- bytes_of_pv v;
      let version := fun (cls : string) =>
        match l with
        | [] => Ok (PObj cls [])                                   (* `if (data):` false: nothing decoded *)
        | [_] => Err (OtherError IndexError)
        | ma :: mi :: _ => do m <- bcd_minor mi;
                           Ok (PObj cls [("version"%string,
                                          PObj "VersionField" [("major"%string, PInt (Z.of_N ma)); ("minor"%string, PInt m)])])
        end in
      if sel =? 0 then
        match l with
        | [] => Ok (PObj "ComponentPropertyGeneral" [])
        | cap :: _ =>
            let b := fun (i : N) => N.testbit cap i in
            let rb := (cap mod 4)%N in
            let opt := fun (i : N) (name : string) => if b i then [name] else @nil string in
            let first := if (rb =? 0)%N then "rollback_backup_not_supported"%string
                         else if (rb =? 3)%N then "reserved"%string else "rollback_is_supported"%string in
            Ok (PObj "ComponentPropertyGeneral" [("general"%string, PList (map PStr (
              List.app [first] (List.app (opt 2%N "prepartion"%string) (List.app (opt 3%N "comparison"%string)
              (List.app (opt 4%N "deferred_activation"%string) (opt 5%N "payload_cold_reset_required"%string)))))))])
        end
      else if sel =? 1 then version "ComponentPropertyCurrentVersion"%string
      else if sel =? 2 then
        match l with
        | [] => Ok (PObj "ComponentPropertyDescriptionString" [])
        | _ => Ok (PObj "ComponentPropertyDescriptionString"
                     [("description"%string,
                       PStr (fold_right (fun n acc => if (n =? 0)%N then acc else String (ascii_of_N n) acc) EmptyString l))])
        end
      else if sel =? 3 then version "ComponentPropertyRollbackVersion"%string
      else if sel =? 4 then version "ComponentPropertyDeferredVersion"%string
      else if (192 <=? sel) && (sel <? 255) then Err (OtherError NotImplementedErr)
      else Ok PNone
  (* VersionField((major, minor)) *)
  | "version_field"%string, [PInt ma; PInt mi] =>
      if (mi <? 0) || (255 <? mi) || (ma <? 0) || (255 <? ma) then Err (OtherError OtherExc)
      else do m <- bcd_minor (Z.to_N mi);
           Ok (PObj "VersionField" [("major"%string, PInt ma); ("minor"%string, PInt m)])
  | _, _ => Err (OtherError OtherExc)
  end.

Fixpoint lookup_table (t : table) (k : pv) : option pv :=
  match t with
  | [] => None
  | (k', v) :: r => if pv_eqb k k' then Some v else lookup_table r k
  end.

Definition slice {A} (l : list A) (lo hi : option Z) : list A :=
  let n := Z.of_nat (length l) in
  let norm := fun (o : option Z) (d : Z) =>
    match o with
    | None => d
    | Some z => let z' := if z <? 0 then z + n else z in Z.max 0 (Z.min n z')
    end in
  let a := norm lo 0 in let b := norm hi n in
  firstn (Z.to_nat (b - a)) (skipn (Z.to_nat a) l).

Section Eval.
  Variable tables : list (string * table).

  Fixpoint eval (F : frame) (e : pexp) {struct e} : res pv :=
    match e with
    | EConst v => Ok v
    | EVar x => match assoc x (fr_locals F) with Some v => Ok v | None => Err (OtherError OtherExc) end
    | EAttr e a =>
        do v <- eval F e;
        match v with
        | PObj _ fs => match assoc a fs with Some x => Ok x | None => Err (OtherError AttributeError) end
        | _ => Err (OtherError AttributeError)
        end
    | EField x path =>
        match assoc x (fr_msgs F) with Some m => get_field m path | None => Err (OtherError OtherExc) end
    | EHasField x path =>
        match assoc x (fr_msgs F) with Some m => Ok (PBool (has_field m path)) | None => Err (OtherError OtherExc) end
    | EIndex e i =>
        do v <- eval F e; do iv <- eval F i; do z <- as_int iv;
        do l <- items v;
        let z' := if z <? 0 then z + Z.of_nat (length l) else z in
        if z' <? 0 then Err (OtherError IndexError)
        else match nth_error l (Z.to_nat z') with Some x => Ok x | None => Err (OtherError IndexError) end
    | ESlice e lo hi =>
        do v <- eval F e;
        do a <- match lo with None => Ok None | Some x => do y <- eval F x; do z <- as_int y; Ok (Some z) end;
        do b <- match hi with None => Ok None | Some x => do y <- eval F x; do z <- as_int y; Ok (Some z) end;
        match v with
        | PBytes l => Ok (PBytes (slice l a b))
        | PList l => Ok (PList (slice l a b))
        | _ => Err (OtherError TypeError)
        end
    | EBin o a b => do x <- eval F a; do y <- eval F b; eval_bin o x y
    | ECmp o a b => do x <- eval F a; do y <- eval F b; eval_cmp o x y
    | ENot a => do x <- eval F a; Ok (PBool (negb (truthy x)))
    | EAnd a b => do x <- eval F a; if truthy x then eval F b else Ok x
    | EOr a b => do x <- eval F a; if truthy x then Ok x else eval F b
    | EIf c a b => do x <- eval F c; if truthy x then eval F a else eval F b
    | ETable t k d =>
        do kv <- eval F k;
        match assoc t tables with
        | None => Err (OtherError OtherExc)
        | Some tb => match lookup_table tb kv, d with
                     | Some v, _ => Ok v
                     | None, Some de => eval F de
                     | None, None => Err (OtherError KeyError)
                     end
        end
    | ERange lo hi => Ok (PList (map (fun i => PInt (lo + Z.of_nat i)) (seq 0 (Z.to_nat (hi - lo)))))
    | EList l =>
        do vs <- (fix go (l : list pexp) : res (list pv) :=
                    match l with
                    | [] => Ok []
                    | x :: r => do v <- eval F x; do t <- go r; Ok (v :: t)
                    end) l;
        Ok (PList vs)
    | ECall f args =>
        do vs <- (fix go (l : list pexp) : res (list pv) :=
                    match l with
                    | [] => Ok []
                    | x :: r => do v <- eval F x; do t <- go r; Ok (v :: t)
                    end) args;
        builtin f vs
    | EMsg x => match assoc x (fr_msgs F) with Some m => Ok (msg_value m) | None => Err (OtherError OtherExc) end
    end.
End Eval.

(* ---- statements ---- *)
Inductive stmt :=
| SLet (x : string) (e : pexp)                              (* x = e *)
| SNewReq (x : string) (msg : string)                       (* x = create_request_by_name(msg) *)
| SSetField (x : string) (path : list string) (e : pexp)    (* x.a[.b] = e / setattr(x.a, b, e) / kwargs of send_message_with_name *)
| SSend (rsp req : string) (chk : bool)                     (* rsp = self.send_message(req) [; check completion code] *)
| SCheck (rsp : string)                                     (* check_completion_code(rsp.completion_code) / check_rsp_completion_code(rsp) *)
| SNewObj (x cls : string) (inits : list (string * pv))     (* x = Cls(): class-level data attributes, __properties__ = None *)
| SSetAttr (x a : string) (e : pexp)                        (* x.a = e on an instance *)
| SAppendAttr (x a : string) (e : pexp)                     (* x.a.append(e) *)
| SAppend (x : string) (e : pexp)                           (* x.append(e) *)
| SSetKey (x : string) (k : string) (e : pexp)              (* x[k] = e on a dict with string keys *)
| SIf (c : pexp) (a b : list stmt)
| SRaise (e : err)
| SUnsupported (why : string).                              (* fail closed: the operation is not in the fragment *)

(* the message registry, as far as sending needs it *)
Record msginfo := mkMi { mi_netfn : N; mi_cmd : N; mi_lun : N; mi_layout : layout }.

Section Exec.
  Variable tables : list (string * table).
  Variable find_msg : string -> option msginfo.

  Definition ev F e := eval tables F e.

  Definition set_local (F : frame) (x : string) (v : pv) : frame :=
    mkFrame (upd x v (fr_locals F)) (fr_msgs F).
  Definition set_msg (F : frame) (x : string) (m : mvar) : frame :=
    mkFrame (fr_locals F) (upd x m (fr_msgs F)).

  (* statements are consumed one by one; an `if` puts the chosen branch in front of the
     rest, so [fuel] bounds the number of statements executed *)
  Fixpoint exec (fuel : nat) (F : frame) (l : list stmt) (ret : pexp) : prog pv :=
    match fuel with
    | O => Raise OutOfFuel
    | S fuel' =>
      match l with
      | [] => lift (ev F ret)
      | s :: r =>
        match s with
        | SLet x e => match ev F e with Ok v => exec fuel' (set_local F x v) r ret | Err er => Raise er end
        | SNewReq x msg =>
            match find_msg (msg ++ "Req") with
            | Some mi => match create (mi_layout mi) with
                         | Ok e => exec fuel' (set_msg F x (mkMvar msg (mi_layout mi) e (mi_lun mi))) r ret
                         | Err er => Raise er
                         end
            | None => Raise (OtherError OtherExc)
            end
        | SSetField x path e =>
            match assoc x (fr_msgs F), ev F e with
            | Some m, Ok v => match set_field m path v with
                              | Ok m' => exec fuel' (set_msg F x m') r ret
                              | Err er => Raise er
                              end
            | _, Err er => Raise er
            | None, _ => Raise (OtherError OtherExc)
            end
        | SSend rsp req chk =>
            match assoc req (fr_msgs F) with
            | None => Raise (OtherError OtherExc)
            | Some m =>
              match find_msg (mv_msg m ++ "Req"), find_msg (mv_msg m ++ "Rsp") with
              | Some qi, Some ri =>
                match encode (mv_layout m) (mv_env m) with
                | Err er => Raise er
                | Ok bytes =>
                    send_message 3 (mkReq (mi_netfn qi) (mi_cmd qi) (mv_lun m) bytes)
                      (fun d =>
                         match decode (mi_layout ri) d with
                         | Err er => Raise er
                         | Ok (e, _) =>
                             let F' := set_msg F rsp (mkMvar (mv_msg m) (mi_layout ri) e (mi_lun ri)) in
                             if chk then
                               match nth_error e 0 with
                               | Some (VInt 0%N) => exec fuel' F' r ret
                               | Some (VInt cc) => Raise (CCError cc)
                               | _ => Raise (OtherError AttributeError)
                               end
                             else exec fuel' F' r ret
                         end)
                end
              | _, _ => Raise (OtherError OtherExc)
              end
            end
        | SCheck rsp =>
            match assoc rsp (fr_msgs F) with
            | Some m => match nth_error (mv_env m) 0 with
                        | Some (VInt 0%N) => exec fuel' F r ret
                        | Some (VInt cc) => Raise (CCError cc)
                        | _ => Raise (OtherError AttributeError)
                        end
            | None => Raise (OtherError OtherExc)
            end
        | SNewObj x cls inits =>
            exec fuel' (set_local F x (PObj cls inits)) r ret
        | SSetAttr x a e =>
            match assoc x (fr_locals F), ev F e with
            | Some (PObj c fs), Ok v => exec fuel' (set_local F x (PObj c (upd a v fs))) r ret
            | _, Err er => Raise er
            | _, _ => Raise (OtherError AttributeError)
            end
        | SAppendAttr x a e =>
            match assoc x (fr_locals F), ev F e with
            | Some (PObj c fs), Ok v =>
                match assoc a fs with
                | Some (PList l) => exec fuel' (set_local F x (PObj c (upd a (PList (l ++ [v])) fs))) r ret
                | _ => Raise (OtherError AttributeError)
                end
            | _, Err er => Raise er
            | _, _ => Raise (OtherError AttributeError)
            end
        | SAppend x e =>
            match assoc x (fr_locals F), ev F e with
            | Some (PList l), Ok v => exec fuel' (set_local F x (PList (l ++ [v]))) r ret
            | _, Err er => Raise er
            | _, _ => Raise (OtherError AttributeError)
            end
        | SSetKey x k e =>
            match assoc x (fr_locals F), ev F e with
            | Some (PObj c fs), Ok v => exec fuel' (set_local F x (PObj c (upd k v fs))) r ret
            | _, Err er => Raise er
            | _, _ => Raise (OtherError TypeError)
            end
        | SIf c a b =>
            match ev F c with
            | Ok v => exec fuel' F ((if truthy v then a else b) ++ r) ret
            | Err er => Raise er
            end
        | SRaise er => Raise er
        | SUnsupported _ => Raise (OtherError NotImplementedErr)
        end
      end
    end.
End Exec.

(* one translated operation *)
Record cop := mkCop {
  c_class : string; c_name : string;
  c_params : list (string * option pv);     (* parameter names with their default values *)
  c_body : list stmt;
  c_ret : pexp;
  c_fuel : nat }.

Fixpoint bind_args (ps : list (string * option pv)) (args : list (string * pv)) : res (list (string * pv)) :=
  match ps with
  | [] => Ok []
  | (p, d) :: r =>
      do t <- bind_args r args;
      match assoc p args, d with
      | Some v, _ => Ok ((p, v) :: t)
      | None, Some v => Ok ((p, v) :: t)
      | None, None => Err (OtherError TypeError)
      end
  end.

Definition run_op tables find_msg (o : cop) (args : list (string * pv)) : prog pv :=
  match bind_args (c_params o) args with
  | Ok locals => exec tables find_msg (c_fuel o) (mkFrame locals []) (c_body o) (c_ret o)
  | Err e => Raise e
  end.

(* does the body contain a refusal of the translator? *)
Fixpoint stmt_supported (s : stmt) : bool :=
  match s with
  | SUnsupported _ => false
  | SIf _ a b =>
      (fix go (l : list stmt) : bool := match l with [] => true | x :: r => stmt_supported x && go r end) a &&
      (fix go (l : list stmt) : bool := match l with [] => true | x :: r => stmt_supported x && go r end) b
  | _ => true
  end.
Definition supported (o : cop) : bool := forallb stmt_supported (c_body o).

Fixpoint why_stmt (s : stmt) : list string :=
  match s with
  | SUnsupported w => [w]
  | SIf _ a b =>
      (fix go (l : list stmt) : list string := match l with [] => [] | x :: r => why_stmt x ++ go r end) a ++
      (fix go (l : list stmt) : list string := match l with [] => [] | x :: r => why_stmt x ++ go r end) b
  | _ => []
  end.
Definition unsupported_why (l : list stmt) : list string := flat_map why_stmt l.
