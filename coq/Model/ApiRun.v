(* C07 - the generated operations (Gen/ApiContent.v) run against the reference BMC
   (Model/Bmc.v): glue definitions used by the theorems and by the case checkers.
   Executable definitions only. *)
From Coq Require Import String Ascii.
From Coq Require Import NArith ZArith List Bool.
From PyIpmi Require Import Lib.Res Lib.Bytes Lib.Prog Model.Codec Model.ApiShape Model.ApiSem Model.Bmc
  Gen.Layouts Gen.ApiContent.
Import ListNotations.
Open Scope N_scope.

Definition find_mi (n : string) : option msginfo :=
  match find (fun m => String.eqb (m_name m) n) registry with
  | Some m => Some (mkMi (m_netfn m) (m_cmd m) (m_lun m) (m_layout m))
  | None => None
  end.

Definition find_cop (n : string) : option cop :=
  find (fun o => String.eqb (c_name o) n) api_content.

Definition run_cop (o : cop) (args : list (string * pv)) : prog pv := run_op api_tables find_mi o args.

(* the operation [name] called with [args] on a connection to the BMC in state [s] *)
Definition call (name : string) (args : list (string * pv)) (s : store) : res pv * store :=
  match find_cop name with
  | Some o => let '(r, s', _) := run (run_cop o args) bmc_handle s [] in (r, s')
  | None => (Err (OtherError OtherExc), s)
  end.

(* the operation as one exchange: the request it sends and what it returns for the reply [rp] *)
Definition one_exchange (name : string) (args : list (string * pv)) (rp : reply) : option (request * res pv) :=
  match find_cop name with
  | Some o => match replay (run_cop o args) [rp] [] [] with
              | (out, [r], _, []) => Some (r, out)
              | _ => None
              end
  | None => None
  end.

Definition arg (k : string) (n : N) : string * pv := (k, PInt (Z.of_N n)).

Definition exch_eqb (x : option (request * res pv)) (r : request) (v : res pv) : bool :=
  match x with
  | Some (r', v') => request_eqb r' r && res_eqb pv_eqb v' v
  | None => false
  end.

(* purity obligations over the regenerated list *)
Definition is_shared_mutable (w : string) : bool := String.prefix "SharedMutable" w.
Definition pure_op (o : cop) : bool := negb (existsb is_shared_mutable (unsupported_why (c_body o))).

(* the operations that the C07 theorems and the reference semantics cover: they must be translated *)
Definition covered : list string := [
  "get_device_id"; "cold_reset"; "warm_reset"; "set_watchdog_timer"; "get_watchdog_timer"; "reset_watchdog_timer";
  "get_chassis_status"; "chassis_control"; "chassis_control_power_down"; "chassis_control_power_up";
  "chassis_control_power_cycle"; "chassis_control_hard_reset"; "chassis_control_diagnostic_interrupt";
  "chassis_control_soft_shutdown"; "get_system_boot_options"; "set_system_boot_options"; "get_boot_mode";
  "get_boot_persistency"; "get_boot_device"; "set_boot_options";
  "get_lan_config_param"; "set_lan_config_param"; "get_ip_address"; "set_ip_address"; "get_ip_source";
  "set_ip_source"; "get_mac_address"; "get_vlan_id"; "set_vlan_id";
  "set_username"; "get_username"; "get_user_access"; "set_user_access"; "set_user_password"; "enable_user";
  "disable_user";
  "rearm_sensor_events"; "get_sensor_reading"; "set_sensor_thresholds"; "get_sensor_thresholds";
  "send_platform_event"; "set_event_receiver"; "get_event_receiver";
  "get_picmg_properties"; "fru_control"; "fru_control_cold_reset"; "fru_control_warm_reset";
  "fru_control_graceful_reboot"; "fru_control_diagnostic_interrupt"; "get_power_level";
  "get_fan_speed_properties"; "set_fan_level"; "get_fan_level"; "get_led_state"; "set_led_state";
  "set_fru_activation"; "set_fru_deactivation"; "set_fru_activation_policy"; "set_fru_activation_lock";
  "clear_fru_activation_lock"; "set_fru_deactivation_lock"; "clear_fru_deactivation_lock";
  "get_target_upgrade_capabilities"; "get_upgrade_status"; "query_selftest_results";
  "set_port_state"; "get_port_state"; "set_signaling_class"; "get_signaling_class"; "send_channel_power";
  "get_power_channel_status"; "get_pm_global_status"; "send_pm_heartbeat";
  "get_device_guid"; "get_channel_authentication_capabilities"; "query_rollback_status"; "initiate_manual_rollback";
  "get_dcmi_capabilities"; "get_power_reading"; "i2c_write_read"; "i2c_read"; "i2c_write";
  "get_component_property"
]%string.

Definition is_supported (name : string) : bool :=
  match find_cop name with Some o => supported o | None => false end.
Definition is_present (name : string) : bool :=
  match find_cop name with Some _ => true | None => false end.

(* DOWNGRADE RULE: the obligations over the generated operations are stated for the operations that TRANSLATED IN THIS
   RUN.  For an operation that the translator refuses in this run (SUnsupported, other than SharedMutable) the table
   entries are vacuous and no theorem is claimed (every theorem has the hypothesis is_supported <op> = true); the
   harness lists it as ops_downgraded and REQUIRES that the history oracle exercised it in this run without failure. *)
Definition exch_ok (name : string) (args : list (string * pv)) (rp : reply) (r : request) (v : res pv) : bool :=
  if is_supported name then exch_eqb (one_exchange name args rp) r v else true.
