(* Bit-level facts, phrased with the code's own lor/shiftl/land/shiftr. *)
From Coq Require Import NArith List Lia ZArith ZifyN ZifyBool.
Import ListNotations.
Open Scope N_scope.
Ltac Zify.zify_post_hook ::= Z.to_euclidean_division_equations.

(* Python (BitWrapper._get_value): value |= (v & (2**w-1)) << off
   Python (BitWrapper._set_value): (value >> off) & (2**w-1)            *)
Fixpoint pack_at (off : N) (fs : list (N * N)) (acc : N) : N :=
  match fs with
  | [] => acc
  | (w, v) :: r => pack_at (off + w) r (N.lor acc (N.shiftl (N.land v (2^w - 1)) off))
  end.
Fixpoint unpack_at (off : N) (ws : list N) (x : N) : list N :=
  match ws with
  | [] => []
  | w :: r => N.land (N.shiftr x off) (2^w - 1) :: unpack_at (off + w) r x
  end.

Lemma land_ones w v : N.land v (2^w - 1) = v mod 2^w.
Proof. rewrite <- N.land_ones. f_equal. rewrite N.ones_equiv. apply N.sub_1_r. Qed.

Lemma lor_shift_add acc v off : acc < 2^off -> N.lor acc (N.shiftl v off) = acc + v * 2^off.
Proof.
  intros H. rewrite N.shiftl_mul_pow2.
  assert (Hl: N.land acc (v * 2^off) = 0); [|now rewrite N.add_nocarry_lxor, N.lxor_lor by exact Hl].
  apply N.bits_inj. intros n. rewrite N.land_spec, N.bits_0.
  destruct (N.ltb_spec n off) as [Hn|Hn].
  - rewrite N.mul_pow2_bits_low by assumption. apply Bool.andb_false_r.
  - destruct (N.eq_dec acc 0) as [->|Hz]; [now rewrite N.bits_0|].
    rewrite (N.bits_above_log2 acc n); [reflexivity|].
    apply N.log2_lt_pow2 in H; lia.
Qed.

Lemma shiftl_lor_add a b k : b < 2^k -> N.lor (N.shiftl a k) b = a * 2^k + b.
Proof. intros H. rewrite N.lor_comm, lor_shift_add by assumption. lia. Qed.

Fixpoint vals_ok (fs : list (N*N)) : Prop :=
  match fs with [] => True | (w,v)::r => v < 2^w /\ vals_ok r end.

Fixpoint total_width (ws : list N) : N := match ws with [] => 0 | w :: r => w + total_width r end.

Lemma pack_at_spec fs : forall off acc, acc < 2^off ->
  exists hi, pack_at off fs acc = acc + hi * 2^off.
Proof.
  induction fs as [|[w v] r IH]; intros off acc Hacc; cbn [pack_at].
  - exists 0. lia.
  - rewrite land_ones, lor_shift_add by assumption.
    destruct (IH (off + w) (acc + v mod 2^w * 2^off)) as [hi Hhi].
    { rewrite N.pow_add_r. assert (v mod 2^w < 2^w) by (apply N.mod_lt, N.pow_nonzero; lia). nia. }
    exists (v mod 2^w + hi * 2^w). rewrite Hhi, N.pow_add_r. ring.
Qed.

Lemma pack_at_bound fs : forall off acc, acc < 2^off ->
  pack_at off fs acc < 2^(off + total_width (map fst fs)).
Proof.
  induction fs as [|[w v] r IH]; intros off acc Hacc; cbn [pack_at map fst total_width].
  - now rewrite N.add_0_r.
  - rewrite land_ones, lor_shift_add by assumption. rewrite N.add_assoc. apply IH.
    rewrite N.pow_add_r. assert (v mod 2^w < 2^w) by (apply N.mod_lt, N.pow_nonzero; lia). nia.
Qed.

(* decode then re-encode: members read from x re-assemble x (when the widths cover x) *)
Lemma unpack_pack fs : forall off acc, acc < 2^off -> vals_ok fs ->
  unpack_at off (map fst fs) (pack_at off fs acc) = map snd fs.
Proof.
  induction fs as [|[w v] r IH]; intros off acc Hacc Hok; cbn [pack_at unpack_at map fst snd]; [reflexivity|].
  destruct Hok as [Hv Hok].
  rewrite (land_ones w v). rewrite (lor_shift_add acc _ off Hacc).
  rewrite N.mod_small by assumption.
  assert (Hacc' : acc + v * 2^off < 2^(off + w)) by (rewrite N.pow_add_r; nia).
  f_equal.
  - destruct (pack_at_spec r (off + w) _ Hacc') as [hi ->].
    rewrite land_ones, N.shiftr_div_pow2, N.pow_add_r.
    replace (acc + v * 2^off + hi * (2^off * 2^w)) with (acc + (v + hi * 2^w) * 2^off) by ring.
    rewrite N.div_add by (apply N.pow_nonzero; lia).
    rewrite N.div_small by assumption. cbn [N.add].
    rewrite N.mod_add by (apply N.pow_nonzero; lia). apply N.mod_small; assumption.
  - apply IH; assumption.
Qed.

Lemma unpack_vals_ok ws : forall off x, vals_ok (combine ws (unpack_at off ws x)).
Proof.
  induction ws as [|w r IH]; intros off x; cbn; [exact I|]. split; [|apply IH].
  rewrite land_ones. apply N.mod_lt, N.pow_nonzero; lia.
Qed.

(* pack (unpack x) = x mod 2^total : what was decoded re-encodes to the same number *)
Lemma pack_unpack ws : forall off acc x, acc = x mod 2^off ->
  pack_at off (combine ws (unpack_at off ws x)) acc = x mod 2^(off + total_width ws).
Proof.
  induction ws as [|w r IH]; intros off acc x Hacc; cbn [unpack_at combine pack_at total_width].
  - now rewrite N.add_0_r.
  - rewrite N.add_assoc. apply IH.
    rewrite !land_ones, N.mod_mod by (apply N.pow_nonzero; lia).
    rewrite lor_shift_add by (subst acc; apply N.mod_lt, N.pow_nonzero; lia).
    subst acc. rewrite N.shiftr_div_pow2, N.pow_add_r.
    rewrite (N.mod_mul_r x (2^off) (2^w)) by (apply N.pow_nonzero; lia). lia.
Qed.

(* the two-field byte used by IPMB headers: hi << 2 | lo *)
Lemma byte62_enc hi lo : lo < 4 -> N.lor (N.shiftl hi 2) lo = hi * 4 + lo.
Proof. intros H. now rewrite (shiftl_lor_add hi lo 2) by (cbn; lia). Qed.
Lemma byte62_hi x : N.shiftr x 2 = x / 4.
Proof. now rewrite N.shiftr_div_pow2. Qed.
Lemma byte62_lo x : N.land x 3 = x mod 4.
Proof. change 3 with (2^2 - 1). apply land_ones. Qed.
