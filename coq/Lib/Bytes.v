(* Bytes are [N] (< 256 by the predicate [bytes_ok]); byte strings are lists. *)
From Coq Require Import String Ascii.
From Coq Require Import NArith List Lia ZArith ZifyN ZifyBool ZifyNat Bool.
Import ListNotations.
Open Scope N_scope.
Ltac Zify.zify_post_hook ::= Z.to_euclidean_division_equations.

Definition is_byte (b : N) : bool := b <? 256.
Definition bytes_ok (l : list N) : bool := forallb is_byte l.

(* little-endian, as ByteBuffer.push_unsigned_int / pop_unsigned_int *)
Fixpoint le_bytes (n : nat) (v : N) : list N :=
  match n with O => [] | S n' => (v mod 256) :: le_bytes n' (v / 256) end.
Fixpoint le_val (l : list N) : N :=
  match l with [] => 0 | b :: r => b + 256 * le_val r end.

Fixpoint sum (l : list N) : N := match l with [] => 0 | b :: r => b + sum r end.
Definition sum256 (l : list N) : N := sum l mod 256.

Fixpoint list_eqb {A} (eqb : A -> A -> bool) (a b : list A) : bool :=
  match a, b with
  | [], [] => true
  | x :: a', y :: b' => eqb x y && list_eqb eqb a' b'
  | _, _ => false
  end.
Definition bytes_eqb := list_eqb N.eqb.

Definition option_eqb {A} (eqb : A -> A -> bool) (a b : option A) : bool :=
  match a, b with Some x, Some y => eqb x y | None, None => true | _, _ => false end.

(* ---- helpers for the correspondence checks (cases files) ---- *)
Definition hexdigit (c : ascii) : N :=
  let n := N_of_ascii c in
  if (48 <=? n) && (n <=? 57) then n - 48
  else if (97 <=? n) && (n <=? 102) then n - 87
  else if (65 <=? n) && (n <=? 70) then n - 55 else 0.
Fixpoint hx (s : string) : list N :=
  match s with
  | String a (String b r) => (16 * hexdigit a + hexdigit b) :: hx r
  | _ => []
  end.
Fixpoint bytes_of_string (s : string) : list N :=
  match s with EmptyString => [] | String a r => N_of_ascii a :: bytes_of_string r end.

(* indices (as N) of the [false] entries of a list of case verdicts *)
Fixpoint failing_from (i : N) (l : list bool) : list N :=
  match l with
  | [] => []
  | b :: r => if b then failing_from (i + 1) r else i :: failing_from (i + 1) r
  end.
Definition failing := failing_from 0.

(* ---- lemmas ---- *)
Lemma bytes_ok_app a b : bytes_ok (a ++ b) = bytes_ok a && bytes_ok b.
Proof. apply forallb_app. Qed.

Lemma bytes_ok_firstn n d : bytes_ok d = true -> bytes_ok (firstn n d) = true.
Proof.
  revert d; induction n as [|n IH]; intros [|b r] H; cbn in *; try reflexivity.
  apply andb_prop in H as [H1 H2]. rewrite H1. cbn. auto.
Qed.
Lemma bytes_ok_skipn n d : bytes_ok d = true -> bytes_ok (skipn n d) = true.
Proof.
  revert d; induction n as [|n IH]; intros [|b r] H; cbn in *; try reflexivity; try assumption.
  apply andb_prop in H as [H1 H2]. auto.
Qed.
Lemma bytes_ok_In l : bytes_ok l = true <-> forall b, In b l -> b < 256.
Proof.
  unfold bytes_ok. rewrite forallb_forall. unfold is_byte.
  split; intros H b Hb; specialize (H b Hb); lia.
Qed.

Lemma le_bytes_length n v : length (le_bytes n v) = n.
Proof. revert v; induction n as [|n IH]; intros v; cbn; [reflexivity | now rewrite IH]. Qed.

Lemma le_bytes_ok n v : bytes_ok (le_bytes n v) = true.
Proof.
  revert v; induction n as [|n IH]; intros v; cbn [le_bytes bytes_ok forallb]; [reflexivity|].
  fold (bytes_ok (le_bytes n (v / 256))). rewrite IH. unfold is_byte.
  assert (v mod 256 < 256) by (apply N.mod_lt; lia). lia.
Qed.

Lemma le_bytes_val n : forall d, bytes_ok d = true -> length d = n -> le_bytes n (le_val d) = d.
Proof.
  induction n as [|n IH]; intros d Hb Hl; destruct d as [|b r]; try discriminate; [reflexivity|].
  cbn [le_bytes le_val]. cbn in Hb. apply andb_prop in Hb as [Hb1 Hb2]. unfold is_byte in Hb1.
  assert (b < 256) by lia. f_equal.
  - lia.
  - replace ((b + 256 * le_val r) / 256) with (le_val r) by lia.
    apply IH; [assumption | cbn in Hl; lia].
Qed.

Lemma le_val_bytes n : forall x, x < 256 ^ N.of_nat n -> le_val (le_bytes n x) = x.
Proof.
  induction n as [|n IH]; intros x Hx.
  - cbn in *. lia.
  - cbn [le_bytes le_val].
    assert (Hq : x / 256 < 256 ^ N.of_nat n).
    { rewrite Nat2N.inj_succ, N.pow_succ_r' in Hx. apply N.div_lt_upper_bound; lia. }
    rewrite (IH _ Hq). lia.
Qed.

Lemma le_val_bound d : bytes_ok d = true -> le_val d < 256 ^ N.of_nat (length d).
Proof.
  induction d as [|b r IH]; intros H; cbn [le_val length].
  - cbn. lia.
  - cbn in H. apply andb_prop in H as [H1 H2]. unfold is_byte in H1. specialize (IH H2).
    rewrite Nat2N.inj_succ, N.pow_succ_r'. lia.
Qed.

(* le_bytes only depends on the value modulo 256^n: out-of-range ints are truncated *)
Lemma le_bytes_mod n : forall v, le_bytes n (v mod 256 ^ N.of_nat n) = le_bytes n v.
Proof.
  induction n as [|n IH]; intros v; [reflexivity|].
  cbn [le_bytes]. rewrite Nat2N.inj_succ, N.pow_succ_r'.
  assert (Hp : 256 ^ N.of_nat n <> 0) by (apply N.pow_nonzero; lia).
  f_equal.
  - rewrite N.mod_mul_r by lia. rewrite N.mul_comm, N.mod_add by lia. apply N.mod_mod; lia.
  - rewrite <- (IH (v / 256)). f_equal.
    rewrite N.mod_mul_r by lia.
    rewrite (N.mul_comm 256), N.div_add by lia.
    rewrite (N.div_small (v mod 256) 256) by (apply N.mod_lt; lia). reflexivity.
Qed.

Lemma firstn_app_exact {A} n (a b : list A) : length a = n -> firstn n (a ++ b) = a.
Proof. intros <-. rewrite firstn_app, Nat.sub_diag, firstn_O, app_nil_r. apply firstn_all. Qed.
Lemma skipn_app_exact {A} n (a b : list A) : length a = n -> skipn n (a ++ b) = b.
Proof. intros <-. rewrite skipn_app, Nat.sub_diag, skipn_O, skipn_all. reflexivity. Qed.
Lemma skipn_skipn {A} (a b : nat) (l : list A) : skipn a (skipn b l) = skipn (b + a) l.
Proof.
  revert l; induction b as [|b IH]; intros l; [reflexivity|].
  destruct l as [|x l]; [now rewrite !skipn_nil | cbn; apply IH].
Qed.

Lemma sum_app a b : sum (a ++ b) = sum a + sum b.
Proof. induction a as [|x a IH]; cbn; [reflexivity | rewrite IH; lia]. Qed.

Lemma list_eqb_N_eq a : forall b, list_eqb N.eqb a b = true <-> a = b.
Proof.
  induction a as [|x a IH]; intros [|y b]; cbn; split; intros H; try discriminate; try reflexivity.
  - apply andb_prop in H as [H1 H2]. apply N.eqb_eq in H1. apply IH in H2. congruence.
  - injection H as -> ->. rewrite N.eqb_refl. cbn. now apply IH.
Qed.
