(* The interaction type used by every request/response loop: a client is a tree that
   either returns, raises, or sends a request and continues on the reply.
   Two interpreters: [run] against a Gallina device (for the theorems) and [replay]
   against a recorded list of replies (for the correspondence check: the same client
   definition is proved about and compared with the code). *)
From Coq Require Import NArith List Bool.
From PyIpmi Require Import Lib.Res Lib.Bytes.
Import ListNotations.
Open Scope N_scope.

(* one exchange as seen at Interface.send_and_receive: request = (netfn, cmd, lun,
   encoded request data); reply = the response data bytes starting with the completion
   code, or an exception raised by the transport *)
Record request := mkReq { q_netfn : N; q_cmd : N; q_lun : N; q_data : list N }.
Inductive reply := RBytes (d : list N) | RRaise (e : err).

Inductive prog (A : Type) :=
| Ret (a : A)
| Raise (e : err)
| Send (r : request) (k : reply -> prog A)
| Sleep (ms : N) (k : prog A).
Arguments Ret {A} a.
Arguments Raise {A} e.
Arguments Send {A} r k.
Arguments Sleep {A} ms k.

Fixpoint pbind {A B} (p : prog A) (f : A -> prog B) : prog B :=
  match p with
  | Ret a => f a
  | Raise e => Raise e
  | Send r k => Send r (fun x => pbind (k x) f)
  | Sleep ms k => Sleep ms (pbind k f)
  end.
Notation "'dop' x <- p ; k" := (pbind p (fun x => k))
  (at level 200, x name, p at level 100, k at level 200).

(* try/except: handler sees the error *)
Fixpoint pcatch {A} (p : prog A) (h : err -> prog A) : prog A :=
  match p with
  | Ret a => Ret a
  | Raise e => h e
  | Send r k => Send r (fun x => pcatch (k x) h)
  | Sleep ms k => Sleep ms (pcatch k h)
  end.

Definition lift {A} (r : res A) : prog A := match r with Ok a => Ret a | Err e => Raise e end.

(* a device: state machine answering requests *)
Definition device (S : Type) := S -> request -> S * reply.

Fixpoint run {A S} (p : prog A) (dev : device S) (s : S) (tr : list (request * reply))
  : res A * S * list (request * reply) :=
  match p with
  | Ret a => (Ok a, s, tr)
  | Raise e => (Err e, s, tr)
  | Send r k => let '(s', rp) := dev s r in run (k rp) dev s' (tr ++ [(r, rp)])
  | Sleep _ k => run k dev s tr
  end.

(* replay against recorded replies; returns outcome, the requests issued, the sleeps,
   and the replies left unread. Running out of replies is OutOfFuel. *)
Fixpoint replay {A} (p : prog A) (rs : list reply) (reqs : list request) (sl : list N)
  : res A * list request * list N * list reply :=
  match p with
  | Ret a => (Ok a, reqs, sl, rs)
  | Raise e => (Err e, reqs, sl, rs)
  | Send r k => match rs with
                | [] => (Err OutOfFuel, reqs ++ [r], sl, [])
                | rp :: rs' => replay (k rp) rs' (reqs ++ [r]) sl
                end
  | Sleep ms k => replay k rs reqs (sl ++ [ms])
  end.

Definition request_eqb (a b : request) : bool :=
  (q_netfn a =? q_netfn b) && (q_cmd a =? q_cmd b) && (q_lun a =? q_lun b)
  && bytes_eqb (q_data a) (q_data b).

(* standard reply parsing helpers: [cc :: data] *)
Definition reply_cc (rp : reply) : res (N * list N) :=
  match rp with
  | RBytes (cc :: d) => Ok (cc, d)
  | RBytes [] => Err DecodingError
  | RRaise e => Err e
  end.

(* the common "send, decode, check completion code" step: Ok data | CCError cc | transport error *)
Definition checked (rp : reply) : res (list N) :=
  match reply_cc rp with
  | Ok (0, d) => Ok d
  | Ok (cc, _) => Err (CCError cc)
  | Err e => Err e
  end.
