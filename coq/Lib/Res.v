(* Outcome type shared by every model: the image of Python's exceptions. *)
From Coq Require Import String.
From Coq Require Import NArith List.
Import ListNotations.

(* "An unrelated Python exception": the model's image of TypeError,
   AttributeError, IndexError, ... Theorems of the form "never any other
   exception" are statements [r <> Err (OtherError _)]. *)
Inductive pyexc := TypeError | AttributeError | IndexError | KeyError
                 | ValueError | AssertionError | NotImplementedErr | OtherExc.

Inductive err :=
| DecodingError | EncodingError | CCError (cc : N) | RetryError | TimeoutError
| HpmError | NotSupported | DescriptionError | ConnectionError | LongPasswordError
| OutOfFuel                      (* model-only: excluded by theorem statements *)
| OtherError (k : pyexc).

Inductive res (A : Type) := Ok (a : A) | Err (e : err).
Arguments Ok {A} a.
Arguments Err {A} e.

Definition bind {A B} (r : res A) (f : A -> res B) : res B :=
  match r with Ok a => f a | Err e => Err e end.
Notation "'do' x <- r ; k" := (bind r (fun x => k))
  (at level 200, x name, r at level 100, k at level 200).
Notation "'do' ' p <- r ; k" := (bind r (fun x => let 'p := x in k))
  (at level 200, p pattern, r at level 100, k at level 200).

Definition is_ok {A} (r : res A) : bool := match r with Ok _ => true | Err _ => false end.

Definition pyexc_eqb (a b : pyexc) : bool :=
  match a, b with
  | TypeError, TypeError | AttributeError, AttributeError | IndexError, IndexError
  | KeyError, KeyError | ValueError, ValueError | AssertionError, AssertionError
  | NotImplementedErr, NotImplementedErr | OtherExc, OtherExc => true
  | _, _ => false
  end.

Definition err_eqb (a b : err) : bool :=
  match a, b with
  | DecodingError, DecodingError | EncodingError, EncodingError
  | RetryError, RetryError | TimeoutError, TimeoutError | HpmError, HpmError
  | NotSupported, NotSupported | DescriptionError, DescriptionError
  | ConnectionError, ConnectionError | LongPasswordError, LongPasswordError
  | OutOfFuel, OutOfFuel => true
  | CCError x, CCError y => N.eqb x y
  | OtherError x, OtherError y => pyexc_eqb x y
  | _, _ => false
  end.

Definition res_eqb {A} (eqb : A -> A -> bool) (x y : res A) : bool :=
  match x, y with
  | Ok a, Ok b => eqb a b
  | Err e, Err f => err_eqb e f
  | _, _ => false
  end.

Lemma bind_ok {A B} (r : res A) (f : A -> res B) b :
  bind r f = Ok b -> exists a, r = Ok a /\ f a = Ok b.
Proof. destruct r; cbn; [eauto | discriminate]. Qed.
