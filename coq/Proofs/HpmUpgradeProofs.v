(* Lemmas for C18, upgrade drivers: Model/HpmUpgrade.v against ANY device.
   [Spec p E]: on every device, (a) a refusal is the last exchange and is turned into the
   stated error, (b) a successful run shows exactly the events E. *)
From Coq Require Import NArith ZArith List Lia ZifyN ZifyBool ZifyNat Bool.
From PyIpmi Require Import Lib.Res Lib.Bytes Lib.Prog Model.HpmImage Model.HpmImageSpec Model.HpmUpload
  Model.HpmDevice Model.HpmUpgrade Model.HpmUpgradeSpec Proofs.HpmImageProofs Proofs.HpmUploadProofs.
Import ListNotations.
Open Scope N_scope.
Ltac Zify.zify_post_hook ::= Z.to_euclidean_division_equations.

Definition trace {A S} (x : res A * S * list exch) : list exch := snd x.

(* a refusal, if any, is the last exchange of the transcript and is reported as err_for *)
Definition abort_inv {A} (r : res A) (tr : list exch) : Prop :=
  clean tr = true \/
  exists pre q cc d, tr = pre ++ [(q, RBytes (cc :: d))] /\ clean pre = true /\
                     refusal (q, RBytes (cc :: d)) = true /\ r = Err (err_for q cc).

Definition Spec {A} (p : prog A) (E : A -> list event -> Prop) : Prop :=
  forall S (dev : device S) (s : S),
    abort_inv (outcome (run p dev s [])) (trace (run p dev s [])) /\
    (forall a, outcome (run p dev s []) = Ok a -> E a (events_of (trace (run p dev s [])))).

Lemma events_of_app a b : events_of (a ++ b) = events_of a ++ events_of b.
Proof.
  induction a as [|[q rp] a IH]; [reflexivity|]. cbn. destruct (event_of q); cbn; now rewrite IH.
Qed.
Lemma clean_app a b : clean (a ++ b) = clean a && clean b.
Proof. apply forallb_app. Qed.

Lemma abort_inv_ok {A} (a : A) tr : abort_inv (Ok a) tr -> clean tr = true.
Proof. intros [H|(pre & q & cc & d & _ & _ & _ & H)]; [exact H | discriminate]. Qed.

Lemma abort_inv_prepend {A} (r : res A) tr1 tr2 :
  clean tr1 = true -> abort_inv r tr2 -> abort_inv r (tr1 ++ tr2).
Proof.
  intros H1 [H|(pre & q & cc & d & -> & Hp & Hr & He)].
  - left. now rewrite clean_app, H1, H.
  - right. exists (tr1 ++ pre), q, cc, d. rewrite app_assoc, clean_app, H1, Hp. auto.
Qed.

Lemma spec_ret {A} (a : A) : Spec (Ret a) (fun a' ev => a' = a /\ ev = []).
Proof. intros S dev s. cbn. split; [now left|]. intros a' H. injection H as <-. auto. Qed.

Lemma spec_raise {A} e (E : A -> list event -> Prop) : Spec (Raise e) E.
Proof. intros S dev s. cbn. split; [now left | discriminate]. Qed.

Lemma spec_weaken {A} (p : prog A) (E E' : A -> list event -> Prop) :
  (forall a ev, E a ev -> E' a ev) -> Spec p E -> Spec p E'.
Proof. intros H Hp S dev s. destruct (Hp S dev s) as [H1 H2]. split; [exact H1|]. intros a Ha. auto. Qed.

Lemma spec_sleep {A} ms (p : prog A) E : Spec p E -> Spec (Sleep ms p) E.
Proof. intros Hp S dev s. exact (Hp S dev s). Qed.

Lemma spec_bind {A B} (p : prog A) (f : A -> prog B) E1 (E2 : A -> B -> list event -> Prop) :
  Spec p E1 -> (forall a, Spec (f a) (E2 a)) ->
  Spec (pbind p f) (fun b ev => exists a ev1 ev2, ev = ev1 ++ ev2 /\ E1 a ev1 /\ E2 a b ev2).
Proof.
  intros Hp Hf S dev s. rewrite run_pbind.
  destruct (Hp S dev s) as [Hp1 Hp2].
  destruct (run p dev s []) as [[r s1] tr1]. cbn [outcome trace fst snd] in *.
  destruct r as [a|e].
  - destruct (Hf a S dev s1) as [Hf1 Hf2].
    destruct (run (f a) dev s1 []) as [[r2 s2] tr2]. cbn [outcome trace fst snd] in *.
    split.
    + apply abort_inv_prepend; [now apply (abort_inv_ok a) | exact Hf1].
    + intros b Hb. exists a, (events_of tr1), (events_of tr2). rewrite events_of_app. auto.
  - split.
    + destruct Hp1 as [H|(pre & q & cc & d & H1 & H2 & H3 & H4)]; [now left|].
      right. exists pre, q, cc, d. repeat split; try assumption. now injection H4 as ->.
    + discriminate.
Qed.

Definition ev_req (q : request) : list event := match event_of q with Some e => [e] | None => [] end.

Lemma spec_send {A} (q : request) (k : reply -> prog A) (E : A -> list event -> Prop) :
  (forall cc d, refusal (q, RBytes (cc :: d)) = true -> k (RBytes (cc :: d)) = Raise (err_for q cc)) ->
  (forall rp, refusal (q, rp) = false -> Spec (k rp) (fun a ev => E a (ev_req q ++ ev))) ->
  Spec (Send q k) E.
Proof.
  intros Href Hok S dev s. rewrite run_send. destruct (dev s q) as [s1 rp].
  destruct (refusal (q, rp)) eqn:Hr.
  - assert (exists cc d, rp = RBytes (cc :: d)) as (cc & d & ->).
    { unfold refusal in Hr. cbn [snd] in Hr. destruct rp as [[|cc d]|e]; try discriminate. eauto. }
    rewrite (Href cc d Hr). cbn. split; [|discriminate].
    right. exists [], q, cc, d. auto.
  - destruct (Hok rp Hr S dev s1) as [H1 H2].
    destruct (run (k rp) dev s1 []) as [[r s2] tr]. cbn [outcome trace fst snd] in *. split.
    + apply (abort_inv_prepend r [(q, rp)] tr); [cbn; now rewrite Hr | exact H1].
    + intros a Ha. specialize (H2 a Ha). cbn [events_of]. unfold ev_req in H2.
      destruct (event_of q); exact H2.
Qed.

Lemma spec_if {A} (b : bool) (p1 p2 : prog A) E :
  (b = true -> Spec p1 E) -> (b = false -> Spec p2 E) -> Spec (if b then p1 else p2) E.
Proof. destruct b; auto. Qed.

(* refusal for the two classes of requests *)
Lemma refusal_plain q cc d : waits q = false -> refusal (q, RBytes (cc :: d)) = negb (cc =? 0).
Proof. intros H. unfold refusal. cbn [fst snd]. rewrite H, andb_false_r. now rewrite andb_true_r. Qed.
Lemma refusal_waits q cc d : waits q = true ->
  refusal (q, RBytes (cc :: d)) = negb (cc =? 0) && negb (cc =? 0x80).
Proof. intros H. unfold refusal. cbn [fst snd]. now rewrite H, andb_true_r. Qed.
Lemma err_for_plain q cc : waits q = false -> err_for q cc = CCError cc.
Proof. unfold err_for. now intros ->. Qed.
Lemma err_for_waits q cc : waits q = true -> err_for q cc = HpmError.
Proof. unfold err_for. now intros ->. Qed.

(* ---------------------------------------------------------------- basic programs *)
Lemma spec_lift {A} (r : res A) : Spec (lift r) (fun a ev => r = Ok a /\ ev = []).
Proof.
  destruct r as [a|e]; cbn [lift].
  - eapply spec_weaken; [|apply spec_ret]. intros a' ev [-> ->]. auto.
  - apply spec_raise.
Qed.

Lemma spec_simple_cmd q lens : waits q = false ->
  Spec (simple_cmd q lens) (fun _ ev => ev = ev_req q).
Proof.
  intros Hw. unfold simple_cmd. apply spec_send.
  - intros cc d Hr. rewrite refusal_plain in Hr by exact Hw. rewrite err_for_plain by exact Hw.
    cbn [dec_fixed]. destruct (cc =? 0); [discriminate|]. reflexivity.
  - intros rp _. eapply spec_weaken; [|apply spec_lift]. intros a ev [_ ->]. now rewrite app_nil_r.
Qed.

Lemma status_req_waits : waits status_req = false. Proof. reflexivity. Qed.
Lemma status_req_event : ev_req status_req = []. Proof. reflexivity. Qed.

Lemma spec_wait_loop timeout interval : forall fuel elapsed,
  Spec (wait_loop fuel elapsed timeout interval) (fun _ ev => ev = []).
Proof.
  induction fuel as [|f IH]; intros elapsed; cbn [wait_loop]; [apply spec_raise|].
  destruct (elapsed <? timeout).
  - apply spec_send.
    + intros cc d Hr. rewrite refusal_plain in Hr by reflexivity. rewrite err_for_plain by reflexivity.
      cbn [dec_status_rsp]. destruct (cc =? 0); [discriminate|]. reflexivity.
    + intros rp _. rewrite status_req_event. cbn [app].
      destruct (dec_status_rsp rp) as [[cip lcc]|e].
      * destruct (lcc =? CC_LONG_DURATION_CMD_IN_PROGRESS).
        -- apply spec_sleep, IH.
        -- eapply spec_weaken; [|apply spec_ret]. intros a ev [_ ->]. reflexivity.
      * destruct e; try apply spec_raise. apply spec_sleep, IH.
  - eapply spec_weaken; [|apply spec_ret]. intros a ev [_ ->]. reflexivity.
Qed.

Lemma spec_wait timeout interval :
  Spec (wait_for_long_duration_command timeout interval) (fun _ ev => ev = []).
Proof. apply spec_wait_loop. Qed.

Lemma spec_and_wait q timeout interval sw : waits q = true ->
  Spec (and_wait q timeout interval sw) (fun _ ev => ev = ev_req q).
Proof.
  intros Hw. unfold and_wait. apply spec_send.
  - intros cc d Hr. rewrite refusal_waits in Hr by exact Hw. rewrite err_for_waits by exact Hw.
    cbn [dec_fixed]. destruct (cc =? 0) eqn:E0; [discriminate|].
    unfold CC_LONG_DURATION_CMD_IN_PROGRESS. destruct (cc =? 128); [discriminate|]. reflexivity.
  - intros rp _. destruct (dec_fixed LEN_PLAIN rp) as [d|e].
    + eapply spec_weaken; [|apply spec_ret]. intros a ev [_ ->]. now rewrite app_nil_r.
    + destruct e; try apply spec_raise.
      * destruct (cc =? CC_LONG_DURATION_CMD_IN_PROGRESS); [|apply spec_raise].
        eapply spec_weaken; [|apply spec_wait]. intros a ev ->. now rewrite app_nil_r.
      * destruct sw; [|apply spec_raise].
        eapply spec_weaken; [|apply spec_ret]. intros a ev [_ ->]. now rewrite app_nil_r.
Qed.

(* ---------------------------------------------------------------- upload_binary on any device *)
Fixpoint block_events (bn : N) (cs : list (list N)) : list event :=
  match cs with
  | [] => []
  | c :: r => EBlock (bn mod 256) c :: block_events ((bn + 1) mod 256) r
  end.

Lemma block_req_waits bn c : waits (block_req bn c) = true. Proof. reflexivity. Qed.
Lemma block_req_event bn c : ev_req (block_req bn c) = [EBlock (bn mod 256) c]. Proof. reflexivity. Qed.

Lemma spec_upload_loop timeout interval : forall cs bn retry,
  Spec (upload_loop cs bn retry timeout interval) (fun _ ev => ev = block_events bn cs).
Proof.
  induction cs as [|c cs IH]; intros bn retry; cbn [upload_loop].
  - eapply spec_weaken; [|apply spec_ret]. intros a ev [_ ->]. reflexivity.
  - destruct (negb (bytes_ok c)); [apply spec_raise|].
    apply spec_send.
    + intros cc d Hr. rewrite refusal_waits in Hr by reflexivity. rewrite err_for_waits by reflexivity.
      cbn [dec_block_rsp]. destruct (cc =? 0); [discriminate|].
      unfold CC_LONG_DURATION_CMD_IN_PROGRESS. destruct (cc =? 128); [discriminate|]. reflexivity.
    + intros rp _. rewrite block_req_event. cbn [block_events app].
      destruct (dec_block_rsp rp) as [u|e].
      * eapply spec_weaken; [|apply IH]. intros a ev ->. reflexivity.
      * destruct e; try apply spec_raise.
        -- destruct (cc =? CC_LONG_DURATION_CMD_IN_PROGRESS); [|apply spec_raise].
           eapply spec_weaken; [|apply spec_bind; [apply spec_wait | intros a; apply IH]].
           intros a ev (a0 & ev1 & ev2 & -> & -> & ->). reflexivity.
        -- destruct (retry - 1 =? 0)%Z; [apply spec_raise|].
           eapply spec_weaken; [|apply IH]. intros a ev ->. reflexivity.
Qed.

Lemma spec_upload_binary bs binary timeout interval retry :
  Spec (upload_binary bs binary timeout interval retry) (fun _ ev => ev = block_events 0 (chunks binary bs)).
Proof. unfold upload_binary. destruct bs; [apply spec_raise | apply spec_upload_loop]. Qed.

(* ---------------------------------------------------------------- device id, capabilities, come-up *)
Lemma spec_get_device_id : Spec get_device_id (fun _ ev => ev = [EStep TDeviceId]).
Proof.
  unfold get_device_id. apply spec_send.
  - intros cc d Hr. rewrite refusal_plain in Hr by reflexivity. rewrite err_for_plain by reflexivity.
    unfold dec_device_id. cbn [dec_fixed]. destruct (cc =? 0); [discriminate|]. reflexivity.
  - intros rp _. eapply spec_weaken; [|apply spec_lift]. intros a ev [_ ->]. reflexivity.
Qed.

Lemma spec_comeup_loop timeout interval tick : forall fuel elapsed,
  Spec (comeup_loop fuel elapsed timeout interval tick) (fun _ ev => exists n, ev = repeat (EStep TDeviceId) n).
Proof.
  induction fuel as [|f IH]; intros elapsed; cbn [comeup_loop]; [apply spec_raise|].
  destruct (elapsed + tick <? timeout).
  - apply spec_send.
    + intros cc d Hr. rewrite refusal_plain in Hr by reflexivity. rewrite err_for_plain by reflexivity.
      cbn [dec_status_rsp]. destruct (cc =? 0); [discriminate|]. reflexivity.
    + intros rp _. rewrite status_req_event. cbn [app].
      destruct (dec_status_rsp rp) as [st|e].
      * apply spec_send.
        -- intros cc d Hr. rewrite refusal_plain in Hr by reflexivity. rewrite err_for_plain by reflexivity.
           unfold dec_device_id. cbn [dec_fixed]. destruct (cc =? 0); [discriminate|]. reflexivity.
        -- intros rp2 _. change (ev_req device_id_req) with [EStep TDeviceId].
           destruct (dec_device_id rp2) as [id|e].
           ++ eapply spec_weaken; [|apply IH]. intros a ev [n ->]. now exists (S n).
           ++ destruct e; try apply spec_raise. apply spec_sleep.
              eapply spec_weaken; [|apply IH]. intros a ev [n ->]. now exists (S n).
      * destruct e; try apply spec_raise. apply spec_sleep, IH.
  - eapply spec_weaken; [|apply spec_ret]. intros a ev [_ ->]. now exists 0%nat.
Qed.

Lemma spec_comeup timeout interval tick :
  Spec (wait_until_new_firmware_comes_up timeout interval tick)
       (fun _ ev => exists n, ev = repeat (EStep TDeviceId) n).
Proof.
  unfold wait_until_new_firmware_comes_up.
  eapply spec_weaken; [|apply spec_bind; [apply spec_comeup_loop | intros a; apply spec_sleep, spec_ret]].
  intros a ev (a0 & ev1 & ev2 & -> & [n ->] & _ & ->). exists n. now rewrite app_nil_r.
Qed.

(* ---------------------------------------------------------------- the stages *)
Lemma spec_abort : Spec abort_firmware_upgrade (fun _ ev => ev = [EStep TAbort]).
Proof.
  unfold abort_firmware_upgrade.
  eapply spec_weaken; [|apply spec_bind; [apply (spec_simple_cmd abort_req LEN_PLAIN); reflexivity | intros a; apply spec_ret]].
  intros a ev (a0 & ev1 & ev2 & -> & -> & _ & ->). reflexivity.
Qed.

Lemma spec_caps : Spec get_target_upgrade_capabilities (fun _ ev => ev = [EStep TCaps]).
Proof.
  unfold get_target_upgrade_capabilities.
  eapply spec_weaken; [|apply spec_bind; [apply (spec_simple_cmd caps_req [8%nat]); reflexivity | intros a; apply spec_ret]].
  intros a ev (a0 & ev1 & ev2 & -> & -> & _ & ->). reflexivity.
Qed.

Lemma spec_preparation h : Spec (preparation_stage h) (fun _ ev => ev = [EStep TDeviceId; EStep TCaps]).
Proof.
  unfold preparation_stage.
  eapply spec_weaken; [|apply spec_bind with (E2 := fun _ _ ev => ev = [EStep TCaps]); [apply spec_get_device_id|]].
  - intros a ev (a0 & ev1 & ev2 & -> & -> & ->). reflexivity.
  - intros [[dev man] prod].
    destruct (negb (h_device_id h =? dev)); [apply spec_raise|].
    destruct (negb (h_manufacturer_id h =? man)); [apply spec_raise|].
    destruct (negb (h_product_id h =? prod)); [apply spec_raise|].
    eapply spec_weaken; [|apply spec_bind with (E2 := fun _ _ ev => ev = []); [apply spec_caps|]].
    + intros a ev (a0 & ev1 & ev2 & -> & -> & ->). reflexivity.
    + intros target. destruct (existsb _ _); [|apply spec_raise].
      eapply spec_weaken; [|apply spec_ret]. intros a ev [_ ->]. reflexivity.
Qed.

(* what upgrade_stage puts on the wire for one parsed action record *)
Definition act_events (component : N) (a : action) : list event :=
  if N.land (a_components a) (N.shiftl 1 component) =? 0 then []
  else EStep (TInitiate (N.shiftl 1 component mod 256) (a_type a mod 256)) ::
       match a_upload a with
       | Some u => block_events 0 (chunks (u_data u) BLOCK_SIZE)
                   ++ [EStep (TFinish (component mod 256) (le_val (le_bytes 4 (u_firmware_length u))))]
       | None => []
       end.

Lemma spec_upgrade_stage component : forall acts,
  Spec (upgrade_stage acts component) (fun _ ev => ev = flat_map (act_events component) acts).
Proof.
  induction acts as [|a acts IH]; cbn [upgrade_stage flat_map].
  - eapply spec_weaken; [|apply spec_ret]. intros x ev [_ ->]. reflexivity.
  - unfold act_events at 1. destruct (N.land (a_components a) (N.shiftl 1 component) =? 0).
    + exact IH.
    + unfold initiate_upgrade_action_and_wait.
      destruct (initiate_guard _ _).
      { cbn [pbind]. apply spec_raise. }
      eapply spec_weaken;
        [|apply spec_bind with
            (E1 := fun _ ev => ev = [EStep (TInitiate (N.shiftl 1 component mod 256) (a_type a mod 256))])
            (E2 := fun _ _ ev => ev = match a_upload a with
                                      | Some u => block_events 0 (chunks (u_data u) BLOCK_SIZE)
                                                  ++ [EStep (TFinish (component mod 256) (le_val (le_bytes 4 (u_firmware_length u))))]
                                      | None => []
                                      end ++ flat_map (act_events component) acts)].
      * intros x ev (a0 & ev1 & ev2 & -> & -> & ->). reflexivity.
      * eapply spec_weaken; [|apply spec_and_wait; reflexivity]. intros x ev ->. reflexivity.
      * intros _.
        eapply spec_weaken; [|apply spec_bind with
            (E1 := fun _ ev => ev = match a_upload a with
                                    | Some u => block_events 0 (chunks (u_data u) BLOCK_SIZE)
                                                ++ [EStep (TFinish (component mod 256) (le_val (le_bytes 4 (u_firmware_length u))))]
                                    | None => []
                                    end)
            (E2 := fun _ _ ev => ev = flat_map (act_events component) acts); [|intros _; exact IH]].
        -- intros x ev (a0 & ev1 & ev2 & -> & -> & ->). reflexivity.
        -- destruct (a_upload a) as [u|].
           ++ eapply spec_weaken; [|apply spec_bind with
                 (E1 := fun _ ev => ev = block_events 0 (chunks (u_data u) BLOCK_SIZE))
                 (E2 := fun _ _ ev => ev = [EStep (TFinish (component mod 256) (le_val (le_bytes 4 (u_firmware_length u))))])].
              ** intros x ev (a0 & ev1 & ev2 & -> & -> & ->). reflexivity.
              ** apply spec_upload_binary.
              ** intros _. unfold finish_upload_and_wait.
                 eapply spec_weaken; [|apply spec_and_wait; reflexivity]. intros x ev ->. reflexivity.
           ++ eapply spec_weaken; [|apply spec_ret]. intros x ev [_ ->]. reflexivity.
Qed.

Lemma spec_activation h tick :
  Spec (activation_stage h tick) (fun _ ev => exists n, ev = EStep (TActivate None) :: repeat (EStep TDeviceId) n).
Proof.
  unfold activation_stage, activate_firmware_and_wait.
  eapply spec_weaken; [|apply spec_bind with
     (E1 := fun _ ev => ev = [EStep (TActivate None)])
     (E2 := fun _ _ ev => exists n, ev = repeat (EStep TDeviceId) n);
     [eapply spec_weaken; [|apply spec_and_wait; reflexivity]; intros x ev ->; reflexivity | intros _; apply spec_comeup]].
  intros x ev (a0 & ev1 & ev2 & -> & -> & [n ->]). now exists n.
Qed.

Definition install_events (img : image) (component : N) (n : nat) : list event :=
  [EStep TAbort; EStep TDeviceId; EStep TCaps] ++ flat_map (act_events component) (i_actions img)
  ++ EStep (TActivate None) :: repeat (EStep TDeviceId) n.

Lemma spec_install img component tick :
  Spec (install_component_from_image img component tick)
       (fun _ ev => existsb (N.eqb component) (h_components (i_header img)) = true /\
                    exists n, ev = install_events img component n).
Proof.
  unfold install_component_from_image.
  eapply spec_weaken; [|apply spec_bind with
     (E2 := fun _ _ ev => existsb (N.eqb component) (h_components (i_header img)) = true /\
                          exists n, ev = [EStep TDeviceId; EStep TCaps] ++ flat_map (act_events component) (i_actions img)
                                         ++ EStep (TActivate None) :: repeat (EStep TDeviceId) n); [apply spec_abort|]].
  - intros x ev (a0 & ev1 & ev2 & -> & -> & Hc & n & ->). split; [exact Hc|]. exists n. reflexivity.
  - intros _. destruct (existsb (N.eqb component) (h_components (i_header img))); [|apply spec_raise].
    cbn [negb].
    eapply spec_weaken; [|apply spec_bind with
       (E1 := fun _ ev => ev = [EStep TDeviceId; EStep TCaps])
       (E2 := fun _ _ ev => exists n, ev = flat_map (act_events component) (i_actions img)
                                          ++ EStep (TActivate None) :: repeat (EStep TDeviceId) n);
       [apply spec_preparation|]].
    + intros x ev (a0 & ev1 & ev2 & -> & -> & n & ->). split; [reflexivity|]. exists n. reflexivity.
    + intros _. eapply spec_weaken; [|apply spec_bind with
         (E1 := fun _ ev => ev = flat_map (act_events component) (i_actions img))
         (E2 := fun _ _ ev => exists n, ev = EStep (TActivate None) :: repeat (EStep TDeviceId) n);
         [apply spec_upgrade_stage | intros _; apply spec_activation]].
      intros x ev (a0 & ev1 & ev2 & -> & -> & n & ->). exists n. reflexivity.
Qed.

(* ---------------------------------------------------------------- from events to the HPM.1 steps *)
Lemma blocks_collapse rest : forall cs i acc bn,
  bn = N.of_nat i mod 256 -> Forall (fun c => (length c <= BLOCK_SIZE)%nat) cs ->
  steps_go BLOCK_SIZE (block_events bn cs ++ rest) (Some (i, acc))
  = steps_go BLOCK_SIZE rest (Some ((i + length cs)%nat, acc ++ concat cs)).
Proof.
  induction cs as [|c cs IH]; intros i acc bn Hbn Hs.
  - cbn. now rewrite Nat.add_0_r, app_nil_r.
  - apply Forall_cons_iff in Hs as [Hc Hs]. cbn [block_events app steps_go].
    replace (bn mod 256 =? N.of_nat i mod 256) with true by (subst bn; lia).
    replace (Nat.leb (length c) BLOCK_SIZE) with true by (symmetry; now apply Nat.leb_le).
    cbn [andb]. rewrite (IH (S i) (acc ++ c) ((bn + 1) mod 256)); [|subst bn; lia|exact Hs].
    cbn [concat length]. rewrite <- app_assoc. f_equal. f_equal. f_equal. lia.
Qed.

Definition land_rt (m : N) : bool :=
  forallb (fun c => Bool.eqb (N.land m (N.shiftl 1 c) =? 0) (negb (N.testbit m c))) [0; 1; 2; 3; 4; 5; 6; 7].
Lemma land_testbit m c : m < 256 -> c < 8 -> (N.land m (N.shiftl 1 c) =? 0) = negb (N.testbit m c).
Proof.
  intros Hm Hc.
  assert (Hall : forallb land_rt (map N.of_nat (seq 0 256)) = true) by (vm_compute; reflexivity).
  rewrite forallb_forall in Hall.
  assert (H : land_rt m = true).
  { apply (forall_below (fun x => land_rt x = true) 256); [exact Hall | lia]. }
  unfold land_rt in H. rewrite forallb_forall in H.
  apply eqb_prop. apply H.
  assert (c = 0 \/ c = 1 \/ c = 2 \/ c = 3 \/ c = 4 \/ c = 5 \/ c = 6 \/ c = 7) as Hcases by lia.
  cbn. intuition.
Qed.

Lemma shiftl_one c : c < 8 -> N.shiftl 1 c mod 256 = 2 ^ c.
Proof.
  intros Hc.
  assert (c = 0 \/ c = 1 \/ c = 2 \/ c = 3 \/ c = 4 \/ c = 5 \/ c = 6 \/ c = 7) as Hcases by lia.
  intuition; subst; reflexivity.
Qed.

Lemma act_steps c sa rest : s_action_ok sa -> c < 8 ->
  steps_go BLOCK_SIZE (act_events c (exp_action sa) ++ rest) None
  = record_steps c sa ++ steps_go BLOCK_SIZE rest None.
Proof.
  intros Hok Hc. unfold act_events, record_steps.
  destruct sa as [m|m|m v d fw]; cbn [exp_action a_components a_type a_upload s_action_components] in *.
  - rewrite (land_testbit m c Hok Hc). destruct (N.testbit m c); cbn [negb app]; [|reflexivity].
    rewrite shiftl_one by exact Hc. reflexivity.
  - rewrite (land_testbit m c Hok Hc). destruct (N.testbit m c); cbn [negb app]; [|reflexivity].
    rewrite shiftl_one by exact Hc. reflexivity.
  - destruct Hok as (Hm & Hv & Hdl & Hdb & Hfl & Hfb).
    rewrite (land_testbit m c Hm Hc). destruct (N.testbit m c); cbn [negb app]; [|reflexivity].
    rewrite shiftl_one by exact Hc. cbn [u_data u_firmware_length].
    change (2 mod 256) with 2.
    cbn [steps_go starts_upload app]. change ((2 =? 2) || (2 =? 3)) with true. cbv iota.
    rewrite <- app_assoc. rewrite (blocks_collapse _ (chunks fw BLOCK_SIZE) 0 [] 0); [|reflexivity|].
    2:{ pose proof (chunks_f_sizes BLOCK_SIZE ltac:(unfold BLOCK_SIZE; lia) (length fw) fw) as Hs.
        unfold chunks. eapply Forall_impl; [|exact Hs]. cbn. intros x Hx. lia. }
    cbn [app steps_go starts_upload].
    replace (concat (chunks fw BLOCK_SIZE)) with fw.
    2:{ symmetry. unfold chunks. apply chunks_f_concat; [unfold BLOCK_SIZE; lia | lia]. }
    rewrite (le_val_bytes 4 _ Hfl). replace (c mod 256) with c by lia. reflexivity.
Qed.

Lemma acts_steps c rest : forall sacts, Forall s_action_ok sacts -> c < 8 ->
  steps_go BLOCK_SIZE (flat_map (act_events c) (map exp_action sacts) ++ rest) None
  = flat_map (record_steps c) sacts ++ steps_go BLOCK_SIZE rest None.
Proof.
  induction 1 as [|sa sacts Ha _ IH]; intros Hc; [reflexivity|].
  cbn [map flat_map]. rewrite <- !app_assoc. rewrite act_steps by assumption.
  now rewrite IH.
Qed.

Lemma comeup_steps n : steps_go BLOCK_SIZE (repeat (EStep TDeviceId) n) None = repeat TDeviceId n.
Proof. induction n as [|n IH]; [reflexivity|]. cbn. now rewrite IH. Qed.

Lemma install_steps_ok md5 i c n : s_image_ok i -> c < 8 ->
  steps_go BLOCK_SIZE (install_events (exp_image md5 i) c n) None = install_steps i c ++ repeat TDeviceId n.
Proof.
  intros [Hh Ha] Hc. unfold install_events, install_steps. cbn [exp_image i_actions app steps_go starts_upload].
  rewrite acts_steps by assumption. cbn [steps_go starts_upload app]. rewrite comeup_steps.
  now rewrite <- app_assoc.
Qed.

Lemma comps_of_bound mask c : existsb (N.eqb c) (comps_of mask) = true -> c < 8.
Proof.
  intros H. apply existsb_exists in H as (x & Hin & Hx). apply N.eqb_eq in Hx. subst x.
  unfold comps_of in Hin. apply filter_In in Hin as [Hin _]. cbn in Hin. lia.
Qed.

(* ---------------------------------------------------------------- theorem (1): order *)
Section WithMd5.
  Variable md5 : list N -> list N.
  Hypothesis md5_length : forall x, length (md5 x) = 16%nat.

  Lemma install_file_enc i c tick : s_image_ok i ->
    install_component_from_file (enc_image md5 i) c tick
    = install_component_from_image (exp_image md5 i) c tick.
  Proof.
    intros Hi. unfold install_component_from_file. now rewrite (parse_image_enc md5 md5_length i Hi).
  Qed.

  Lemma install_order i c tick S (dev : device S) s : s_image_ok i ->
    outcome (run (install_component_from_file (enc_image md5 i) c tick) dev s []) = Ok tt ->
    exists n, steps_of BLOCK_SIZE (trace (run (install_component_from_file (enc_image md5 i) c tick) dev s []))
              = install_steps i c ++ repeat TDeviceId n.
  Proof.
    intros Hi Hok. rewrite install_file_enc in * by exact Hi.
    destruct (spec_install (exp_image md5 i) c tick S dev s) as [_ H2].
    destruct (H2 tt Hok) as (Hc & n & Hev). exists n. unfold steps_of. rewrite Hev.
    apply install_steps_ok; [exact Hi|]. cbn [exp_image i_header exp_header h_components] in Hc.
    now apply comps_of_bound in Hc.
  Qed.

  (* theorem (3): a refusal ends the installation *)
  Lemma install_abort_inv i c tick S (dev : device S) s : s_image_ok i ->
    abort_inv (outcome (run (install_component_from_file (enc_image md5 i) c tick) dev s []))
              (trace (run (install_component_from_file (enc_image md5 i) c tick) dev s [])).
  Proof.
    intros Hi. rewrite install_file_enc by exact Hi. apply spec_install.
  Qed.
End WithMd5.

Lemma abort_inv_elim {A} (r : res A) tr : abort_inv r tr ->
  forall pre x post, tr = pre ++ x :: post -> refusal x = true ->
    post = [] /\ exists q cc d, x = (q, RBytes (cc :: d)) /\ r = Err (err_for q cc).
Proof.
  intros [Hc|(pre' & q & cc & d & Htr & Hp & Hr & He)] pre x post Heq Hx.
  - subst tr. rewrite clean_app in Hc. cbn in Hc. rewrite Hx in Hc. cbn in Hc.
    rewrite andb_false_r in Hc. discriminate.
  - subst tr. destruct post as [|p post].
    + apply app_inj_tail in Heq as [_ <-]. split; [reflexivity|]. eauto.
    + exfalso. destruct (exists_last (l := p :: post) ltac:(discriminate)) as (post' & y & Hpy).
      rewrite Hpy in Heq. change (pre ++ x :: post' ++ [y]) with (pre ++ (x :: post') ++ [y]) in Heq.
      rewrite app_assoc in Heq. apply app_inj_tail in Heq as [-> _].
      rewrite clean_app in Hp. cbn in Hp. rewrite Hx in Hp. cbn in Hp. rewrite andb_false_r in Hp. discriminate.
Qed.

Lemma install_refusal_aborts md5 (Hmd5 : forall x, length (md5 x) = 16%nat) i c tick S (dev : device S) s :
  s_image_ok i ->
  forall pre x post,
    trace (run (install_component_from_file (enc_image md5 i) c tick) dev s []) = pre ++ x :: post ->
    refusal x = true ->
    post = [] /\ exists q cc d, x = (q, RBytes (cc :: d)) /\
      outcome (run (install_component_from_file (enc_image md5 i) c tick) dev s []) = Err (err_for q cc).
Proof. intros Hi. apply abort_inv_elim. now apply install_abort_inv. Qed.

(* the same for a single *_and_wait driver *)
Lemma and_wait_refusal_aborts q timeout interval sw S (dev : device S) s : waits q = true ->
  forall pre x post,
    trace (run (and_wait q timeout interval sw) dev s []) = pre ++ x :: post -> refusal x = true ->
    post = [] /\ exists q' cc d, x = (q', RBytes (cc :: d)) /\
      outcome (run (and_wait q timeout interval sw) dev s []) = Err (err_for q' cc).
Proof. intros Hw. apply abort_inv_elim. now apply spec_and_wait. Qed.

(* ---------------------------------------------------------------- theorem (2): *_and_wait and completion *)
Lemma dec_status_done rp cip lcc : dec_status_rsp rp = Ok (cip, lcc) ->
  (lcc =? CC_LONG_DURATION_CMD_IN_PROGRESS) = false -> poll_done rp = true.
Proof.
  unfold dec_status_rsp, poll_done, CC_LONG_DURATION_CMD_IN_PROGRESS.
  destruct rp as [[|cc d]|e]; try discriminate.
  destruct (cc =? 0) eqn:Hcc; [|discriminate]. apply N.eqb_eq in Hcc. subst cc.
  destruct d as [|a [|b [|c [|x [|y d]]]]]; try discriminate; intros H; injection H as <- <-; intros ->; reflexivity.
Qed.

Definition status_exchanges (tr : list exch) : Prop := Forall (fun x : exch => is_status (fst x) = true) tr.

Lemma wait_loop_done timeout interval S (dev : device S) : forall fuel elapsed s,
  outcome (run (wait_loop fuel elapsed timeout interval) dev s []) = Ok tt ->
  status_exchanges (trace (run (wait_loop fuel elapsed timeout interval) dev s [])) /\
  (polls_complete (trace (run (wait_loop fuel elapsed timeout interval) dev s [])) \/
   timeout <= elapsed + N.of_nat (length (trace (run (wait_loop fuel elapsed timeout interval) dev s []))) * interval).
Proof.
  induction fuel as [|f IH]; intros elapsed s; cbn [wait_loop]; [cbn; discriminate|].
  destruct (elapsed <? timeout) eqn:Hlt.
  2:{ cbn. intros _. split; [constructor|]. right. apply N.ltb_ge in Hlt. lia. }
  rewrite run_send. destruct (dev s status_req) as [s1 rp].
  destruct (dec_status_rsp rp) as [[cip lcc]|e] eqn:Hdec.
  - destruct (lcc =? CC_LONG_DURATION_CMD_IN_PROGRESS) eqn:Hl.
    + change (run (Sleep interval (wait_loop f (elapsed + interval) timeout interval)) dev s1 [])
        with (run (wait_loop f (elapsed + interval) timeout interval) dev s1 []).
      specialize (IH (elapsed + interval) s1).
      destruct (run (wait_loop f (elapsed + interval) timeout interval) dev s1 []) as [[r s2] tr].
      cbn [outcome trace fst snd] in *. intros Hok. destruct (IH Hok) as [Hs Hd]. split.
      * constructor; [reflexivity | exact Hs].
      * destruct Hd as [(pre & q & rp' & -> & Hp)|Hd].
        -- left. exists ((status_req, rp) :: pre), q, rp'. auto.
        -- right. cbn [length]. lia.
    + cbn. intros _. split; [repeat constructor|].
      left. exists [], status_req, rp. split; [reflexivity|]. eapply dec_status_done; eassumption.
  - destruct e; try (cbn; discriminate).
    change (run (Sleep interval (wait_loop f (elapsed + interval) timeout interval)) dev s1 [])
      with (run (wait_loop f (elapsed + interval) timeout interval) dev s1 []).
    specialize (IH (elapsed + interval) s1).
    destruct (run (wait_loop f (elapsed + interval) timeout interval) dev s1 []) as [[r s2] tr].
    cbn [outcome trace fst snd] in *. intros Hok. destruct (IH Hok) as [Hs Hd]. split.
    + constructor; [reflexivity | exact Hs].
    + destruct Hd as [(pre & q & rp' & -> & Hp)|Hd].
      * left. exists ((status_req, rp) :: pre), q, rp'. auto.
      * right. cbn [length]. lia.
Qed.

(* the answer "long duration command in progress" (also when the transport delivers it as a
   raised CompletionCodeError) *)
Definition answered_in_progress (rp : reply) : bool :=
  match rp with
  | RBytes (c :: _) => c =? 0x80
  | RRaise (CCError c) => c =? 0x80
  | _ => false
  end.

(* a successful *_and_wait: accepted at once, or (activate / rollback) the request itself timed
   out, or answered 0x80 and then polled - only status requests - until a poll reported the
   command complete or the driver's time-out was used up *)
Lemma and_wait_complete q timeout interval sw S (dev : device S) s :
  outcome (run (and_wait q timeout interval sw) dev s []) = Ok tt ->
  exists rp polls,
    trace (run (and_wait q timeout interval sw) dev s []) = (q, rp) :: polls /\
    status_exchanges polls /\
    ((reply_is_cc 0 rp = true /\ polls = []) \/
     (sw = true /\ rp = RRaise TimeoutError /\ polls = []) \/
     (answered_in_progress rp = true /\
      (polls_complete polls \/ timeout <= N.of_nat (length polls) * interval))).
Proof.
  unfold and_wait. rewrite run_send. destruct (dev s q) as [s1 rp].
  destruct (dec_fixed LEN_PLAIN rp) as [d|e] eqn:Hdec.
  - cbn. intros _. exists rp, []. split; [reflexivity|]. split; [constructor|]. left. split; [|reflexivity].
    unfold dec_fixed in Hdec. destruct rp as [[|cc d']|e]; try discriminate.
    cbn. destruct (cc =? 0); [reflexivity | discriminate].
  - destruct e; try (cbn; discriminate).
    + destruct (cc =? CC_LONG_DURATION_CMD_IN_PROGRESS) eqn:Hcc; [|cbn; discriminate].
      pose proof (wait_loop_done timeout interval S dev (N.to_nat (timeout / interval) + 2) 0 s1) as Hw.
      unfold wait_for_long_duration_command.
      destruct (run (wait_loop (N.to_nat (timeout / interval) + 2) 0 timeout interval) dev s1 []) as [[r s2] tr].
      cbn [outcome trace fst snd] in *. intros Hok. destruct (Hw Hok) as [Hs Hd].
      exists rp, tr. split; [reflexivity|]. split; [exact Hs|]. right. right. split.
      * unfold dec_fixed in Hdec. destruct rp as [[|c0 d']|e]; try discriminate.
        -- destruct (c0 =? 0); [destruct (existsb _ _); discriminate|]. injection Hdec as ->. exact Hcc.
        -- injection Hdec as ->. exact Hcc.
      * destruct Hd as [Hd|Hd]; [left; exact Hd | right; rewrite N.add_0_l in Hd; exact Hd].
    + destruct sw; [|cbn; discriminate]. cbn. intros _. exists rp, []. split; [reflexivity|]. split; [constructor|].
      right. left. split; [reflexivity|]. split; [|reflexivity].
      unfold dec_fixed in Hdec. destruct rp as [[|c0 d']|e]; try discriminate; [|congruence].
      destruct (c0 =? 0); [destruct (existsb _ _); discriminate | discriminate].
Qed.

(* full strength ("returns only after a completion report") is false: the wait gives up silently *)
Lemma and_wait_gives_up :
  let r := run (and_wait (block_req 0 []) 300 100 false) hpm_device (d_init [InProgress 50]) [] in
  outcome r = Ok tt /\ answered_in_progress (snd (hd (status_req, RRaise OutOfFuel) (trace r))) = true /\
  forallb (fun x : exch => negb (poll_done (snd x))) (tl (trace r)) = true /\
  d_pending (snd (fst r)) = 47%nat.
Proof. vm_compute. repeat split; reflexivity. Qed.

(* ---------------------------------------------------------------- fuel *)
Definition NoOOF {A} (p : prog A) : Prop :=
  forall S (dev : device S) s tr, sane_device dev -> outcome (run p dev s tr) <> Err OutOfFuel.

Lemma noof_ret {A} (a : A) : NoOOF (Ret a). Proof. intros S dev s tr _. cbn. discriminate. Qed.
Lemma noof_raise {A} e : e <> OutOfFuel -> NoOOF (@Raise A e).
Proof. intros He S dev s tr _. cbn. congruence. Qed.
Lemma noof_sleep {A} ms (p : prog A) : NoOOF p -> NoOOF (Sleep ms p).
Proof. intros H S dev s tr Hd. exact (H S dev s tr Hd). Qed.
Lemma noof_bind {A B} (p : prog A) (f : A -> prog B) : NoOOF p -> (forall a, NoOOF (f a)) -> NoOOF (pbind p f).
Proof.
  intros Hp Hf S dev s tr Hd. rewrite run_pbind_gen. specialize (Hp S dev s tr Hd).
  destruct (run p dev s tr) as [[r s1] tr1]. destruct r as [a|e]; [now apply Hf|].
  cbn in *. congruence.
Qed.
Lemma noof_send {A} q (k : reply -> prog A) :
  (forall rp, rp <> RRaise OutOfFuel -> NoOOF (k rp)) -> NoOOF (Send q k).
Proof.
  intros H S dev s tr Hd. cbn [run]. pose proof (Hd s q) as Hs. destruct (dev s q) as [s1 rp]. cbn [snd] in Hs.
  now apply H.
Qed.

Lemma dec_fixed_oof lens rp : dec_fixed lens rp = Err OutOfFuel -> rp = RRaise OutOfFuel.
Proof.
  destruct rp as [[|cc d]|e]; cbn; try discriminate; [|congruence].
  destruct (cc =? 0); [destruct (existsb _ _)|]; discriminate.
Qed.
Lemma dec_minor_oof m : dec_minor m <> Err OutOfFuel.
Proof.
  unfold dec_minor. destruct (m =? 255); [discriminate|]. destruct (m <=? 153); [|discriminate].
  destruct (m mod 16 <=? 9); [discriminate|]. destruct (m mod 16 =? 10); discriminate.
Qed.
Lemma dec_device_id_oof rp : dec_device_id rp = Err OutOfFuel -> rp = RRaise OutOfFuel.
Proof.
  unfold dec_device_id. destruct (dec_fixed _ rp) as [d|e] eqn:Hd; cbn [bind].
  - pose proof (dec_minor_oof (nth 3 d 0)) as H1. destruct (dec_minor (nth 3 d 0)); cbn [bind]; [|congruence].
    pose proof (dec_minor_oof ((nth 4 d 0 / 16) mod 16)) as H2.
    destruct (dec_minor ((nth 4 d 0 / 16) mod 16)); cbn [bind]; [discriminate | congruence].
  - intros H. injection H as ->. now apply dec_fixed_oof in Hd.
Qed.

Lemma noof_lift {A} (r : res A) : r <> Err OutOfFuel -> NoOOF (lift r).
Proof. destruct r; cbn; intros H; [apply noof_ret | apply noof_raise; congruence]. Qed.

Lemma noof_simple_cmd q lens : NoOOF (simple_cmd q lens).
Proof.
  apply noof_send. intros rp Hrp. apply noof_lift. intros H. now apply dec_fixed_oof in H.
Qed.

Lemma noof_wait timeout interval : 1 <= interval -> NoOOF (wait_for_long_duration_command timeout interval).
Proof. intros Hi S dev s tr Hd. now apply wait_fuel_ok. Qed.

Lemma noof_and_wait q timeout interval sw : 1 <= interval -> NoOOF (and_wait q timeout interval sw).
Proof.
  intros Hi. apply noof_send. intros rp Hrp.
  destruct (dec_fixed LEN_PLAIN rp) as [d|e] eqn:Hdec; [apply noof_ret|].
  destruct e; try (apply noof_raise; discriminate).
  - destruct (cc =? CC_LONG_DURATION_CMD_IN_PROGRESS); [now apply noof_wait | apply noof_raise; discriminate].
  - destruct sw; [apply noof_ret | apply noof_raise; discriminate].
  - apply dec_fixed_oof in Hdec. contradiction.
Qed.

Lemma noof_upload bs binary timeout interval retry : 1 <= interval ->
  NoOOF (upload_binary bs binary timeout interval retry).
Proof.
  intros Hi S dev s tr Hd. unfold upload_binary. destruct bs; [cbn; discriminate|]. now apply upload_loop_fuel.
Qed.

Lemma noof_comeup_loop timeout interval tick : 1 <= tick -> forall fuel elapsed,
  (1 <= fuel)%nat -> timeout + tick <= N.of_nat fuel * tick + elapsed ->
  NoOOF (comeup_loop fuel elapsed timeout interval tick).
Proof.
  intros Ht. induction fuel as [|f IH]; intros elapsed Hf Hfuel; [lia|].
  cbn [comeup_loop]. destruct (elapsed + tick <? timeout) eqn:Hlt; [|apply noof_ret].
  assert (Hf1 : (1 <= f)%nat) by (destruct f; [apply N.ltb_lt in Hlt; lia | lia]).
  apply noof_send. intros rp Hrp. destruct (dec_status_rsp rp) as [st|e] eqn:Hdec.
  - apply noof_send. intros rp2 Hrp2. destruct (dec_device_id rp2) as [id|e] eqn:Hdec2.
    + apply IH; [exact Hf1 | lia].
    + destruct e; try (apply noof_raise; discriminate).
      * apply noof_sleep, IH; [exact Hf1 | lia].
      * apply dec_device_id_oof in Hdec2. contradiction.
  - destruct e; try (apply noof_raise; discriminate).
    + apply noof_sleep, IH; [exact Hf1 | lia].
    + apply dec_status_oof in Hdec. contradiction.
Qed.

Lemma noof_comeup timeout interval tick : 1 <= tick -> NoOOF (wait_until_new_firmware_comes_up timeout interval tick).
Proof.
  intros Ht. unfold wait_until_new_firmware_comes_up. apply noof_bind; [|intros _; apply noof_sleep, noof_ret].
  apply noof_comeup_loop; [exact Ht | |].
  - generalize (N.to_nat (timeout / tick)). intros; lia.
  - assert (H := N.mul_succ_div_gt timeout tick ltac:(lia)).
    revert H. generalize (timeout / tick). intros q H. lia.
Qed.

Lemma noof_upgrade_stage c : forall acts, NoOOF (upgrade_stage acts c).
Proof.
  induction acts as [|a acts IH]; cbn [upgrade_stage]; [apply noof_ret|].
  destruct (N.land _ _ =? 0); [exact IH|].
  apply noof_bind.
  - unfold initiate_upgrade_action_and_wait. destruct (initiate_guard _ _); [apply noof_raise; discriminate|].
    apply noof_and_wait. unfold DEFAULT_INTERVAL. lia.
  - intros _. apply noof_bind; [|intros _; exact IH].
    destruct (a_upload a); [|apply noof_ret].
    apply noof_bind; [apply noof_upload; unfold DEFAULT_INTERVAL; lia|].
    intros _. apply noof_and_wait. unfold DEFAULT_INTERVAL. lia.
Qed.

Lemma noof_install_image img c tick : 1 <= tick -> NoOOF (install_component_from_image img c tick).
Proof.
  intros Ht. unfold install_component_from_image.
  apply noof_bind; [apply noof_bind; [apply noof_simple_cmd | intros _; apply noof_ret]|].
  intros _. destruct (negb _); [apply noof_raise; discriminate|].
  apply noof_bind.
  - unfold preparation_stage. apply noof_bind.
    + apply noof_send. intros rp Hrp. apply noof_lift. intros H. now apply dec_device_id_oof in H.
    + intros [[d m] p]. destruct (negb _); [apply noof_raise; discriminate|].
      destruct (negb _); [apply noof_raise; discriminate|]. destruct (negb _); [apply noof_raise; discriminate|].
      apply noof_bind; [apply noof_bind; [apply noof_simple_cmd | intros d0; apply noof_ret]|].
      intros t. destruct (existsb _ _); [apply noof_ret | apply noof_raise; discriminate].
  - intros _. apply noof_bind; [apply noof_upgrade_stage|]. intros _.
    unfold activation_stage. apply noof_bind.
    + apply noof_and_wait. unfold sec. lia.
    + intros _. now apply noof_comeup.
Qed.

Lemma noof_install_file file c tick : 1 <= tick -> NoOOF (install_component_from_file file c tick).
Proof.
  intros Ht. unfold install_component_from_file. apply noof_bind.
  - apply noof_lift. apply parse_image_fuel.
  - intros img. now apply noof_install_image.
Qed.
