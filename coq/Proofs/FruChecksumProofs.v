(* C15, second sentence: an accepted image satisfies every zero-sum checksum, and an
   alteration of a covered byte is rejected.  Proofs about Model/FruParse.v only. *)
From Coq Require Import NArith List Lia ZArith ZifyN ZifyBool ZifyNat Bool.
From PyIpmi Require Import Lib.Res Lib.Bytes Model.FruParse.
Import ListNotations.
Open Scope N_scope.
Ltac Zify.zify_post_hook ::= Z.to_euclidean_division_equations.

(* ---- generic: bind inversion, list update ---- *)
Ltac inv_bind H :=
  let x := fresh "x" in let Hx := fresh "Hx" in
  apply bind_ok in H; destruct H as (x & Hx & H).

Fixpoint upd (l : list N) (i : nat) (b : N) : list N :=
  match l, i with
  | [], _ => []
  | _ :: r, O => b :: r
  | x :: r, S i' => x :: upd r i' b
  end.

Lemma upd_length l : forall i b, length (upd l i b) = length l.
Proof. induction l as [|x r IH]; intros [|i] b; cbn; auto. Qed.

Lemma nth_upd_other l : forall i j b, i <> j -> nth j (upd l i b) 0 = nth j l 0.
Proof.
  induction l as [|x r IH]; intros [|i] [|j] b H; cbn; try reflexivity; try congruence.
  apply IH. congruence.
Qed.

Lemma firstn_upd_lt l : forall n i b, (i < n)%nat -> firstn n (upd l i b) = upd (firstn n l) i b.
Proof.
  induction l as [|x r IH]; intros [|n] [|i] b H; cbn; try reflexivity; try lia.
  f_equal. apply IH. lia.
Qed.
Lemma firstn_upd_ge l : forall n i b, (n <= i)%nat -> firstn n (upd l i b) = firstn n l.
Proof.
  induction l as [|x r IH]; intros [|n] [|i] b H; cbn; try reflexivity; try lia.
  f_equal. apply IH. lia.
Qed.
Lemma skipn_upd_ge l : forall n i b, (n <= i)%nat -> skipn n (upd l i b) = upd (skipn n l) (i - n) b.
Proof.
  induction l as [|x r IH]; intros [|n] [|i] b H; cbn; try reflexivity; try lia.
  apply IH. lia.
Qed.
Lemma skipn_upd_lt l : forall n i b, (i < n)%nat -> skipn n (upd l i b) = skipn n l.
Proof.
  induction l as [|x r IH]; intros [|n] [|i] b H; cbn; try reflexivity; try lia.
  apply IH. lia.
Qed.

Lemma sum_upd l : forall i b, (i < length l)%nat -> sum (upd l i b) + nth i l 0 = sum l + b.
Proof.
  induction l as [|x r IH]; intros [|i] b H; cbn in *; try lia.
  specialize (IH i b). lia.
Qed.

Lemma nth_byte l i : bytes_ok l = true -> nth i l 0 < 256.
Proof.
  intros H. destruct (Nat.lt_ge_cases i (length l)) as [Hi|Hi].
  - apply (proj1 (bytes_ok_In l) H). now apply nth_In.
  - rewrite nth_overflow by assumption. lia.
Qed.

(* the heart of every zero-sum checksum: one altered byte changes the sum modulo 256 *)
Lemma sum256_upd_ne l i b :
  bytes_ok l = true -> (i < length l)%nat -> b < 256 -> b <> nth i l 0 ->
  sum256 l = 0 -> sum256 (upd l i b) <> 0.
Proof.
  intros Hb Hi Hb' Hne Hs. pose proof (sum_upd l i b Hi). pose proof (nth_byte l i Hb).
  unfold sum256 in *. lia.
Qed.

Lemma nth_firstn_lt (l : list N) : forall n i, (i < n)%nat -> nth i (firstn n l) 0 = nth i l 0.
Proof.
  induction l as [|x r IH]; intros [|n] [|i] H; cbn; try reflexivity; try lia.
  apply IH. lia.
Qed.
Lemma nth_skipn (l : list N) : forall n i, nth i (skipn n l) 0 = nth (n + i) l 0.
Proof.
  induction l as [|x r IH]; intros [|n] i; cbn; try reflexivity.
  - now destruct i.
  - apply IH.
Qed.

Lemma idx_nth d i b : idx d i = Ok b -> nth i d 0 = b /\ (i < length d)%nat.
Proof.
  unfold idx. destruct (nth_error d i) eqn:E; intros H; inversion H; subst.
  split; [now apply nth_error_nth | apply nth_error_Some; congruence].
Qed.

(* ---- what acceptance implies ---- *)
Lemma common_info_ok d v len : common_info d = Ok (v, len) ->
  v = 1 /\ len = nth 1 d 0 * 8 /\ (2 <= length d)%nat /\ sum256 (firstn (N.to_nat len) d) = 0.
Proof.
  unfold common_info. intros H. inv_bind H.
  destruct (negb (N.land x 15 =? 1)) eqn:E1; [discriminate|].
  inv_bind H. destruct (negb (sum256 (firstn (N.to_nat (x0 * 8)) d) =? 0)) eqn:E2; [discriminate|].
  inversion H; subst. apply idx_nth in Hx0 as [? ?].
  repeat split; try lia.
Qed.

Lemma parse_area_ok dated nf d a : parse_area dated nf d = Ok a ->
  a_version a = 1 /\ a_length a = nth 1 d 0 * 8 /\ (2 <= length d)%nat /\
  sum256 (firstn (N.to_nat (a_length a)) d) = 0.
Proof.
  unfold parse_area. intros H. inv_bind H. destruct x as [v len]. apply common_info_ok in Hx.
  inv_bind H. inv_bind H. inv_bind H. destruct x1 as [[fs off'] rest]. inv_bind H.
  inversion H; subst; cbn. exact Hx.
Qed.

(* an area object that was parsed sits at its header offset and sums to zero over the
   extent its own length byte states *)
Definition area_sums (img : list N) (off : N) (st : area_st) : Prop :=
  match st with
  | Parsed a =>
      let d := skipn (N.to_nat off) img in
      off <> 0 /\ a_length a = nth 1 d 0 * 8 /\ sum256 (firstn (N.to_nat (a_length a)) d) = 0
  | _ => True
  end.

Lemma area_at_sums dated nf off img st : area_at dated nf off img = Ok st -> area_sums img off st.
Proof.
  unfold area_at, area_obj. destruct (off =? 0) eqn:E; [intros H; inversion H; exact I|].
  destruct (skipn (N.to_nat off) img) eqn:Ed; [intros H; inversion H; exact I|].
  intros H. inv_bind H. inversion H; subst. cbn. rewrite Ed.
  apply parse_area_ok in Hx. split; [lia|]. tauto.
Qed.

Lemma mr_base_ok d r : mr_base d = Ok r ->
  (5 <= length d)%nat /\ sum256 (firstn 5 d) = 0 /\ r_type r = nth 0 d 0 /\
  r_len r = nth 2 d 0 /\ r_raw r = firstn (N.to_nat (r_len r)) (skipn 5 d) /\
  sum256 (nth 3 d 0 :: r_raw r) = 0 /\ r_eol r = negb (N.land (nth 1 d 0) 128 =? 0).
Proof.
  unfold mr_base. destruct d as [|t [|b1 [|l [|c [|h body]]]]]; try discriminate.
  destruct (negb (sum256 [t; b1; l; c; h] =? 0)) eqn:E1; [discriminate|].
  destruct (negb ((sum (firstn (N.to_nat l) body) + c) mod 256 =? 0)) eqn:E2; [discriminate|].
  intros H; inversion H; subst; cbn [r_type r_len r_raw r_eol length firstn skipn nth].
  repeat split; try (cbn; lia).
  unfold sum256. cbn [sum]. lia.
Qed.

Lemma parse_record_base d r : parse_record d = Ok r ->
  exists r0, mr_base d = Ok r0 /\ r_type r = r_type r0 /\ r_eol r = r_eol r0 /\
             r_len r = r_len r0 /\ r_raw r = r_raw r0.
Proof.
  unfold parse_record. destruct d as [|t d']; [discriminate|].
  destruct (t =? 192).
  - destruct (Nat.ltb _ 10); [discriminate|]. intros H. inv_bind H. exists x. split; [assumption|].
    destruct (nth 8 (t :: d') 0 =? 39).
    + destruct (Nat.ltb _ 12); [discriminate|]. inversion H; subst; cbn; auto.
    + inversion H; subst; cbn; auto.
  - intros H. exists r. auto.
Qed.

(* every record of the list: header and body zero-sum, at consecutive positions *)
Fixpoint recs_sums (d : list N) (rs : list mrec) : Prop :=
  match rs with
  | [] => True
  | r :: rs' =>
      (5 <= length d)%nat /\ sum256 (firstn 5 d) = 0 /\
      r_type r = nth 0 d 0 /\ r_len r = nth 2 d 0 /\
      r_raw r = firstn (N.to_nat (r_len r)) (skipn 5 d) /\
      sum256 (nth 3 d 0 :: r_raw r) = 0 /\
      recs_sums (skipn (N.to_nat (r_len r) + 5) d) rs'
  end.

Lemma parse_records_sums fuel : forall d rs, parse_records fuel d = Ok rs -> recs_sums d rs.
Proof.
  induction fuel as [|k IH]; intros d rs H; [discriminate|].
  cbn [parse_records] in H. inv_bind H.
  destruct (parse_record_base _ _ Hx) as (r0 & Hb & Ht & He & Hl & Hr).
  apply mr_base_ok in Hb as (H1 & H2 & H3 & H4 & H5 & H6 & H7).
  destruct (r_eol x).
  - inversion H; subst. cbn. rewrite Ht, Hl, Hr. tauto.
  - inv_bind H. inversion H; subst. cbn [recs_sums]. rewrite Ht, Hl, Hr.
    repeat split; try assumption. rewrite <- Hl. now apply IH.
Qed.

Definition multi_sums (img : list N) (off : N) (st : mr_st) : Prop :=
  match st with
  | MParsed rs => off <> 0 /\ recs_sums (skipn (N.to_nat off) img) rs
  | _ => True
  end.

Lemma multi_at_sums off img st : multi_at off img = Ok st -> multi_sums img off st.
Proof.
  unfold multi_at, multi_obj. destruct (off =? 0) eqn:E; [intros H; inversion H; exact I|].
  destruct (skipn (N.to_nat off) img) eqn:Ed; [intros H; inversion H; exact I|].
  intros H. inv_bind H. inversion H; subst. cbn. rewrite Ed. split; [lia|].
  eapply parse_records_sums; eassumption.
Qed.

Lemma parse_header_ok d h : parse_header d = Ok h ->
  length d = 8%nat /\ sum256 d = 0 /\
  h_chassis h = nth 2 d 0 * 8 /\ h_board h = nth 3 d 0 * 8 /\ h_product h = nth 4 d 0 * 8 /\
  h_multi h = nth 5 d 0 * 8 /\ h_internal h = nth 1 d 0 * 8.
Proof.
  unfold parse_header.
  destruct d as [|d0 [|d1 [|d2 [|d3 [|d4 [|d5 [|d6 [|d7 [|]]]]]]]]]; try discriminate.
  destruct (negb (sum256 _ =? 0)) eqn:E; [discriminate|].
  intros H; inversion H; subst; cbn. repeat split; lia.
Qed.

Lemma parse_inventory_parts img inv : parse_inventory img = Ok (Some inv) ->
  parse_header (firstn 8 img) = Ok (i_header inv) /\
  area_at false 2 (h_chassis (i_header inv)) img = Ok (i_chassis inv) /\
  area_at true 5 (h_board (i_header inv)) img = Ok (i_board inv) /\
  area_at false 7 (h_product (i_header inv)) img = Ok (i_product inv) /\
  multi_at (h_multi (i_header inv)) img = Ok (i_multi inv).
Proof.
  unfold parse_inventory. destruct img as [|b0 img']; [discriminate|].
  intros H. do 5 inv_bind H. inversion H; subst; cbn. tauto.
Qed.

Definition checksums_hold (img : list N) (inv : inventory) : Prop :=
  let h := i_header inv in
  (8 <= length img)%nat /\ sum256 (firstn 8 img) = 0 /\
  h_chassis h = nth 2 img 0 * 8 /\ h_board h = nth 3 img 0 * 8 /\
  h_product h = nth 4 img 0 * 8 /\ h_multi h = nth 5 img 0 * 8 /\
  area_sums img (h_chassis h) (i_chassis inv) /\ area_sums img (h_board h) (i_board inv) /\
  area_sums img (h_product h) (i_product inv) /\ multi_sums img (h_multi h) (i_multi inv).

Lemma accept_implies_checksums img inv :
  parse_inventory img = Ok (Some inv) -> checksums_hold img inv.
Proof.
  intros H. apply parse_inventory_parts in H as (Hh & Hc & Hb & Hp & Hm).
  apply parse_header_ok in Hh as (Hl & Hs & H2 & H3 & H4 & H5 & _).
  unfold checksums_hold.
  assert (Hlen : (8 <= length img)%nat).
  { rewrite firstn_length in Hl. lia. }
  rewrite !nth_firstn_lt in * by lia.
  repeat split; try assumption.
  - eapply area_at_sums; eassumption.
  - eapply area_at_sums; eassumption.
  - eapply area_at_sums; eassumption.
  - now apply multi_at_sums.
Qed.

(* ---- single-byte alterations ---- *)
Lemma idx_ok d i : (i < length d)%nat -> idx d i = Ok (nth i d 0).
Proof.
  intros H. unfold idx. destruct (nth_error d i) eqn:E.
  - now rewrite (nth_error_nth _ _ 0 E).
  - apply nth_error_None in E. lia.
Qed.

Lemma area_alter dated nf d a j b :
  parse_area dated nf d = Ok a -> bytes_ok d = true ->
  (j < length d)%nat -> (j < N.to_nat (a_length a))%nat -> j <> 1%nat ->
  b < 256 -> b <> nth j d 0 -> exists e, parse_area dated nf (upd d j b) = Err e.
Proof.
  intros H Hb Hj Hja Hj1 Hb' Hne.
  apply parse_area_ok in H as (_ & Hlen & Hl2 & Hs).
  assert (Hc : common_info (upd d j b) = Err DecodingError).
  { unfold common_info. rewrite !idx_ok by (rewrite upd_length; lia). cbn [bind].
    destruct (negb (N.land (nth 0 (upd d j b) 0) 15 =? 1)); [reflexivity|].
    rewrite (nth_upd_other d j 1) by congruence. rewrite <- Hlen.
    rewrite firstn_upd_lt by assumption.
    assert (Hne0 : sum256 (upd (firstn (N.to_nat (a_length a)) d) j b) <> 0).
    { apply sum256_upd_ne; try assumption.
      - now apply bytes_ok_firstn.
      - rewrite firstn_length. lia.
      - now rewrite nth_firstn_lt. }
    destruct (sum256 _ =? 0) eqn:E; [lia | reflexivity]. }
  unfold parse_area. rewrite Hc. cbn. eauto.
Qed.

Lemma mr_base_upd_near d r0 j b :
  mr_base d = Ok r0 -> bytes_ok d = true -> (j < 5 + length (r_raw r0))%nat ->
  b < 256 -> b <> nth j d 0 -> mr_base (upd d j b) = Err DecodingError.
Proof.
  unfold mr_base. destruct d as [|t [|b1 [|l [|c [|h body]]]]]; try discriminate.
  destruct (negb (sum256 [t; b1; l; c; h] =? 0)) eqn:E1; [discriminate|].
  destruct (negb ((sum (firstn (N.to_nat l) body) + c) mod 256 =? 0)) eqn:E2; [discriminate|].
  intros H Hb Hj Hb' Hne. inversion H; subst; clear H. cbn [r_raw] in Hj.
  cbn in Hb. repeat (apply andb_prop in Hb as [? Hb]). unfold is_byte in *.
  pose proof E1 as E1'. unfold sum256 in E1. cbn [sum] in E1.
  destruct j as [|[|[|[|[|j']]]]]; cbn [upd nth] in *.
  1-5: match goal with |- (if ?c then _ else _) = _ => replace c with true; [reflexivity|] end;
       unfold sum256; cbn [sum]; lia.
  rewrite E1'.
  assert (Hj' : (j' < length (firstn (N.to_nat l) body))%nat) by lia.
  assert (Hjl : (j' < N.to_nat l)%nat) by (rewrite firstn_length in Hj'; lia).
  rewrite firstn_upd_lt by assumption.
  pose proof (sum_upd _ j' b Hj') as Hsu. rewrite nth_firstn_lt in Hsu by assumption.
  assert (nth j' body 0 < 256) by (apply nth_byte; assumption).
  match goal with |- (if ?c then _ else _) = _ => replace c with true; [reflexivity|] end.
  lia.
Qed.

Lemma mr_base_upd_far d r0 j b :
  mr_base d = Ok r0 -> (5 + N.to_nat (r_len r0) <= j)%nat -> mr_base (upd d j b) = Ok r0.
Proof.
  unfold mr_base. destruct d as [|t [|b1 [|l [|c [|h body]]]]]; try discriminate.
  destruct (negb (sum256 [t; b1; l; c; h] =? 0)) eqn:E1; [discriminate|].
  destruct (negb ((sum (firstn (N.to_nat l) body) + c) mod 256 =? 0)) eqn:E2; [discriminate|].
  intros H Hj. inversion H; subst; clear H. cbn [r_len] in Hj.
  destruct j as [|[|[|[|[|j']]]]]; try lia. cbn [upd]. rewrite E1.
  rewrite firstn_upd_ge by lia. now rewrite E2.
Qed.

Lemma parse_record_err d e : d <> [] -> mr_base d = Err e -> exists e', parse_record d = Err e'.
Proof.
  intros Hd H. unfold parse_record. destruct d as [|t d']; [congruence|].
  destruct (t =? 192); [|eauto].
  destruct (Nat.ltb _ 10); [eauto|]. rewrite H. cbn. eauto.
Qed.

(* position j, relative to the start of the record list, lies in the header or in the
   body of one of the records *)
Fixpoint in_recs (rs : list mrec) (j : nat) : Prop :=
  match rs with
  | [] => False
  | r :: rs' =>
      (j < 5 + length (r_raw r))%nat \/
      ((5 + N.to_nat (r_len r) <= j)%nat /\ in_recs rs' (j - (5 + N.to_nat (r_len r))))
  end.

Lemma recs_alter b : b < 256 -> forall fuel d rs j,
  parse_records fuel d = Ok rs -> bytes_ok d = true -> in_recs rs j -> (j < length d)%nat ->
  b <> nth j d 0 -> forall fuel', exists e, parse_records fuel' (upd d j b) = Err e.
Proof.
  intros Hb'. induction fuel as [|k IH]; intros d rs j H Hb Hin Hj Hne fuel'; [discriminate|].
  destruct fuel' as [|k']; [cbn; eauto|].
  cbn [parse_records] in H |- *. inv_bind H. rename x into r.
  destruct (parse_record_base _ _ Hx) as (r0 & Hb0 & Ht & He & Hl & Hr).
  assert (Hnonempty : upd d j b <> []).
  { intros E. apply (f_equal (@length N)) in E. rewrite upd_length in E. cbn in E. lia. }
  destruct (r_eol r) eqn:Heol.
  - inversion H; subst. cbn [in_recs] in Hin. destruct Hin as [Hin | [_ []]].
    rewrite Hr in Hin. pose proof (mr_base_upd_near _ _ _ _ Hb0 Hb Hin Hb' Hne) as Hn.
    destruct (parse_record_err _ _ Hnonempty Hn) as [e' ->]. cbn. eauto.
  - inv_bind H. inversion H; subst; clear H. cbn [in_recs] in Hin. destruct Hin as [Hin | [Hfar Hin]].
    + rewrite Hr in Hin. pose proof (mr_base_upd_near _ _ _ _ Hb0 Hb Hin Hb' Hne) as Hn.
      destruct (parse_record_err _ _ Hnonempty Hn) as [e' ->]. cbn. eauto.
    + destruct (parse_record (upd d j b)) as [r'|e'] eqn:Hp'; [|cbn; eauto]. cbn [bind].
      destruct (parse_record_base _ _ Hp') as (r0' & Hb0' & _ & He' & Hl' & _).
      rewrite (mr_base_upd_far d r0 j b Hb0) in Hb0' by (rewrite <- Hl; exact Hfar).
      inversion Hb0'; subst r0'. rewrite He', <- He, Hl', <- Hl.
      rewrite skipn_upd_ge by lia.
      replace (j - (N.to_nat (r_len r) + 5))%nat with (j - (5 + N.to_nat (r_len r)))%nat by lia.
      destruct (IH _ _ _ Hx0 (bytes_ok_skipn _ _ Hb) Hin) with (fuel' := k') as [e Hee].
      * rewrite skipn_length. lia.
      * rewrite nth_skipn. match goal with |- b <> nth ?k d 0 => replace k with j by lia end.
        exact Hne.
      * rewrite Hee. cbn. eauto.
Qed.

(* byte i of the image is covered by a checksum whose region extent does not depend on
   it: the common header; a parsed info area except its length byte; the header or body
   of a parsed multi-record *)
Inductive covered (inv : inventory) (i : nat) : Prop :=
| cov_header : (i < 8)%nat -> covered inv i
| cov_area : forall dated nf off a,
    In (dated, nf, off, Parsed a)
       [(false, 2%nat, h_chassis (i_header inv), i_chassis inv);
        (true, 5%nat, h_board (i_header inv), i_board inv);
        (false, 7%nat, h_product (i_header inv), i_product inv)] ->
    (N.to_nat off <= i < N.to_nat off + N.to_nat (a_length a))%nat ->
    i <> (N.to_nat off + 1)%nat -> covered inv i
| cov_rec : forall rs, i_multi inv = MParsed rs ->
    (N.to_nat (h_multi (i_header inv)) <= i)%nat ->
    in_recs rs (i - N.to_nat (h_multi (i_header inv))) -> covered inv i.

Lemma area_at_alter dated nf off img a i b :
  area_at dated nf off img = Ok (Parsed a) -> bytes_ok img = true -> (i < length img)%nat ->
  (N.to_nat off <= i < N.to_nat off + N.to_nat (a_length a))%nat -> i <> (N.to_nat off + 1)%nat ->
  b < 256 -> b <> nth i img 0 -> exists e, area_at dated nf off (upd img i b) = Err e.
Proof.
  unfold area_at, area_obj. destruct (off =? 0); [discriminate|].
  intros H Hb Hi Hr Hn1 Hb' Hne. rewrite skipn_upd_ge by lia.
  destruct (skipn (N.to_nat off) img) as [|x d'] eqn:Ed; [discriminate|].
  inv_bind H. inversion H; subst x0; clear H.
  assert (Hlen : length (x :: d') = (length img - N.to_nat off)%nat) by (rewrite <- Ed; apply skipn_length).
  destruct (area_alter dated nf (x :: d') a (i - N.to_nat off) b Hx) as [e He]; try assumption; try lia.
  - rewrite <- Ed. now apply bytes_ok_skipn.
  - rewrite <- Ed, nth_skipn. replace (N.to_nat off + (i - N.to_nat off))%nat with i by lia. exact Hne.
  - destruct (upd (x :: d') (i - N.to_nat off) b) eqn:Eu.
    + apply (f_equal (@length N)) in Eu. rewrite upd_length in Eu. discriminate.
    + rewrite He. cbn. eauto.
Qed.

Lemma alteration_rejected img inv i b :
  parse_inventory img = Ok (Some inv) -> bytes_ok img = true -> (i < length img)%nat ->
  covered inv i -> b < 256 -> b <> nth i img 0 ->
  exists e, parse_inventory (upd img i b) = Err e.
Proof.
  intros H Hb Hi Hcov Hb' Hne.
  destruct (parse_inventory (upd img i b)) as [[inv'|]|e] eqn:H'; [exfalso| |eauto].
  2:{ unfold parse_inventory in H'. destruct (upd img i b) eqn:Eu.
      - apply (f_equal (@length N)) in Eu. rewrite upd_length in Eu. cbn in Eu. lia.
      - do 5 (destruct (bind_ok _ _ _ H') as (? & ? & H''); clear H'; rename H'' into H'). discriminate. }
  pose proof (accept_implies_checksums _ _ H) as (Hlen & Hsum & _).
  apply parse_inventory_parts in H as (Hh & Hc & Hbd & Hp & Hm).
  apply parse_inventory_parts in H' as (Hh' & Hc' & Hbd' & Hp' & Hm').
  destruct Hcov as [Hi8 | dated nf off a Hin Hr Hn1 | rs Hrs Hr Hin].
  - (* common header *)
    rewrite firstn_upd_lt in Hh' by assumption.
    apply parse_header_ok in Hh' as (_ & Hs' & _).
    revert Hs'. apply sum256_upd_ne; try assumption.
    + now apply bytes_ok_firstn.
    + rewrite firstn_length. lia.
    + now rewrite nth_firstn_lt.
  - (* info area: its offset is a non-zero multiple of 8, so the header is untouched *)
    assert (Hoff : (8 <= N.to_nat off)%nat /\ area_at dated nf off img = Ok (Parsed a)).
    { cbn in Hin. destruct Hin as [E|[E|[E|[]]]]; injection E as <- <- <- Ea.
      - rewrite Ea in Hc. split; [|exact Hc]. apply area_at_sums in Hc. cbn in Hc.
        apply parse_header_ok in Hh as (_ & _ & E & _). lia.
      - rewrite Ea in Hbd. split; [|exact Hbd]. apply area_at_sums in Hbd. cbn in Hbd.
        apply parse_header_ok in Hh as (_ & _ & _ & E & _). lia.
      - rewrite Ea in Hp. split; [|exact Hp]. apply area_at_sums in Hp. cbn in Hp.
        apply parse_header_ok in Hh as (_ & _ & _ & _ & E & _). lia. }
    destruct Hoff as [Hoff Hat].
    rewrite firstn_upd_ge in Hh' by lia. rewrite Hh in Hh'. inversion Hh' as [Ehh].
    destruct (area_at_alter _ _ _ _ _ i b Hat Hb Hi Hr Hn1 Hb' Hne) as [e He].
    cbn in Hin. destruct Hin as [E|[E|[E|[]]]]; injection E as <- <- <- Ea; congruence.
  - (* multi-record *)
    pose proof (multi_at_sums _ _ _ Hm) as Hms. rewrite Hrs in Hms. cbn in Hms. destruct Hms as [Hnz _].
    assert (Hoff : (8 <= N.to_nat (h_multi (i_header inv)))%nat).
    { apply parse_header_ok in Hh as (_ & _ & _ & _ & _ & E & _). lia. }
    rewrite firstn_upd_ge in Hh' by lia. rewrite Hh in Hh'. inversion Hh' as [Ehh].
    rewrite <- Ehh in Hm'. revert Hm Hm'. unfold multi_at, multi_obj.
    destruct (h_multi (i_header inv) =? 0) eqn:Ez; [lia|].
    rewrite skipn_upd_ge by lia.
    set (off := N.to_nat (h_multi (i_header inv))) in *.
    destruct (skipn off img) as [|x d'] eqn:Ed; [rewrite Hrs; discriminate|].
    intros Hm Hm'. inv_bind Hm. rewrite Hrs in Hm. inversion Hm; subst x0; clear Hm.
    assert (Hlen' : length (x :: d') = (length img - off)%nat) by (rewrite <- Ed; apply skipn_length).
    destruct (recs_alter b Hb' _ _ _ (i - off) Hx) with (fuel' := S (length (upd (x :: d') (i - off) b))) as [e He];
      try assumption; try lia.
    + rewrite <- Ed. now apply bytes_ok_skipn.
    + rewrite <- Ed, nth_skipn. replace (off + (i - off))%nat with i by lia. exact Hne.
    + destruct (upd (x :: d') (i - off) b) eqn:Eu.
      * apply (f_equal (@length N)) in Eu. rewrite upd_length in Eu. discriminate.
      * rewrite He in Hm'. discriminate.
Qed.

(* ---- the fuel of the two loops is sufficient ---- *)
Definition noof {A} (r : res A) : Prop := r <> Err OutOfFuel.

Lemma noof_bind {A B} (r : res A) (f : A -> res B) :
  noof r -> (forall a, r = Ok a -> noof (f a)) -> noof (bind r f).
Proof. unfold noof. destruct r as [a|e]; cbn; intros H1 H2; [now apply H2 | congruence]. Qed.

Lemma noof_idx d i : noof (idx d i).
Proof. unfold noof, idx. destruct (nth_error d i); discriminate. Qed.

Lemma noof_bcd raw : noof (bcd_decode raw).
Proof.
  induction raw as [|b r IH]; [discriminate|]. cbn [bcd_decode].
  repeat (apply noof_bind; [unfold noof, bcd_char; destruct (nth_error _ _); discriminate | intros ? _]).
  apply noof_bind; [exact IH | intros; discriminate].
Qed.

Lemma noof_tls off rest : noof (tls off rest).
Proof.
  unfold tls. destruct rest as [|b tl]; [discriminate|].
  apply noof_bind; [|intros; discriminate].
  destruct (_ =? 1); [apply noof_bcd|]. destruct (_ =? 2); discriminate.
Qed.

Lemma noof_parse_fields n : forall off rest, noof (parse_fields n off rest).
Proof.
  induction n as [|n IH]; intros off rest; [discriminate|]. cbn [parse_fields].
  apply noof_bind; [apply noof_tls | intros f _].
  apply noof_bind; [apply IH | intros [[? ?] ?] _; discriminate].
Qed.

Lemma noof_custom_fields fuel : forall off rest, (length rest < fuel)%nat -> noof (custom_fields fuel off rest).
Proof.
  induction fuel as [|k IH]; intros off rest Hl; [lia|]. cbn [custom_fields].
  destruct rest as [|b tl]; [discriminate|]. destruct (b =? _); [discriminate|].
  apply noof_bind; [apply noof_tls | intros f _].
  apply noof_bind; [|intros; discriminate].
  apply IH. rewrite skipn_length. cbn [length] in *. lia.
Qed.

Lemma noof_parse_area dated nf d : noof (parse_area dated nf d).
Proof.
  unfold parse_area.
  apply noof_bind.
  { unfold common_info. apply noof_bind; [apply noof_idx | intros ? _].
    destruct (negb _); [discriminate|]. apply noof_bind; [apply noof_idx | intros ? _].
    destruct (negb _); discriminate. }
  intros [v len] _. apply noof_bind; [apply noof_idx | intros ? _].
  apply noof_bind.
  { destruct dated; [|discriminate].
    repeat (apply noof_bind; [apply noof_idx | intros ? _]). discriminate. }
  intros ? _. apply noof_bind; [apply noof_parse_fields | intros [[fs off'] rest] _].
  apply noof_bind; [|intros; discriminate].
  unfold decode_custom_fields. apply noof_custom_fields. lia.
Qed.

Lemma noof_area_at dated nf off img : noof (area_at dated nf off img).
Proof.
  unfold area_at, area_obj. destruct (off =? 0); [discriminate|].
  destruct (skipn _ img); [discriminate|].
  apply noof_bind; [apply noof_parse_area | intros; discriminate].
Qed.

Lemma noof_mr_base d : noof (mr_base d).
Proof.
  unfold mr_base. destruct d as [|t [|b1 [|l [|c [|h body]]]]]; try discriminate.
  destruct (negb _); [discriminate|]. destruct (negb _); discriminate.
Qed.

Lemma noof_parse_record d : noof (parse_record d).
Proof.
  unfold parse_record. destruct d as [|t d']; [discriminate|].
  destruct (t =? 192); [|apply noof_mr_base].
  destruct (Nat.ltb _ 10); [discriminate|].
  apply noof_bind; [apply noof_mr_base | intros r _].
  destruct (_ =? 39); [|discriminate]. destruct (Nat.ltb _ 12); discriminate.
Qed.

Lemma noof_parse_records fuel : forall d, (length d < fuel)%nat -> noof (parse_records fuel d).
Proof.
  induction fuel as [|k IH]; intros d Hl; [lia|]. cbn [parse_records].
  apply noof_bind; [apply noof_parse_record | intros r Hr].
  destruct (r_eol r); [discriminate|].
  apply noof_bind; [|intros; discriminate].
  apply IH. rewrite skipn_length.
  destruct (parse_record_base _ _ Hr) as (r0 & Hb & _). apply mr_base_ok in Hb as (H5 & _). lia.
Qed.

Lemma parse_inventory_fuel img : parse_inventory img <> Err OutOfFuel.
Proof.
  unfold parse_inventory. destruct img as [|b0 img']; [discriminate|].
  apply noof_bind.
  { unfold parse_header.
    destruct (firstn 8 (b0 :: img')) as [|d0 [|d1 [|d2 [|d3 [|d4 [|d5 [|d6 [|d7 [|]]]]]]]]]; try discriminate.
    destruct (negb _); discriminate. }
  intros h _. repeat (apply noof_bind; [apply noof_area_at | intros ? _]).
  apply noof_bind; [|intros; discriminate].
  unfold multi_at, multi_obj. destruct (_ =? 0); [discriminate|].
  destruct (skipn _ _) eqn:E; [discriminate|].
  apply noof_bind; [apply noof_parse_records; lia | intros; discriminate].
Qed.
