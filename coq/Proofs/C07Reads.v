(* C07 - reads on ARBITRARY BMC answers: for every state of the reference BMC whose answer to the read
   command is a byte string of the stated domain (every value 0..255 of the bytes that select or neighbour the decoded fields, and every single-bit
   flip of every byte - reserved and neighbour bits included - around several base answers), the generated read operation returns the meaning of
   those bytes given by an independent decoder written here by byte position, and leaves the state unchanged. *)
From Coq Require Import String Ascii.
From Coq Require Import NArith ZArith List Bool Lia.
From PyIpmi Require Import Lib.Res Lib.Bytes Lib.Prog Model.ApiSem Model.Bmc Model.ApiRun Proofs.ApiRunProofs
  Proofs.C07Pure Proofs.C07Chassis.
Import ListNotations.
Open Scope string_scope.
Open Scope list_scope.
Open Scope N_scope.

Definition chk_read (name : string) (args : list (string * pv)) (req : request) (spec : list N -> res pv)
                    (d : list N) : bool :=
  exch_ok name args (RBytes (0 :: d)) req (spec d) && is_read_cmd req.

Lemma read_answer name args req spec dom s d : is_supported name = true ->
  forallb (chk_read name args req spec) dom = true -> List.In d dom ->
  snd (bmc_handle s req) = RBytes (0 :: d) ->
  exists r, call name args s = (r, s) /\ same r (spec d).
Proof.
  intros Sn T Hd B. pose proof (table1 _ dom T d Hd) as C. unfold chk_read in C.
  apply andb_true_iff in C as [E R]. apply (exch_ok_eq _ _ _ _ _ Sn) in E. apply exch_eqb_eq in E as (r' & v' & E & Q & V).
  apply request_eqb_eq in Q. subst r'. exists v'. split; [| exact V].
  exact (read_pure name args s _ req v' E R B).
Qed.

(* answers around [base]: every value 0..255 of the bytes at positions [ps], one position at a time; and every
   single-bit flip of every byte *)
Definition setb (i : nat) (v : N) (base : list N) : list N := firstn i base ++ [v] ++ skipn (S i) base.
Definition sweep_at (ps : list nat) (base : list N) : list (list N) :=
  flat_map (fun i => map (fun v => setb i v base) (nrange 256)) ps.
Definition flips (base : list N) : list (list N) :=
  flat_map (fun i => map (fun k => setb i (N.lxor (nth i base 0) (2 ^ k)) base) (nrange 8)) (seq 0 (length base)).
Definition around (ps : list nat) (base : list N) : list (list N) := base :: sweep_at ps base ++ flips base.
Definition pb (x i : N) : pv := PBool (bit x i =? 1).
Definition pi (n : N) : pv := PInt (Z.of_N n).
Definition named_bits (x : N) (names : list string) : pv :=
  PList (map (fun p => PStr (snd p))
             (filter (fun p => bit x (N.of_nat (fst p)) =? 1) (combine (seq 0 (length names)) names))).

(* ---- boot flags (Get System Boot Options, parameter 5): [version; parameter; data1..data5] ---- *)
Definition boot_dom : list (list N) := around [2; 3]%nat [1; 5; 0; 0; 0; 0; 0] ++ around [2; 3]%nat [1; 133; 255; 255; 255; 255; 255].
Definition boot_req := mkReq 0 9 0 [5; 0; 0].
Definition spec_boot_device (d : list N) : res pv :=
  let sel := (at_ d 3 / 4) mod 16 in                  (* boot device selector: data 2 bits 5:2 *)
  match find (fun p => snd p =? sel) boot_devices with
  | Some p => Ok (PStr (fst p))
  | None => Err (OtherError KeyError)                 (* reserved selector: no name *)
  end.
Definition spec_boot_mode (d : list N) : res pv := Ok (PStr (if bit (at_ d 2) 5 =? 1 then "efi" else "legacy")).
Definition spec_boot_pers (d : list N) : res pv := Ok (pb (at_ d 2) 6).
Lemma boot_device_table : forallb (chk_read "get_boot_device" [] boot_req spec_boot_device) boot_dom = true.
Proof. vm_cast_no_check (eq_refl true). Qed.
Definition boot_dom1 : list (list N) := around [2; 3]%nat [1; 5; 0x5f; 0xff; 255; 255; 255] ++ flips [1; 133; 0xa0; 0; 0; 0; 0].
Lemma boot_mode_table : forallb (chk_read "get_boot_mode" [] boot_req spec_boot_mode) boot_dom1 = true.
Proof. vm_cast_no_check (eq_refl true). Qed.
Lemma boot_pers_table : forallb (chk_read "get_boot_persistency" [] boot_req spec_boot_pers) boot_dom1 = true.
Proof. vm_cast_no_check (eq_refl true). Qed.

(* ---- chassis status: [current power state; last power event; misc state; (front panel)] ---- *)
Definition chassis_dom : list (list N) :=
  around [0; 1; 2]%nat [0; 0; 0; 0] ++ around [] [255; 255; 255; 255] ++ around [] [0x21; 0x10; 0x40].
Definition spec_chassis (d : list N) : res pv :=
  let ps := at_ d 0 in let ev := at_ d 1 in let misc := at_ d 2 in
  Ok (PObj "ChassisStatus" [
    ("power_on", pb ps 0); ("overload", pb ps 1); ("interlock", pb ps 2); ("fault", pb ps 3);
    ("control_fault", pb ps 4); ("restore_policy", pi ((ps / 32) mod 4));
    ("id_cmd_state_info_support", pb misc 6); ("chassis_id_state", pi ((misc / 16) mod 4));
    ("front_panel_button_capabilities", match d with [_; _; _; fp] => pi fp | _ => PNone end);
    ("last_event", named_bits ev ["ac_failed"; "overload"; "interlock"; "fault"; "power_on_via_ipmi"]);
    ("chassis_state", named_bits misc ["intrusion"; "front_panel_lockout"; "drive_fault"; "cooling_fault"])]).
Lemma chassis_table : forallb (chk_read "get_chassis_status" [] (mkReq 0 1 0 []) spec_chassis) chassis_dom = true.
Proof. vm_cast_no_check (eq_refl true). Qed.

(* ---- watchdog: [use; actions; pre-timeout interval; expiration flags; initial lsb msb; present lsb msb] ---- *)
Definition wd_dom : list (list N) := around [0; 1]%nat [0; 0; 0; 0; 0; 0; 0; 0] ++ around [] [255; 255; 255; 255; 255; 255; 255; 255].
Definition spec_wd (d : list N) : res pv :=
  Ok (PObj "Watchdog" [
    ("timer_use", pi (at_ d 0 mod 8)); ("dont_stop", PNone); ("is_running", pb (at_ d 0) 6); ("dont_log", pb (at_ d 0) 7);
    ("pre_timeout_interrupt", pi ((at_ d 1 / 16) mod 8)); ("timeout_action", pi (at_ d 1 mod 8));
    ("pre_timeout_interval", pi (at_ d 2)); ("timer_use_expiration_flags", pi (at_ d 3));
    ("initial_countdown", pi (at_ d 4 + 256 * at_ d 5)); ("present_countdown", pi (at_ d 6 + 256 * at_ d 7))]).
Lemma wd_read_table : forallb (chk_read "get_watchdog_timer" [] (mkReq 6 37 0 []) spec_wd) wd_dom = true.
Proof. vm_cast_no_check (eq_refl true). Qed.

(* ---- sensor reading: [reading; flags; (states 1; (states 2))] ---- *)
Definition reading_dom : list (list N) :=
  around [1]%nat [255; 255] ++ around [2]%nat [7; 0xc0; 0] ++ around [1; 3]%nat [255; 0xdf; 255; 255].
Definition spec_reading (d : list N) : res pv :=
  Ok (PList [if bit (at_ d 1) 5 =? 1 then PNone else pi (at_ d 0);
             match d with
             | [_; _; s1] => pi s1
             | [_; _; s1; s2] => pi (s1 + 256 * s2)
             | _ => PNone
             end]).
Definition reading_args := [arg "sensor_number" 3; arg "lun" 1].
Lemma reading_table : forallb (chk_read "get_sensor_reading" reading_args (mkReq 4 45 1 [3]) spec_reading) reading_dom = true.
Proof. vm_cast_no_check (eq_refl true). Qed.

(* ---- thresholds: [readable mask; lnc; lcr; lnr; unc; ucr; unr] ---- *)
Definition thr_dom : list (list N) := around [0]%nat [0; 1; 2; 3; 4; 5; 6] ++ around [0]%nat [255; 250; 251; 252; 253; 254; 255].
Definition spec_thr (d : list N) : res pv :=
  Ok (PObj "dict" (flat_map (fun p => if bit (at_ d 0) (N.of_nat (fst p)) =? 1
                                      then [(snd p, pi (at_ d (S (fst p))))] else [])
                            [(5, "unr"); (4, "ucr"); (3, "unc"); (0, "lnc"); (1, "lcr"); (2, "lnr")]%nat)).
Lemma thr_read_table : forallb (chk_read "get_sensor_thresholds" reading_args (mkReq 4 39 1 [3]) spec_thr) thr_dom = true.
Proof. vm_cast_no_check (eq_refl true). Qed.

(* ---- user access: [max users; enabled count | status; fixed names; access flags | privilege] ---- *)
Definition uacc_dom : list (list N) := around [1; 3]%nat [0; 0; 0; 0] ++ around [3]%nat [255; 255; 255; 255].
Definition priv_names : list (N * string) :=
  [(0, "reserved"); (1, "callback"); (2, "user"); (3, "operator"); (4, "administrator"); (5, "oem"); (15, "no access")].
Definition spec_uacc (d : list N) : res pv :=
  Ok (PObj "UserAccess" [
    ("user_count", pi (at_ d 0 mod 64)); ("enabled_user_count", pi (at_ d 1 mod 64)); ("enabled_status", pi (at_ d 1 / 64));
    ("fixed_name_user_count", pi (at_ d 2 mod 64));
    ("privilege_level", PStr (match find (fun p => fst p =? at_ d 3 mod 16) priv_names with
                              | Some p => snd p | None => "reserved" end));
    ("ipmi_messaging", pb (at_ d 3) 4); ("link_auth", pb (at_ d 3) 5); ("callback_only", pb (at_ d 3) 6)]).
Definition uacc_args := [arg "userid" 3; arg "channel" 1].
Lemma uacc_table : forallb (chk_read "get_user_access" uacc_args (mkReq 6 68 0 [1; 3]) spec_uacc) uacc_dom = true.
Proof. vm_cast_no_check (eq_refl true). Qed.

(* ---- FRU LED state: [picmg id; states; local fn; local on; local color; (ovr fn; ovr on; ovr color); (lamp)] ---- *)
Definition led_fn_of (x : N) : option N :=
  if x =? 0 then Some 1 else if x =? 255 then Some 3 else if (1 <=? x) && (x <=? 249) then Some 2 else None.
Definition in_blink (x : N) : bool := (1 <=? x) && (x <=? 249).
Definition spec_led (d : list N) : res pv :=
  let st := at_ d 1 in
  let ovr := bit st 1 =? 1 in let lamp := bit st 2 =? 1 in
  let want := (5 + (if ovr || lamp then 3 else 0) + (if lamp then 1 else 0))%nat in
  if negb (Nat.eqb (length d) want) then Err DecodingError else
  match led_fn_of (at_ d 2) with
  | None => Err DecodingError
  | Some lf =>
    if (lf =? 2) && negb (in_blink (at_ d 3)) then Err DecodingError else
    let ldur := if lf =? 2 then (pi (10 * at_ d 2), pi (10 * at_ d 3)) else (PNone, PNone) in
    let finish := fun (o : pv * pv * pv * pv) =>
      let '(ofn, ooff, oon, ocol) := o in
      Ok (PObj "LedState" [
        ("fru_id", PNone); ("led_id", PNone); ("local_state_available", pb st 0); ("override_enabled", pb st 1);
        ("lamp_test_enabled", pb st 2); ("local_function", pi lf); ("local_off_duration", fst ldur);
        ("local_on_duration", snd ldur); ("local_color", pi (at_ d 4)); ("override_function", ofn);
        ("override_off_duration", ooff); ("override_on_duration", oon); ("override_color", ocol);
        ("lamp_test_duration", if lamp then pi (100 * nth (want - 1) d 0) else PNone)]) in
    if ovr then
      match led_fn_of (at_ d 5) with
      | None => Err DecodingError
      | Some f => finish (pi f, (if f =? 2 then pi (10 * at_ d 5) else PNone),
                          (if f =? 2 then pi (10 * at_ d 6) else PNone), pi (at_ d 7))
      end
    else finish (PNone, PNone, PNone, PNone)
  end.
(* conforming answers: the length follows the state bits *)
Definition led_shape (d : list N) : bool :=
  let st := at_ d 1 in
  Nat.eqb (length d) (5 + (if (bit st 1 =? 1) || (bit st 2 =? 1) then 3 else 0) + (if bit st 2 =? 1 then 1 else 0)).
Definition led_dom : list (list N) :=
  filter led_shape (around [1; 2]%nat [0; 1; 0; 0; 1] ++ around [1; 5; 6]%nat [0; 3; 0xff; 0; 2; 7; 9; 3]
                    ++ around [1; 3]%nat [0; 0xff; 249; 249; 255; 1; 255; 255; 255]
                    ++ around [] [0; 5; 0xff; 0; 1; 3; 4; 5; 6]).
Definition led_args := [arg "fru_id" 1; arg "led_id" 2].
Lemma led_read_table : forallb (chk_read "get_led_state" led_args (mkReq 44 8 0 [0; 1; 2]) spec_led) led_dom = true.
Proof. vm_cast_no_check (eq_refl true). Qed.
