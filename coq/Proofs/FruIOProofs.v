(* Lemmas for C10 (FRU data transfer). *)
From Coq Require Import NArith ZArith List Lia ZifyN ZifyBool ZifyNat Bool.
From PyIpmi Require Import Lib.Res Lib.Bytes Lib.Prog Model.FruIO.
Import ListNotations.
Open Scope N_scope.
Ltac Zify.zify_post_hook ::= Z.to_euclidean_division_equations.

(* ---------------------------------------------------------------------------
   a property of every request a client can ever send, whatever the replies *)
Inductive all_req {A} (P : request -> Prop) : prog A -> Prop :=
| AR_ret a : all_req P (Ret a)
| AR_raise e : all_req P (Raise e)
| AR_send r k : P r -> (forall rp, all_req P (k rp)) -> all_req P (Send r k)
| AR_sleep ms k : all_req P k -> all_req P (Sleep ms k).

Lemma all_req_bind {A B} (P : request -> Prop) (p : prog A) (f : A -> prog B) :
  all_req P p -> (forall a, all_req P (f a)) -> all_req P (pbind p f).
Proof. induction 1; intros Hf; cbn; auto; constructor; auto. Qed.

Lemma all_req_lift {A} (P : request -> Prop) (r : res A) : all_req P (lift r).
Proof. destruct r; constructor. Qed.

Lemma all_req_run {A S} (P : request -> Prop) (p : prog A) (dev : device S) :
  all_req P p -> forall s tr, Forall (fun x => P (fst x)) tr ->
  Forall (fun x => P (fst x)) (snd (run p dev s tr)).
Proof.
  induction 1; intros s tr Htr; cbn; auto.
  destruct (dev s r) as [s' rp]. apply H1.
  apply Forall_app; split; [assumption | constructor; [assumption | constructor]].
Qed.

Definition names (id : N) (r : request) : Prop := req_fru_id r = Some id.

Lemma names_info id : id < 256 -> names id (info_req id).
Proof. intros H. unfold names, req_fru_id, info_req. cbn. f_equal. lia. Qed.
Lemma names_read id off c : id < 256 -> names id (read_req id off c).
Proof. intros H. unfold names, req_fru_id, read_req. cbn. f_equal. lia. Qed.
Lemma names_write id off d : id < 256 -> names id (write_req id off d).
Proof. intros H. unfold names, req_fru_id, write_req. cbn. f_equal. lia. Qed.

Lemma all_req_send_msg {A} (P : request -> Prop) r (dec : list N -> res A) : P r -> all_req P (send_msg r dec).
Proof. intros H. constructor; [assumption|]. intros [d|e]; [apply all_req_lift | constructor]. Qed.

Lemma all_req_read_loop id : id < 256 -> forall fuel off area rs acc,
  all_req (names id) (read_loop fuel id off area rs acc).
Proof.
  intros Hid. induction fuel as [|fuel IH]; intros off area rs acc; cbn [read_loop]; [constructor|].
  destruct (off <? area); [|constructor].
  constructor; [apply names_read; assumption|].
  intros [d|e]; [|constructor].
  destruct (dec_read d) as [[c dat]|e]; [apply IH|].
  destruct e; try constructor.
  destruct (is_backoff_cc cc); [|constructor].
  match goal with |- context [if ?b then _ else _] => destruct b end; [constructor | apply IH].
Qed.

Lemma all_req_read_fru_data id rng : id < 256 -> all_req (names id) (read_fru_data rng id).
Proof.
  intros Hid. destruct rng as [[off cnt]|]; cbn [read_fru_data].
  - apply all_req_read_loop; assumption.
  - apply all_req_bind.
    + apply all_req_send_msg, names_info; assumption.
    + intros a. apply all_req_read_loop; assumption.
Qed.

Lemma all_req_header id : id < 256 -> all_req (names id) (get_fru_inventory_header id).
Proof.
  intros Hid. apply all_req_bind; [apply all_req_read_fru_data; assumption|].
  intros a. apply all_req_lift.
Qed.

Lemma all_req_read_area id off : id < 256 -> all_req (names id) (read_fru_area off id).
Proof.
  intros Hid. apply all_req_bind; [apply all_req_read_fru_data; assumption|].
  intros a. apply all_req_read_fru_data; assumption.
Qed.

Lemma all_req_parse_area {P : request -> Prop} parse kind d : all_req P (parse_area parse kind d).
Proof.
  destruct d; cbn [parse_area]; [constructor|].
  apply all_req_bind; [apply all_req_lift | intros; constructor].
Qed.

Lemma all_req_info_area parse kind id : id < 256 ->
  all_req (names id) (get_fru_info_area parse kind id).
Proof.
  intros Hid. apply all_req_bind; [apply all_req_header; assumption|]. intros h.
  apply all_req_bind; [apply all_req_read_area; assumption|]. intros d.
  apply all_req_parse_area.
Qed.

Lemma all_req_mr_scan id : id < 256 -> forall fuel off count,
  all_req (names id) (mr_scan fuel id off count).
Proof.
  intros Hid. induction fuel as [|fuel IH]; intros off count; cbn [mr_scan]; [constructor|].
  apply all_req_bind; [apply all_req_read_fru_data; assumption|]. intros d.
  destruct (N.testbit (nth 1 d 0) 7); [constructor | apply IH].
Qed.

Lemma all_req_multirecord parse fuel id : id < 256 ->
  all_req (names id) (get_fru_multirecord_area parse fuel id).
Proof.
  intros Hid. apply all_req_bind; [apply all_req_header; assumption|]. intros h.
  destruct (sel4 4 h).
  - apply all_req_bind; [apply all_req_mr_scan; assumption|]. intros c.
    apply all_req_bind; [apply all_req_read_fru_data; assumption|]. intros d.
    apply all_req_parse_area.
  - apply all_req_bind; [apply all_req_read_fru_data; assumption|]. intros d.
    destruct (len d <? 3); constructor.
Qed.

Lemma all_req_opt_area {P : request -> Prop} o (p : prog (list N)) : all_req P p -> all_req P (opt_area o p).
Proof.
  intros H. destruct o; cbn [opt_area]; [|constructor].
  apply all_req_bind; [assumption | intros; constructor].
Qed.

Lemma all_req_inventory parse fuel id : id < 256 ->
  all_req (names id) (get_fru_inventory parse fuel id).
Proof.
  intros Hid. unfold get_fru_inventory.
  apply all_req_bind; [apply all_req_header; assumption|]. intros h.
  apply all_req_bind; [apply all_req_opt_area, all_req_info_area; assumption|]. intros c.
  apply all_req_bind; [apply all_req_opt_area, all_req_info_area; assumption|]. intros b.
  apply all_req_bind; [apply all_req_opt_area, all_req_info_area; assumption|]. intros p.
  apply all_req_bind; [apply all_req_opt_area, all_req_multirecord; assumption|]. intros m.
  constructor.
Qed.

Lemma inventory_ids : forall (parse : N -> list N -> res unit) (fuel : nat) (id : N)
    (S : Type) (dev : device S) (s : S),
  id < 256 ->
  Forall (fun x => req_fru_id (fst x) = Some id)
         (snd (run (get_fru_inventory parse fuel id) dev s [])).
Proof.
  intros. apply (all_req_run (names id)); [apply all_req_inventory; assumption | constructor].
Qed.

Lemma all_req_write_chunks id : id < 256 -> forall cs off,
  all_req (names id) (write_chunks id off cs).
Proof.
  intros Hid. induction cs as [|c r IH]; intros off; cbn [write_chunks]; [constructor|].
  apply all_req_bind; [apply all_req_send_msg, names_write; assumption|]. intros w.
  destruct (w =? len c); [apply IH | constructor].
Qed.

Lemma all_req_write wl data off id : id < 256 ->
  all_req (names id) (write_fru_data wl data off id).
Proof.
  intros Hid. unfold write_fru_data. destruct (wl =? 0); [constructor|].
  apply all_req_write_chunks; assumption.
Qed.

(* ---------------------------------------------------------------------------
   slices *)
Lemma slice_len l off cnt : off + cnt <= len l -> len (slice l off cnt) = cnt.
Proof.
  unfold len, slice. intros H. rewrite firstn_length, skipn_length. lia.
Qed.

Lemma slice_app l off a b : off + a + b <= len l ->
  slice l off a ++ slice l (off + a) b = slice l off (a + b).
Proof.
  unfold len. intros H. unfold slice.
  replace (N.to_nat (a + b)) with (N.to_nat a + N.to_nat b)%nat by lia.
  replace (N.to_nat (off + a)) with (N.to_nat off + N.to_nat a)%nat by lia.
  rewrite <- skipn_skipn.
  set (m := skipn (N.to_nat off) l).
  rewrite <- (firstn_skipn (N.to_nat a) m) at 3.
  rewrite firstn_app, firstn_firstn.
  assert (Hm : (N.to_nat a <= length m)%nat) by (subst m; rewrite skipn_length; lia).
  rewrite firstn_length_le by exact Hm.
  replace (Nat.min (N.to_nat a + N.to_nat b) (N.to_nat a)) with (N.to_nat a) by lia.
  replace (N.to_nat a + N.to_nat b - N.to_nat a)%nat with (N.to_nat b) by lia.
  reflexivity.
Qed.

Lemma slice_all l : slice l 0 (len l) = l.
Proof. unfold slice, len. rewrite Nat2N.id. cbn. apply firstn_all. Qed.

(* ---------------------------------------------------------------------------
   the device answers a well-formed read request *)
Local Opaque N.mul N.add N.modulo N.div N.ltb.
Lemma dev_read s id off cnt : id < 256 -> off < 65536 -> cnt < 256 ->
  fru_dev s (read_req id off cnt) =
  (s, if fd_limit s <? cnt then RBytes [fd_rej s]
      else if len (fd_mem s id) <? off + cnt then RBytes [0xc9]
      else RBytes (0 :: cnt :: slice (fd_mem s id) off cnt)).
Proof.
  intros Hid Hoff Hcnt. unfold fru_dev, read_req. cbn.
  replace (id mod 256) with id by lia.
  replace (cnt mod 256) with cnt by lia.
  replace (off mod 256 + 256 * (off / 256 mod 256)) with off by lia.
  destruct (fd_limit s <? cnt); [reflexivity|].
  destruct (len (fd_mem s id) <? off + cnt); reflexivity.
Qed.

Lemma dev_info s id : id < 256 ->
  fru_dev s (info_req id) = (s, RBytes (0 :: le_bytes 2 (len (fd_mem s id)) ++ [0])).
Proof.
  intros Hid. unfold fru_dev, info_req. cbn. replace (id mod 256) with id by lia. reflexivity.
Qed.

Lemma dec_info_ok n : n < 65536 -> dec_info (0 :: le_bytes 2 n ++ [0]) = Ok n.
Proof. intros H. cbn. f_equal. lia. Qed.
Local Transparent N.mul N.add N.modulo N.div N.ltb.
Definition ok_rej (s : frudev) : Prop := is_backoff_cc (fd_rej s) = true.

Lemma dec_read_ok cnt dat : len dat = cnt -> dec_read (0 :: cnt :: dat) = Ok (cnt, dat).
Proof. intros H. cbn. rewrite H, N.eqb_refl. reflexivity. Qed.

Lemma read_loop_exact s id : id < 256 -> 2 <= fd_limit s -> ok_rej s ->
  forall fuel off area rs acc tr start,
    area <= len (fd_mem s id) -> area <= 65536 -> start <= off -> off <= area ->
    1 <= rs -> rs <= 32 ->
    (N.to_nat (area - off) + N.to_nat rs + 1 <= fuel)%nat ->
    acc = slice (fd_mem s id) start (off - start) ->
    exists tr', run (read_loop fuel id off area rs acc) fru_dev s tr
                = (Ok (slice (fd_mem s id) start (area - start)), s, tr').
Proof.
  intros Hid HL Hrej.
  induction fuel as [|fuel IH]; intros off area rs acc tr start Harea H64 Hs Hoff Hrs1 Hrs2 Hfuel Hacc; [lia|].
  cbn [read_loop].
  destruct (N.ltb_spec off area) as [Hlt|Hge].
  - set (rs' := if area <? off + rs then area - off else rs).
    assert (Hrs' : 1 <= rs' /\ rs' <= rs /\ off + rs' <= area).
    { subst rs'. destruct (N.ltb_spec area (off + rs)); lia. }
    cbn [run]. rewrite dev_read by lia.
    destruct (N.ltb_spec (fd_limit s) rs') as [Hbig|Hfit].
    + unfold ok_rej in Hrej. cbn [dec_read].
      assert (Hnz : fd_rej s =? 0 = false).
      { unfold is_backoff_cc in Hrej. lia. }
      rewrite Hnz, Hrej.
      destruct (N.leb_spec rs' 2) as [H2|H2]; [lia|].
      apply IH; try lia; assumption.
    + destruct (N.ltb_spec (len (fd_mem s id)) (off + rs')) as [Hout|Hin]; [lia|].
      rewrite dec_read_ok by (apply slice_len; lia).
      apply IH; try lia.
      subst acc. replace (off + rs' - start) with ((off - start) + rs') by lia.
      replace off with (start + (off - start)) at 2 by lia.
      apply slice_app. lia.
  - cbn [run]. exists tr. subst acc. replace (area - start) with (off - start) by lia. reflexivity.
Qed.

Lemma read_range_exact : forall s id off cnt,
  id < 256 -> 2 <= fd_limit s -> is_backoff_cc (fd_rej s) = true ->
  off + cnt <= len (fd_mem s id) -> off + cnt <= 65536 ->
  exists tr, run (read_fru_data (Some (off, cnt)) id) fru_dev s []
             = (Ok (slice (fd_mem s id) off cnt), s, tr)
          /\ Forall (fun x => req_fru_id (fst x) = Some id) tr.
Proof.
  intros s id off cnt Hid HL Hrej Hlen H64. cbn [read_fru_data].
  destruct (read_loop_exact s id Hid HL Hrej (read_fuel off (off + cnt)) off (off + cnt) 32 [] [] off)
    as [tr H]; try lia.
  - unfold read_fuel. lia.
  - replace (off - off) with 0 by lia. reflexivity.
  - exists tr. replace (off + cnt - off) with cnt in H by lia. split; [assumption|].
    pose proof (all_req_run (names id) _ fru_dev (all_req_read_loop id Hid (read_fuel off (off + cnt)) off (off + cnt) 32 []) s [] (Forall_nil _)) as Hf.
    rewrite H in Hf. exact Hf.
Qed.

Lemma read_whole_exact : forall s id,
  id < 256 -> 2 <= fd_limit s -> is_backoff_cc (fd_rej s) = true ->
  len (fd_mem s id) <= 65535 ->
  exists tr, run (read_fru_data None id) fru_dev s []
             = (Ok (fd_mem s id), s, tr)
          /\ Forall (fun x => req_fru_id (fst x) = Some id) tr.
Proof.
  intros s id Hid HL Hrej H64.
  pose proof (all_req_run (names id) _ fru_dev (all_req_read_fru_data id None Hid) s [] (Forall_nil _)) as Hf.
  cbn [read_fru_data] in *. unfold get_fru_inventory_area_info, send_msg in *.
  cbn [pbind run] in *. rewrite dev_info in * by assumption.
  set (n := len (fd_mem s id)) in *.
  assert (Hdec : dec_info (0 :: le_bytes 2 n ++ [0]) = Ok n).
  { apply dec_info_ok. subst n. lia. }
  rewrite Hdec in *. cbn [lift pbind] in *.
  destruct (read_loop_exact s id Hid HL Hrej (read_fuel 0 n) 0 n 32 []
              ([] ++ [(info_req id, RBytes (0 :: le_bytes 2 n ++ [0]))]) 0)
    as [tr H]; try (subst n; lia).
  - unfold read_fuel. lia.
  - reflexivity.
  - exists tr. rewrite H in Hf. split; [|exact Hf].
    rewrite H. replace (n - 0) with n by lia. subst n. rewrite slice_all. reflexivity.
Qed.

Lemma run_bind_ok {A B S} (dev : device S) (p : prog A) : forall (f : A -> prog B) st tr a st' tr',
  run p dev st tr = (Ok a, st', tr') -> run (pbind p f) dev st tr = run (f a) dev st' tr'.
Proof.
  induction p as [a0|e|r k IHk|ms k IHk]; intros f st tr a st' tr' Hr; cbn in *.
  - injection Hr as -> -> ->. reflexivity.
  - discriminate.
  - destruct (dev st r) as [st2 rp]. eapply IHk; eassumption.
  - eapply IHk; eassumption.
Qed.

(* _read_fru_area: the area header names its own length; both reads are exact *)
Lemma read_area_exact : forall s id off,
  id < 256 -> 2 <= fd_limit s -> is_backoff_cc (fd_rej s) = true ->
  let m := fd_mem s id in
  let n := nth 1 (slice m off 5) 0 * 8 in
  off + 5 <= len m -> off + n <= len m -> len m <= 65536 ->
  exists tr, run (read_fru_area (Some off) id) fru_dev s []
             = (Ok (slice m off n), s, tr)
          /\ Forall (fun x => req_fru_id (fst x) = Some id) tr.
Proof.
  intros s id off Hid HL Hrej m n H5 Hn H64. subst m n.
  pose proof (all_req_run (names id) _ fru_dev (all_req_read_area id (Some off) Hid) s [] (Forall_nil _)) as Hf.
  unfold read_fru_area in *. cbn [rng_of read_fru_data] in *.
  destruct (read_loop_exact s id Hid HL Hrej (read_fuel off (off + 5)) off (off + 5) 32 [] [] off)
    as [tr1 H1]; try lia.
  - unfold read_fuel. lia.
  - replace (off - off) with 0 by lia. reflexivity.
  - replace (off + 5 - off) with 5 in H1 by lia.
    rewrite (run_bind_ok _ _ _ _ _ _ _ _ H1) in Hf |- *.
    cbn [rng_of read_fru_data] in Hf |- *.
    set (n := nth 1 (slice (fd_mem s id) off 5) 0 * 8) in *.
    destruct (read_loop_exact s id Hid HL Hrej (read_fuel off (off + n)) off (off + n) 32 [] tr1 off)
      as [tr2 H2]; try lia.
    + unfold read_fuel. lia.
    + replace (off - off) with 0 by lia. reflexivity.
    + exists tr2. replace (off + n - off) with n in H2 by lia.
      rewrite H2 in Hf |- *. split; [reflexivity | exact Hf].
Qed.

(* ---------------------------------------------------------------------------
   chunks *)
Lemma chunks_aux_concat n : (1 <= n)%nat -> forall fuel data, (length data <= fuel)%nat ->
  concat (chunks_aux fuel data n) = data.
Proof.
  intros Hn. induction fuel as [|fuel IH]; intros data Hl.
  - destruct data; [reflexivity | cbn in Hl; lia].
  - destruct data as [|x data]; [reflexivity|].
    cbn [chunks_aux concat]. rewrite IH; [apply firstn_skipn|].
    rewrite skipn_length. cbn [length] in *. lia.
Qed.
Lemma chunks_concat data n : (1 <= n)%nat -> concat (chunks data n) = data.
Proof. intros H. apply chunks_aux_concat; [assumption | lia]. Qed.

Lemma chunks_aux_small n fuel : (1 <= n)%nat -> forall data,
  Forall (fun c => (1 <= length c <= n)%nat) (chunks_aux fuel data n).
Proof.
  intros Hn. induction fuel as [|fuel IH]; intros data; cbn [chunks_aux]; [constructor|].
  destruct data as [|x data]; [constructor|]. constructor; [|apply IH].
  rewrite firstn_length. cbn [length]. lia.
Qed.

(* ---------------------------------------------------------------------------
   writes *)
Lemma splice_len l off d : (N.to_nat off + length d <= length l)%nat ->
  length (splice l off d) = length l.
Proof.
  intros H. unfold splice. rewrite !app_length, firstn_length, skipn_length. lia.
Qed.

Lemma splice_splice l off c r :
  (N.to_nat off + length c + length r <= length l)%nat ->
  splice (splice l off c) (off + len c) r = splice l off (c ++ r).
Proof.
  intros H. unfold splice at 1 3.
  replace (N.to_nat (off + len c)) with (N.to_nat off + length c)%nat by (unfold len; lia).
  unfold splice.
  set (o := N.to_nat off).
  set (l1 := firstn o l).
  assert (Hl1 : length l1 = o) by (subst l1; rewrite firstn_length; lia).
  rewrite (app_assoc l1 c).
  rewrite firstn_app_exact by (rewrite app_length; lia).
  rewrite skipn_app.
  rewrite (skipn_all2 (l1 ++ c)) by (rewrite app_length; lia).
  rewrite app_length, Hl1. cbn [app].
  replace (o + length c + length r - (o + length c))%nat with (length r) by lia.
  rewrite skipn_skipn.
  rewrite <- !app_assoc. rewrite app_length.
  replace (o + (length c + length r))%nat with (o + length c + length r)%nat by lia.
  reflexivity.
Qed.

Lemma splice_nil l off : splice l off [] = l.
Proof. unfold splice. cbn. rewrite Nat.add_0_r. apply firstn_skipn. Qed.

Local Opaque N.mul N.add N.modulo N.div N.ltb.
Lemma dev_write s id off dat : id < 256 -> off < 65536 ->
  off + len dat <= len (fd_mem s id) ->
  fru_dev s (write_req id off dat) =
  (let w := fd_ack s (fd_writes s) (len dat) in
   (set_mem s id (splice (fd_mem s id) off (firstn (N.to_nat w) dat)), RBytes [0; w mod 256])).
Proof.
  intros Hid Hoff Hin. unfold fru_dev, write_req. cbn.
  replace (id mod 256) with id by lia.
  replace (off mod 256 + 256 * (off / 256 mod 256)) with off by lia.
  destruct (N.ltb_spec (len (fd_mem s id)) (off + len dat)); [lia | reflexivity].
Qed.

Local Transparent N.mul N.add N.modulo N.div N.ltb.
Definition acks_ok (s : frudev) : Prop := forall k n, fd_ack s k n = n.

Lemma write_chunks_exact id : id < 256 -> forall cs s off tr,
  acks_ok s -> Forall (fun c => 1 <= len c < 256) cs ->
  off + len (concat cs) <= len (fd_mem s id) -> len (fd_mem s id) <= 65536 ->
  exists s' tr', run (write_chunks id off cs) fru_dev s tr = (Ok tt, s', tr')
    /\ fd_mem s' id = splice (fd_mem s id) off (concat cs)
    /\ (forall i, i <> id -> fd_mem s' i = fd_mem s i)
    /\ fd_limit s' = fd_limit s /\ fd_rej s' = fd_rej s.
Proof.
  intros Hid. induction cs as [|c r IH]; intros s off tr Hack Hsm Hin H64.
  - cbn. exists s, tr. rewrite splice_nil. auto.
  - cbn [write_chunks send_msg pbind run concat] in *.
    unfold len in Hin, H64. rewrite app_length in Hin.
    inversion Hsm as [|? ? Hc Hr]; subst. unfold len in Hc.
    rewrite dev_write by (unfold len; lia). cbn zeta.
    rewrite Hack.
    replace (firstn (N.to_nat (len c)) c) with c by (unfold len; rewrite Nat2N.id; symmetry; apply firstn_all).
    replace (len c mod 256) with (len c) by (unfold len in *; lia).
    cbn [dec_write N.eqb lift pbind]. rewrite N.eqb_refl.
    set (s1 := set_mem s id (splice (fd_mem s id) off c)).
    assert (Hm1 : fd_mem s1 id = splice (fd_mem s id) off c) by (subst s1; cbn; now rewrite N.eqb_refl).
    assert (Hl1 : length (fd_mem s1 id) = length (fd_mem s id)) by (rewrite Hm1; apply splice_len; lia).
    destruct (IH s1 (off + len c) (tr ++ [(write_req id off c, RBytes [0; len c])])) as [s' [tr' [H1 [H2 [H3 [H4 H5]]]]]];
      try assumption.
    + unfold len. rewrite Hl1. lia.
    + unfold len. rewrite Hl1. lia.
    + exists s', tr'. split; [exact H1|]. split.
      { rewrite H2, Hm1. apply splice_splice. lia. }
      split; [|subst s1; cbn in H4, H5; auto].
      intros i Hi. rewrite H3 by assumption. subst s1. cbn.
      destruct (N.eqb_spec i id); [contradiction | reflexivity].
Qed.

Lemma write_exact : forall s wl data off id,
  id < 256 -> 1 <= wl -> wl <= 255 -> (forall k n, fd_ack s k n = n) ->
  off + len data <= len (fd_mem s id) -> len (fd_mem s id) <= 65536 ->
  exists s' tr, run (write_fru_data wl data off id) fru_dev s [] = (Ok tt, s', tr)
    /\ fd_mem s' id = firstn (N.to_nat off) (fd_mem s id) ++ data
                      ++ skipn (N.to_nat off + length data) (fd_mem s id)
    /\ (forall i, i <> id -> fd_mem s' i = fd_mem s i)
    /\ Forall (fun x => req_fru_id (fst x) = Some id) tr.
Proof.
  intros s wl data off id Hid Hwl1 Hwl2 Hack Hin H64.
  unfold write_fru_data. destruct (N.eqb_spec wl 0); [lia|].
  pose proof (all_req_run (names id) _ fru_dev (all_req_write_chunks id Hid (chunks data (N.to_nat wl)) off) s [] (Forall_nil _)) as Hf.
  destruct (write_chunks_exact id Hid (chunks data (N.to_nat wl)) s off []) as [s' [tr' [H1 [H2 [H3 _]]]]];
    try assumption.
  - eapply Forall_impl; [|apply (chunks_aux_small (N.to_nat wl)); lia]. cbn. intros c Hc. unfold len. lia.
  - rewrite chunks_concat by lia. assumption.
  - exists s', tr'. rewrite H1 in Hf. rewrite chunks_concat in H2 by lia. auto.
Qed.

(* the first wrongly acknowledged chunk stops the transfer with an error *)
Lemma write_chunks_mismatch id : id < 256 -> forall pre s off tr c post,
  (forall j n, (j < length pre)%nat -> fd_ack s (fd_writes s + j) n = n) ->
  Forall (fun c => 1 <= len c < 256) (pre ++ [c]) ->
  off + len (concat pre) + len c <= len (fd_mem s id) -> len (fd_mem s id) <= 65536 ->
  fd_ack s (fd_writes s + length pre) (len c) mod 256 <> len c ->
  exists s' tr', run (write_chunks id off (pre ++ c :: post)) fru_dev s tr
                 = (Err (OtherError OtherExc), s', tr')
              /\ length tr' = (length tr + length pre + 1)%nat.
Proof.
  intros Hid. induction pre as [|p pre IH]; intros s off tr c post Hack Hsm Hin H64 Hbad.
  - cbn [app write_chunks send_msg pbind run]. cbn [concat length] in Hin, Hbad.
    cbn [app] in Hsm. inversion Hsm as [|? ? Hc _]; subst.
    rewrite dev_write by (unfold len in *; cbn in Hin; lia). cbn zeta.
    rewrite Nat.add_0_r in Hbad. cbn [dec_write N.eqb lift pbind].
    destruct (N.eqb_spec (fd_ack s (fd_writes s) (len c) mod 256) (len c)); [contradiction|].
    cbn [run]. eexists _, _. split; [reflexivity|]. rewrite app_length. cbn. lia.
  - cbn [app write_chunks send_msg pbind run concat length] in *.
    unfold len in Hin, H64. rewrite app_length in Hin.
    inversion Hsm as [|? ? Hc Hr]; subst. unfold len in Hc.
    rewrite dev_write by (unfold len; lia). cbn zeta.
    pose proof (Hack 0%nat (len p) ltac:(lia)) as Hack0. rewrite Nat.add_0_r in Hack0.
    rewrite Hack0.
    replace (firstn (N.to_nat (len p)) p) with p by (unfold len; rewrite Nat2N.id; symmetry; apply firstn_all).
    replace (len p mod 256) with (len p) by (unfold len in *; lia).
    cbn [dec_write N.eqb lift pbind]. rewrite N.eqb_refl.
    set (s1 := set_mem s id (splice (fd_mem s id) off p)).
    assert (Hm1 : fd_mem s1 id = splice (fd_mem s id) off p) by (subst s1; cbn; now rewrite N.eqb_refl).
    assert (Hl1 : length (fd_mem s1 id) = length (fd_mem s id)) by (rewrite Hm1; apply splice_len; lia).
    destruct (IH s1 (off + len p) (tr ++ [(write_req id off p, RBytes [0; len p])]) c post)
      as [s' [tr' [H1 H2]]]; try assumption.
    + intros j m Hj. subst s1. cbn [set_mem fd_ack fd_writes].
      replace (S (fd_writes s) + j)%nat with (fd_writes s + S j)%nat by lia.
      apply Hack. lia.
    + unfold len. rewrite Hl1. lia.
    + unfold len. rewrite Hl1. lia.
    + subst s1. cbn [set_mem fd_ack fd_writes].
      replace (S (fd_writes s) + length pre)%nat with (fd_writes s + S (length pre))%nat by lia.
      exact Hbad.
    + exists s', tr'. split; [exact H1|]. rewrite H2, app_length. cbn. lia.
Qed.

Lemma write_mismatch : forall s wl data off id pre c post,
  id < 256 -> 1 <= wl -> wl <= 255 ->
  off + len data <= len (fd_mem s id) -> len (fd_mem s id) <= 65536 ->
  chunks data (N.to_nat wl) = pre ++ c :: post ->
  (forall j n, (j < length pre)%nat -> fd_ack s (fd_writes s + j) n = n) ->
  fd_ack s (fd_writes s + length pre) (len c) mod 256 <> len c ->
  exists s' tr, run (write_fru_data wl data off id) fru_dev s []
                = (Err (OtherError OtherExc), s', tr)
             /\ length tr = S (length pre).
Proof.
  intros s wl data off id pre c post Hid Hwl1 Hwl2 Hin H64 Hch Hack Hbad.
  unfold write_fru_data. destruct (N.eqb_spec wl 0); [lia|]. rewrite Hch.
  assert (Hcat : concat (pre ++ c :: post) = data) by (rewrite <- Hch; apply chunks_concat; lia).
  assert (Hsm : Forall (fun c => 1 <= len c < 256) (pre ++ c :: post)).
  { rewrite <- Hch. eapply Forall_impl; [|apply (chunks_aux_small (N.to_nat wl)); lia].
    cbn. intros x Hx. unfold len. lia. }
  assert (Hsm1 : Forall (fun c => 1 <= len c < 256) (pre ++ [c])).
  { apply Forall_app in Hsm as [Ha Hb]. apply Forall_app. split; [assumption|].
    inversion Hb; subst. constructor; [assumption | constructor]. }
  destruct (write_chunks_mismatch id Hid pre s off [] c post) as [s' [tr' [H1 H2]]]; try assumption.
  - rewrite <- Hcat in Hin. rewrite concat_app in Hin. cbn [concat] in Hin.
    unfold len in *. rewrite !app_length in Hin. lia.
  - exists s', tr'. split; [exact H1|]. cbn in H2. lia.
Qed.

(* ---------------------------------------------------------------------------
   sequencing two client operations on the same device; thin wrappers *)
Lemma run_tr_app_f {A S} (dev : device S) (p : prog A) : forall s tr,
  run p dev s tr = let '(r, s', t) := run p dev s [] in (r, s', tr ++ t).
Proof.
  induction p as [a|e|r k IH|ms k IH]; intros s tr; cbn [run].
  - now rewrite app_nil_r.
  - now rewrite app_nil_r.
  - destruct (dev s r) as [s1 rp]. rewrite (IH rp s1 (tr ++ [(r, rp)])), (IH rp s1 ([] ++ [(r, rp)])).
    destruct (run (k rp) dev s1 []) as [[res s2] t]. now rewrite <- app_assoc.
  - apply IH.
Qed.

Lemma run_seq {A B S} (dev : device S) (p : prog A) (f : A -> prog B) s a s1 t1 r s2 t2 :
  run p dev s [] = (Ok a, s1, t1) -> run (f a) dev s1 [] = (r, s2, t2) ->
  run (pbind p f) dev s [] = (r, s2, t1 ++ t2).
Proof.
  intros H1 H2. rewrite (run_bind_ok dev p f s [] a s1 t1 H1), run_tr_app_f, H2. reflexivity.
Qed.

Lemma slice_splice l off d : off + len d <= len l -> slice (splice l off d) off (len d) = d.
Proof.
  unfold len, slice, splice. intros H. rewrite Nat2N.id.
  rewrite skipn_app_exact by (rewrite firstn_length; lia).
  apply firstn_app_exact. reflexivity.
Qed.

Lemma splice_len_N l off d : off + len d <= len l -> len (splice l off d) = len l.
Proof. unfold len. intros H. rewrite splice_len by lia. reflexivity. Qed.

Lemma write_exact_strong : forall s wl data off id,
  id < 256 -> 1 <= wl -> wl <= 255 -> (forall k n, fd_ack s k n = n) ->
  off + len data <= len (fd_mem s id) -> len (fd_mem s id) <= 65536 ->
  exists s' tr, run (write_fru_data wl data off id) fru_dev s [] = (Ok tt, s', tr)
    /\ fd_mem s' id = splice (fd_mem s id) off data
    /\ (forall i, i <> id -> fd_mem s' i = fd_mem s i)
    /\ fd_limit s' = fd_limit s /\ fd_rej s' = fd_rej s
    /\ Forall (fun x => req_fru_id (fst x) = Some id) tr.
Proof.
  intros s wl data off id Hid Hwl1 Hwl2 Hack Hin H64.
  unfold write_fru_data. destruct (N.eqb_spec wl 0); [lia|].
  pose proof (all_req_run (names id) _ fru_dev (all_req_write_chunks id Hid (chunks data (N.to_nat wl)) off) s [] (Forall_nil _)) as Hf.
  destruct (write_chunks_exact id Hid (chunks data (N.to_nat wl)) s off []) as [s' [tr' [H1 [H2 [H3 [H4 H5]]]]]];
    try assumption.
  - eapply Forall_impl; [|apply (chunks_aux_small (N.to_nat wl)); lia]. cbn. intros c Hc. unfold len. lia.
  - rewrite chunks_concat by lia. assumption.
  - exists s', tr'. rewrite H1 in Hf. rewrite chunks_concat in H2 by lia. auto 10.
Qed.

(* write, then read the same range back: exactly the data; nothing else changed *)
Lemma write_then_read : forall s wl data off id,
  id < 256 -> 1 <= wl -> wl <= 255 -> (forall k n, fd_ack s k n = n) ->
  2 <= fd_limit s -> is_backoff_cc (fd_rej s) = true ->
  off + len data <= len (fd_mem s id) -> len (fd_mem s id) <= 65536 ->
  exists s' tr,
    run (dop _ <- write_fru_data wl data off id; read_fru_data (Some (off, len data)) id) fru_dev s []
      = (Ok data, s', tr)
    /\ fd_mem s' id = firstn (N.to_nat off) (fd_mem s id) ++ data
                      ++ skipn (N.to_nat off + length data) (fd_mem s id)
    /\ (forall i, i <> id -> fd_mem s' i = fd_mem s i)
    /\ Forall (fun x => req_fru_id (fst x) = Some id) tr.
Proof.
  intros s wl data off id Hid Hwl1 Hwl2 Hack HL Hrej Hin H64.
  destruct (write_exact_strong s wl data off id Hid Hwl1 Hwl2 Hack Hin H64)
    as (s1 & t1 & Hw & Hm & Ho & Hl1 & Hr1 & Hf1).
  assert (Hlen1 : len (fd_mem s1 id) = len (fd_mem s id)) by (rewrite Hm; apply splice_len_N; exact Hin).
  destruct (read_range_exact s1 id off (len data)) as (t2 & Hrd & Hf2); try lia; try congruence.
  exists s1, (t1 ++ t2). split.
  - rewrite (run_seq fru_dev _ _ s tt s1 t1 _ _ _ Hw Hrd). rewrite Hm, slice_splice by exact Hin. reflexivity.
  - split; [exact Hm|]. split; [exact Ho|]. apply Forall_app. split; assumption.
Qed.

(* write, then read the whole area: the updated area *)
Lemma write_then_read_whole : forall s wl data off id,
  id < 256 -> 1 <= wl -> wl <= 255 -> (forall k n, fd_ack s k n = n) ->
  2 <= fd_limit s -> is_backoff_cc (fd_rej s) = true ->
  off + len data <= len (fd_mem s id) -> len (fd_mem s id) <= 65535 ->
  exists s' tr,
    run (dop _ <- write_fru_data wl data off id; read_fru_data_full id) fru_dev s []
      = (Ok (firstn (N.to_nat off) (fd_mem s id) ++ data
             ++ skipn (N.to_nat off + length data) (fd_mem s id)), s', tr)
    /\ (forall i, i <> id -> fd_mem s' i = fd_mem s i)
    /\ Forall (fun x => req_fru_id (fst x) = Some id) tr.
Proof.
  intros s wl data off id Hid Hwl1 Hwl2 Hack HL Hrej Hin H64.
  destruct (write_exact_strong s wl data off id Hid Hwl1 Hwl2 Hack Hin ltac:(lia))
    as (s1 & t1 & Hw & Hm & Ho & Hl1 & Hr1 & Hf1).
  assert (Hlen1 : len (fd_mem s1 id) = len (fd_mem s id)) by (rewrite Hm; apply splice_len_N; exact Hin).
  destruct (read_whole_exact s1 id) as (t2 & Hrd & Hf2); try lia; try congruence.
  exists s1, (t1 ++ t2). split.
  - unfold read_fru_data_full. rewrite (run_seq fru_dev _ _ s tt s1 t1 _ _ _ Hw Hrd). rewrite Hm. reflexivity.
  - split; [exact Ho|]. apply Forall_app. split; assumption.
Qed.

(* get_fru_inventory_area_info: the size of the named FRU's area, one request, device unchanged *)
Lemma area_info_exact : forall s id, id < 256 -> len (fd_mem s id) <= 65535 ->
  run (get_fru_inventory_area_info id) fru_dev s []
  = (Ok (len (fd_mem s id)), s, [(info_req id, RBytes (0 :: le_bytes 2 (len (fd_mem s id)) ++ [0]))]).
Proof.
  intros s id Hid H64. unfold get_fru_inventory_area_info, send_msg. cbn [run].
  rewrite dev_info by assumption. rewrite dec_info_ok by lia. reflexivity.
Qed.

Lemma read_full_exact : forall s id,
  id < 256 -> 2 <= fd_limit s -> is_backoff_cc (fd_rej s) = true ->
  len (fd_mem s id) <= 65535 ->
  exists tr, run (read_fru_data_full id) fru_dev s [] = (Ok (fd_mem s id), s, tr)
          /\ Forall (fun x => req_fru_id (fst x) = Some id) tr.
Proof. exact read_whole_exact. Qed.
