(* C08 obligations over the REGENERATED operation list (Gen/ApiOps.v) and registry
   (Gen/Layouts.v): re-established by vm_compute on every run. *)
From Coq Require Import String.
From Coq Require Import NArith List Bool Lia.
From PyIpmi Require Import Lib.Res Lib.Bytes Lib.Prog Model.ApiShape Model.Codec
  Gen.Layouts Gen.ApiOps Proofs.CodecProofs Proofs.RegistryProofs Proofs.ApiShapeProofs.
Import ListNotations.
Open Scope N_scope.

(* the class theorem, instantiated for the members of the class in THIS run's regenerated list *)
Lemma class_members_propagate o : In o (filter (simple_checked api_ops) api_ops) ->
  forall I rs k rp cc out reqs sl rest, cc <> 0 ->
  replay (op_prog api_ops o I) rs [] [] = (out, reqs, sl, rest) ->
  nth_error rs k = Some rp -> carries rp cc -> (k < length reqs)%nat ->
  out = Err (CCError cc) /\ length reqs = S k /\ rest = skipn (S k) rs.
Proof.
  intros Hin I rs k rp cc out reqs sl rest Hcc Hr Hn Hc Hl.
  apply filter_In in Hin as [_ Hs].
  exact (op_propagates api_ops o I rs k rp cc out reqs sl rest Hs Hcc Hr Hn Hc Hl).
Qed.
Lemma all_exclusive : forallb (exclusive api_ops) api_ops = true.
Proof. vm_compute. reflexivity. Qed.
(* the class is not empty in this run *)
Lemma class_nonempty : existsb (simple_checked api_ops) api_ops = true.
Proof. vm_compute. reflexivity. Qed.

(* the decoder leaves only the completion code set on error (from C02) *)
Lemma decode_cc_only m f fs c rest : In m registry -> is_rsp m = true ->
  m_layout m = Fields (f :: fs) -> c <> 0 ->
  decode (m_layout m) (c :: rest) = Ok (VInt c :: map f_dflt fs, true).
Proof.
  intros Hin Hr Hl Hc. destruct (rsp_cc_first m f fs Hin Hr Hl) as [Hk Hb].
  rewrite Hl. apply cc_stops; assumption.
Qed.

