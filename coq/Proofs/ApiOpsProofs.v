(* C08 obligations over the REGENERATED operation list (Gen/ApiOps.v) and registry
   (Gen/Layouts.v): re-established by vm_compute on every run. *)
From Coq Require Import String.
From Coq Require Import NArith List Bool Lia.
From PyIpmi Require Import Lib.Res Lib.Bytes Lib.Prog Model.ApiShape Model.Codec
  Gen.Layouts Gen.ApiOps Proofs.CodecProofs Proofs.RegistryProofs Proofs.ApiShapeProofs.
Import ListNotations.
Open Scope N_scope.

(* membership of the regenerated operations in the class *)
Lemma all_classified : forallb (classified_or_downgraded api_ops) api_ops = true.
Proof. vm_compute. reflexivity. Qed.
Lemma all_exclusive : forallb (exclusive api_ops) api_ops = true.
Proof. vm_compute. reflexivity. Qed.

Lemma classified_in o : In o api_ops ->
  simple_checked api_ops o = true \/ handled o = true \/ tainted api_ops o = true.
Proof. exact (classified_in_gen api_ops all_classified o). Qed.

(* the decoder leaves only the completion code set on error (from C02) *)
Lemma decode_cc_only m f fs c rest : In m registry -> is_rsp m = true ->
  m_layout m = Fields (f :: fs) -> c <> 0 ->
  decode (m_layout m) (c :: rest) = Ok (VInt c :: map f_dflt fs, true).
Proof.
  intros Hin Hr Hl Hc. destruct (rsp_cc_first m f fs Hin Hr Hl) as [Hk Hb].
  rewrite Hl. apply cc_stops; assumption.
Qed.

