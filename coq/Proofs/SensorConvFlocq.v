(* C17, analytic float level: the binary64 forward pipeline of Model/SensorConvF.v stays within a
   stated bound of the exact formula for ALL M, B in -512..511, K1, K2 in -8..7, formats and raw
   readings (Flocq + Interval); the float inverse recovers the raw reading. *)
From Coq Require Import ZArith QArith Qreals Reals Lia Lra Floats Uint63 Psatz.
From Flocq Require Import Core BinarySingleNaN Relative Plus_error.
From Flocq Require Import IEEE754.PrimFloat.
From Interval Require Import Tactic.
From PyIpmi Require Import Lib.Res Model.SensorConv Model.SensorConvF Proofs.FloatLemmas.
Open Scope R_scope.

Definition pow10R (k : Z) : R := Q2R (pow10 k).

Lemma FR_SF f : FR f = SF2R radix2 (Prim2SF f).
Proof. unfold FR, Prim2B. apply B2R_SF2B. Qed.
Lemma fin_SF f : fin f <-> is_finite_SF (Prim2SF f) = true.
Proof. unfold fin, Prim2B. now rewrite is_finite_SF2B. Qed.

Lemma pow10_neg_ok k : (-8 <= k <= -1)%Z ->
  fin (pow10_neg k) /\ exists d, Rabs d <= u /\ FR (pow10_neg k) = pow10R k * (1 + d).
Proof.
  intros Hk.
  assert (C : (k = -1 \/ k = -2 \/ k = -3 \/ k = -4 \/ k = -5 \/ k = -6 \/ k = -7 \/ k = -8)%Z) by lia.
  assert (G : forall p q : R, 0 < q -> Rabs (p / q - 1) <= u -> exists d, Rabs d <= u /\ p = q * (1 + d)).
  { intros p q Hq H. exists (p / q - 1). split; [exact H | field; lra]. }
  repeat destruct C as [C|C]; subst k; (split; [apply fin_SF; vm_compute; reflexivity|]);
    apply G; rewrite ?FR_SF; unfold pow10R, pow10, Q2R; vm_compute Prim2SF; vm_compute Qpower;
    unfold SF2R, F2R, u; simpl; try lra; interval with (i_prec 150).
Qed.

Lemma pow10R_nonneg k : (0 <= k <= 8)%Z -> pow10R k = IZR (10 ^ k).
Proof.
  intros Hk. assert (C : (k = 0 \/ k = 1 \/ k = 2 \/ k = 3 \/ k = 4 \/ k = 5 \/ k = 6 \/ k = 7 \/ k = 8)%Z) by lia.
  repeat destruct C as [C|C]; subst k; unfold pow10R, pow10, Q2R; vm_compute Qpower; simpl; lra.
Qed.
Lemma pow10R_range k : (-8 <= k <= 8)%Z -> / 100000000 <= pow10R k <= 100000000.
Proof.
  intros Hk.
  assert (C : (k = -8 \/ k = -7 \/ k = -6 \/ k = -5 \/ k = -4 \/ k = -3 \/ k = -2 \/ k = -1 \/
               k = 0 \/ k = 1 \/ k = 2 \/ k = 3 \/ k = 4 \/ k = 5 \/ k = 6 \/ k = 7 \/ k = 8)%Z) by lia.
  repeat destruct C as [C|C]; subst k; unfold pow10R, pow10, Q2R; vm_compute Qpower; simpl; lra.
Qed.

Lemma pow10_F_ok k : (-8 <= k <= 8)%Z ->
  fin (pow10_F k) /\ exists d, Rabs d <= u /\ FR (pow10_F k) = pow10R k * (1 + d).
Proof.
  intros Hk. unfold pow10_F. destruct (Z.leb_spec 0 k).
  - destruct (of_Z_exact (10 ^ k)) as (F & E).
    { assert (10 ^ k <= 10 ^ 8)%Z by (apply Z.pow_le_mono_r; lia). assert (0 < 10 ^ k)%Z by (apply Z.pow_pos_nonneg; lia).
      change (10 ^ 8)%Z with 100000000%Z in *. lia. }
    split; [exact F|]. exists 0. split; [rewrite Rabs_R0; unfold u; apply bpow_ge_0|].
    rewrite E, pow10R_nonneg by lia. ring.
  - apply pow10_neg_ok. lia.
Qed.

(* ---------------------------------------------------------------- error accumulation (reals only) *)
Ltac bnd H := apply Rabs_le_inv in H; unfold u, eta in H; simpl in H.

Lemma prod4 e1 e2 e3 e4 : Rabs e1 <= u -> Rabs e2 <= u -> Rabs e3 <= u -> Rabs e4 <= u ->
  Rabs ((1 + e1) * (1 + e2) * (1 + e3) * (1 + e4) - 1) <= bpow radix2 (-50).
Proof. intros H1 H2 H3 H4. bnd H1. bnd H2. bnd H3. bnd H4. simpl. interval with (i_prec 150). Qed.
Lemma prod5 e1 e2 e3 e4 e5 : Rabs e1 <= u -> Rabs e2 <= u -> Rabs e3 <= u -> Rabs e4 <= u -> Rabs e5 <= u ->
  Rabs ((1 + e1) * (1 + e2) * (1 + e3) * (1 + e4) * (1 + e5) - 1) <= bpow radix2 (-50).
Proof. intros H1 H2 H3 H4 H5. bnd H1. bnd H2. bnd H3. bnd H4. bnd H5. simpl. interval with (i_prec 150). Qed.
Lemma tail P2 h1 h2 h4 e3 d2 e4 : 0 < P2 <= 100000000 ->
  Rabs h1 <= eta -> Rabs h2 <= eta -> Rabs h4 <= eta -> Rabs e3 <= u -> Rabs d2 <= u -> Rabs e4 <= u ->
  Rabs (P2 * (h1 + h2) * ((1 + e3) * (1 + d2) * (1 + e4)) + h4) <= bpow radix2 (-1000).
Proof. intros HP H1 H2 H4 H3 H5 H6. bnd H1. bnd H2. bnd H3. bnd H4. bnd H5. bnd H6. simpl. interval with (i_prec 60). Qed.

Lemma assemble a c P2 e1 h1 d1 e2 h2 e3 d2 e4 h4 :
  Rabs e1 <= u -> Rabs e2 <= u -> Rabs e3 <= u -> Rabs e4 <= u -> Rabs d1 <= u -> Rabs d2 <= u ->
  Rabs h1 <= eta -> Rabs h2 <= eta -> Rabs h4 <= eta -> 0 < P2 <= 100000000 ->
  Rabs (((a * (1 + e1) + h1) + (c * (1 + d1) * (1 + e2) + h2)) * (1 + e3) * (P2 * (1 + d2)) * (1 + e4) + h4
        - (a + c) * P2)
  <= bpow radix2 (-50) * ((Rabs a + Rabs c) * P2) + bpow radix2 (-1000).
Proof.
  intros E1 E2 E3 E4 D1 D2 H1 H2 H4 HP.
  pose proof (prod4 e1 e3 d2 e4 E1 E3 D2 E4) as A.
  pose proof (prod5 d1 e2 e3 d2 e4 D1 E2 E3 D2 E4) as B.
  pose proof (tail P2 h1 h2 h4 e3 d2 e4 HP H1 H2 H4 E3 D2 E4) as T.
  set (al := (1 + e1) * (1 + e3) * (1 + d2) * (1 + e4) - 1) in *.
  set (be := (1 + d1) * (1 + e2) * (1 + e3) * (1 + d2) * (1 + e4) - 1) in *.
  set (tl := P2 * (h1 + h2) * ((1 + e3) * (1 + d2) * (1 + e4)) + h4) in *.
  replace (_ - (a + c) * P2) with (P2 * a * al + P2 * c * be + tl) by (unfold al, be, tl; ring).
  eapply Rle_trans; [apply Rabs_triang|]. apply Rplus_le_compat; [|exact T].
  eapply Rle_trans; [apply Rabs_triang|].
  rewrite !Rabs_mult, (Rabs_pos_eq P2) by lra.
  assert (0 <= Rabs a) by apply Rabs_pos. assert (0 <= Rabs c) by apply Rabs_pos.
  assert (P2 * Rabs a * Rabs al <= P2 * Rabs a * bpow radix2 (-50)) by (apply Rmult_le_compat_l; [nra | exact A]).
  assert (P2 * Rabs c * Rabs be <= P2 * Rabs c * bpow radix2 (-50)) by (apply Rmult_le_compat_l; [nra | exact B]).
  lra.
Qed.

(* ---------------------------------------------------------------- the forward pipeline *)
From PyIpmi Require Import Proofs.SensorConvProofs.
Open Scope R_scope.

Lemma big_ok x : Rabs x <= 1000000000000000000000000000000 -> Rabs x <= bpow radix2 1000.
Proof. intros H. eapply Rle_trans; [exact H|]. simpl. interval. Qed.

Lemma Q2R_inject_Z z : Q2R (inject_Z z) = IZR z.
Proof. unfold Q2R. simpl. field. Qed.

Lemma bterm_ok s : (-512 <= s_b s <= 511)%Z -> (-8 <= s_k1 s <= 7)%Z ->
  fin (bterm_F s) /\
  exists d e h, Rabs d <= u /\ Rabs e <= u /\ Rabs h <= eta /\
    FR (bterm_F s) = IZR (s_b s) * pow10R (s_k1 s) * (1 + d) * (1 + e) + h.
Proof.
  intros Hb Hk. unfold bterm_F.
  assert (U0 : Rabs 0 <= u) by (rewrite Rabs_R0; apply bpow_ge_0).
  assert (H0 : Rabs 0 <= eta) by (rewrite Rabs_R0; apply bpow_ge_0).
  destruct (Z.leb_spec 0 (s_k1 s)).
  - assert (10 ^ s_k1 s <= 10 ^ 7)%Z by (apply Z.pow_le_mono_r; lia).
    assert (0 < 10 ^ s_k1 s)%Z by (apply Z.pow_pos_nonneg; lia).
    change (10 ^ 7)%Z with 10000000%Z in *.
    destruct (of_Z_exact (s_b s * 10 ^ s_k1 s)) as (F & E); [nia|].
    split; [exact F|]. exists 0, 0, 0. repeat split; try assumption.
    rewrite E, mult_IZR, pow10R_nonneg by lia. ring.
  - destruct (of_Z_exact (s_b s)) as (Fb & Eb); [lia|].
    destruct (pow10_neg_ok (s_k1 s)) as (Fp & d & Hd & Ep); [lia|].
    pose proof (pow10R_range (s_k1 s) ltac:(lia)) as HP.
    assert (HB : -512 <= IZR (s_b s) <= 511) by (split; apply IZR_le; lia).
    destruct (mulF _ _ Fb Fp) as (F & e & h & He & Hh & E).
    { rewrite Eb, Ep. apply big_ok. set (Bv := IZR (s_b s)) in *. set (P := pow10R (s_k1 s)) in *.
      clearbody Bv P. bnd Hd. interval. }
    split; [exact F|]. exists d, e, h. repeat split; try assumption. rewrite E, Eb, Ep. ring.
Qed.

Theorem forward_float_bound m b k1 k2 fmt raw :
  (-512 <= m <= 511)%Z -> (-512 <= b <= 511)%Z -> (-8 <= k1 <= 7)%Z -> (-8 <= k2 <= 7)%Z ->
  (fmt < 3)%N -> (raw < 256)%N ->
  let s := mkSensor fmt 0 m b k1 k2 in
  let x := signed_of fmt raw in
  fin (convert_raw_F s raw) /\
  Rabs (FR (convert_raw_F s raw) - (IZR m * IZR x + IZR b * pow10R k1) * pow10R k2)
  <= bpow radix2 (-50) * ((Rabs (IZR m * IZR x) + Rabs (IZR b * pow10R k1)) * pow10R k2) + bpow radix2 (-1000).
Proof.
  intros Hm Hb Hk1 Hk2 Hf Hr. cbv zeta. set (s := mkSensor fmt 0 m b k1 k2). set (x := signed_of fmt raw).
  unfold convert_raw_F, linear_F. cbn [s_fmt s_m s_k2 s]. rewrite (raw_signed_spec fmt raw Hf Hr). fold x.
  assert (Hx : (-128 <= x <= 255)%Z).
  { unfold x, signed_of. destruct (fmt =? 1)%N; [|destruct (fmt =? 2)%N]; try destruct (Z.ltb_spec (Z.of_N raw) 128); lia. }
  destruct (of_Z_exact m) as (Fm & Em); [lia|]. destruct (of_Z_exact x) as (Fx & Ex); [lia|].
  assert (HM : -512 <= IZR m <= 511) by (split; apply IZR_le; lia).
  assert (HX : -128 <= IZR x <= 255) by (split; apply IZR_le; lia).
  assert (HB : -512 <= IZR b <= 511) by (split; apply IZR_le; lia).
  pose proof (pow10R_range k1 ltac:(lia)) as HP1. pose proof (pow10R_range k2 ltac:(lia)) as HP2.
  destruct (mulF _ _ Fm Fx) as (Ft & e1 & h1 & He1 & Hh1 & Et).
  { rewrite Em, Ex. apply big_ok. set (M := IZR m) in *. set (X := IZR x) in *. clearbody M X. interval. }
  destruct (bterm_ok s Hb Hk1) as (Fb & d1 & e2 & h2 & Hd1 & He2 & Hh2 & Eb). cbn [s_b s_k1 s] in Eb.
  destruct (addF _ _ Ft Fb) as (Fs & e3 & He3 & Es).
  { rewrite Et, Eb, Em, Ex. apply big_ok.
    set (M := IZR m) in *. set (X := IZR x) in *. set (Bv := IZR b) in *. set (P1 := pow10R k1) in *.
    clearbody M X Bv P1. bnd He1. bnd Hh1. bnd Hd1. bnd He2. bnd Hh2. interval. }
  destruct (pow10_F_ok k2 ltac:(lia)) as (Fp & d2 & Hd2 & Ep).
  destruct (mulF _ _ Fs Fp) as (F & e4 & h4 & He4 & Hh4 & E).
  { rewrite Es, Et, Eb, Em, Ex, Ep. apply big_ok.
    set (M := IZR m) in *. set (X := IZR x) in *. set (Bv := IZR b) in *. set (P1 := pow10R k1) in *. set (P2 := pow10R k2) in *.
    clearbody M X Bv P1 P2. bnd He1. bnd Hh1. bnd Hd1. bnd He2. bnd Hh2. bnd He3. bnd Hd2. interval. }
  split; [exact F|].
  rewrite E, Es, Et, Eb, Em, Ex, Ep.
  replace ((IZR m * IZR x * (1 + e1) + h1 + (IZR b * pow10R k1 * (1 + d1) * (1 + e2) + h2)) * (1 + e3) *
           (pow10R k2 * (1 + d2)) * (1 + e4) + h4)
    with (((IZR m * IZR x * (1 + e1) + h1) + (IZR b * pow10R k1 * (1 + d1) * (1 + e2) + h2)) * (1 + e3) *
           (pow10R k2 * (1 + d2)) * (1 + e4) + h4) by ring.
  apply assemble; try assumption. lra.
Qed.

(* ---------------------------------------------------------------- the inverse pipeline *)
Lemma divF a b : fin a -> fin b -> FR b <> 0 -> Rabs (FR a / FR b) <= bpow radix2 1000 ->
  fin (PrimFloat.div a b) /\
  exists e h, Rabs e <= u /\ Rabs h <= eta /\ FR (PrimFloat.div a b) = FR a / FR b * (1 + e) + h.
Proof.
  unfold fin, FR. intros Ha Hb Hz Hx. rewrite div_equiv.
  pose proof (Bdiv_correct _ _ Hprec Hmax mode_NE (Prim2B a) (Prim2B b) Hz) as C.
  rewrite (no_overflow _ Hx) in C. destruct C as (E & F & _).
  split; [rewrite F; exact Ha|]. rewrite E. apply round_err.
Qed.

Lemma Q2R_pow2 e : Q2R (Qpower (2 # 1) e) = bpow radix2 e.
Proof.
  rewrite RMicromega.Q2RpowerRZ by (left; discriminate).
  replace (Q2R (2 # 1)) with 2 by (unfold Q2R; simpl; lra).
  rewrite bpow_powerRZ. reflexivity.
Qed.

Lemma Q_of_float_R f : fin f -> exists q, Q_of_float f = Some q /\ Q2R q = FR f.
Proof.
  intros H. apply fin_SF in H. rewrite FR_SF. unfold Q_of_float.
  destruct (Prim2SF f) as [sg | sg | | sg m e]; try discriminate.
  - exists 0%Q. split; [reflexivity|]. unfold Q2R; simpl. lra.
  - eexists. split; [reflexivity|].
    unfold SF2R, F2R. simpl Fnum. simpl Fexp.
    destruct sg; simpl cond_Zopp; rewrite ?Q2R_opp, Q2R_mult, Q2R_inject_Z, Q2R_pow2; [change (Z.neg m) with (- Z.pos m)%Z; rewrite opp_IZR|]; ring.
Qed.

Lemma round_near q z : Rabs (Q2R q - IZR z) < / 2 -> round_half_even q = z.
Proof.
  unfold Q2R, round_half_even. set (n := Qnum q). set (d := Z.pos (Qden q)).
  assert (Hd : (0 < d)%Z) by (unfold d; lia). assert (HdR : 0 < IZR d) by (apply IZR_lt; lia).
  intros H.
  assert (H2 : (Z.abs (2 * (n - z * d)) < d)%Z).
  { apply lt_IZR. rewrite abs_IZR, mult_IZR, minus_IZR, mult_IZR.
    replace (2 * (IZR n - IZR z * IZR d)) with (2 * IZR d * (IZR n * / IZR d - IZR z)) by (field; lra).
    rewrite Rabs_mult, Rabs_pos_eq by lra. nra. }
  set (t := (n - z * d)%Z) in *.
  destruct (Z.le_gt_cases 0 t).
  - assert (n / d = z)%Z by (symmetry; apply (Z.div_unique n d z t); lia).
    assert (n mod d = t)%Z by (symmetry; apply (Z.mod_unique n d z t); lia).
    destruct (Z.ltb_spec (2 * (n mod d)) d); lia.
  - assert (n / d = z - 1)%Z by (symmetry; apply (Z.div_unique n d (z - 1) (t + d)); lia).
    assert (n mod d = t + d)%Z by (symmetry; apply (Z.mod_unique n d (z - 1) (t + d)); lia).
    destruct (Z.ltb_spec (2 * (n mod d)) d); [lia|].
    destruct (Z.ltb_spec d (2 * (n mod d))); lia.
Qed.

Lemma pow10R_inv k : pow10R k * pow10R (- k) = 1.
Proof.
  unfold pow10R. rewrite <- Q2R_mult. rewrite (Qeq_eqR _ _ (pow10_inv k)). unfold Q2R; simpl; lra.
Qed.

Lemma inv_int_le1 m : m <> 0%Z -> Rabs (/ IZR m) <= 1.
Proof.
  intros H. rewrite Rabs_inv. assert (1 <= Rabs (IZR m)).
  { rewrite <- abs_IZR. apply IZR_le. lia. }
  rewrite <- Rinv_1. apply Rinv_le; lra.
Qed.

Theorem inverse_float m b k1 k2 fmt raw :
  (-512 <= m <= 511)%Z -> (-512 <= b <= 511)%Z -> (-8 <= k1 <= 7)%Z -> (-8 <= k2 <= 7)%Z ->
  (fmt < 3)%N -> (raw < 256)%N -> m <> 0%Z -> ~ (fmt = 1%N /\ raw = 255%N) ->
  let s := mkSensor fmt 0 m b k1 k2 in
  convert_value_F s (convert_raw_F s raw) = Ok (Z.of_N raw).
Proof.
  intros Hm Hb Hk1 Hk2 Hf Hr Hm0 Hz. cbv zeta. set (s := mkSensor fmt 0 m b k1 k2).
  destruct (forward_float_bound m b k1 k2 fmt raw Hm Hb Hk1 Hk2 Hf Hr) as (Fv & Bv). cbv zeta in Fv, Bv. fold s in Fv, Bv.
  set (x := signed_of fmt raw) in *. set (v := convert_raw_F s raw) in *.
  assert (Hx : (-128 <= x <= 255)%Z).
  { unfold x, signed_of. destruct (fmt =? 1)%N; [|destruct (fmt =? 2)%N]; try destruct (Z.ltb_spec (Z.of_N raw) 128); lia. }
  assert (HM : -512 <= IZR m <= 511) by (split; apply IZR_le; lia).
  assert (HX : -128 <= IZR x <= 255) by (split; apply IZR_le; lia).
  assert (HB : -512 <= IZR b <= 511) by (split; apply IZR_le; lia).
  pose proof (pow10R_range k1 ltac:(lia)) as HP1. pose proof (pow10R_range k2 ltac:(lia)) as HP2.
  pose proof (pow10R_range (- k2) ltac:(lia)) as HP2'. pose proof (pow10R_inv k2) as Hinv.
  pose proof (inv_int_le1 m Hm0) as HiM. apply Rabs_le_inv in HiM.
  assert (HMnz : IZR m <> 0) by (intros E; apply eq_IZR in E; contradiction).
  set (M := IZR m) in *. set (X := IZR x) in *. set (Bb := IZR b) in *.
  set (P1 := pow10R k1) in *. set (P2 := pow10R k2) in *. set (P2' := pow10R (- k2)) in *.
  set (V := FR v) in *. set (iM := / M) in *.
  (* the forward error, carried back through * 10^-K2 *)
  set (D := (V - (M * X + Bb * P1) * P2) * P2').
  assert (HD : Rabs D <= / 1000).
  { unfold D. rewrite Rabs_mult, (Rabs_pos_eq P2') by lra.
    apply Rle_trans with ((bpow radix2 (-50) * ((Rabs (M * X) + Rabs (Bb * P1)) * P2) + bpow radix2 (-1000)) * P2').
    - apply Rmult_le_compat_r; [lra | exact Bv].
    - replace ((bpow radix2 (-50) * ((Rabs (M * X) + Rabs (Bb * P1)) * P2) + bpow radix2 (-1000)) * P2')
        with (bpow radix2 (-50) * (Rabs (M * X) + Rabs (Bb * P1)) * (P2 * P2') + bpow radix2 (-1000) * P2') by ring.
      rewrite Hinv. clearbody M X Bb P1 P2'. simpl. interval. }
  apply Rabs_le_inv in HD.
  assert (EV : V * P2' = M * X + Bb * P1 + D).
  { unfold D. replace ((V - (M * X + Bb * P1) * P2) * P2') with (V * P2' - (M * X + Bb * P1) * (P2 * P2')) by ring.
    rewrite Hinv. ring. }
  assert (HV : Rabs V <= 100000000000000000000).
  { replace V with ((V * P2') * P2) by (rewrite Rmult_assoc, (Rmult_comm P2'), Hinv; ring). rewrite EV.
    clearbody M X Bb P1 P2 D. interval. }
  apply Rabs_le_inv in HV.
  (* the operations of convert_value_F *)
  destruct (pow10_F_ok (- k2) ltac:(lia)) as (Fq & d3 & Hd3 & Eq). fold P2' in Eq.
  destruct (mulF v _ Fv Fq) as (F1 & e5 & h5 & He5 & Hh5 & E1).
  { fold V. rewrite Eq. apply big_ok. clearbody V P2'. bnd Hd3. interval. }
  fold V in E1. rewrite Eq in E1.
  destruct (bterm_ok s Hb Hk1) as (Fb & d1 & e2 & h2 & Hd1 & He2 & Hh2 & Eb). cbn [s_b s_k1 s] in Eb. fold Bb P1 in Eb.
  bnd Hd3. bnd He5. bnd Hh5. bnd Hd1. bnd He2. bnd Hh2.
  destruct (subF _ _ F1 Fb) as (F2 & e6 & He6 & E2).
  { rewrite E1, Eb. apply big_ok. clearbody V P2' Bb P1. interval. }
  destruct (of_Z_exact m) as (Fm & Em); [lia|]. fold M in Em.
  bnd He6.
  destruct (divF _ _ F2 Fm) as (F3 & e7 & h7 & He7 & Hh7 & E3).
  { rewrite Em. exact HMnz. }
  { rewrite E2, E1, Eb, Em. apply big_ok. unfold Rdiv. fold iM. clearbody V P2' Bb P1 iM. interval. }
  bnd He7. bnd Hh7.
  (* the quotient is within 1/2 of x *)
  set (R := (M * X + Bb * P1 + D) * ((1 + d3) * (1 + e5) - 1) + D + h5 - Bb * P1 * ((1 + d1) * (1 + e2) - 1) - h2).
  assert (HR : Rabs R <= / 100).
  { unfold R. clearbody M X Bb P1 D. interval with (i_prec 80). }
  apply Rabs_le_inv in HR.
  assert (Near : Rabs (FR (PrimFloat.div (PrimFloat.sub (PrimFloat.mul v (pow10_F (- k2))) (bterm_F s)) (of_Z m)) - X) < / 2).
  { rewrite E3, E2, E1, Eb, Em.
    replace (V * (P2' * (1 + d3)) * (1 + e5)) with ((V * P2') * ((1 + d3) * (1 + e5))) by ring. rewrite EV.
    replace (((M * X + Bb * P1 + D) * ((1 + d3) * (1 + e5)) + h5 - (Bb * P1 * (1 + d1) * (1 + e2) + h2)) * (1 + e6) / M * (1 + e7) + h7 - X)
      with (X * ((1 + e6) * (1 + e7) - 1) + R * iM * ((1 + e6) * (1 + e7)) + h7)
      by (unfold R, iM; field; exact HMnz).
    clearbody X R iM. interval. }
  destruct (Q_of_float_R _ F3) as (q & Eqf & Eqr).
  unfold convert_value_F. cbn [s_lin s_m s_k2 s_fmt s]. cbn [N.land N.eqb negb].
  destruct (Z.eqb_spec m 0) as [|_]; [contradiction|].
  rewrite Eqf. rewrite <- Eqr in Near. rewrite (round_near _ _ Near).
  fold (encode_signed fmt x). unfold x. rewrite <- (raw_signed_spec fmt raw Hf Hr).
  rewrite (encode_signed_spec fmt raw Hf Hr Hz).
  destruct (Z.gtb_spec (Z.of_N raw) 255); [lia | reflexivity].
Qed.

(* ---------------------------------------------------------------- statements for Props/C17.v *)
(* the real number a primitive float denotes / finiteness, through Flocq's Prim2B *)
Definition float_value (f : PrimFloat.float) : R := FR f.
Definition float_finite (f : PrimFloat.float) : Prop := fin f.

Lemma formula_R m b k1 k2 x :
  Q2R (formula m b k1 k2 x) = (IZR m * IZR x + IZR b * pow10R k1) * pow10R k2.
Proof. unfold formula, pow10R, pow10. now rewrite Q2R_mult, Q2R_plus, !Q2R_mult, !Q2R_inject_Z. Qed.

Theorem forward_float_formula m b k1 k2 fmt raw :
  (-512 <= m <= 511)%Z -> (-512 <= b <= 511)%Z -> (-8 <= k1 <= 7)%Z -> (-8 <= k2 <= 7)%Z ->
  (fmt < 3)%N -> (raw < 256)%N ->
  let s := mkSensor fmt 0 m b k1 k2 in
  let x := signed_of fmt raw in
  float_finite (convert_raw_F s raw) /\
  Rabs (float_value (convert_raw_F s raw) - Q2R (formula m b k1 k2 x))
  <= powerRZ 2 (-50) * ((Rabs (IZR m * IZR x) + Rabs (IZR b) * Q2R (pow10 k1)) * Q2R (pow10 k2)) + powerRZ 2 (-1000).
Proof.
  intros Hm Hb Hk1 Hk2 Hf Hr s x.
  destruct (forward_float_bound m b k1 k2 fmt raw Hm Hb Hk1 Hk2 Hf Hr) as (F & B). cbv zeta in F, B.
  split; [exact F|]. unfold float_value. rewrite formula_R.
  rewrite !bpow_powerRZ in B. change (IZR radix2) with 2 in B.
  pose proof (pow10R_range k1 ltac:(lia)) as HP1.
  replace (Rabs (IZR b) * Q2R (pow10 k1)) with (Rabs (IZR b * pow10R k1)); [exact B|].
  rewrite Rabs_mult. f_equal. apply Rabs_pos_eq. unfold pow10R in *. lra.
Qed.
