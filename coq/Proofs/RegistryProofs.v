(* Obligations over the REGENERATED registry (Gen/Layouts.v): re-checked on every run. *)
From Coq Require Import String.
From Coq Require Import NArith Arith List Lia Bool.
From PyIpmi Require Import Lib.Res Lib.Bytes Model.Codec Proofs.CodecLemmas Proofs.CodecProofs Gen.Layouts.
Import ListNotations.
Open Scope N_scope.

Definition all_wf (reg : list msgdef) : bool := forallb (fun m => wf_layout (m_layout m)) reg.

Lemma all_wf_registry : all_wf registry = true.
Proof. vm_compute. reflexivity. Qed.

Lemma wf_in m : In m registry -> wf_layout (m_layout m) = true.
Proof. intros H. pose proof all_wf_registry as A. unfold all_wf in A. rewrite forallb_forall in A. now apply A. Qed.

(* ---- pairing / registration sanity ---- *)
Definition grp_eqb := option_eqb N.eqb.
Definition is_req (m : msgdef) : bool := N.even (m_netfn m).
Definition is_rsp (m : msgdef) : bool := N.odd (m_netfn m).
Definition rsp_of (m r : msgdef) : bool :=
  (m_netfn r =? m_netfn m + 1) && (m_cmd r =? m_cmd m) && grp_eqb (m_grp r) (m_grp m).
Definition same_id (m r : msgdef) : bool :=
  (m_netfn r =? m_netfn m) && (m_cmd r =? m_cmd m) && grp_eqb (m_grp r) (m_grp m).

Fixpoint rev_string (s : string) (acc : string) : string :=
  match s with EmptyString => acc | String c r => rev_string r (String c acc) end.
Definition ends_with (s suf : string) : bool := String.prefix (rev_string suf "") (rev_string s "").

Definition name_parity_ok (m : msgdef) : bool :=
  if is_req m then ends_with (m_name m) "Req" else ends_with (m_name m) "Rsp".

Definition pairing_ok (reg : list msgdef) : bool :=
  forallb (fun m => if is_req m then Nat.eqb (length (filter (rsp_of m) reg)) 1 else true) reg
  && forallb (fun m => Nat.eqb (length (filter (same_id m) reg)) 1) reg
  && str_nodup (map m_name reg)
  && forallb name_parity_ok reg.

(* every registered class: the translated ones and the ones downgraded in this run *)
Definition all_msgs : list msgdef := registry ++ registry_untranslated.

Lemma pairing_registry : pairing_ok all_msgs = true.
Proof. vm_compute. reflexivity. Qed.

Lemma pairing_in m : In m all_msgs ->
  (is_req m = true -> length (filter (rsp_of m) all_msgs) = 1%nat) /\
  length (filter (same_id m) all_msgs) = 1%nat /\ name_parity_ok m = true.
Proof.
  intros H. pose proof pairing_registry as P. unfold pairing_ok in P.
  repeat rewrite andb_true_iff in P. destruct P as [[[P1 P2] _] P4].
  rewrite forallb_forall in P1, P2, P4. specialize (P1 m H). specialize (P2 m H). specialize (P4 m H).
  split; [|split; [now apply Nat.eqb_eq | assumption]].
  intros E. rewrite E in P1. now apply Nat.eqb_eq.
Qed.

Lemma names_unique_registry : str_nodup (map m_name all_msgs) = true.
Proof.
  pose proof pairing_registry as P. unfold pairing_ok in P.
  repeat rewrite andb_true_iff in P. tauto.
Qed.

(* every response that carries fields starts with the completion code *)
Definition cc_first (m : msgdef) : bool :=
  match m_layout m with
  | Fields (f :: _) => match f_kind f, f_base f with KPlain, BCC => true | _, _ => false end
  | Fields [] => false
  | _ => true
  end.
Lemma rsp_cc_first_registry : forallb (fun m => if is_rsp m then cc_first m else true) registry = true.
Proof. vm_compute. reflexivity. Qed.

Lemma rsp_cc_first m f fs : In m registry -> is_rsp m = true -> m_layout m = Fields (f :: fs) ->
  f_kind f = KPlain /\ f_base f = BCC.
Proof.
  intros H R L. pose proof rsp_cc_first_registry as P. rewrite forallb_forall in P.
  specialize (P m H). rewrite R in P. unfold cc_first in P. rewrite L in P.
  destruct (f_kind f); try discriminate. destruct (f_base f); try discriminate. auto.
Qed.

Lemma registry_complete : length all_msgs = ast_class_count.
Proof. vm_compute. reflexivity. Qed.
