(* Lemmas for C12 (SEL retrieval, get-and-clear). *)
From Coq Require Import NArith ZArith List Lia ZifyN ZifyBool ZifyNat Bool.
From PyIpmi Require Import Lib.Res Lib.Bytes Lib.Prog Model.SelIO.
Import ListNotations.
Open Scope N_scope.
Ltac Zify.zify_post_hook ::= Z.to_euclidean_division_equations.

(* ---------------------------------------------------------------------------
   running a prog from the empty trace; composition lemmas *)
Lemma run_tr_app {A S} (dev : device S) (p : prog A) : forall s tr,
  run p dev s tr = let '(r, s', t) := run p dev s [] in (r, s', tr ++ t).
Proof.
  induction p as [a|e|r k IH|ms k IH]; intros s tr; cbn [run].
  - now rewrite app_nil_r.
  - now rewrite app_nil_r.
  - destruct (dev s r) as [s1 rp]. rewrite (IH rp s1 (tr ++ [(r, rp)])), (IH rp s1 ([] ++ [(r, rp)])).
    destruct (run (k rp) dev s1 []) as [[res s2] t]. now rewrite <- app_assoc.
  - apply IH.
Qed.

Definition exec {A S} (p : prog A) (dev : device S) (s : S) := run p dev s [].

Lemma exec_send {A S} (dev : device S) r (k : reply -> prog A) s :
  exec (Send r k) dev s =
  let '(s1, rp) := dev s r in let '(res, s2, t) := exec (k rp) dev s1 in (res, s2, (r, rp) :: t).
Proof.
  unfold exec. cbn [run]. destruct (dev s r) as [s1 rp]. rewrite run_tr_app.
  destruct (run (k rp) dev s1 []) as [[res s2] t]. reflexivity.
Qed.

Lemma exec_bind_ok {A B S} (dev : device S) (p : prog A) (f : A -> prog B) : forall s a s1 t1 r s2 t2,
  exec p dev s = (Ok a, s1, t1) -> exec (f a) dev s1 = (r, s2, t2) ->
  exec (pbind p f) dev s = (r, s2, t1 ++ t2).
Proof.
  induction p as [a0|e|rq k IH|ms k IH]; intros s a s1 t1 r s2 t2 H1 H2.
  - unfold exec in H1. cbn in H1. injection H1 as -> -> <-. exact H2.
  - discriminate.
  - cbn [pbind]. rewrite exec_send in H1. rewrite exec_send. destruct (dev s rq) as [s' rp] eqn:Hd.
    destruct (exec (k rp) dev s') as [[res s''] t] eqn:Hk. try rewrite Hk in H1. injection H1 as -> -> <-.
    rewrite (IH rp s' a s1 t r s2 t2 Hk H2). reflexivity.
  - cbn [pbind]. unfold exec in *. cbn [run] in *. eapply IH; eassumption.
Qed.

Lemma exec_bind_err {A B S} (dev : device S) (p : prog A) (f : A -> prog B) : forall s e s1 t1,
  exec p dev s = (Err e, s1, t1) -> exec (pbind p f) dev s = (Err e, s1, t1).
Proof.
  induction p as [a0|e0|rq k IH|ms k IH]; intros s e s1 t1 H1.
  - discriminate.
  - unfold exec in *. cbn in *. inversion H1; subst. reflexivity.
  - cbn [pbind]. rewrite exec_send in H1. rewrite exec_send. destruct (dev s rq) as [s' rp] eqn:Hd.
    destruct (exec (k rp) dev s') as [[res s''] t] eqn:Hk. try rewrite Hk in H1. injection H1 as -> -> <-.
    rewrite (IH rp s' e s1 t Hk). reflexivity.
  - cbn [pbind]. unfold exec in *. cbn [run] in *. eapply IH; eassumption.
Qed.

Lemma exec_catch_ok {A S} (dev : device S) (p : prog A) h : forall s a s1 t1,
  exec p dev s = (Ok a, s1, t1) -> exec (pcatch p h) dev s = (Ok a, s1, t1).
Proof.
  induction p as [a0|e0|rq k IH|ms k IH]; intros s a s1 t1 H1.
  - cbn [pcatch]. exact H1.
  - discriminate.
  - cbn [pcatch]. rewrite exec_send in H1. rewrite exec_send. destruct (dev s rq) as [s' rp] eqn:Hd.
    destruct (exec (k rp) dev s') as [[res s''] t] eqn:Hk. try rewrite Hk in H1. injection H1 as -> -> <-.
    rewrite (IH rp s' a s1 t Hk). reflexivity.
  - cbn [pcatch]. unfold exec in *. cbn [run] in *. eapply IH; eassumption.
Qed.

Lemma exec_catch_err {A S} (dev : device S) (p : prog A) h : forall s e s1 t1 r s2 t2,
  exec p dev s = (Err e, s1, t1) -> exec (h e) dev s1 = (r, s2, t2) ->
  exec (pcatch p h) dev s = (r, s2, t1 ++ t2).
Proof.
  induction p as [a0|e0|rq k IH|ms k IH]; intros s e s1 t1 r s2 t2 H1 H2.
  - discriminate.
  - unfold exec in H1. cbn in H1. injection H1 as -> -> <-. exact H2.
  - cbn [pcatch]. rewrite exec_send in H1. rewrite exec_send. destruct (dev s rq) as [s' rp] eqn:Hd.
    destruct (exec (k rp) dev s') as [[res s''] t] eqn:Hk. try rewrite Hk in H1. injection H1 as -> -> <-.
    rewrite (IH rp s' e s1 t r s2 t2 Hk H2). reflexivity.
  - cbn [pcatch]. unfold exec in *. cbn [run] in *. eapply IH; eassumption.
Qed.

(* on_cancel: Ok a -> Some a; CCError 0xC5 -> None; any other error propagates *)
Lemma exec_on_cancel_ok {A S} (dev : device S) (p : prog A) s a s1 t1 :
  exec p dev s = (Ok a, s1, t1) -> exec (on_cancel p) dev s = (Ok (Some a), s1, t1).
Proof.
  intros H. unfold on_cancel. apply exec_catch_ok.
  rewrite (exec_bind_ok dev p _ s a s1 t1 (Ok (Some a)) s1 []); [now rewrite app_nil_r | exact H | reflexivity].
Qed.
Lemma exec_on_cancel_c5 {A S} (dev : device S) (p : prog A) s s1 t1 :
  exec p dev s = (Err (CCError 0xc5), s1, t1) -> exec (on_cancel p) dev s = (Ok None, s1, t1).
Proof.
  intros H. unfold on_cancel.
  rewrite (exec_catch_err dev _ _ s (CCError 0xc5) s1 t1 (Ok None) s1 []).
  - now rewrite app_nil_r.
  - apply exec_bind_err. exact H.
  - reflexivity.
Qed.

(* ---------------------------------------------------------------------------
   SelEntry decoding against the record layout of the IPMI specification (SEL event
   records, section 32.1): bytes 1-2 record id, 3 type, 4-7 timestamp, 8-9 generator id,
   10 EvM rev, 11 sensor type, 12 sensor number, 13 direction (bit 7) | event type,
   14-16 event data *)
Lemma sel_decode_spec : forall b0 b1 b2 b3 b4 b5 b6 b7 b8 b9 b10 b11 b12 b13 b14 b15,
  sel_type_ok b2 = true ->
  let d := [b0; b1; b2; b3; b4; b5; b6; b7; b8; b9; b10; b11; b12; b13; b14; b15] in
  sel_entry_decode d =
  Ok (mkSelEntry d (b0 + 256 * (b1 + 256 * 0)) b2
                 (b3 + 256 * (b4 + 256 * (b5 + 256 * (b6 + 256 * 0))))
                 (b7 + 256 * (b8 + 256 * 0)) b9 b10 b11
                 (if N.testbit b12 7 then 1 else 0) (N.land b12 0x7f) [b13; b14; b15]).
Proof.
  intros. unfold sel_entry_decode. subst d. cbn [length Nat.eqb negb nth].
  rewrite H. reflexivity.
Qed.

Lemma sel_decode_data d e : sel_entry_decode d = Ok e -> se_data e = d /\ length d = 16%nat.
Proof.
  unfold sel_entry_decode. destruct (length d =? 16)%nat eqn:Hl; cbn [negb]; [|discriminate].
  destruct (sel_type_ok (nth 2 d 0)); cbn [negb]; [|discriminate].
  intros H. injection H as <-. cbn. split; [reflexivity | now apply Nat.eqb_eq].
Qed.

Definition rec_ok (r : list N) : Prop := length r = 16%nat /\ sel_type_ok (nth 2 r 0) = true.
Lemma rec_ok_decode r : rec_ok r -> exists e, sel_entry_decode r = Ok e /\ se_data e = r.
Proof.
  intros [Hl Ht]. unfold sel_entry_decode. rewrite Hl, Ht. cbn. eexists. split; reflexivity.
Qed.

(* ---------------------------------------------------------------------------
   the device *)
Definition limit_ok (L : N) : Prop := (1 <= L /\ L <= 16) \/ L = 0xff.
Fixpoint somes (p : list (option (list N))) : list (list N) :=
  match p with [] => [] | Some r :: t => r :: somes t | None :: t => somes t end.

(* nothing but quiet adversary steps happened between s and s' *)
Definition quiet (s s' : seldev) : Prop :=
  sd_log s' = sd_log s /\ sd_limit s' = sd_limit s /\ sd_resv s' = sd_resv s /\
  sd_valid s' = sd_valid s /\ sd_deleted s' = sd_deleted s /\ somes (sd_plan s') = somes (sd_plan s).
(* quiet steps, then the adversary appended e (which cancels the reservation) *)
Definition cancelled (s s' : seldev) (e : list N) : Prop :=
  sd_log s' = sd_log s ++ [e] /\ sd_limit s' = sd_limit s /\ sd_valid s' = false /\
  sd_deleted s' = sd_deleted s /\ somes (sd_plan s) = e :: somes (sd_plan s').

Lemma quiet_refl s : quiet s s.
Proof. unfold quiet. auto 10. Qed.
Lemma quiet_trans a b c : quiet a b -> quiet b c -> quiet a c.
Proof. unfold quiet. intros (?&?&?&?&?&?) (?&?&?&?&?&?). repeat split; congruence. Qed.
Lemma quiet_cancelled a b c e : quiet a b -> cancelled b c e -> cancelled a c e.
Proof. unfold quiet, cancelled. intros (?&?&?&?&?&?) (?&?&?&?&?). repeat split; congruence. Qed.

Lemma adversary_quiet s : hd None (sd_plan s) = None -> quiet s (adversary s).
Proof.
  intros H. unfold adversary. rewrite H. unfold quiet. cbn. repeat split.
  destruct (sd_plan s) as [|[x|] p]; cbn in *; try discriminate; reflexivity.
Qed.
Lemma adversary_cancel s e : hd None (sd_plan s) = Some e -> cancelled s (adversary s) e.
Proof.
  intros H. unfold adversary. rewrite H. unfold cancelled. cbn. repeat split.
  destruct (sd_plan s) as [|[x|] p]; cbn in *; try discriminate. congruence.
Qed.

Lemma firstn_add {A} : forall a b (l : list A), firstn a l ++ firstn b (skipn a l) = firstn (a + b) l.
Proof.
  induction a as [|a IH]; intros b l; [reflexivity|].
  destruct l as [|x l]; [now rewrite skipn_nil, !firstn_nil|]. cbn. now rewrite IH.
Qed.

Lemma lookup_nonempty log rid x : lookup log rid = Some x -> log <> [].
Proof. destruct log; [discriminate | discriminate]. Qed.

Local Opaque N.mul N.add N.modulo N.div N.ltb N.leb.

Lemma handle_get s resv rid off ln rc nx :
  sd_valid s = true -> sd_resv s = resv -> 1 <= resv -> resv < 65536 -> rid < 65536 ->
  lookup (sd_log s) rid = Some (rc, nx) -> off < 256 -> (0 <= ln < 256)%Z ->
  sel_handle s (get_entry_req resv rid off ln) =
  (s, RBytes (let l := Z.to_N ln in
              if l =? 0xff then
                if sd_limit s =? 0xff then
                  if 16 <=? off then [0xc9] else 0 :: le_bytes 2 nx ++ slice rc off (16 - off)
                else [0xca]
              else if negb (sd_limit s =? 0xff) && (sd_limit s <? l) then [0xca]
              else if 16 <? off + l then [0xc9]
              else 0 :: le_bytes 2 nx ++ slice rc off l)).
Proof.
  intros Hv Hr H1 H2 H3 Hl Hoff Hln.
  unfold sel_handle, get_entry_req, enc1. cbn [q_netfn q_cmd q_lun q_data le_bytes app].
  cbn [NETFN_STORAGE CMD_SEL_INFO CMD_RESERVE_SEL CMD_GET_SEL_ENTRY N.eqb Pos.eqb andb negb].
  replace (resv mod 256 + 256 * (resv / 256 mod 256)) with resv by lia.
  replace (rid mod 256 + 256 * (rid / 256 mod 256)) with rid by lia.
  replace (off mod 256) with off by lia.
  replace (Z.to_N (ln mod 256)) with (Z.to_N ln) by lia.
  pose proof (lookup_nonempty _ _ _ Hl) as Hne.
  destruct (sd_log s) as [|r0 lg] eqn:Hlog; [contradiction|].
  rewrite <- Hlog in *. rewrite Hl.
  unfold resv_ok. rewrite Hv, Hr, N.eqb_refl.
  destruct (N.eqb_spec resv 0); [lia|]. cbn [andb negb].
  cbn zeta.
  destruct (Z.to_N ln =? 255); [destruct (sd_limit s =? 255); [destruct (16 <=? off)|]; reflexivity|].
  destruct (negb (sd_limit s =? 255) && (sd_limit s <? Z.to_N ln)); [reflexivity|].
  destruct (16 <? off + Z.to_N ln); reflexivity.
Qed.

Lemma handle_get_cancelled s resv rid off ln :
  sd_valid s = false -> 1 <= resv -> resv < 65536 -> sd_log s <> [] ->
  sel_handle s (get_entry_req resv rid off ln) = (s, RBytes [0xc5]).
Proof.
  intros Hv H1 H2 Hne.
  unfold sel_handle, get_entry_req, enc1. cbn [q_netfn q_cmd q_lun q_data le_bytes app].
  cbn [NETFN_STORAGE CMD_SEL_INFO CMD_RESERVE_SEL CMD_GET_SEL_ENTRY N.eqb Pos.eqb andb negb].
  replace (resv mod 256 + 256 * (resv / 256 mod 256)) with resv by lia.
  destruct (sd_log s) as [|r0 lg] eqn:Hlog; [contradiction|].
  unfold resv_ok. rewrite Hv. destruct (N.eqb_spec resv 0); [lia|]. reflexivity.
Qed.

Lemma handle_delete s resv rid rc nx :
  sd_valid s = true -> sd_resv s = resv -> resv < 65536 -> rid < 65536 ->
  lookup (sd_log s) rid = Some (rc, nx) ->
  sel_handle s (delete_req resv rid) =
  (mkSelDev (remove_rec (sd_log s) rid) (sd_limit s) (sd_resv s) false (sd_plan s) (sd_deleted s ++ [rc]),
   RBytes (0 :: le_bytes 2 (rec_id rc))).
Proof.
  intros Hv Hr H2 H3 Hl.
  unfold sel_handle, delete_req. cbn [q_netfn q_cmd q_lun q_data le_bytes app].
  cbn [NETFN_STORAGE CMD_SEL_INFO CMD_RESERVE_SEL CMD_GET_SEL_ENTRY CMD_DELETE_SEL_ENTRY N.eqb Pos.eqb andb negb].
  replace (resv mod 256 + 256 * (resv / 256 mod 256)) with resv by lia.
  replace (rid mod 256 + 256 * (rid / 256 mod 256)) with rid by lia.
  unfold resv_ok. rewrite Hv, Hr, N.eqb_refl. cbn [andb negb]. rewrite Hl. reflexivity.
Qed.

Lemma handle_delete_cancelled s resv rid :
  sd_valid s = false -> resv < 65536 ->
  sel_handle s (delete_req resv rid) = (s, RBytes [0xc5]).
Proof.
  intros Hv H2.
  unfold sel_handle, delete_req. cbn [q_netfn q_cmd q_lun q_data le_bytes app].
  cbn [NETFN_STORAGE CMD_SEL_INFO CMD_RESERVE_SEL CMD_GET_SEL_ENTRY CMD_DELETE_SEL_ENTRY N.eqb Pos.eqb andb negb].
  unfold resv_ok. rewrite Hv. reflexivity.
Qed.

Lemma handle_reserve s :
  sel_handle s reserve_req =
  (mkSelDev (sd_log s) (sd_limit s) (sd_resv s mod 65535 + 1) true (sd_plan s) (sd_deleted s),
   RBytes (0 :: le_bytes 2 (sd_resv s mod 65535 + 1))).
Proof. reflexivity. Qed.

Lemma handle_info s :
  sel_handle s sel_info_req =
  (s, RBytes ([0; 0x51] ++ le_bytes 2 (N.of_nat (length (sd_log s))) ++ [0; 0; 0; 0; 0; 0; 0; 0; 0; 0; 0x0a])).
Proof. unfold sel_handle, sel_info_req, len. cbn. rewrite map_length. reflexivity. Qed.

Lemma dec_id16_ok v : v < 65536 -> dec_id16 (0 :: le_bytes 2 v) = Ok v.
Proof. intros H. cbn. f_equal. lia. Qed.
Lemma dec_get_entry_ok v dat : v < 65536 -> dec_get_entry (0 :: le_bytes 2 v ++ dat) = Ok (0, v, dat).
Proof. intros H. cbn. do 3 f_equal. lia. Qed.
Lemma dec_sel_info_ok n : n < 65536 ->
  dec_sel_info ([0; 0x51] ++ le_bytes 2 n ++ [0; 0; 0; 0; 0; 0; 0; 0; 0; 0; 0x0a]) = Ok n.
Proof. intros H. cbn. f_equal. lia. Qed.

Local Transparent N.mul N.add N.modulo N.div N.ltb N.leb.
