(* Lemmas for C12 (SEL retrieval, get-and-clear). *)
From Coq Require Import NArith ZArith List Lia ZifyN ZifyBool ZifyNat Bool.
From PyIpmi Require Import Lib.Res Lib.Bytes Lib.Prog Model.SelIO.
Import ListNotations.
Open Scope N_scope.
Ltac Zify.zify_post_hook ::= Z.to_euclidean_division_equations.

(* ---------------------------------------------------------------------------
   running a prog from the empty trace; composition lemmas *)
Lemma run_tr_app {A S} (dev : device S) (p : prog A) : forall s tr,
  run p dev s tr = let '(r, s', t) := run p dev s [] in (r, s', tr ++ t).
Proof.
  induction p as [a|e|r k IH|ms k IH]; intros s tr; cbn [run].
  - now rewrite app_nil_r.
  - now rewrite app_nil_r.
  - destruct (dev s r) as [s1 rp]. rewrite (IH rp s1 (tr ++ [(r, rp)])), (IH rp s1 ([] ++ [(r, rp)])).
    destruct (run (k rp) dev s1 []) as [[res s2] t]. now rewrite <- app_assoc.
  - apply IH.
Qed.

Definition exec {A S} (p : prog A) (dev : device S) (s : S) := run p dev s [].

Lemma exec_send {A S} (dev : device S) r (k : reply -> prog A) s :
  exec (Send r k) dev s =
  let '(s1, rp) := dev s r in let '(res, s2, t) := exec (k rp) dev s1 in (res, s2, (r, rp) :: t).
Proof.
  unfold exec. cbn [run]. destruct (dev s r) as [s1 rp]. rewrite run_tr_app.
  destruct (run (k rp) dev s1 []) as [[res s2] t]. reflexivity.
Qed.

Lemma exec_bind_ok {A B S} (dev : device S) (p : prog A) (f : A -> prog B) : forall s a s1 t1 r s2 t2,
  exec p dev s = (Ok a, s1, t1) -> exec (f a) dev s1 = (r, s2, t2) ->
  exec (pbind p f) dev s = (r, s2, t1 ++ t2).
Proof.
  induction p as [a0|e|rq k IH|ms k IH]; intros s a s1 t1 r s2 t2 H1 H2.
  - unfold exec in H1. cbn in H1. injection H1 as -> -> <-. exact H2.
  - discriminate.
  - cbn [pbind]. rewrite exec_send in H1. rewrite exec_send. destruct (dev s rq) as [s' rp] eqn:Hd.
    destruct (exec (k rp) dev s') as [[res s''] t] eqn:Hk. try rewrite Hk in H1. injection H1 as -> -> <-.
    rewrite (IH rp s' a s1 t r s2 t2 Hk H2). reflexivity.
  - cbn [pbind]. unfold exec in *. cbn [run] in *. eapply IH; eassumption.
Qed.

Lemma exec_bind_err {A B S} (dev : device S) (p : prog A) (f : A -> prog B) : forall s e s1 t1,
  exec p dev s = (Err e, s1, t1) -> exec (pbind p f) dev s = (Err e, s1, t1).
Proof.
  induction p as [a0|e0|rq k IH|ms k IH]; intros s e s1 t1 H1.
  - discriminate.
  - unfold exec in *. cbn in *. inversion H1; subst. reflexivity.
  - cbn [pbind]. rewrite exec_send in H1. rewrite exec_send. destruct (dev s rq) as [s' rp] eqn:Hd.
    destruct (exec (k rp) dev s') as [[res s''] t] eqn:Hk. try rewrite Hk in H1. injection H1 as -> -> <-.
    rewrite (IH rp s' e s1 t Hk). reflexivity.
  - cbn [pbind]. unfold exec in *. cbn [run] in *. eapply IH; eassumption.
Qed.

Lemma exec_catch_ok {A S} (dev : device S) (p : prog A) h : forall s a s1 t1,
  exec p dev s = (Ok a, s1, t1) -> exec (pcatch p h) dev s = (Ok a, s1, t1).
Proof.
  induction p as [a0|e0|rq k IH|ms k IH]; intros s a s1 t1 H1.
  - cbn [pcatch]. exact H1.
  - discriminate.
  - cbn [pcatch]. rewrite exec_send in H1. rewrite exec_send. destruct (dev s rq) as [s' rp] eqn:Hd.
    destruct (exec (k rp) dev s') as [[res s''] t] eqn:Hk. try rewrite Hk in H1. injection H1 as -> -> <-.
    rewrite (IH rp s' a s1 t Hk). reflexivity.
  - cbn [pcatch]. unfold exec in *. cbn [run] in *. eapply IH; eassumption.
Qed.

Lemma exec_catch_err {A S} (dev : device S) (p : prog A) h : forall s e s1 t1 r s2 t2,
  exec p dev s = (Err e, s1, t1) -> exec (h e) dev s1 = (r, s2, t2) ->
  exec (pcatch p h) dev s = (r, s2, t1 ++ t2).
Proof.
  induction p as [a0|e0|rq k IH|ms k IH]; intros s e s1 t1 r s2 t2 H1 H2.
  - discriminate.
  - unfold exec in H1. cbn in H1. injection H1 as -> -> <-. exact H2.
  - cbn [pcatch]. rewrite exec_send in H1. rewrite exec_send. destruct (dev s rq) as [s' rp] eqn:Hd.
    destruct (exec (k rp) dev s') as [[res s''] t] eqn:Hk. try rewrite Hk in H1. injection H1 as -> -> <-.
    rewrite (IH rp s' e s1 t r s2 t2 Hk H2). reflexivity.
  - cbn [pcatch]. unfold exec in *. cbn [run] in *. eapply IH; eassumption.
Qed.

(* on_cancel: Ok a -> Some a; CCError 0xC5 -> None; any other error propagates *)
Lemma exec_on_cancel_ok {A S} (dev : device S) (p : prog A) s a s1 t1 :
  exec p dev s = (Ok a, s1, t1) -> exec (on_cancel p) dev s = (Ok (Some a), s1, t1).
Proof.
  intros H. unfold on_cancel. apply exec_catch_ok.
  rewrite (exec_bind_ok dev p _ s a s1 t1 (Ok (Some a)) s1 []); [now rewrite app_nil_r | exact H | reflexivity].
Qed.
Lemma exec_on_cancel_c5 {A S} (dev : device S) (p : prog A) s s1 t1 :
  exec p dev s = (Err (CCError 0xc5), s1, t1) -> exec (on_cancel p) dev s = (Ok None, s1, t1).
Proof.
  intros H. unfold on_cancel.
  rewrite (exec_catch_err dev _ _ s (CCError 0xc5) s1 t1 (Ok None) s1 []).
  - now rewrite app_nil_r.
  - apply exec_bind_err. exact H.
  - reflexivity.
Qed.

(* ---------------------------------------------------------------------------
   SelEntry decoding against the record layout of the IPMI specification (SEL event
   records, section 32.1): bytes 1-2 record id, 3 type, 4-7 timestamp, 8-9 generator id,
   10 EvM rev, 11 sensor type, 12 sensor number, 13 direction (bit 7) | event type,
   14-16 event data *)
Lemma sel_decode_spec : forall b0 b1 b2 b3 b4 b5 b6 b7 b8 b9 b10 b11 b12 b13 b14 b15,
  sel_type_ok b2 = true ->
  let d := [b0; b1; b2; b3; b4; b5; b6; b7; b8; b9; b10; b11; b12; b13; b14; b15] in
  sel_entry_decode d =
  Ok (mkSelEntry d (b0 + 256 * (b1 + 256 * 0)) b2
                 (b3 + 256 * (b4 + 256 * (b5 + 256 * (b6 + 256 * 0))))
                 (b7 + 256 * (b8 + 256 * 0)) b9 b10 b11
                 (if N.testbit b12 7 then 1 else 0) (N.land b12 0x7f) [b13; b14; b15]).
Proof.
  intros. unfold sel_entry_decode. subst d. cbn [length Nat.eqb negb nth].
  rewrite H. reflexivity.
Qed.

Lemma sel_decode_data d e : sel_entry_decode d = Ok e -> se_data e = d /\ length d = 16%nat.
Proof.
  unfold sel_entry_decode. destruct (length d =? 16)%nat eqn:Hl; cbn [negb]; [|discriminate].
  destruct (sel_type_ok (nth 2 d 0)); cbn [negb]; [|discriminate].
  intros H. injection H as <-. cbn. split; [reflexivity | now apply Nat.eqb_eq].
Qed.

Definition rec_ok (r : list N) : Prop := length r = 16%nat /\ sel_type_ok (nth 2 r 0) = true.
Lemma rec_ok_decode r : rec_ok r -> exists e, sel_entry_decode r = Ok e /\ se_data e = r.
Proof.
  intros [Hl Ht]. unfold sel_entry_decode. rewrite Hl, Ht. cbn. eexists. split; reflexivity.
Qed.

(* ---------------------------------------------------------------------------
   the device *)
Definition limit_ok (L : N) : Prop := (1 <= L /\ L <= 16) \/ L = 0xff.
Fixpoint somes (p : list (option (list N))) : list (list N) :=
  match p with [] => [] | Some r :: t => r :: somes t | None :: t => somes t end.

(* nothing but quiet adversary steps happened between s and s' *)
Definition quiet (s s' : seldev) : Prop :=
  sd_log s' = sd_log s /\ sd_limit s' = sd_limit s /\ sd_resv s' = sd_resv s /\
  sd_valid s' = sd_valid s /\ sd_deleted s' = sd_deleted s /\ somes (sd_plan s') = somes (sd_plan s).
(* quiet steps, then the adversary appended e (which cancels the reservation) *)
Definition cancelled (s s' : seldev) (e : list N) : Prop :=
  sd_log s' = sd_log s ++ [e] /\ sd_limit s' = sd_limit s /\ sd_valid s' = false /\
  sd_deleted s' = sd_deleted s /\ somes (sd_plan s) = e :: somes (sd_plan s').

Lemma quiet_refl s : quiet s s.
Proof. unfold quiet. auto 10. Qed.
Lemma quiet_trans a b c : quiet a b -> quiet b c -> quiet a c.
Proof. unfold quiet. intros (?&?&?&?&?&?) (?&?&?&?&?&?). repeat split; congruence. Qed.
Lemma quiet_cancelled a b c e : quiet a b -> cancelled b c e -> cancelled a c e.
Proof. unfold quiet, cancelled. intros (?&?&?&?&?&?) (?&?&?&?&?). repeat split; congruence. Qed.

Lemma adversary_quiet s : hd None (sd_plan s) = None -> quiet s (adversary s).
Proof.
  intros H. unfold adversary. rewrite H. unfold quiet. cbn. repeat split.
  destruct (sd_plan s) as [|[x|] p]; cbn in *; try discriminate; reflexivity.
Qed.
Lemma adversary_cancel s e : hd None (sd_plan s) = Some e -> cancelled s (adversary s) e.
Proof.
  intros H. unfold adversary. rewrite H. unfold cancelled. cbn. repeat split.
  destruct (sd_plan s) as [|[x|] p]; cbn in *; try discriminate. congruence.
Qed.

Lemma firstn_add {A} : forall a b (l : list A), firstn a l ++ firstn b (skipn a l) = firstn (a + b) l.
Proof.
  induction a as [|a IH]; intros b l; [reflexivity|].
  destruct l as [|x l]; [now rewrite skipn_nil, !firstn_nil|]. cbn. now rewrite IH.
Qed.

Lemma lookup_nonempty log rid x : lookup log rid = Some x -> log <> [].
Proof. destruct log; [discriminate | discriminate]. Qed.

Local Opaque N.mul N.add N.modulo N.div N.ltb N.leb.

Lemma handle_get s resv rid off ln rc nx :
  sd_valid s = true -> sd_resv s = resv -> 1 <= resv -> resv < 65536 -> rid < 65536 ->
  lookup (sd_log s) rid = Some (rc, nx) -> off < 256 -> (0 <= ln < 256)%Z ->
  sel_handle s (get_entry_req resv rid off ln) =
  (s, RBytes (let l := Z.to_N ln in
              if l =? 0xff then
                if sd_limit s =? 0xff then
                  if 16 <=? off then [0xc9] else 0 :: le_bytes 2 nx ++ slice rc off (16 - off)
                else [0xca]
              else if negb (sd_limit s =? 0xff) && (sd_limit s <? l) then [0xca]
              else if 16 <? off + l then [0xc9]
              else 0 :: le_bytes 2 nx ++ slice rc off l)).
Proof.
  intros Hv Hr H1 H2 H3 Hl Hoff Hln.
  unfold sel_handle, get_entry_req, enc1. cbn [q_netfn q_cmd q_lun q_data le_bytes app].
  cbn [NETFN_STORAGE CMD_SEL_INFO CMD_RESERVE_SEL CMD_GET_SEL_ENTRY N.eqb Pos.eqb andb negb].
  replace (resv mod 256 + 256 * (resv / 256 mod 256)) with resv by lia.
  replace (rid mod 256 + 256 * (rid / 256 mod 256)) with rid by lia.
  replace (off mod 256) with off by lia.
  replace (Z.to_N (ln mod 256)) with (Z.to_N ln) by lia.
  pose proof (lookup_nonempty _ _ _ Hl) as Hne.
  destruct (sd_log s) as [|r0 lg] eqn:Hlog; [contradiction|].
  rewrite <- Hlog in *. rewrite Hl.
  unfold resv_ok. rewrite Hv, Hr, N.eqb_refl.
  destruct (N.eqb_spec resv 0); [lia|]. cbn [andb negb].
  cbn zeta.
  destruct (Z.to_N ln =? 255); [destruct (sd_limit s =? 255); [destruct (16 <=? off)|]; reflexivity|].
  destruct (negb (sd_limit s =? 255) && (sd_limit s <? Z.to_N ln)); [reflexivity|].
  destruct (16 <? off + Z.to_N ln); reflexivity.
Qed.

Lemma handle_get_cancelled s resv rid off ln :
  sd_valid s = false -> 1 <= resv -> resv < 65536 -> sd_log s <> [] ->
  sel_handle s (get_entry_req resv rid off ln) = (s, RBytes [0xc5]).
Proof.
  intros Hv H1 H2 Hne.
  unfold sel_handle, get_entry_req, enc1. cbn [q_netfn q_cmd q_lun q_data le_bytes app].
  cbn [NETFN_STORAGE CMD_SEL_INFO CMD_RESERVE_SEL CMD_GET_SEL_ENTRY N.eqb Pos.eqb andb negb].
  replace (resv mod 256 + 256 * (resv / 256 mod 256)) with resv by lia.
  destruct (sd_log s) as [|r0 lg] eqn:Hlog; [contradiction|].
  unfold resv_ok. rewrite Hv. destruct (N.eqb_spec resv 0); [lia|]. reflexivity.
Qed.

Lemma handle_delete s resv rid rc nx :
  sd_valid s = true -> sd_resv s = resv -> resv < 65536 -> rid < 65536 ->
  lookup (sd_log s) rid = Some (rc, nx) ->
  sel_handle s (delete_req resv rid) =
  (mkSelDev (remove_rec (sd_log s) rid) (sd_limit s) (sd_resv s) false (sd_plan s) (sd_deleted s ++ [rc]),
   RBytes (0 :: le_bytes 2 (rec_id rc))).
Proof.
  intros Hv Hr H2 H3 Hl.
  unfold sel_handle, delete_req. cbn [q_netfn q_cmd q_lun q_data le_bytes app].
  cbn [NETFN_STORAGE CMD_SEL_INFO CMD_RESERVE_SEL CMD_GET_SEL_ENTRY CMD_DELETE_SEL_ENTRY N.eqb Pos.eqb andb negb].
  replace (resv mod 256 + 256 * (resv / 256 mod 256)) with resv by lia.
  replace (rid mod 256 + 256 * (rid / 256 mod 256)) with rid by lia.
  unfold resv_ok. rewrite Hv, Hr, N.eqb_refl. cbn [andb negb]. rewrite Hl. reflexivity.
Qed.

Lemma handle_delete_cancelled s resv rid :
  sd_valid s = false -> resv < 65536 ->
  sel_handle s (delete_req resv rid) = (s, RBytes [0xc5]).
Proof.
  intros Hv H2.
  unfold sel_handle, delete_req. cbn [q_netfn q_cmd q_lun q_data le_bytes app].
  cbn [NETFN_STORAGE CMD_SEL_INFO CMD_RESERVE_SEL CMD_GET_SEL_ENTRY CMD_DELETE_SEL_ENTRY N.eqb Pos.eqb andb negb].
  unfold resv_ok. rewrite Hv. reflexivity.
Qed.

Lemma handle_reserve s :
  sel_handle s reserve_req =
  (mkSelDev (sd_log s) (sd_limit s) (sd_resv s mod 65535 + 1) true (sd_plan s) (sd_deleted s),
   RBytes (0 :: le_bytes 2 (sd_resv s mod 65535 + 1))).
Proof. reflexivity. Qed.

Lemma handle_info s :
  sel_handle s sel_info_req =
  (s, RBytes ([0; 0x51] ++ le_bytes 2 (N.of_nat (length (sd_log s))) ++ [0; 0; 0; 0; 0; 0; 0; 0; 0; 0; 0x0a])).
Proof. unfold sel_handle, sel_info_req, len. cbn. rewrite map_length. reflexivity. Qed.

Lemma dec_id16_ok v : v < 65536 -> dec_id16 (0 :: le_bytes 2 v) = Ok v.
Proof. intros H. cbn. f_equal. lia. Qed.
Lemma dec_get_entry_ok v dat : v < 65536 -> dec_get_entry (0 :: le_bytes 2 v ++ dat) = Ok (0, v, dat).
Proof. intros H. cbn. do 3 f_equal. lia. Qed.
Lemma dec_sel_info_ok n : n < 65536 ->
  dec_sel_info ([0; 0x51] ++ le_bytes 2 n ++ [0; 0; 0; 0; 0; 0; 0; 0; 0; 0; 0x0a]) = Ok n.
Proof. intros H. cbn. f_equal. lia. Qed.

Local Transparent N.mul N.add N.modulo N.div N.ltb N.leb.

(* ---------------------------------------------------------------------------
   get_sel_entry against the device: either no log change interferes and the record
   comes back whole, or the adversary strikes and the loop ends with 0xC5 *)
(* the record bytes carried by a successful Get SEL Entry reply (cc, next id LE16, data) *)
Definition reply_data (x : request * reply) : list N :=
  match snd x with RBytes (0 :: _ :: _ :: dat) => dat | _ => [] end.
Definition got (t : list (request * reply)) : list N := flat_map reply_data t.

Section Inner.
  Variables (resv rid nx : N) (rc : list N) (e_rc : selentry).
  Hypothesis Hresv1 : 1 <= resv.
  Hypothesis Hresv2 : resv < 65536.
  Hypothesis Hrid : rid < 65536.
  Hypothesis Hnx : nx < 65536.
  Hypothesis Hlen : length rc = 16%nat.
  Hypothesis Hdec : sel_entry_decode rc = Ok e_rc.

  Definition ready (s : seldev) : Prop :=
    sd_valid s = true /\ sd_resv s = resv /\ lookup (sd_log s) rid = Some (rc, nx) /\
    limit_ok (sd_limit s).
  Definition is_get (x : request * reply) : Prop :=
    exists off ln, fst x = get_entry_req resv rid off ln.

  Lemma ready_quiet s s' : ready s -> quiet s s' -> ready s'.
  Proof.
    unfold ready, quiet. intros (?&?&?&?) (?&?&?&?&?&?). repeat split; congruence.
  Qed.

  Lemma inner_loop : forall fuel s maxlen acc,
    ready s ->
    acc = firstn (length acc) rc -> (length acc < 16)%nat ->
    ((maxlen = 0xff%Z /\ acc = []) \/
     (sd_limit s <> 0xff /\ (Z.of_N (sd_limit s) <= maxlen)%Z /\ (maxlen <= 16)%Z)) ->
    (Z.to_nat (if (maxlen =? 0xff)%Z then 18 else maxlen - Z.of_N (sd_limit s)) + (16 - length acc) + 1 <= fuel)%nat ->
    exists out s' t,
      exec (get_entry_loop fuel resv rid maxlen acc) sel_dev s = (out, s', t) /\ Forall is_get t /\
      ((out = Ok (e_rc, nx) /\ quiet s s' /\ acc ++ got t = rc) \/
       (out = Err (CCError 0xc5) /\ exists e, cancelled s s' e)).
  Proof.
    induction fuel as [|fuel IH]; intros s maxlen acc Hready Hacc Hk Hphase Hfuel; [lia|].
    cbn [get_entry_loop].
    set (off := len acc).
    set (ln := if negb (maxlen =? 255)%Z && (16 <? Z.of_N off + maxlen)%Z
               then (16 - Z.of_N off)%Z else maxlen).
    rewrite exec_send. unfold sel_dev at 1.
    assert (Hoff : off = N.of_nat (length acc)) by reflexivity.
    destruct (hd None (sd_plan s)) as [e|] eqn:Hhd.
    - (* the adversary appends e: reservation cancelled *)
      pose proof (adversary_cancel s e Hhd) as Hc.
      rewrite handle_get_cancelled; try assumption.
      + cbn [dec_get_entry N.eqb Pos.eqb CC_CANT_RET negb].
        unfold exec. cbn [run].
        eexists _, _, _. split; [reflexivity|]. split.
        * constructor; [|constructor]. exists off, ln. reflexivity.
        * right. split; [reflexivity|]. exists e. exact Hc.
      + destruct Hc as (_&_&Hv&_). exact Hv.
      + destruct Hc as (Hl&_). rewrite Hl. destruct (sd_log s); discriminate.
    - pose proof (adversary_quiet s Hhd) as Hq.
      pose proof (ready_quiet _ _ Hready Hq) as Hr1.
      set (s1 := adversary s) in *.
      destruct Hr1 as (Hv1 & Hres1 & Hl1 & Hlim1).
      assert (HL : sd_limit s1 = sd_limit s) by (destruct Hq as (_&?&_); assumption).
      destruct Hphase as [[Hm Ha]|(HnL & HL1 & HL2)].
      + (* first request: whole record *)
        subst maxlen acc. cbn in off. subst off. cbn in ln. subst ln.
        rewrite (handle_get s1 resv rid 0 255 rc nx) by (try assumption; lia).
        cbn zeta. change (Z.to_N 255 =? 255) with true. cbn match.
        destruct (N.eqb_spec (sd_limit s1) 255) as [HLw|HLp].
        * (* served *)
          change (16 <=? 0) with false. cbn match.
          rewrite dec_get_entry_ok by assumption.
          change (0 =? CC_CANT_RET) with false. cbn [negb N.eqb]. cbn match.
          assert (Hs : [] ++ slice rc 0 (16 - 0) = rc).
          { unfold slice. cbn. apply firstn_all2. lia. }
          rewrite Hs. unfold len. rewrite Hlen. change (16 <=? N.of_nat 16) with true. cbn match.
          rewrite Hdec. unfold exec. cbn [run].
          eexists _, _, _. split; [reflexivity|]. split.
          { constructor; [|constructor]. exists 0, 255%Z. reflexivity. }
          left. split; [reflexivity|]. split; [exact Hq|].
          unfold got. cbn [flat_map reply_data snd le_bytes app]. rewrite app_nil_r. exact Hs.
        * (* refused: continue with 16 *)
          cbn [dec_get_entry N.eqb Pos.eqb CC_CANT_RET negb].
          change (255 =? 255)%Z with true. cbn match.
          destruct (IH s1 16%Z []) as (out & s' & t & He & Ht & Hres).
          { repeat split; assumption. }
          { reflexivity. }
          { cbn. lia. }
          { right. rewrite HL in *. destruct Hlim1 as [[? ?]|?]; [|contradiction]. repeat split; lia. }
          { change (16 =? 255)%Z with false. cbn match. cbn [length]. rewrite HL.
            change (255 =? 255)%Z with true in Hfuel. cbn match in Hfuel. cbn [length] in Hfuel.
            destruct Hlim1 as [[? ?]|?]; [|contradiction]. lia. }
          rewrite He. eexists _, _, _. split; [reflexivity|]. split.
          { constructor; [|exact Ht]. exists 0, 255%Z. reflexivity. }
          destruct Hres as [(Ho & Hq2 & Hg)|[Ho [e Hc]]].
          { left. split; [exact Ho|]. split; [eapply quiet_trans; eassumption|]. exact Hg. }
          { right. split; [exact Ho|]. exists e. eapply quiet_cancelled; eassumption. }
      + (* partial reads *)
        assert (Hmx : (maxlen =? 255)%Z = false) by lia.
        assert (Hln : (ln = Z.min maxlen (16 - Z.of_N off) /\ 1 <= ln <= 16)%Z).
        { subst ln. rewrite Hmx. cbn [negb andb]. destruct Hlim1 as [[? ?]|?]; [|congruence].
          destruct (Z.ltb_spec 16 (Z.of_N off + maxlen)); lia. }
        destruct Hln as [Hln1 Hln2].
        rewrite (handle_get s1 resv rid off ln rc nx) by (try assumption; lia).
        cbn zeta.
        destruct (N.eqb_spec (Z.to_N ln) 255) as [?|_]; [lia|].
        rewrite HL. destruct (N.eqb_spec (sd_limit s) 255) as [?|_]; [contradiction|]. cbn [negb andb].
        destruct (N.ltb_spec (sd_limit s) (Z.to_N ln)) as [Hbig|Hfit].
        * (* refused: one byte less *)
          cbn [dec_get_entry N.eqb Pos.eqb CC_CANT_RET negb].
          rewrite Hmx.
          destruct (IH s1 (maxlen - 1)%Z acc) as (out & s' & t & He & Ht & Hres).
          { repeat split; assumption. }
          { exact Hacc. }
          { exact Hk. }
          { right. rewrite HL. repeat split; lia. }
          { rewrite HL. rewrite Hmx in Hfuel.
            destruct (Z.eqb_spec (maxlen - 1) 255); lia. }
          rewrite He. eexists _, _, _. split; [reflexivity|]. split.
          { constructor; [|exact Ht]. exists off, ln. reflexivity. }
          destruct Hres as [(Ho & Hq2 & Hg)|[Ho [e Hc]]].
          { left. split; [exact Ho|]. split; [eapply quiet_trans; eassumption|]. exact Hg. }
          { right. split; [exact Ho|]. exists e. eapply quiet_cancelled; eassumption. }
        * destruct (N.ltb_spec 16 (off + Z.to_N ln)) as [?|_]; [lia|].
          rewrite dec_get_entry_ok by assumption.
          change (0 =? CC_CANT_RET) with false. cbn [negb N.eqb]. cbn match.
          assert (Hs : acc ++ slice rc off (Z.to_N ln) = firstn (length acc + Z.to_nat ln) rc).
          { rewrite Hacc at 1. unfold slice. rewrite Hoff, Nat2N.id.
            replace (N.to_nat (Z.to_N ln)) with (Z.to_nat ln) by lia. apply firstn_add. }
          rewrite Hs.
          assert (Hl2 : length (firstn (length acc + Z.to_nat ln) rc) = (length acc + Z.to_nat ln)%nat).
          { rewrite firstn_length. lia. }
          unfold len at 1. rewrite Hl2.
          destruct (N.leb_spec 16 (N.of_nat (length acc + Z.to_nat ln))) as [Hdone|Hmore].
          { (* record complete *)
            replace (length acc + Z.to_nat ln)%nat with 16%nat by lia.
            rewrite firstn_all2 by lia. rewrite Hdec. unfold exec. cbn [run].
            eexists _, _, _. split; [reflexivity|]. split.
            { constructor; [|constructor]. exists off, ln. reflexivity. }
            left. split; [reflexivity|]. split; [exact Hq|].
            unfold got. cbn [flat_map reply_data snd le_bytes app]. rewrite app_nil_r.
            rewrite Hs. replace (length acc + Z.to_nat ln)%nat with 16%nat by lia. apply firstn_all2. lia. }
          { destruct (IH s1 maxlen (firstn (length acc + Z.to_nat ln) rc)) as (out & s' & t & He & Ht & Hres).
            { repeat split; assumption. }
            { rewrite Hl2. reflexivity. }
            { rewrite Hl2. lia. }
            { right. rewrite HL. repeat split; lia. }
            { rewrite Hl2, HL. rewrite Hmx in *. lia. }
            rewrite He. eexists _, _, _. split; [reflexivity|]. split.
            { constructor; [|exact Ht]. exists off, ln. reflexivity. }
            destruct Hres as [(Ho & Hq2 & Hg)|[Ho [e Hc]]].
            { left. split; [exact Ho|]. split; [eapply quiet_trans; eassumption|].
              unfold got in *. cbn [flat_map reply_data snd le_bytes app]. rewrite app_assoc, Hs. exact Hg. }
            { right. split; [exact Ho|]. exists e. eapply quiet_cancelled; eassumption. } }
  Qed.

  Lemma get_sel_entry_spec : forall fuel s, (40 <= fuel)%nat -> ready s ->
    exists out s' t,
      exec (get_sel_entry fuel rid resv) sel_dev s = (out, s', t) /\ Forall is_get t /\
      ((out = Ok (e_rc, nx) /\ quiet s s' /\ got t = rc) \/
       (out = Err (CCError 0xc5) /\ exists e, cancelled s s' e)).
  Proof.
    intros fuel s Hf Hr. unfold get_sel_entry. apply (inner_loop fuel s 255%Z []); try assumption.
    - reflexivity.
    - cbn. lia.
    - left. split; reflexivity.
    - cbn. lia.
  Qed.
End Inner.

(* ---------------------------------------------------------------------------
   sending one request *)
Lemma exec_lift {A S} (dev : device S) (x : res A) s : exec (lift x) dev s = (x, s, []).
Proof. destruct x; reflexivity. Qed.
Lemma exec_send_msg {A S} (dev : device S) r (dec : list N -> res A) s s1 d :
  dev s r = (s1, RBytes d) -> exec (send_msg r dec) dev s = (dec d, s1, [(r, RBytes d)]).
Proof.
  intros H. unfold send_msg. rewrite exec_send, H, exec_lift. reflexivity.
Qed.

Definition ids_ok (l : list (list N)) : Prop := Forall (fun r => rec_id r < 65536) l.
Definition entry_of (r : list N) : selentry :=
  match sel_entry_decode r with Ok e => e | Err _ => mkSelEntry r 0 0 0 0 0 0 0 0 0 [] end.
Lemma entry_of_ok r : rec_ok r -> sel_entry_decode r = Ok (entry_of r) /\ se_data (entry_of r) = r.
Proof.
  intros H. destruct (rec_ok_decode r H) as [e [H1 H2]]. unfold entry_of. rewrite H1. auto.
Qed.

Lemma lookup_nx_lt log : ids_ok log -> forall rid rc nx, lookup log rid = Some (rc, nx) -> nx < 65536.
Proof.
  induction 1 as [|r rest Hr Hrest IH]; intros rid rc nx Hl; [discriminate|].
  assert (Hn : next_of rest < 65536).
  { destruct rest as [|r' rest']; cbn; [lia|]. inversion Hrest; assumption. }
  cbn [lookup] in Hl.
  destruct (rid =? 0); [injection Hl as <- <-; exact Hn|].
  destruct (rid =? 0xffff).
  - destruct rest; [injection Hl as <- <-; lia | eapply IH; eassumption].
  - destruct (rec_id r =? rid); [injection Hl as <- <-; exact Hn | eapply IH; eassumption].
Qed.

Lemma lookup_mid : forall pre r post, rec_id r <> 0 -> rec_id r <> 0xffff ->
  ~ In (rec_id r) (map rec_id pre) ->
  lookup (pre ++ r :: post) (rec_id r) = Some (r, next_of post).
Proof.
  induction pre as [|x pre IH]; intros r post H0 Hf Hnin; cbn [app lookup].
  - destruct (N.eqb_spec (rec_id r) 0); [contradiction|].
    destruct (N.eqb_spec (rec_id r) 0xffff); [contradiction|].
    now rewrite N.eqb_refl.
  - destruct (N.eqb_spec (rec_id r) 0); [contradiction|].
    destruct (N.eqb_spec (rec_id r) 0xffff); [contradiction|].
    cbn in Hnin. destruct (N.eqb_spec (rec_id x) (rec_id r)); [tauto|].
    apply IH; tauto.
Qed.

Lemma lookup_app : forall log rid rc nx adds, rid <> 0xffff ->
  lookup log rid = Some (rc, nx) -> exists nx', lookup (log ++ adds) rid = Some (rc, nx').
Proof.
  induction log as [|r rest IH]; intros rid rc nx adds Hf Hl; [discriminate|].
  cbn [app lookup] in *.
  destruct (rid =? 0); [injection Hl as <- <-; eauto|].
  destruct (N.eqb_spec rid 0xffff); [contradiction|].
  destruct (rec_id r =? rid); [injection Hl as <- <-; eauto | eapply IH; eassumption].
Qed.

Lemma somes_nil_hd p : somes p = [] -> hd None p = None.
Proof. destruct p as [|[x|] p]; cbn; [reflexivity | discriminate | reflexivity]. Qed.

(* ---------------------------------------------------------------------------
   get_sel_entries without concurrent changes *)
Definition log_ok (log : list (list N)) : Prop :=
  Forall rec_ok log /\ ids_ok log /\ NoDup (map rec_id log) /\
  ~ In 0 (map rec_id log) /\ ~ In 0xffff (map rec_id log).

Lemma entries_loop_spec : forall post fuel s pre r next resv acc,
  sd_log s = pre ++ r :: post -> log_ok (sd_log s) ->
  sd_valid s = true -> sd_resv s = resv -> 1 <= resv -> resv < 65536 ->
  limit_ok (sd_limit s) -> somes (sd_plan s) = [] ->
  ((next = 0 /\ pre = []) \/ next = rec_id r) ->
  (length post < fuel)%nat ->
  exists s' t, exec (entries_loop fuel 40 resv next acc) sel_dev s
               = (Ok (acc ++ map entry_of (r :: post)), s', t) /\ quiet s s'.
Proof.
  induction post as [|r' post IH]; intros fuel s pre r next resv acc Hlog Hok Hv Hres Hr1 Hr2 Hlim Hpl Hnext Hfuel;
    (destruct fuel as [|fuel]; [lia|]); cbn [entries_loop].
  - (* last record *)
    destruct Hok as (Hrec & Hids & Hnd & Hn0 & Hnf).
    assert (Hrok : rec_ok r).
    { rewrite Hlog in Hrec. apply Forall_app in Hrec as [_ Hrec]. inversion Hrec; assumption. }
    destruct (entry_of_ok r Hrok) as [Hdec Hdat].
    assert (Hlk : lookup (sd_log s) next = Some (r, 0xffff)).
    { rewrite Hlog. destruct Hnext as [[-> ->]| ->]; [reflexivity|].
      apply (lookup_mid pre r []).
      - intros E. apply Hn0. rewrite Hlog, map_app. apply in_or_app. right. left. exact E.
      - intros E. apply Hnf. rewrite Hlog, map_app. apply in_or_app. right. left. exact E.
      - rewrite Hlog, map_app in Hnd. apply NoDup_remove_2 in Hnd. intros Hin. apply Hnd.
        apply in_or_app. left. exact Hin. }
    assert (Hnextlt : next < 65536).
    { destruct Hnext as [[-> _]| ->]; [lia|].
      rewrite Hlog in Hids. apply Forall_app in Hids as [_ Hids]. inversion Hids; assumption. }
    destruct (get_sel_entry_spec resv next 0xffff r (entry_of r) Hr1 Hr2 Hnextlt ltac:(lia)
                (proj1 Hrok) Hdec 40%nat s ltac:(lia)) as (out & s' & t & He & _ & Hres0).
    { repeat split; assumption. }
    destruct Hres0 as [(-> & Hq & _)|[_ [e Hc]]].
    + erewrite exec_bind_ok; [| exact He | cbn; reflexivity].
      eexists _, _. split; [reflexivity | exact Hq].
    + destruct Hc as (_&_&_&_&Hc). rewrite Hpl in Hc. discriminate.
  - destruct Hok as (Hrec & Hids & Hnd & Hn0 & Hnf).
    assert (Hrok : rec_ok r).
    { rewrite Hlog in Hrec. apply Forall_app in Hrec as [_ Hrec]. inversion Hrec; assumption. }
    destruct (entry_of_ok r Hrok) as [Hdec Hdat].
    assert (Hlk : lookup (sd_log s) next = Some (r, rec_id r')).
    { rewrite Hlog. destruct Hnext as [[-> ->]| ->]; [reflexivity|].
      apply (lookup_mid pre r (r' :: post)).
      - intros E. apply Hn0. rewrite Hlog, map_app. apply in_or_app. right. left. exact E.
      - intros E. apply Hnf. rewrite Hlog, map_app. apply in_or_app. right. left. exact E.
      - rewrite Hlog, map_app in Hnd. apply NoDup_remove_2 in Hnd. intros Hin. apply Hnd.
        apply in_or_app. left. exact Hin. }
    assert (Hnextlt : next < 65536).
    { destruct Hnext as [[-> _]| ->]; [lia|].
      rewrite Hlog in Hids. apply Forall_app in Hids as [_ Hids]. inversion Hids; assumption. }
    assert (Hid' : rec_id r' < 65536 /\ rec_id r' <> 0xffff).
    { split.
      - rewrite Hlog in Hids. apply Forall_app in Hids as [_ Hids]. inversion Hids as [|? ? _ H2]; subst.
        inversion H2; assumption.
      - intros E. apply Hnf. rewrite Hlog, map_app. apply in_or_app. right. right. left. exact E. }
    destruct Hid' as [Hid'1 Hid'2].
    destruct (get_sel_entry_spec resv next (rec_id r') r (entry_of r) Hr1 Hr2 Hnextlt Hid'1
                (proj1 Hrok) Hdec 40%nat s ltac:(lia)) as (out & s1 & t1 & He & _ & Hres0).
    { repeat split; assumption. }
    destruct Hres0 as [(-> & Hq & _)|[_ [e Hc]]].
    + destruct Hq as (Hq1 & Hq2 & Hq3 & Hq4 & Hq5 & Hq6).
      destruct (IH fuel s1 (pre ++ [r]) r' (rec_id r') resv (acc ++ [entry_of r])) as (s' & t' & He' & Hq').
      * rewrite Hq1, Hlog, <- app_assoc. reflexivity.
      * rewrite Hq1. repeat split; assumption.
      * congruence.
      * congruence.
      * assumption.
      * assumption.
      * congruence.
      * congruence.
      * right. reflexivity.
      * cbn in Hfuel. lia.
      * erewrite exec_bind_ok; [| exact He |].
        2:{ cbn match. destruct (N.eqb_spec (rec_id r') 0xffff); [contradiction|]. exact He'. }
        eexists _, _. split.
        { rewrite <- app_assoc. reflexivity. }
        eapply quiet_trans; [|exact Hq']. unfold quiet. auto 10.
    + destruct Hc as (_&_&_&_&Hc). rewrite Hpl in Hc. discriminate.
Qed.

Lemma sel_dev_quiet s r : somes (sd_plan s) = [] ->
  sel_dev s r = sel_handle (adversary s) r /\ quiet s (adversary s).
Proof.
  intros H. split; [reflexivity|]. apply adversary_quiet, somes_nil_hd, H.
Qed.

Lemma map_data_entry l : Forall rec_ok l -> map se_data (map entry_of l) = l.
Proof.
  induction 1 as [|r l Hr Hl IHl]; [reflexivity|].
  cbn. rewrite IHl. f_equal. apply entry_of_ok, Hr.
Qed.

Lemma entries_exact : forall s fuel,
  log_ok (sd_log s) -> limit_ok (sd_limit s) -> somes (sd_plan s) = [] ->
  (length (sd_log s) <= fuel)%nat -> N.of_nat (length (sd_log s)) < 65536 ->
  exists s' t, exec (get_sel_entries fuel 40) sel_dev s = (Ok (map entry_of (sd_log s)), s', t)
    /\ map se_data (map entry_of (sd_log s)) = sd_log s
    /\ sd_log s' = sd_log s /\ sd_deleted s' = sd_deleted s.
Proof.
  intros s fuel Hok Hlim Hpl Hfuel H64.
  assert (Hdata : map se_data (map entry_of (sd_log s)) = sd_log s).
  { apply map_data_entry. destruct Hok as (Hrec & _). exact Hrec. }
  unfold get_sel_entries, get_sel_entries_count.
  destruct (sel_dev_quiet s sel_info_req Hpl) as [Hd0 Hq0].
  set (s0 := adversary s) in *.
  rewrite handle_info in Hd0.
  pose proof (exec_send_msg sel_dev _ dec_sel_info _ _ _ Hd0) as Hinfo.
  assert (Hlog0 : sd_log s0 = sd_log s) by (destruct Hq0 as (?&_); assumption).
  rewrite Hlog0 in Hinfo. rewrite dec_sel_info_ok in Hinfo by lia.
  destruct (sd_log s) as [|r post] eqn:Hlog.
  - (* empty log *)
    erewrite exec_bind_ok; [| exact Hinfo | cbn; reflexivity].
    eexists _, _. split; [reflexivity|]. split; [reflexivity|].
    destruct Hq0 as (?&?&?&?&?&?). rewrite Hlog in *. split; congruence.
  - assert (Hpl0 : somes (sd_plan s0) = []) by (destruct Hq0 as (_&_&_&_&_&E); congruence).
    destruct (sel_dev_quiet s0 reserve_req Hpl0) as [Hd1 Hq1].
    set (s1 := adversary s0) in *.
    rewrite handle_reserve in Hd1.
    set (R := sd_resv s1 mod 65535 + 1) in *.
    assert (HR : 1 <= R /\ R < 65536) by (subst R; lia).
    pose proof (exec_send_msg sel_dev _ dec_id16 _ _ _ Hd1) as Hres.
    rewrite dec_id16_ok in Hres by lia.
    set (s2 := mkSelDev (sd_log s1) (sd_limit s1) R true (sd_plan s1) (sd_deleted s1)) in *.
    assert (Hlog2 : sd_log s2 = r :: post).
    { subst s2. cbn. destruct Hq1 as (E&_). rewrite E, Hlog0. reflexivity. }
    destruct (entries_loop_spec post fuel s2 [] r 0 R []) as (s' & t & He & Hq).
    + exact Hlog2.
    + rewrite Hlog2. exact Hok.
    + reflexivity.
    + reflexivity.
    + lia.
    + lia.
    + subst s2. cbn. destruct Hq1 as (_&E&_). destruct Hq0 as (_&E0&_). rewrite E, E0. exact Hlim.
    + subst s2. cbn. destruct Hq1 as (_&_&_&_&_&E). congruence.
    + left. split; reflexivity.
    + cbn in Hfuel. lia.
    + erewrite exec_bind_ok; [| exact Hinfo |].
      2:{ cbn [length]. destruct (N.eqb_spec (N.of_nat (S (length post))) 0); [lia|].
          erewrite exec_bind_ok; [| exact Hres | exact He]. reflexivity. }
      eexists _, _. split; [reflexivity|]. split; [exact Hdata|].
      destruct Hq as (E1&_&_&_&E5&_). rewrite E1, E5. subst s2. cbn.
      destruct Hq1 as (F1&_&_&_&F5&_). destruct Hq0 as (G1&_&_&_&G5&_). split; congruence.
Qed.

Lemma entries_empty : forall s fuel fi,
  sd_log s = [] -> somes (sd_plan s) = [] ->
  exists s', exec (get_sel_entries fuel fi) sel_dev s
             = (Ok [], s', [(sel_info_req, RBytes [0; 0x51; 0; 0; 0; 0; 0; 0; 0; 0; 0; 0; 0; 0; 0x0a])])
          /\ sd_log s' = [].
Proof.
  intros s fuel fi Hlog Hpl.
  unfold get_sel_entries, get_sel_entries_count.
  destruct (sel_dev_quiet s sel_info_req Hpl) as [Hd0 Hq0].
  rewrite handle_info in Hd0.
  assert (Hlog0 : sd_log (adversary s) = []) by (destruct Hq0 as (E&_); congruence).
  rewrite Hlog0 in Hd0.
  pose proof (exec_send_msg sel_dev _ dec_sel_info _ _ _ Hd0) as Hinfo.
  erewrite exec_bind_ok; [| exact Hinfo | cbn; reflexivity].
  eexists. split; [reflexivity | exact Hlog0].
Qed.

(* ---------------------------------------------------------------------------
   get_and_clear_sel_entry under an arbitrary finite adversary plan *)
Definition atomic_trace (rid : N) (rc : list N) (t : list (request * reply)) : Prop :=
  exists t0 R gets,
    t = t0 ++ (reserve_req, RBytes (0 :: le_bytes 2 R)) :: gets
           ++ [(delete_req R rid, RBytes (0 :: le_bytes 2 (rec_id rc)))]
    /\ Forall (is_get R rid) gets /\ got gets = rc.

Lemma atomic_trace_prefix rid rc p t : atomic_trace rid rc t -> atomic_trace rid rc (p ++ t).
Proof.
  intros (t0 & R & gets & -> & Hg). exists (p ++ t0), R, gets. split; [|exact Hg].
  now rewrite <- app_assoc.
Qed.

Lemma adversary_step s : exists adds,
  sd_log (adversary s) = sd_log s ++ adds /\ somes (sd_plan s) = adds ++ somes (sd_plan (adversary s))
  /\ sd_limit (adversary s) = sd_limit s /\ sd_deleted (adversary s) = sd_deleted s
  /\ sd_resv (adversary s) = sd_resv s.
Proof.
  destruct (hd None (sd_plan s)) as [e|] eqn:Hhd.
  - destruct (adversary_cancel s e Hhd) as (H1&H2&H3&H4&H5). exists [e]. repeat split; try assumption.
    unfold adversary. rewrite Hhd. reflexivity.
  - destruct (adversary_quiet s Hhd) as (H1&H2&H3&H4&H5&H6). exists []. rewrite app_nil_r. cbn. auto 10.
Qed.

Lemma lookup_in : forall log rid rc nx, lookup log rid = Some (rc, nx) -> In rc log.
Proof.
  induction log as [|r rest IH]; intros rid rc nx Hl; [discriminate|].
  cbn [lookup] in Hl.
  destruct (rid =? 0); [injection Hl as <- _; now left|].
  destruct (rid =? 0xffff).
  - destruct rest; [injection Hl as <- _; now left | right; eapply IH; eassumption].
  - destruct (rec_id r =? rid); [injection Hl as <- _; now left | right; eapply IH; eassumption].
Qed.

Lemma ids_ok_app a b : ids_ok (a ++ b) <-> ids_ok a /\ ids_ok b.
Proof. apply Forall_app. Qed.

Lemma gac_spec rid rc : rid < 65536 -> rid <> 0xffff -> rec_ok rc ->
  forall fuel s nx,
    lookup (sd_log s) rid = Some (rc, nx) -> limit_ok (sd_limit s) ->
    ids_ok (sd_log s) -> ids_ok (somes (sd_plan s)) ->
    (length (somes (sd_plan s)) < fuel)%nat ->
    exists s' t adds,
      exec (get_and_clear_sel_entry fuel 40 rid) sel_dev s = (Ok (entry_of rc), s', t)
      /\ sd_deleted s' = sd_deleted s ++ [rc]
      /\ sd_log s' = remove_rec (sd_log s ++ adds) rid
      /\ somes (sd_plan s) = adds ++ somes (sd_plan s')
      /\ atomic_trace rid rc t.
Proof.
  intros Hrid Hnf Hrok. destruct (entry_of_ok rc Hrok) as [Hdec _].
  induction fuel as [|fuel IH]; intros s nx Hlk Hlim Hids Hpids Hfuel; [lia|].
  (* restarting from a later state s_r whose log is the old one plus additions *)
  assert (Hrestart : forall s_r addsA tp,
             sd_log s_r = sd_log s ++ addsA -> somes (sd_plan s) = addsA ++ somes (sd_plan s_r) ->
             sd_limit s_r = sd_limit s -> sd_deleted s_r = sd_deleted s -> addsA <> [] ->
             exists s' t adds,
               exec (get_and_clear_sel_entry fuel 40 rid) sel_dev s_r = (Ok (entry_of rc), s', t)
               /\ sd_deleted s' = sd_deleted s ++ [rc]
               /\ sd_log s' = remove_rec (sd_log s ++ adds) rid
               /\ somes (sd_plan s) = adds ++ somes (sd_plan s')
               /\ atomic_trace rid rc (tp ++ t)).
  { intros s_r addsA tp HlogA HplA HlimA HdelA Hne.
    destruct (lookup_app _ _ _ _ addsA Hnf Hlk) as [nx' Hlk'].
    rewrite HplA in Hpids. apply ids_ok_app in Hpids as [HpA Hpr].
    destruct (IH s_r nx') as (s' & t & adds & He & Hd & Hl & Hp & Ht).
    - rewrite HlogA. exact Hlk'.
    - rewrite HlimA. exact Hlim.
    - rewrite HlogA. apply ids_ok_app. split; assumption.
    - exact Hpr.
    - rewrite HplA, app_length in Hfuel. destruct addsA; [contradiction|]. cbn in Hfuel. lia.
    - exists s', t, (addsA ++ adds). split; [exact He|]. split; [congruence|]. split.
      + rewrite Hl, HlogA, app_assoc. reflexivity.
      + split; [rewrite HplA, Hp, app_assoc; reflexivity | apply atomic_trace_prefix, Ht]. }
  cbn [get_and_clear_sel_entry].
  (* 1. reserve *)
  destruct (adversary_step s) as (adds0 & Hlog0 & Hpl0 & Hlim0 & Hdel0 & _).
  set (s0 := adversary s) in *.
  set (R := sd_resv s0 mod 65535 + 1).
  assert (HR : 1 <= R /\ R < 65536) by (subst R; lia).
  set (s1 := mkSelDev (sd_log s0) (sd_limit s0) R true (sd_plan s0) (sd_deleted s0)).
  assert (Hd1 : sel_dev s reserve_req = (s1, RBytes (0 :: le_bytes 2 R))) by reflexivity.
  pose proof (exec_send_msg sel_dev _ dec_id16 _ _ _ Hd1) as Hres.
  rewrite dec_id16_ok in Hres by lia.
  destruct (lookup_app _ _ _ _ adds0 Hnf Hlk) as [nx1 Hlk1]. rewrite <- Hlog0 in Hlk1.
  pose proof Hpids as Hpids'. rewrite Hpl0 in Hpids'. apply ids_ok_app in Hpids' as [Hp0 Hpr0].
  assert (Hids1 : ids_ok (sd_log s1)).
  { subst s1. cbn. rewrite Hlog0. apply ids_ok_app. split; assumption. }
  assert (Hnx1 : nx1 < 65536) by (eapply lookup_nx_lt; [exact Hids1 | exact Hlk1]).
  assert (Hrcid : rec_id rc < 65536).
  { unfold ids_ok in Hids1. rewrite Forall_forall in Hids1. apply Hids1. eapply lookup_in. exact Hlk1. }
  (* 2. read *)
  destruct (get_sel_entry_spec R rid nx1 rc (entry_of rc) (proj1 HR) (proj2 HR) Hrid Hnx1
              (proj1 Hrok) Hdec 40%nat s1 ltac:(lia)) as (out & s2 & t2 & Hget & Hgets & Hcase).
  { repeat split; try reflexivity; [exact Hlk1 | subst s1; cbn; rewrite Hlim0; exact Hlim]. }
  destruct Hcase as [(-> & Hq2 & Hgot)|[-> [e Hc2]]].
  - (* read complete *)
    pose proof (exec_on_cancel_ok _ _ _ _ _ _ Hget) as Hoc.
    destruct Hq2 as (Q1&Q2&Q3&Q4&Q5&Q6).
    subst s1. cbn [sd_log sd_limit sd_resv sd_valid sd_deleted sd_plan] in Q1, Q2, Q3, Q4, Q5, Q6.
    (* 3. delete *)
    destruct (hd None (sd_plan s2)) as [e|] eqn:Hhd.
    + (* cancelled before the delete: both steps are repeated *)
      destruct (adversary_cancel s2 e Hhd) as (C1&C2&C3&C4&C5).
      set (s3 := adversary s2) in *.
      assert (Hd3 : sel_dev s2 (delete_req R rid) = (s3, RBytes [0xc5])).
      { unfold sel_dev. fold s3. apply handle_delete_cancelled; [exact C3 | lia]. }
      pose proof (exec_send_msg sel_dev _ dec_id16 _ _ _ Hd3) as Hdel.
      change (dec_id16 [0xc5]) with (@Err N (CCError 0xc5)) in Hdel.
      pose proof (exec_on_cancel_c5 _ _ _ _ _ Hdel) as Hoc2.
      destruct (Hrestart s3 (adds0 ++ [e])
                  ((reserve_req, RBytes (0 :: le_bytes 2 R)) :: t2 ++ [(delete_req R rid, RBytes [0xc5])]))
        as (s' & t & adds & He & Hd & Hl & Hp & Ht).
      * rewrite C1, Q1, Hlog0, app_assoc. reflexivity.
      * rewrite Hpl0, <- Q6, C5, <- app_assoc. reflexivity.
      * congruence.
      * congruence.
      * destruct adds0; discriminate.
      * exists s', (((reserve_req, RBytes (0 :: le_bytes 2 R)) :: t2 ++ [(delete_req R rid, RBytes [0xc5])]) ++ t), adds.
        split; [|auto].
        erewrite exec_bind_ok; [| exact Hres |].
        2:{ erewrite exec_bind_ok; [| exact Hoc |].
            2:{ cbn match. erewrite exec_bind_ok; [| exact Hoc2 |]. 2:{ cbn match. exact He. }
                reflexivity. }
            reflexivity. }
        cbn [app]. rewrite <- !app_assoc. reflexivity.
    + (* deleted under the reservation of the read *)
      destruct (adversary_quiet s2 Hhd) as (D1&D2&D3&D4&D5&D6).
      set (s3 := adversary s2) in *.
      assert (Hd3 : sel_dev s2 (delete_req R rid) =
                    (mkSelDev (remove_rec (sd_log s3) rid) (sd_limit s3) (sd_resv s3) false (sd_plan s3)
                              (sd_deleted s3 ++ [rc]), RBytes (0 :: le_bytes 2 (rec_id rc)))).
      { unfold sel_dev. fold s3. apply (handle_delete s3 R rid rc nx1); try lia; try congruence. }
      pose proof (exec_send_msg sel_dev _ dec_id16 _ _ _ Hd3) as Hdel.
      rewrite dec_id16_ok in Hdel by exact Hrcid.
      pose proof (exec_on_cancel_ok _ _ _ _ _ _ Hdel) as Hoc2.
      eexists _, _, adds0. split.
      * erewrite exec_bind_ok; [| exact Hres |].
        2:{ erewrite exec_bind_ok; [| exact Hoc |].
            2:{ cbn match. erewrite exec_bind_ok; [| exact Hoc2 |]. 2:{ cbn match. reflexivity. }
                reflexivity. }
            reflexivity. }
        reflexivity.
      * cbn [sd_log sd_deleted sd_plan]. split; [congruence|]. split; [congruence|].
        split; [rewrite Hpl0; congruence|].
        exists [], R, t2. split; [|split; [exact Hgets | exact Hgot]]. cbn [app]. rewrite ?app_nil_r. reflexivity.
  - (* cancelled during the read: both steps are repeated *)
    pose proof (exec_on_cancel_c5 _ _ _ _ _ Hget) as Hoc.
    destruct Hc2 as (C1&C2&C3&C4&C5).
    subst s1. cbn [sd_log sd_limit sd_resv sd_valid sd_deleted sd_plan] in C1, C2, C4, C5.
    destruct (Hrestart s2 (adds0 ++ [e]) ((reserve_req, RBytes (0 :: le_bytes 2 R)) :: t2))
      as (s' & t & adds & He & Hd & Hl & Hp & Ht).
    + rewrite C1, Hlog0, app_assoc. reflexivity.
    + rewrite Hpl0, C5, <- app_assoc. reflexivity.
    + congruence.
    + congruence.
    + destruct adds0; discriminate.
    + exists s', (((reserve_req, RBytes (0 :: le_bytes 2 R)) :: t2) ++ t), adds. split; [|auto].
      erewrite exec_bind_ok; [| exact Hres |].
      2:{ erewrite exec_bind_ok; [| exact Hoc |]. 2:{ cbn match. exact He. } reflexivity. }
      cbn [app]. reflexivity.
Qed.

Lemma exec_eq {A S} (p : prog A) (dev : device S) s : run p dev s [] = exec p dev s.
Proof. reflexivity. Qed.

Lemma gac_atomic : forall rid rc s nx,
  rid < 65536 -> rid <> 0xffff -> rec_ok rc ->
  lookup (sd_log s) rid = Some (rc, nx) -> limit_ok (sd_limit s) ->
  ids_ok (sd_log s) -> ids_ok (somes (sd_plan s)) ->
  exists s' t adds,
    run (get_and_clear_sel_entry (S (length (somes (sd_plan s)))) 40 rid) sel_dev s []
      = (Ok (entry_of rc), s', t)
    /\ se_data (entry_of rc) = rc
    /\ sd_deleted s' = sd_deleted s ++ [rc]
    /\ sd_log s' = remove_rec (sd_log s ++ adds) rid
    /\ somes (sd_plan s) = adds ++ somes (sd_plan s')
    /\ atomic_trace rid rc t.
Proof.
  intros rid rc s nx H1 H2 H3 H4 H5 H6 H7.
  destruct (gac_spec rid rc H1 H2 H3 (S (length (somes (sd_plan s)))) s nx H4 H5 H6 H7 ltac:(lia))
    as (s' & t & adds & He & Hd & Hl & Hp & Ht).
  exists s', t, adds. split; [rewrite exec_eq; exact He|]. split; [exact (proj2 (entry_of_ok rc H3))|]. auto.
Qed.

Lemma entries_exact_run : forall s fuel,
  log_ok (sd_log s) -> limit_ok (sd_limit s) -> somes (sd_plan s) = [] ->
  (length (sd_log s) <= fuel)%nat -> N.of_nat (length (sd_log s)) < 65536 ->
  exists s' t, run (get_sel_entries fuel 40) sel_dev s [] = (Ok (map entry_of (sd_log s)), s', t)
    /\ map se_data (map entry_of (sd_log s)) = sd_log s
    /\ sd_log s' = sd_log s /\ sd_deleted s' = sd_deleted s.
Proof. intros s fuel. rewrite exec_eq. exact (entries_exact s fuel). Qed.

Lemma entries_empty_run : forall s fuel fi,
  sd_log s = [] -> somes (sd_plan s) = [] ->
  exists s', run (get_sel_entries fuel fi) sel_dev s []
             = (Ok [], s', [(sel_info_req, RBytes [0; 0x51; 0; 0; 0; 0; 0; 0; 0; 0; 0; 0; 0; 0; 0x0a])])
          /\ sd_log s' = [].
Proof. intros s fuel fi. rewrite exec_eq. exact (entries_empty s fuel fi). Qed.

(* ---------------------------------------------------------------------------
   the thin operations against the device (no concurrent change during the call) *)
Lemma exec_sleep {A S} (dev : device S) ms (k : prog A) s : exec (Sleep ms k) dev s = exec k dev s.
Proof. reflexivity. Qed.

Lemma count_exact : forall s, somes (sd_plan s) = [] -> N.of_nat (length (sd_log s)) < 65536 ->
  exists s' t, run get_sel_entries_count sel_dev s [] = (Ok (N.of_nat (length (sd_log s))), s', t)
    /\ length t = 1%nat /\ quiet s s'.
Proof.
  intros s Hpl H64. destruct (sel_dev_quiet s sel_info_req Hpl) as [Hd Hq].
  rewrite handle_info in Hd.
  pose proof (exec_send_msg sel_dev _ dec_sel_info _ _ _ Hd) as He.
  assert (Hl : sd_log (adversary s) = sd_log s) by (destruct Hq as (E&_); exact E).
  rewrite Hl in He. rewrite dec_sel_info_ok in He by exact H64.
  rewrite exec_eq. unfold get_sel_entries_count. rewrite He. eexists _, _. split; [reflexivity|]. split; [reflexivity | exact Hq].
Qed.

Lemma reserve_exact : forall s, somes (sd_plan s) = [] ->
  let R := sd_resv s mod 65535 + 1 in
  exists s', run get_sel_reservation_id sel_dev s [] = (Ok R, s', [(reserve_req, RBytes (0 :: le_bytes 2 R))])
    /\ 1 <= R < 65536 /\ sd_valid s' = true /\ sd_resv s' = R
    /\ sd_log s' = sd_log s /\ sd_deleted s' = sd_deleted s /\ sd_limit s' = sd_limit s.
Proof.
  intros s Hpl R. destruct (sel_dev_quiet s reserve_req Hpl) as [Hd Hq].
  rewrite handle_reserve in Hd. destruct Hq as (Q1&Q2&Q3&Q4&Q5&Q6).
  rewrite Q3 in Hd. fold R in Hd.
  pose proof (exec_send_msg sel_dev _ dec_id16 _ _ _ Hd) as He.
  assert (HR : 1 <= R < 65536) by (subst R; lia).
  rewrite dec_id16_ok in He by lia.
  rewrite exec_eq. unfold get_sel_reservation_id. rewrite He.
  eexists. split; [reflexivity|]. cbn. auto 10.
Qed.

Lemma delete_exact : forall s rid resv rc nx,
  somes (sd_plan s) = [] -> sd_valid s = true -> sd_resv s = resv -> resv < 65536 -> rid < 65536 ->
  lookup (sd_log s) rid = Some (rc, nx) -> rec_id rc < 65536 ->
  exists s', run (delete_sel_entry rid resv) sel_dev s []
             = (Ok (rec_id rc), s', [(delete_req resv rid, RBytes (0 :: le_bytes 2 (rec_id rc)))])
    /\ sd_log s' = remove_rec (sd_log s) rid /\ sd_deleted s' = sd_deleted s ++ [rc]
    /\ sd_valid s' = false.
Proof.
  intros s rid resv rc nx Hpl Hv Hr H1 H2 Hl Hid.
  destruct (sel_dev_quiet s (delete_req resv rid) Hpl) as [Hd Hq].
  destruct Hq as (Q1&Q2&Q3&Q4&Q5&Q6).
  rewrite (handle_delete (adversary s) resv rid rc nx) in Hd; try congruence; try assumption.
  pose proof (exec_send_msg sel_dev _ dec_id16 _ _ _ Hd) as He.
  rewrite dec_id16_ok in He by exact Hid.
  rewrite exec_eq. unfold delete_sel_entry. rewrite He.
  eexists. split; [reflexivity|]. cbn. rewrite Q1, Q5. auto.
Qed.

(* without the current reservation nothing is deleted *)
Lemma delete_refused : forall s rid resv,
  somes (sd_plan s) = [] -> resv < 65536 -> rid < 65536 ->
  (sd_valid s = false \/ resv <> sd_resv s) ->
  exists s', run (delete_sel_entry rid resv) sel_dev s []
             = (Err (CCError 0xc5), s', [(delete_req resv rid, RBytes [0xc5])])
    /\ quiet s s'.
Proof.
  intros s rid resv Hpl H1 H2 Hbad.
  destruct (sel_dev_quiet s (delete_req resv rid) Hpl) as [Hd Hq].
  assert (Hh : sel_handle (adversary s) (delete_req resv rid) = (adversary s, RBytes [0xc5])).
  { destruct Hq as (Q1&Q2&Q3&Q4&Q5&Q6).
    unfold sel_handle, delete_req. cbn [q_netfn q_cmd q_lun q_data le_bytes app].
    cbn [NETFN_STORAGE CMD_SEL_INFO CMD_RESERVE_SEL CMD_GET_SEL_ENTRY CMD_DELETE_SEL_ENTRY N.eqb Pos.eqb andb negb].
    replace (resv mod 256 + 256 * (resv / 256 mod 256)) with resv by lia.
    unfold resv_ok. rewrite Q4, Q3.
    destruct Hbad as [Hv|Hne]; [rewrite Hv; reflexivity|].
    destruct (N.eqb_spec resv (sd_resv s)); [contradiction|]. rewrite andb_false_r. reflexivity. }
  rewrite Hh in Hd.
  pose proof (exec_send_msg sel_dev _ dec_id16 _ _ _ Hd) as He.
  rewrite exec_eq. unfold delete_sel_entry. rewrite He. eexists. split; [reflexivity | exact Hq].
Qed.

Lemma get_entry_exact : forall s rid resv rc nx,
  somes (sd_plan s) = [] -> sd_valid s = true -> sd_resv s = resv -> 1 <= resv -> resv < 65536 ->
  rid < 65536 -> lookup (sd_log s) rid = Some (rc, nx) -> nx < 65536 -> rec_ok rc ->
  limit_ok (sd_limit s) ->
  exists s' t, run (get_sel_entry 40 rid resv) sel_dev s [] = (Ok (entry_of rc, nx), s', t)
    /\ se_data (entry_of rc) = rc /\ got t = rc /\ quiet s s'.
Proof.
  intros s rid resv rc nx Hpl Hv Hr H1 H2 H3 Hl Hnx Hrok Hlim.
  destruct (entry_of_ok rc Hrok) as [Hdec Hdat].
  destruct (get_sel_entry_spec resv rid nx rc (entry_of rc) H1 H2 H3 Hnx (proj1 Hrok) Hdec 40%nat s ltac:(lia))
    as (out & s' & t & He & _ & Hcase).
  { repeat split; assumption. }
  destruct Hcase as [(-> & Hq & Hg)|[_ [e Hc]]].
  - rewrite exec_eq, He. eexists _, _. split; [reflexivity|]. auto.
  - destruct Hc as (_&_&_&_&Hc). rewrite Hpl in Hc. discriminate.
Qed.

(* clear_sel: the whole log is erased, nothing else changes; Reserve, Clear 0xAA, Clear 0x00 *)
Local Opaque N.mul N.add N.modulo N.div N.ltb N.leb.
Lemma handle_clear s resv cmd :
  sd_valid s = true -> sd_resv s = resv -> resv < 65536 -> (cmd = 0xaa \/ cmd = 0) ->
  sel_handle s (clear_req resv cmd) =
  (if cmd =? 0xaa then mkSelDev [] (sd_limit s) (sd_resv s) true (sd_plan s) (sd_deleted s) else s,
   RBytes [0; 1]).
Proof.
  intros Hv Hr H1 Hc.
  unfold sel_handle, clear_req. cbn [q_netfn q_cmd q_lun q_data le_bytes app].
  cbn [NETFN_STORAGE CMD_SEL_INFO CMD_RESERVE_SEL CMD_GET_SEL_ENTRY CMD_DELETE_SEL_ENTRY CMD_CLEAR_SEL N.eqb Pos.eqb andb negb].
  replace (resv mod 256 + 256 * (resv / 256 mod 256)) with resv by lia.
  unfold resv_ok. rewrite Hv, Hr, N.eqb_refl. cbn [andb negb].
  destruct Hc as [-> | ->]; reflexivity.
Qed.
Local Transparent N.mul N.add N.modulo N.div N.ltb N.leb.

Lemma clear_sel_exact : forall s retry, somes (sd_plan s) = [] -> (2 <= retry)%nat ->
  exists s' t, run (clear_sel retry) sel_dev s [] = (Ok tt, s', t)
    /\ sd_log s' = [] /\ sd_deleted s' = sd_deleted s /\ sd_limit s' = sd_limit s
    /\ exists R, t = [(reserve_req, RBytes (0 :: le_bytes 2 R)); (clear_req R 0xaa, RBytes [0; 1]);
                      (clear_req R 0, RBytes [0; 1])].
Proof.
  intros s retry Hpl Hretry.
  destruct retry as [|[|n]]; try lia. cbn [pred].
  destruct (reserve_exact s Hpl) as (s1 & He1 & HR & Hv1 & Hr1 & Hl1 & Hd1 & Hlim1).
  set (R := sd_resv s mod 65535 + 1) in *.
  rewrite exec_eq in He1.
  (* the plan stays quiet *)
  assert (Hpl1 : somes (sd_plan s1) = []).
  { unfold exec, get_sel_reservation_id, send_msg in He1. cbn [run] in He1.
    destruct (sel_dev_quiet s reserve_req Hpl) as [Hd Hq]. rewrite Hd, handle_reserve in He1.
    cbn in He1. injection He1 as _ <- . cbn. destruct Hq as (_&_&_&_&_&E). congruence. }
  (* initiate erase *)
  destruct (sel_dev_quiet s1 (clear_req R 0xaa) Hpl1) as [Hd2 Hq2].
  destruct Hq2 as (A1&A2&A3&A4&A5&A6).
  rewrite (handle_clear (adversary s1) R 0xaa) in Hd2 by (try congruence; try lia; auto).
  change (0xaa =? 0xaa) with true in Hd2. cbn match in Hd2.
  set (s2 := mkSelDev [] (sd_limit (adversary s1)) (sd_resv (adversary s1)) true (sd_plan (adversary s1))
                      (sd_deleted (adversary s1))) in *.
  assert (Hpl2 : somes (sd_plan s2) = []) by (subst s2; cbn; congruence).
  assert (He2 : exec (clear_repository (S n) 0xaa R) sel_dev s1 = (Ok R, s2, [(clear_req R 0xaa, RBytes [0; 1])])).
  { cbn [clear_repository]. rewrite exec_send, Hd2. reflexivity. }
  (* poll *)
  destruct (sel_dev_quiet s2 (clear_req R 0) Hpl2) as [Hd3 Hq3].
  destruct Hq3 as (B1&B2&B3&B4&B5&B6).
  rewrite (handle_clear (adversary s2) R 0) in Hd3
    by (try (subst s2; cbn in *; congruence); try lia; auto).
  change (0 =? 0xaa) with false in Hd3. cbn match in Hd3.
  assert (He3 : exec (clear_repository (S n) 0 R) sel_dev s2 = (Ok R, adversary s2, [(clear_req R 0, RBytes [0; 1])])).
  { cbn [clear_repository]. rewrite exec_send, Hd3. reflexivity. }
  exists (adversary s2), [(reserve_req, RBytes (0 :: le_bytes 2 R)); (clear_req R 0xaa, RBytes [0; 1]);
                          (clear_req R 0, RBytes [0; 1])].
  split.
  - rewrite exec_eq. unfold clear_sel.
    erewrite exec_bind_ok; [| exact He1 |].
    2:{ erewrite exec_bind_ok; [| exact He2 |].
        2:{ rewrite exec_sleep. erewrite exec_bind_ok; [| exact He3 | reflexivity]. reflexivity. }
        reflexivity. }
    reflexivity.
  - split; [rewrite B1; reflexivity|]. split; [rewrite B5; subst s2; cbn; congruence|].
    split; [rewrite B2; subst s2; cbn; congruence|]. exists R. reflexivity.
Qed.
