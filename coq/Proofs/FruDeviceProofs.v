(* C15 x C10: a well-formed image stored in a FRU device reads back, through the
   transfer loops of Model/FruIO.v and the real area parsers, as the encoded inventory -
   exactly what parse_inventory gives on the image. *)
From Coq Require Import String.
From Coq Require Import NArith List Lia ZArith ZifyN ZifyBool ZifyNat Bool.
From PyIpmi Require Import Lib.Res Lib.Bytes Lib.Prog Model.FruIO Proofs.FruIOProofs
  Model.FruParse Model.FruSpec Model.FruDevice Proofs.FruParseProofs Proofs.FruEncBytesProofs.
Import ListNotations.
Open Scope N_scope.
Ltac Zify.zify_post_hook ::= Z.to_euclidean_division_equations.

(* ---- run: the starting trace is only a prefix ---- *)
Lemma run_shift {A S} (p : prog A) (dev : device S) : forall s tr0,
  run p dev s tr0 = let '(r, s', t) := run p dev s [] in (r, s', tr0 ++ t).
Proof.
  induction p as [a|e|r k IH|ms k IH]; intros s tr0; cbn [run].
  - now rewrite app_nil_r.
  - now rewrite app_nil_r.
  - destruct (dev s r) as [s' rp]. rewrite (IH rp s' (tr0 ++ [(r, rp)])), (IH rp s' ([] ++ [(r, rp)])).
    destruct (run (k rp) dev s' []) as [[r0 s0] t0]. cbn [app]. now rewrite <- app_assoc.
  - apply IH.
Qed.

(* p, run against the FRU device in state s, returns v and leaves the state as it was *)
Definition runs_to {A} (p : prog A) (s : frudev) (v : A) : Prop :=
  forall tr0, exists tr, run p fru_dev s tr0 = (Ok v, s, tr).

Lemma runs_to_of_nil {A} (p : prog A) s v tr :
  run p fru_dev s [] = (Ok v, s, tr) -> runs_to p s v.
Proof. intros H tr0. rewrite run_shift, H. eauto. Qed.

Lemma runs_to_bind {A B} (p : prog A) (f : A -> prog B) s a b :
  runs_to p s a -> runs_to (f a) s b -> runs_to (pbind p f) s b.
Proof.
  intros Hp Hf tr0. destruct (Hp tr0) as [tr1 H1]. rewrite (run_bind_ok _ _ _ _ _ _ _ _ H1). apply Hf.
Qed.

Lemma runs_to_ret {A} (v : A) s : runs_to (Ret v) s v.
Proof. intros tr0. cbn. eauto. Qed.

(* ---- slices of a concatenation ---- *)
Lemma slice_mid (P X Q : list N) : slice (P ++ X ++ Q) (len P) (len X) = X.
Proof.
  unfold slice, len. rewrite !Nat2N.id, skipn_app_len. apply firstn_app_len.
Qed.
Lemma slice_mid_prefix (P X Q : list N) n : (n <= length X)%nat ->
  slice (P ++ X ++ Q) (len P) (N.of_nat n) = firstn n X.
Proof.
  intros H. unfold slice, len. rewrite !Nat2N.id, skipn_app_len.
  rewrite firstn_app. replace (n - length X)%nat with 0%nat by lia. cbn. apply app_nil_r.
Qed.
Lemma len_app (a b : list N) : len (a ++ b) = len a + len b.
Proof. unfold len. rewrite app_length. lia. Qed.

Lemma enc_rec_head last r :
  firstn 5 (enc_rec last r) =
  [sr_type r; (if last then 128 else 0) + 2; N.of_nat (length (sr_payload r)); zero_sum_byte (sr_payload r);
   zero_sum_byte [sr_type r; (if last then 128 else 0) + 2; N.of_nat (length (sr_payload r));
                  zero_sum_byte (sr_payload r)]].
Proof. reflexivity. Qed.

Section Dev.
  Variables (s : frudev) (id : N).
  Hypothesis Hid : id < 256.
  Hypothesis HL : 2 <= fd_limit s.
  Hypothesis Hrej : is_backoff_cc (fd_rej s) = true.
  Hypothesis H64 : len (fd_mem s id) <= 65535.

  Lemma read_mid P X Q : fd_mem s id = P ++ X ++ Q ->
    runs_to (read_fru_data (Some (len P, len X)) id) s X.
  Proof.
    intros Hm. destruct (read_range_exact s id (len P) (len X) Hid HL Hrej) as (tr & H & _).
    - rewrite Hm, !len_app. lia.
    - rewrite Hm, !len_app in H64. lia.
    - rewrite Hm, slice_mid in H. eapply runs_to_of_nil; eassumption.
  Qed.

  Lemma read_mid_prefix P X Q n : fd_mem s id = P ++ X ++ Q -> (n <= length X)%nat ->
    runs_to (read_fru_data (Some (len P, N.of_nat n)) id) s (firstn n X).
  Proof.
    intros Hm Hn. destruct (read_range_exact s id (len P) (N.of_nat n) Hid HL Hrej) as (tr & H & _).
    - rewrite Hm, !len_app. unfold len. lia.
    - rewrite Hm, !len_app in H64. unfold len in *. lia.
    - rewrite Hm, slice_mid_prefix in H by assumption. eapply runs_to_of_nil; eassumption.
  Qed.

  (* ---- the common header ---- *)
  Lemma header_dev hdr Q h : fd_mem s id = hdr ++ Q -> length hdr = 8%nat ->
    common_header hdr = Ok h -> runs_to (get_fru_inventory_header id) s h.
  Proof.
    intros Hm Hl Hh. unfold get_fru_inventory_header.
    eapply runs_to_bind.
    - change (Some (0, 8)) with (Some (len (@nil N), N.of_nat 8)).
      apply (read_mid_prefix [] hdr Q 8); [exact Hm | lia].
    - rewrite <- Hl, firstn_all, Hh. apply runs_to_ret.
  Qed.

  (* ---- one info area ---- *)
  Lemma info_area_dev kind dated nf a P Q h :
    (kind = 1 /\ dated = false /\ nf = 2%nat) \/ (kind = 2 /\ dated = true /\ nf = 5%nat) \/
    (kind = 3 /\ dated = false /\ nf = 7%nat) ->
    wf_area dated nf a = true -> fd_mem s id = P ++ enc_area dated a ++ Q ->
    runs_to (get_fru_inventory_header id) s h -> sel4 kind h = Some (len P) ->
    runs_to (get_fru_info_area area_parser kind id) s (enc_area dated a).
  Proof.
    intros Hk Hwf Hm Hh Hsel. unfold get_fru_info_area.
    eapply runs_to_bind; [exact Hh|]. rewrite Hsel.
    pose proof (enc_area_length dated a) as HlenA. pose proof (area_blocks_fit dated a) as [Hfit _].
    assert (Hnth : nth 1 (firstn 5 (enc_area dated a)) 0 * 8 = len (enc_area dated a)).
    { unfold len. rewrite HlenA. unfold enc_area. cbn [app firstn nth]. lia. }
    eapply runs_to_bind.
    - unfold read_fru_area. cbn [rng_of]. eapply runs_to_bind.
      + change 5 with (N.of_nat 5). apply (read_mid_prefix P _ Q 5 Hm). rewrite HlenA. lia.
      + rewrite Hnth. apply (read_mid P _ Q Hm).
    - unfold FruIO.parse_area. destruct (enc_area dated a) eqn:E; [unfold enc_area in E; discriminate|].
      cbv beta iota. rewrite <- E.
      assert (Hp : area_parser kind (enc_area dated a) = Ok tt).
      { pose proof (area_obj_enc dated nf a [] Hwf) as Ho. rewrite app_nil_r in Ho.
        unfold area_parser.
        destruct Hk as [(-> & -> & ->) | [(-> & -> & ->) | (-> & -> & ->)]]; cbn [N.eqb Pos.eqb]; now rewrite Ho. }
      rewrite Hp. cbn [lift pbind]. apply runs_to_ret.
  Qed.

  (* ---- the multi-record area ---- *)
  Lemma mr_scan_dev rs : rs <> [] -> forall fuel P Q count,
    (length rs <= fuel)%nat -> fd_mem s id = P ++ enc_recs rs ++ Q ->
    runs_to (mr_scan fuel id (len P) count) s (count + len (enc_recs rs)).
  Proof.
    induction rs as [|r rs' IH]; intros Hne fuel P Q count Hfuel Hm; [congruence|].
    destruct fuel as [|k]; [cbn in Hfuel; lia|]. cbn [mr_scan].
    destruct rs' as [|r' rs''].
    - cbn [enc_recs] in *. eapply runs_to_bind.
      + change 5 with (N.of_nat 5). apply (read_mid_prefix P _ Q 5 Hm). rewrite enc_rec_length. lia.
      + rewrite enc_rec_head. cbn [nth].
        replace (N.testbit (128 + 2) 7) with true by reflexivity.
        unfold len. rewrite enc_rec_length.
        replace (count + N.of_nat (length (sr_payload r)) + 5) with (count + N.of_nat (5 + length (sr_payload r))) by lia.
        apply runs_to_ret.
    - change (enc_recs (r :: r' :: rs'')) with (enc_rec false r ++ enc_recs (r' :: rs'')) in *.
      rewrite <- app_assoc in Hm.
      eapply runs_to_bind.
      + change 5 with (N.of_nat 5). apply (read_mid_prefix P _ _ 5 Hm). rewrite enc_rec_length. lia.
      + rewrite enc_rec_head. cbn [nth].
        replace (N.testbit (0 + 2) 7) with false by reflexivity.
        specialize (IH ltac:(discriminate) k (P ++ enc_rec false r) Q
                       (count + N.of_nat (length (sr_payload r)) + 5)).
        rewrite len_app in IH. unfold len in IH at 2. rewrite enc_rec_length in IH.
        replace (len P + N.of_nat (length (sr_payload r)) + 5)
          with (len P + N.of_nat (5 + length (sr_payload r))) by lia.
        rewrite len_app. unfold len at 2. rewrite enc_rec_length.
        replace (count + (N.of_nat (5 + length (sr_payload r)) + len (enc_recs (r' :: rs''))))
          with (count + N.of_nat (length (sr_payload r)) + 5 + len (enc_recs (r' :: rs''))) by lia.
        apply IH; [cbn [length] in *; lia | rewrite <- app_assoc; exact Hm].
  Qed.

  Lemma multi_dev rs fuel P Q h : rs <> [] -> forallb wf_rec rs = true -> (length rs <= fuel)%nat ->
    fd_mem s id = P ++ enc_recs rs ++ Q ->
    runs_to (get_fru_inventory_header id) s h -> sel4 4 h = Some (len P) ->
    runs_to (get_fru_multirecord_area area_parser fuel id) s (enc_recs rs).
  Proof.
    intros Hne Hwf Hfuel Hm Hh Hsel. unfold get_fru_multirecord_area.
    eapply runs_to_bind; [exact Hh|]. rewrite Hsel.
    eapply runs_to_bind; [apply (mr_scan_dev rs Hne fuel P Q 0 Hfuel Hm)|].
    rewrite N.add_0_l.
    eapply runs_to_bind; [apply (read_mid P _ Q Hm)|].
    unfold FruIO.parse_area. destruct (enc_recs rs) eqn:E; [now apply enc_recs_nonempty in E|].
    cbv beta iota. rewrite <- E.
    assert (Hp : area_parser 4 (enc_recs rs) = Ok tt).
    { unfold area_parser. cbn [N.eqb Pos.eqb]. now rewrite multi_obj_enc. }
    rewrite Hp. cbn [lift pbind]. apply runs_to_ret.
  Qed.
End Dev.

(* ---- layout of an encoded image, in the terms of FruIO.common_header ---- *)
Lemma off_or_none_byte present n : Nat.modulo n 8 = 0%nat -> (8 <= n)%nat ->
  off_or_none (off_byte present n) = if present then Some (N.of_nat n) else None.
Proof.
  intros Hm Hn. unfold off_or_none, off_byte. destruct present; [|reflexivity].
  replace (N.of_nat (Nat.div n 8) =? 0) with false by lia. f_equal. lia.
Qed.

Lemma enc_inventory_layout s0 : wf_inv s0 = true ->
  let int := s_internal s0 in
  let ch := enc_opt_area false (s_chassis s0) in
  let bd := enc_opt_area true (s_board s0) in
  let pr := enc_opt_area false (s_product s0) in
  let mr := enc_recs (s_multi s0) in
  exists hdr,
    enc_inventory s0 = hdr ++ int ++ ch ++ bd ++ pr ++ mr /\ length hdr = 8%nat /\
    common_header hdr =
      Ok (if is_some (s_chassis s0) then Some (len (hdr ++ int)) else None,
          if is_some (s_board s0) then Some (len ((hdr ++ int) ++ ch)) else None,
          if is_some (s_product s0) then Some (len (((hdr ++ int) ++ ch) ++ bd)) else None,
          if nonempty (s_multi s0) then Some (len ((((hdr ++ int) ++ ch) ++ bd) ++ pr)) else None).
Proof.
  intros H. cbv zeta.
  set (int := s_internal s0). set (ch := enc_opt_area false (s_chassis s0)).
  set (bd := enc_opt_area true (s_board s0)). set (pr := enc_opt_area false (s_product s0)).
  set (mr := enc_recs (s_multi s0)).
  unfold wf_inv, wf_inv_gen in H.
  apply andb_prop in H as [H _]. apply andb_prop in H as [H _]. apply andb_prop in H as [H _].
  apply andb_prop in H as [H _]. apply andb_prop in H as [H _]. apply andb_prop in H as [_ Hint].
  apply Nat.eqb_eq in Hint. fold int in Hint.
  pose proof (enc_opt_area_length false (s_chassis s0)) as Lch. fold ch in Lch.
  pose proof (enc_opt_area_length true (s_board s0)) as Lbd. fold bd in Lbd.
  pose proof (enc_opt_area_length false (s_product s0)) as Lpr. fold pr in Lpr.
  unfold enc_inventory. fold int ch bd pr mr.
  set (n1 := (8 + length int)%nat). set (n2 := (n1 + length ch)%nat).
  set (n3 := (n2 + length bd)%nat). set (n4 := (n3 + length pr)%nat).
  set (h := [1; off_byte (nonempty int) 8; off_byte (is_some (s_chassis s0)) n1;
             off_byte (is_some (s_board s0)) n2; off_byte (is_some (s_product s0)) n3;
             off_byte (nonempty mr) n4; 0]).
  exists (h ++ [zero_sum_byte h]). split; [now rewrite <- app_assoc|]. split; [reflexivity|].
  pose proof (sum256_zero_sum h) as Hs. unfold sum256 in Hs.
  unfold common_header. unfold h at 1. cbn [app]. fold h.
  change [1; off_byte (nonempty int) 8; off_byte (is_some (s_chassis s0)) n1;
          off_byte (is_some (s_board s0)) n2; off_byte (is_some (s_product s0)) n3;
          off_byte (nonempty mr) n4; 0; zero_sum_byte h] with (h ++ [zero_sum_byte h]).
  rewrite Hs. cbn [N.eqb].
  rewrite !off_or_none_byte by (subst n1 n2 n3 n4; lia).
  unfold mr. rewrite nonempty_enc_recs.
  unfold len. rewrite !app_length. cbn [length].
  replace (7 + 1 + length int)%nat with n1 by (subst n1; lia).
  fold n2 n3 n4. reflexivity.
Qed.

Section Whole.
  Variables (s : frudev) (id : N).
  Hypothesis Hid : id < 256.
  Hypothesis HL : 2 <= fd_limit s.
  Hypothesis Hrej : is_backoff_cc (fd_rej s) = true.
  Hypothesis H64 : len (fd_mem s id) <= 65535.

  Lemma opt_info_dev kind dated nf (o : option sarea) P Q h :
    (kind = 1 /\ dated = false /\ nf = 2%nat) \/ (kind = 2 /\ dated = true /\ nf = 5%nat) \/
    (kind = 3 /\ dated = false /\ nf = 7%nat) ->
    wf_opt_area dated nf o = true -> fd_mem s id = P ++ enc_opt_area dated o ++ Q ->
    runs_to (get_fru_inventory_header id) s h ->
    sel4 kind h = (if is_some o then Some (len P) else None) ->
    runs_to (opt_area (sel4 kind h) (get_fru_info_area area_parser kind id)) s
            (option_map (enc_area dated) o).
  Proof.
    intros Hk Hwf Hm Hh Hsel. rewrite Hsel. destruct o as [a|]; cbn [is_some opt_area option_map].
    - eapply runs_to_bind; [|apply runs_to_ret].
      eapply (info_area_dev s id Hid HL Hrej H64 kind dated nf a P Q h); eassumption.
    - apply runs_to_ret.
  Qed.

  Lemma device_reads_encoded s0 tail fuel :
    wf_inv s0 = true -> fd_mem s id = enc_inventory s0 ++ tail ->
    (length (s_multi s0) <= fuel)%nat ->
    exists tr,
      run (device_inventory fuel id) fru_dev s [] = (Ok (areas_of (view_inventory s0)), s, tr) /\
      Forall (fun x => req_fru_id (fst x) = Some id) tr /\
      parse_inventory (fd_mem s id) = Ok (Some (view_inventory s0)).
  Proof.
    intros Hwf Hm Hfuel.
    assert (Hparse : parse_inventory (fd_mem s id) = Ok (Some (view_inventory s0)))
      by (rewrite Hm; now apply parse_enc_tail).
    destruct (enc_inventory_layout s0 Hwf) as (hdr & Henc & Lhdr & Hch).
    cbv zeta in Henc, Hch.
    set (int := s_internal s0) in *. set (ch := enc_opt_area false (s_chassis s0)) in *.
    set (bd := enc_opt_area true (s_board s0)) in *. set (pr := enc_opt_area false (s_product s0)) in *.
    set (mr := enc_recs (s_multi s0)) in *.
    unfold wf_inv, wf_inv_gen in Hwf.
    apply andb_prop in Hwf as [H _]. apply andb_prop in H as [H Wmr]. apply andb_prop in H as [H Wpr].
    apply andb_prop in H as [H Wbd]. apply andb_prop in H as [_ Wch].
    rewrite Henc in Hm.
    set (h4 := (if is_some (s_chassis s0) then Some (len (hdr ++ int)) else None,
                if is_some (s_board s0) then Some (len ((hdr ++ int) ++ ch)) else None,
                if is_some (s_product s0) then Some (len (((hdr ++ int) ++ ch) ++ bd)) else None,
                if nonempty (s_multi s0) then Some (len ((((hdr ++ int) ++ ch) ++ bd) ++ pr)) else None)) in *.
    assert (Hh : runs_to (get_fru_inventory_header id) s h4).
    { eapply (header_dev s id Hid HL Hrej H64 hdr); [|exact Lhdr | exact Hch].
      rewrite Hm, <- app_assoc. reflexivity. }
    assert (R : runs_to (get_fru_inventory area_parser fuel id) s
                  [option_map (enc_area false) (s_chassis s0); option_map (enc_area true) (s_board s0);
                   option_map (enc_area false) (s_product s0);
                   if nonempty (s_multi s0) then Some mr else None]).
    { unfold get_fru_inventory. eapply runs_to_bind; [exact Hh|].
      eapply runs_to_bind.
      { eapply (opt_info_dev 1 false 2%nat (s_chassis s0) (hdr ++ int)); [tauto | exact Wch | | exact Hh | reflexivity].
        rewrite Hm. fold ch. now rewrite <- !app_assoc. }
      eapply runs_to_bind.
      { eapply (opt_info_dev 2 true 5%nat (s_board s0) ((hdr ++ int) ++ ch)); [tauto | exact Wbd | | exact Hh | reflexivity].
        rewrite Hm. fold bd. now rewrite <- !app_assoc. }
      eapply runs_to_bind.
      { eapply (opt_info_dev 3 false 7%nat (s_product s0) (((hdr ++ int) ++ ch) ++ bd)); [tauto | exact Wpr | | exact Hh | reflexivity].
        rewrite Hm. fold pr. now rewrite <- !app_assoc. }
      eapply runs_to_bind; [|apply runs_to_ret].
      change (sel4 4 h4) with (if nonempty (s_multi s0) then Some (len ((((hdr ++ int) ++ ch) ++ bd) ++ pr)) else None).
      destruct (s_multi s0) as [|r rs'] eqn:Emr; cbn [nonempty opt_area]; [apply runs_to_ret|].
      eapply runs_to_bind; [|apply runs_to_ret].
      eapply (multi_dev s id Hid HL Hrej H64 (r :: rs') fuel ((((hdr ++ int) ++ ch) ++ bd) ++ pr) tail h4);
        [discriminate | exact Wmr | exact Hfuel | | exact Hh | ].
      - rewrite Hm. unfold mr. now rewrite <- !app_assoc.
      - unfold h4. cbn [sel4 N.eqb Pos.eqb]. try rewrite Emr. reflexivity. }
    assert (B : build_inventory
                  [option_map (enc_area false) (s_chassis s0); option_map (enc_area true) (s_board s0);
                   option_map (enc_area false) (s_product s0);
                   if nonempty (s_multi s0) then Some mr else None] = Ok (areas_of (view_inventory s0))).
    { unfold build_inventory, areas_of, view_inventory. cbn [i_chassis i_board i_product i_multi].
      assert (A : forall dated nf o, wf_opt_area dated nf o = true ->
                  opt_area_obj dated nf (option_map (enc_area dated) o) = Ok (view_opt_area dated o)).
      { intros dated nf [a|] Hw; cbn; [|reflexivity].
        pose proof (area_obj_enc dated nf a [] Hw) as Ho. now rewrite app_nil_r in Ho. }
      rewrite !A by assumption. cbn [bind].
      unfold mr, view_multi. destruct (s_multi s0) as [|r rs'] eqn:Emr; cbn [nonempty opt_multi_obj bind]; [reflexivity|].
      rewrite multi_obj_enc by (discriminate || assumption). reflexivity. }
    assert (Rd : runs_to (device_inventory fuel id) s (areas_of (view_inventory s0))).
    { unfold device_inventory. eapply runs_to_bind; [exact R|]. rewrite B. apply runs_to_ret. }
    destruct (Rd []) as [tr Htr]. exists tr. split; [exact Htr|]. split; [|exact Hparse].
    pose proof (all_req_run (names id) (device_inventory fuel id) fru_dev) as Hf.
    specialize (Hf ltac:(unfold device_inventory; apply all_req_bind;
                         [apply all_req_inventory; assumption | intros; apply all_req_lift]) s [] (Forall_nil _)).
    rewrite Htr in Hf. exact Hf.
  Qed.
End Whole.

(* non-vacuity: a device with read limit 2 and rejection code 0xC8 holding the example
   inventory of Props/C15.v followed by erased EEPROM bytes, as FRU 3 *)
Definition example_dev : frudev :=
  mkFruDev (fun i => if i =? 3 then enc_inventory example_inv ++ [0xff; 0xff; 0xff] else [])
           2 0xc8 (fun _ n => n) 0.
Lemma device_example :
  3 < 256 /\ 2 <= fd_limit example_dev /\ is_backoff_cc (fd_rej example_dev) = true /\
  wf_inv example_inv = true /\ len (fd_mem example_dev 3) <= 65535 /\
  fst (fst (run (device_inventory 2 3) fru_dev example_dev [])) = Ok (areas_of (view_inventory example_inv)).
Proof. vm_compute. repeat split; try reflexivity; discriminate. Qed.

(* why the theorem is about well-formed images: on a TRUNCATED image the two paths differ.
   Header says "chassis area at offset 8" but the image ends there: FruInventory(image)
   returns an attribute-less chassis object, the device path raises the device's 0xC9. *)
Definition truncated_dev : frudev :=
  mkFruDev (fun _ => [1; 0; 1; 0; 0; 0; 0; 0xfe]) 32 0xc8 (fun _ n => n) 0.
Lemma device_differs_on_truncated :
  (exists inv, parse_inventory (fd_mem truncated_dev 0) = Ok (Some inv) /\ i_chassis inv = Shell) /\
  fst (fst (run (device_inventory 1 0) fru_dev truncated_dev [])) = Err (CCError 0xc9).
Proof. split; [eexists; split; vm_compute; reflexivity | vm_compute; reflexivity]. Qed.
