(* Lemmas about Model/Threads.v: an invariant of the transition system, preserved by
   every step of every thread, hence true after every schedule. *)
From Coq Require Import NArith List Bool Lia Arith.
From PyIpmi Require Import Lib.Res Model.Threads.
Import ListNotations.
Open Scope N_scope.

(* ---------- lists ---------- *)
Lemma nth_error_upd_eq {A} : forall (l : list A) i x y,
  nth_error l i = Some y -> nth_error (upd l i x) i = Some x.
Proof.
  induction l; intros [|i] x y H; cbn in *; try discriminate; auto. eapply IHl; eauto.
Qed.

Lemma nth_error_upd_neq {A} : forall (l : list A) i j x,
  i <> j -> nth_error (upd l i x) j = nth_error l j.
Proof.
  induction l; intros [|i] [|j] x H; cbn; auto; try congruence.
Qed.

Lemma upd_cases {A} (l : list A) t x t' y z :
  nth_error l t = Some z -> nth_error (upd l t x) t' = Some y ->
  (t' = t /\ y = x) \/ (t' <> t /\ nth_error l t' = Some y).
Proof.
  intros Hz H. destruct (Nat.eq_dec t' t) as [->|Hne].
  - left. rewrite (nth_error_upd_eq _ _ _ _ Hz) in H. split; congruence.
  - right. rewrite nth_error_upd_neq in H by congruence. auto.
Qed.

(* ---------- the shape of the socket log ---------- *)
(* newest first: a concatenation of complete exchanges [exch_nf]: a datagram of one
   thread, (the unrelated frame the BMC chose to send first, read and dropped by the same
   thread,) the BMC's reply to that very datagram, read by the same thread *)
Inductive wf_wire (c : cfg) : list event -> Prop :=
| W_nil : wf_wire c []
| W_pair t k s h q l : wf_wire c l -> wf_wire c (exch_nf c t k s h q (nsent l) ++ l).

(* request j of thread t (which asked for q) was answered by r: r is the BMC's reply to
   the datagram that t sent for that request, and the exchange is t's alone *)
Definition exchange_in (c : cfg) (w : list event) (t : tid) (j : nat) (q : treq) (r : frame) : Prop :=
  exists l1 l2 s h, w = l1 ++ exch_nf c t j s h q (nsent l2) ++ l2 /\ r = bmc_reply (nsent l2) h q.

Lemma exchange_in_cons c e w t j q r : exchange_in c w t j q r -> exchange_in c (e :: w) t j q r.
Proof. intros (l1 & l2 & s & h & -> & E). exists (e :: l1), l2, s, h. split; auto. Qed.

(* session sequence numbers: every datagram carries the successor (pack_sseq) of the
   one before it *)
Fixpoint sseq_after (s0 : N) (w : list event) : N :=
  match w with
  | [] => s0
  | Sent _ _ s _ _ :: _ => s
  | Rcvd _ _ :: l => sseq_after s0 l
  end.
Fixpoint seq_ok (c : cfg) (s0 : N) (w : list event) : Prop :=
  match w with
  | [] => True
  | Sent _ _ s _ _ :: l => s = pack_sseq c (sseq_after s0 l) /\ seq_ok c s0 l
  | Rcvd _ _ :: l => seq_ok c s0 l
  end.

Lemma rx_match_own n h q : rx_match h q (bmc_reply n h q) = true.
Proof. unfold rx_match, bmc_reply; cbn. rewrite !N.eqb_refl. reflexivity. Qed.

Lemma rx_match_stale n h q : rx_match h q (stale_frame n h q) = false.
Proof.
  unfold rx_match, stale_frame, stale_seq; cbn. rewrite !N.eqb_refl. cbn.
  destruct (h =? 0) eqn:E; [apply N.eqb_eq in E | apply N.eqb_neq in E]; apply N.eqb_neq; lia.
Qed.

Lemma is_ack_ack n : is_ack (ack_frame n) = true.
Proof. reflexivity. Qed.

Lemma is_ack_reply n h q : cmd_ok q -> is_ack (bmc_reply n h q) = false.
Proof. intros H. unfold is_ack, bmc_reply; cbn. apply N.eqb_neq; auto. Qed.

Lemma is_ack_stale n h q : cmd_ok q -> is_ack (stale_frame n h q) = false.
Proof. intros H. unfold is_ack, stale_frame; cbn. apply N.eqb_neq; auto. Qed.

Lemma repeat_snoc {A} (x : A) n : repeat x n ++ [x] = x :: repeat x n.
Proof. induction n; cbn; auto. rewrite IHn. reflexivity. Qed.

Lemma rev_repeat' {A} (x : A) n : rev (repeat x n) = repeat x n.
Proof. induction n; cbn; auto. rewrite IHn. apply repeat_snoc. Qed.

Lemma stale_needs_retry c n : stale_ok c -> is_stale c n = true -> Nat.leb 1 (c_max_retries c) = true.
Proof.
  intros [E|E] H.
  - unfold is_stale in H. rewrite E in H. discriminate.
  - apply Nat.leb_le; auto.
Qed.

(* ---------- the invariant ---------- *)
Definition holder_ok (c : cfg) (w : list event) (ib : list frame) (t : tid) (th : thread) : Prop :=
  match t_pc th with
  | PSend h retry => retry = 0%nat /\ wf_wire c w /\ ib = []
  | PRecv h retry rr =>
      retry = 0%nat /\
      exists s q l, nth_error (t_reqs th) (t_k th) = Some q /\ wf_wire c l /\
        ((rr = 0%nat /\ exists a b, (a + b = q_depth q)%nat /\
            (* a acknowledges read so far, b still on the socket *)
            w = repeat (Rcvd t (ack_frame (nsent l))) a ++ Sent t (t_k th) s h q :: l /\
            ib = repeat (ack_frame (nsent l)) b ++ bmc_frames c (nsent l) h q) \/
         (rr = 1%nat /\ is_stale c (nsent l) = true /\
          w = Rcvd t (stale_frame (nsent l) h q) :: exch_acks t (nsent l) q ++ Sent t (t_k th) s h q :: l /\
          ib = [bmc_reply (nsent l) h q]))
  | PRel h (Ok r) =>
      exists s q l, nth_error (t_reqs th) (t_k th) = Some q /\
                    w = exch_nf c t (t_k th) s h q (nsent l) ++ l /\ wf_wire c l /\
                    r = bmc_reply (nsent l) h q /\ ib = []
  | _ => False
  end.

Definition done_ok (c : cfg) (w : list event) (t : tid) (th : thread) : Prop :=
  length (t_done th) = t_k th /\
  forall j o, nth_error (t_done th) j = Some o ->
    exists q r, o = Ok r /\ nth_error (t_reqs th) j = Some q /\ exchange_in c w t j q r.

(* a thread between the release and the return already owns its reply *)
Definition ret_ok (c : cfg) (w : list event) (t : tid) (th : thread) : Prop :=
  match t_pc th with
  | PRet h (Ok r) => exists q, nth_error (t_reqs th) (t_k th) = Some q /\
                               exchange_in c w t (t_k th) q r
  | PRet h (Err _) => False
  | _ => True
  end.

Lemma ret_ok_cons c e w t th : ret_ok c w t th -> ret_ok c (e :: w) t th.
Proof.
  unfold ret_ok. destruct (t_pc th); auto. destruct o; auto.
  intros (q & ? & ?). exists q. split; auto. apply exchange_in_cons; auto.
Qed.

Section WithCfg.
Variable c : cfg.
Variable s0 : N.
Hypothesis Hst : stale_ok c.
Hypothesis Hlose : c_lose c = [].

Lemma delivers_all n h q :
  bmc_delivers c n h q = repeat (ack_frame n) (q_depth q) ++ bmc_frames c n h q.
Proof. unfold bmc_delivers, is_lost. rewrite Hlose. reflexivity. Qed.

Record Inv (g : gstate) : Prop := mkInv {
  inv_lock : forall t th, nth_error (g_thr g) t = Some th ->
             (in_cs (t_pc th) = true <-> g_lock g = Some t);
  inv_q : g_q g = [];
  inv_nrx : g_nrx g = nsent (g_wire g);
  inv_sseq : g_sseq g = sseq_after s0 (g_wire g);
  inv_seqok : seq_ok c s0 (g_wire g);
  inv_done : forall t th, nth_error (g_thr g) t = Some th -> done_ok c (g_wire g) t th;
  inv_hold : match g_lock g with
             | None => wf_wire c (g_wire g) /\ g_inbox g = []
             | Some t => exists th, nth_error (g_thr g) t = Some th /\
                                    holder_ok c (g_wire g) (g_inbox g) t th
             end;
  inv_cur : forall t th, nth_error (g_thr g) t = Some th ->
            t_pc th = PIdle \/ nth_error (t_reqs th) (t_k th) <> None;
  inv_ret : forall t th, nth_error (g_thr g) t = Some th -> ret_ok c (g_wire g) t th;
  inv_reqs : forall t th, nth_error (g_thr g) t = Some th -> Forall cmd_ok (t_reqs th) }.

Lemma inv_init nsn0 progs : Forall (Forall cmd_ok) progs -> Inv (init nsn0 s0 progs).
Proof.
  intros Hrq. constructor; cbn; auto.
  - intros t th H. apply nth_error_In in H. apply in_map_iff in H. destruct H as (p & <- & _).
    cbn. split; discriminate.
  - intros t th H. apply nth_error_In in H. apply in_map_iff in H. destruct H as (p & <- & _).
    split; cbn; auto. intros [|j] o; discriminate.
  - split; [constructor | reflexivity].
  - intros t th H. apply nth_error_In in H. apply in_map_iff in H. destruct H as (p & <- & _).
    left; reflexivity.
  - intros t th H. apply nth_error_In in H. apply in_map_iff in H. destruct H as (p & <- & _).
    exact I.
  - intros t th H. apply nth_error_In in H. apply in_map_iff in H. destruct H as (p & <- & Hin).
    cbn. rewrite Forall_forall in Hrq. auto.
Qed.

(* a thread outside the critical section is not the holder *)
Lemma not_holder g t th : Inv g -> nth_error (g_thr g) t = Some th ->
  in_cs (t_pc th) = false -> g_lock g <> Some t.
Proof. intros I H Hcs E. apply (inv_lock g I t th H) in E. congruence. Qed.

Lemma is_holder g t th : Inv g -> nth_error (g_thr g) t = Some th ->
  in_cs (t_pc th) = true -> g_lock g = Some t /\ holder_ok c (g_wire g) (g_inbox g) t th.
Proof.
  intros I H Hcs. pose proof (proj1 (inv_lock g I t th H) Hcs) as L. split; auto.
  pose proof (inv_hold g I) as Hh. rewrite L in Hh. destruct Hh as (th' & E & Hk). congruence.
Qed.

Ltac cur_goal Hth Ic Hq :=
  let t' := fresh "t'" in let x := fresh "x" in let Hx := fresh "Hx" in
  intros t' x Hx;
  destruct (upd_cases _ _ _ _ _ _ Hth Hx) as [[-> ->]|[? ?]];
  [ cbn; first [ left; reflexivity | right; rewrite Hq; discriminate ] | eapply Ic; eauto ].

Ltac ret_goal Hth Ir :=
  let t' := fresh "t'" in let x := fresh "x" in let Hx := fresh "Hx" in
  intros t' x Hx;
  destruct (upd_cases _ _ _ _ _ _ Hth Hx) as [[-> ->]|[? ?]];
  [ unfold ret_ok; cbn; auto
  | first [ eapply Ir; solve [eauto] | apply ret_ok_cons; eapply Ir; solve [eauto] ] ].

Ltac reqs_goal Hth Irq :=
  let t' := fresh "t'" in let x := fresh "x" in let Hx := fresh "Hx" in
  intros t' x Hx;
  destruct (upd_cases _ _ _ _ _ _ Hth Hx) as [[-> ->]|[? ?]];
  [ cbn; eapply Irq; solve [eauto] | eapply Irq; solve [eauto] ].

Lemma done_ok_set_pc w t th p : done_ok c w t th -> done_ok c w t (set_pc th p).
Proof. auto. Qed.

(* steps 1-3: a thread outside the critical section changes its own pc (staying
   outside) and possibly next_sequence_number *)
Lemma inv_local g t th p v : Inv g -> nth_error (g_thr g) t = Some th ->
  in_cs (t_pc th) = false -> in_cs p = false ->
  forall q, nth_error (t_reqs th) (t_k th) = Some q ->
  (forall h o, p <> PRet h o) ->
  Inv (set_thr (set_nsn g v) t (set_pc th p)).
Proof.
  intros I Hth Hcs Hp q Hq Hnr. pose proof (not_holder g t th I Hth Hcs) as NH.
  destruct I as [Il Iq In Is Iso Id Ih Ic Ir Irq]. constructor; cbn; auto.
  - intros t' x Hx. destruct (upd_cases _ _ _ _ _ _ Hth Hx) as [[-> ->]|[Hne Hx']].
    + cbn. rewrite Hp. split; [discriminate | intro; contradiction].
    + apply Il; auto.
  - intros t' x Hx. destruct (upd_cases _ _ _ _ _ _ Hth Hx) as [[-> ->]|[Hne Hx']].
    + apply done_ok_set_pc. apply Id; auto.
    + apply Id; auto.
  - destruct (g_lock g) as [t0|]; auto. destruct Ih as (th0 & E0 & H0).
    exists th0. split; auto. rewrite nth_error_upd_neq; auto; congruence.
  - cur_goal Hth Ic Hq.
  - intros t' x Hx. destruct (upd_cases _ _ _ _ _ _ Hth Hx) as [[-> ->]|[? ?]].
    + unfold ret_ok; cbn. destruct p; auto. exfalso. eapply Hnr; eauto.
    + eapply Ir; eauto.
  - reqs_goal Hth Irq.
Qed.

(* step 6: the holder reads a datagram - only the socket side and its own pc change *)
Lemma inv_recv g t th p rx ib q : Inv g -> nth_error (g_thr g) t = Some th ->
  in_cs (t_pc th) = true -> in_cs p = true ->
  nth_error (t_reqs th) (t_k th) = Some q ->
  holder_ok c (Rcvd t rx :: g_wire g) ib t (set_pc th p) ->
  Inv (set_thr (mkG (g_nsn g) (g_lock g) (g_sseq g) [] ib (g_nrx g) (Rcvd t rx :: g_wire g) (g_thr g))
               t (set_pc th p)).
Proof.
  intros I Hth Hcs Hp Hq Hk. destruct (is_holder g t th I Hth Hcs) as [L _].
  destruct I as [Il Iq In Is Iso Id Ih Ic Ir Irq].
  constructor; cbn; auto.
  - intros t' x Hx. destruct (upd_cases _ _ _ _ _ _ Hth Hx) as [[-> ->]|[Hne Hx']].
    + cbn. rewrite Hp. split; auto.
    + apply Il; auto.
  - intros t' x Hx. destruct (upd_cases _ _ _ _ _ _ Hth Hx) as [[-> ->]|[Hne Hx']].
    + destruct (Id t th Hth) as [D1 D2]. split; auto.
      intros j o Ho. destruct (D2 j o Ho) as (q' & r' & ? & ? & ?).
      exists q', r'. repeat split; auto. apply exchange_in_cons; auto.
    + destruct (Id t' x Hx') as [D1 D2]. split; auto.
      intros j o Ho. destruct (D2 j o Ho) as (q' & r' & ? & ? & ?).
      exists q', r'. repeat split; auto. apply exchange_in_cons; auto.
  - rewrite L. exists (set_pc th p). split; auto. eapply nth_error_upd_eq; eauto.
  - cur_goal Hth Ic Hq.
  - intros t' x Hx. destruct (upd_cases _ _ _ _ _ _ Hth Hx) as [[-> ->]|[? ?]].
    + unfold ret_ok; cbn. destruct p; try discriminate; exact Logic.I.
    + apply ret_ok_cons. eapply Ir; eauto.
  - reqs_goal Hth Irq.
Qed.

Lemma step_inv g t l g' : Inv g -> step_l c g t = Some (l, g') -> Inv g'.
Proof.
  intros I H. unfold step_l in H.
  destruct (nth_error (g_thr g) t) as [th|] eqn:Hth; [|discriminate].
  destruct (nth_error (t_reqs th) (t_k th)) as [q|] eqn:Hq; [|discriminate].
  destruct (t_pc th) eqn:Hpc.
  - (* read *) inversion H; subst; clear H.
    apply (inv_local g t th (PInc (g_nsn g)) (g_nsn g)) with (q := q); auto; [rewrite Hpc; auto | discriminate].
  - (* write *) inversion H; subst; clear H.
    apply (inv_local g t th PHdr ((r + 1) mod 64)) with (q := q); auto; [rewrite Hpc; auto | discriminate].
  - (* header read *) inversion H; subst; clear H.
    apply (inv_local g t th _ (g_nsn g)) with (q := q); auto;
      [rewrite Hpc; auto | destruct (q_depth q); auto | destruct (q_depth q); discriminate].
  - (* acquire *)
    destruct (g_lock g) eqn:L; [discriminate|]. inversion H; subst; clear H.
    destruct I as [Il Iq In Is Iso Id Ih Ic Ir Irq]. rewrite L in Ih. destruct Ih as [Hw Hib].
    constructor; cbn; auto.
    + intros t' x Hx. destruct (upd_cases _ _ _ _ _ _ Hth Hx) as [[-> ->]|[Hne Hx']].
      * cbn. split; auto.
      * split.
        -- intro Hc. apply (Il t' x Hx') in Hc. congruence.
        -- intro E. congruence.
    + intros t' x Hx. destruct (upd_cases _ _ _ _ _ _ Hth Hx) as [[-> ->]|[Hne Hx']].
      * apply done_ok_set_pc. apply Id; auto.
      * apply Id; auto.
    + exists (set_pc th (PSend h 0)). split.
      * eapply nth_error_upd_eq; eauto.
      * unfold holder_ok; cbn. auto.
    + cur_goal Hth Ic Hq.
    + ret_goal Hth Ir.
    + reqs_goal Hth Irq.
  - (* send *)
    inversion H; subst; clear H.
    assert (Hcs : in_cs (t_pc th) = true) by (rewrite Hpc; auto).
    destruct (is_holder g t th I Hth Hcs) as [L Hk].
    unfold holder_ok in Hk. rewrite Hpc in Hk. destruct Hk as (-> & Hw & Hib).
    destruct I as [Il Iq In Is Iso Id Ih Ic Ir Irq].
    constructor; cbn; auto.
    + intros t' x Hx. destruct (upd_cases _ _ _ _ _ _ Hth Hx) as [[-> ->]|[Hne Hx']].
      * cbn. split; auto.
      * apply Il; auto.
    + rewrite In. reflexivity.
    + split; auto. rewrite Is. reflexivity.
    + intros t' x Hx. destruct (upd_cases _ _ _ _ _ _ Hth Hx) as [[-> ->]|[Hne Hx']].
      * destruct (Id t th Hth) as [D1 D2]. split; auto.
        intros j o Ho. destruct (D2 j o Ho) as (q' & r' & ? & ? & ?).
        exists q', r'. repeat split; auto. apply exchange_in_cons; auto.
      * destruct (Id t' x Hx') as [D1 D2]. split; auto.
        intros j o Ho. destruct (D2 j o Ho) as (q' & r' & ? & ? & ?).
        exists q', r'. repeat split; auto. apply exchange_in_cons; auto.
    + rewrite L. exists (set_pc th (PRecv h 0 0)). split.
      * eapply nth_error_upd_eq; eauto.
      * unfold holder_ok; cbn. split; auto.
        exists (pack_sseq c (g_sseq g)), q, (g_wire g). repeat split; auto.
        left. split; auto. exists 0%nat, (q_depth q). repeat split; auto.
        rewrite Hib, In, delivers_all. reflexivity.
    + cur_goal Hth Ic Hq.
    + ret_goal Hth Ir.
    + reqs_goal Hth Irq.
  - (* receive *)
    assert (Hcs : in_cs (t_pc th) = true) by (rewrite Hpc; auto).
    destruct (is_holder g t th I Hth Hcs) as [L Hk].
    unfold holder_ok in Hk. rewrite Hpc in Hk.
    destruct Hk as (-> & s & q1 & w & Hq1 & Hwf & Hcase).
    assert (q1 = q) by congruence. subst q1.
    assert (Hcq : cmd_ok q).
    { pose proof (inv_reqs g I t th Hth) as F. rewrite Forall_forall in F.
      apply F. eapply nth_error_In; eauto. }
    rewrite (inv_q g I) in H.
    destruct Hcase as [(-> & a & b & Hab & Hw & Hib)|(-> & Hs & Hw & Hib)].
    + destruct b as [|b].
      * (* all acknowledges read: the first real frame *)
        cbn in Hib. assert (a = q_depth q) by lia. subst a.
        unfold bmc_frames in Hib. destruct (is_stale c (nsent w)) eqn:Hs; cbn in Hib; rewrite Hib in H.
        -- (* an unrelated frame: dropped, counted, read again *)
           unfold after_rx in H. rewrite is_ack_stale, rx_match_stale in H by auto.
           rewrite (stale_needs_retry c _ Hst Hs) in H. inversion H; subst; clear H.
           eapply (inv_recv g t th (PRecv h 0 1) _ _ q); eauto.
           unfold holder_ok; cbn. split; auto. exists s, q, w. repeat split; auto.
           right. rewrite Hw. repeat split; auto.
        -- unfold after_rx in H. rewrite is_ack_reply, rx_match_own in H by auto.
           inversion H; subst; clear H.
           eapply (inv_recv g t th (PRel h (Ok _)) _ _ q); eauto.
           unfold holder_ok; cbn. exists s, q, w. repeat split; auto.
           unfold exch_nf, exch_mid, exch_acks. rewrite Hs, Hw. cbn. rewrite <- app_assoc. reflexivity.
      * (* an acknowledge of a Send Message wrapper: not counted, read on *)
        cbn in Hib. rewrite Hib in H. unfold after_rx in H. rewrite is_ack_ack in H.
        inversion H; subst; clear H.
        eapply (inv_recv g t th (PRecv h 0 0) _ _ q); eauto.
        unfold holder_ok; cbn. split; auto. exists s, q, w. repeat split; auto.
        left. split; auto. exists (S a), b. repeat split; auto; [lia|]. rewrite Hw. reflexivity.
    + (* the frame after the unrelated one *)
      rewrite Hib in H. unfold after_rx in H. rewrite is_ack_reply, rx_match_own in H by auto.
      inversion H; subst; clear H.
      eapply (inv_recv g t th (PRel h (Ok _)) _ _ q); eauto.
      unfold holder_ok; cbn. exists s, q, w. repeat split; auto.
      unfold exch_nf, exch_mid. rewrite Hs, Hw. cbn. rewrite <- app_assoc. reflexivity.
  - (* release *)
    inversion H; subst; clear H.
    assert (Hcs : in_cs (t_pc th) = true) by (rewrite Hpc; auto).
    destruct (is_holder g t th I Hth Hcs) as [L Hk].
    unfold holder_ok in Hk. rewrite Hpc in Hk.
    destruct o as [r|e]; [|contradiction].
    destruct Hk as (s & q1 & w & Hq1 & Hw & Hwf & Hr & Hib).
    assert (q1 = q) by congruence. subst q1.
    destruct I as [Il Iq In Is Iso Id Ih Ic Ir Irq].
    constructor; cbn; auto.
    + intros t' x Hx. destruct (upd_cases _ _ _ _ _ _ Hth Hx) as [[-> ->]|[Hne Hx']].
      * cbn. split; discriminate.
      * split.
        -- intro Hc. apply (Il t' x Hx') in Hc. congruence.
        -- discriminate.
    + intros t' x Hx. destruct (upd_cases _ _ _ _ _ _ Hth Hx) as [[-> ->]|[Hne Hx']].
      * apply done_ok_set_pc. apply Id; auto.
      * apply Id; auto.
    + split; auto. rewrite Hw. constructor; auto.
    + cur_goal Hth Ic Hq.
    + intros t' x Hx. destruct (upd_cases _ _ _ _ _ _ Hth Hx) as [[-> ->]|[? ?]].
      * unfold ret_ok; cbn. exists q. split; auto. exists [], w, s, h. split; auto.
      * eapply Ir; eauto.
    + reqs_goal Hth Irq.
  - (* the code after the with block: the outcome goes to the caller *)
    inversion H; subst; clear H.
    assert (Hcs : in_cs (t_pc th) = false) by (rewrite Hpc; auto).
    pose proof (not_holder g t th I Hth Hcs) as NH.
    destruct I as [Il Iq In Is Iso Id Ih Ic Ir Irq].
    pose proof (Ir t th Hth) as Hr. unfold ret_ok in Hr. rewrite Hpc in Hr.
    destruct o as [r|e]; [|contradiction]. destruct Hr as (q1 & Hq1 & Hex).
    assert (q1 = q) by congruence. subst q1.
    constructor; cbn; auto.
    + intros t' x Hx. destruct (upd_cases _ _ _ _ _ _ Hth Hx) as [[-> ->]|[Hne Hx']].
      * cbn. split; [discriminate | intro; contradiction].
      * apply Il; auto.
    + intros t' x Hx. destruct (upd_cases _ _ _ _ _ _ Hth Hx) as [[-> ->]|[Hne Hx']].
      * destruct (Id t th Hth) as [D1 D2]. split; cbn.
        -- rewrite app_length; cbn. lia.
        -- intros j o Ho.
           destruct (Nat.lt_ge_cases j (length (t_done th))) as [Hlt|Hge].
           ++ rewrite nth_error_app1 in Ho by auto. apply D2; auto.
           ++ rewrite nth_error_app2 in Ho by auto.
              destruct (j - length (t_done th))%nat as [|d] eqn:Hd.
              ** cbn in Ho. inversion Ho; subst o; clear Ho.
                 assert (j = t_k th) by lia. subst j.
                 exists q, r. repeat split; auto.
              ** destruct d; discriminate.
      * apply Id; auto.
    + destruct (g_lock g) as [t0|]; auto. destruct Ih as (th0 & E0 & H0).
      exists th0. split; auto. rewrite nth_error_upd_neq; auto; congruence.
    + cur_goal Hth Ic Hq.
    + ret_goal Hth Ir.
    + reqs_goal Hth Irq.
  - (* bridged target: the read of next_sequence_number for the Send Message wrapper *)
    inversion H; subst; clear H.
    apply (inv_local g t th (PAcq h) (g_nsn g)) with (q := q); auto; [rewrite Hpc; auto | discriminate].
Qed.

Lemma exec1_inv g t : Inv g -> Inv (exec1 c g t).
Proof.
  intros I. unfold exec1, step. destruct (step_l c g t) as [[l g']|] eqn:E; auto.
  eapply step_inv; eauto.
Qed.

Lemma exec_inv sched : forall g, Inv g -> Inv (exec c sched g).
Proof.
  unfold exec. induction sched as [|t r IH]; intros g I; cbn; auto. apply IH. apply exec1_inv; auto.
Qed.

Lemma reach_inv nsn0 progs sched : Forall (Forall cmd_ok) progs ->
  Inv (exec c sched (init nsn0 s0 progs)).
Proof. intros. apply exec_inv, inv_init; auto. Qed.

(* ---------- consequences ---------- *)

(* mutual exclusion *)
Lemma mutex_of_inv g t1 t2 th1 th2 : Inv g ->
  nth_error (g_thr g) t1 = Some th1 -> nth_error (g_thr g) t2 = Some th2 ->
  in_cs (t_pc th1) = true -> in_cs (t_pc th2) = true -> t1 = t2.
Proof.
  intros I H1 H2 C1 C2.
  apply (inv_lock g I t1 th1 H1) in C1. apply (inv_lock g I t2 th2 H2) in C2. congruence.
Qed.

(* no deadlock: while some thread has requests left, some thread can move *)
Lemma no_deadlock g : Inv g -> all_finished g = false -> exists t, step c g t <> None.
Proof.
  intros I F. unfold all_finished in F.
  assert (exists th, In th (g_thr g) /\ finished th = false) as (th & Hin & Hf).
  { clear I. induction (g_thr g) as [|a l IH]; cbn in F; [discriminate|].
    destruct (finished a) eqn:Fa.
    - destruct (IH F) as (th & ? & ?). exists th; split; auto. right; auto.
    - exists a; split; auto. left; auto. }
  apply In_nth_error in Hin. destruct Hin as [t Hth].
  unfold finished in Hf. apply Nat.leb_gt in Hf.
  destruct (nth_error (t_reqs th) (t_k th)) as [q|] eqn:Hq;
    [| apply nth_error_None in Hq; lia].
  destruct (g_lock g) as [t0|] eqn:L.
  - pose proof (inv_hold g I) as Hh. rewrite L in Hh. destruct Hh as (th0 & Hth0 & Hk).
    exists t0. unfold step, step_l. rewrite Hth0.
    assert (Hcs : in_cs (t_pc th0) = true) by (apply (inv_lock g I t0 th0 Hth0); auto).
    destruct (inv_cur g I t0 th0 Hth0) as [E|E]; [rewrite E in Hcs; discriminate|].
    destruct (nth_error (t_reqs th0) (t_k th0)) as [q0|]; [|congruence].
    unfold holder_ok in Hk. destruct (t_pc th0); try contradiction; try discriminate.
    + destruct Hk as (_ & s & q1 & w & _ & _ & [(_ & a & b & _ & _ & Hib)|(_ & _ & _ & Hib)]);
        rewrite (inv_q g I), Hib; [|discriminate].
      destruct b; cbn; [|discriminate].
      unfold bmc_frames. destruct (is_stale c (nsent w)); discriminate.
  - exists t. unfold step, step_l. rewrite Hth, Hq.
    destruct (t_pc th) eqn:Hpc; try discriminate; try (rewrite L; discriminate);
      exfalso; assert (Hcs : in_cs (t_pc th) = true) by (rewrite Hpc; auto);
      apply (inv_lock g I t th Hth) in Hcs; congruence.
Qed.

End WithCfg.

(* ---------- the same facts in transmission order ---------- *)
Lemma nsent_app a b : nsent (a ++ b) = nsent a + nsent b.
Proof. induction a as [|[] a IH]; cbn; auto; lia. Qed.

Lemma nsent_rev l : nsent (rev l) = nsent l.
Proof. induction l as [|[] l IH]; cbn; auto; rewrite nsent_app; cbn; lia. Qed.

Lemma rev_exch_nf c t k s h q n : rev (exch_nf c t k s h q n) = exch_tx c t k s h q n.
Proof.
  unfold exch_nf, exch_tx, exch_mid, exch_acks.
  destruct (is_stale c n); cbn; rewrite ?rev_app_distr; cbn; rewrite rev_repeat', <- ?app_assoc; reflexivity.
Qed.

Lemma nsent_acks t f k : nsent (repeat (Rcvd t f) k) = 0.
Proof. induction k; cbn; auto. Qed.

Lemma nsent_exch_tx c t k s h q n : nsent (exch_tx c t k s h q n) = 1.
Proof.
  unfold exch_tx, exch_mid, exch_acks. cbn. rewrite !nsent_app, nsent_acks.
  destruct (is_stale c n); reflexivity.
Qed.

(* oldest first: the log from datagram number n on is a sequence of complete
   exchanges [exch_tx] - a datagram of some thread, (the unrelated frame, if the BMC sent
   one, read by the same thread,) then the BMC's reply to it read by the same thread *)
Inductive complete_exchanges (c : cfg) : N -> list event -> Prop :=
| CE_nil n : complete_exchanges c n []
| CE_cons n t k s h q l : complete_exchanges c (n + 1) l ->
    complete_exchanges c n (exch_tx c t k s h q n ++ l).

Lemma ce_app c a n : complete_exchanges c n a -> forall t k s h q,
  complete_exchanges c n (a ++ exch_tx c t k s h q (n + nsent a)).
Proof.
  induction 1 as [n|n t k s h q l H IH]; intros t' k' s' h' q'.
  - cbn. rewrite N.add_0_r. rewrite <- (app_nil_r (exch_tx _ _ _ _ _ _ _)). constructor. constructor.
  - rewrite <- app_assoc. constructor. specialize (IH t' k' s' h' q').
    replace (n + nsent (exch_tx c t k s h q n ++ l)) with (n + 1 + nsent l)
      by (rewrite nsent_app, nsent_exch_tx; lia). exact IH.
Qed.

Lemma wf_wire_ce c l : wf_wire c l -> complete_exchanges c 0 (rev l).
Proof.
  induction 1 as [|t k s h q l H IH]; [cbn; constructor|].
  rewrite rev_app_distr, rev_exch_nf.
  pose proof (ce_app _ _ _ IH t k s h q) as E. rewrite N.add_0_l, nsent_rev in E. exact E.
Qed.

(* exchanges are not interleaved: the log in transmission order consists of complete
   exchanges, followed - only while a thread holds the lock and has sent but not yet
   received its reply - by that thread's datagram (and the unrelated frame it has read) *)
Definition not_interleaved (c : cfg) (g : gstate) : Prop :=
  complete_exchanges c 0 (rev (g_wire g)) \/
  exists t k s h q l, g_lock g = Some t /\ complete_exchanges c 0 l /\
    ((exists a, (a <= q_depth q)%nat /\
        rev (g_wire g) = l ++ Sent t k s h q :: repeat (Rcvd t (ack_frame (nsent l))) a) \/
     rev (g_wire g) = l ++ Sent t k s h q :: exch_acks t (nsent l) q ++
                           [Rcvd t (stale_frame (nsent l) h q)]).

Lemma not_interleaved_of_inv c s0 g : Inv c s0 g -> not_interleaved c g.
Proof.
  intros I. pose proof (inv_hold c s0 g I) as Hh. unfold not_interleaved.
  destruct (g_lock g) as [t|] eqn:L.
  - destruct Hh as (th & Hth & Hk). unfold holder_ok in Hk.
    destruct (t_pc th); try contradiction.
    + left. apply wf_wire_ce. tauto.
    + right. destruct Hk as (_ & s & q & l & _ & Hwf & [(_ & a & b & Hab & Hw & _)|(_ & _ & Hw & _)]);
        exists t, (t_k th), s, h, q, (rev l); rewrite Hw; (split; [auto|]);
        (split; [apply wf_wire_ce; auto|]).
      * left. exists a. split; [lia|]. rewrite rev_app_distr, rev_repeat', nsent_rev. cbn.
        rewrite <- app_assoc. reflexivity.
      * right. unfold exch_acks. cbn. rewrite rev_app_distr, rev_repeat', nsent_rev. cbn.
        rewrite <- !app_assoc. reflexivity.
    + destruct o; try contradiction. left.
      destruct Hk as (s & q & l & _ & Hw & Hwf & Hr & _). apply wf_wire_ce. rewrite Hw.
      constructor; auto.
  - left. apply wf_wire_ce. tauto.
Qed.

(* session sequence numbers in transmission order: each is f of its predecessor *)
Fixpoint chain (f : N -> N) (s : N) (l : list N) : Prop :=
  match l with [] => True | x :: r => x = f s /\ chain f x r end.

Lemma last_cons {A} (r : list A) : forall x d, last (x :: r) d = last r x.
Proof. induction r as [|y r IH]; intros; auto. change (last (y :: r) d = last (y :: r) x). rewrite !IH. auto. Qed.

Lemma chain_app f : forall l s, chain f s l -> chain f s (l ++ [f (last l s)]).
Proof.
  induction l as [|x r IH]; intros s H; cbn in *; auto.
  destruct H as [-> H]. split; auto. specialize (IH _ H).
  rewrite <- (last_cons r (f s) s) in IH. exact IH.
Qed.

Lemma last_rev_hd {A} (l : list A) d : last (rev l) d = hd d l.
Proof.
  destruct l as [|a l]; cbn; auto. induction (rev l) as [|b r IH]; cbn; auto.
  destruct (r ++ [a]) eqn:E; auto. destruct r; discriminate.
Qed.

Lemma sseq_after_hd s0 w : sseq_after s0 w = hd s0 (sseqs_nf w).
Proof. induction w as [|[] w IH]; cbn; auto. Qed.

Lemma seq_ok_chain c s0 w : seq_ok c s0 w -> chain (pack_sseq c) s0 (rev (sseqs_nf w)).
Proof.
  induction w as [|[t k s h q|t r] w IH]; cbn; auto.
  intros [-> H]. specialize (IH H). apply chain_app in IH.
  rewrite last_rev_hd, <- sseq_after_hd in IH. exact IH.
Qed.

Lemma chain_adjacent f : forall l1 s a b l2, chain f s (l1 ++ a :: b :: l2) -> b = f a.
Proof.
  induction l1 as [|x l1 IH]; intros s a b l2 H; cbn in H.
  - tauto.
  - destruct H as [_ H]. eapply IH; eauto.
Qed.

Lemma next_sseq_range s : 1 <= next_sseq s <= 0xffffffff.
Proof. unfold next_sseq. destruct (0xffffffff <? s + 1) eqn:E; [apply N.ltb_lt in E | apply N.ltb_ge in E]; lia. Qed.

Lemma chain_range : forall l s, chain next_sseq s l -> Forall (fun x => 1 <= x <= 0xffffffff) l.
Proof.
  induction l as [|x l IH]; intros s H; constructor; cbn in H; destruct H as [-> H].
  - apply next_sseq_range.
  - eapply IH; eauto.
Qed.

Lemma next_sseq_spec a : a <= 0xffffffff ->
  (a < 0xffffffff /\ next_sseq a = a + 1) \/ (a = 0xffffffff /\ next_sseq a = 1).
Proof.
  intros H. unfold next_sseq. destruct (0xffffffff <? a + 1) eqn:E;
    [apply N.ltb_lt in E | apply N.ltb_ge in E]; lia.
Qed.

Lemma sseq_chain_of_inv c s0 g : Inv c s0 g -> c_active c = true -> chain next_sseq s0 (tx_sseqs g).
Proof.
  intros I A. pose proof (seq_ok_chain c s0 _ (inv_seqok c s0 g I)) as H.
  unfold tx_sseqs. replace (pack_sseq c) with next_sseq in H; auto.
  unfold pack_sseq. rewrite A. reflexivity.
Qed.

Lemma sseq_adjacent_of_inv c s0 g : Inv c s0 g -> c_active c = true ->
  forall l1 a b l2, tx_sseqs g = l1 ++ a :: b :: l2 ->
  (a < 0xffffffff /\ b = a + 1) \/ (a = 0xffffffff /\ b = 1).
Proof.
  intros I A l1 a b l2 E. pose proof (sseq_chain_of_inv c s0 g I A) as H.
  pose proof (chain_range _ _ H) as R. rewrite E in H, R.
  apply chain_adjacent in H. subst b.
  apply Forall_app in R. destruct R as [_ R]. inversion R; subst.
  apply next_sseq_spec. lia.
Qed.

(* own reply, in transmission order *)
Definition answered (c : cfg) (g : gstate) (t : tid) (j : nat) (q : treq) (r : frame) : Prop :=
  exists a b s h, rev (g_wire g) = a ++ exch_tx c t j s h q (nsent a) ++ b /\
                  r = bmc_reply (nsent a) h q.

Lemma exchange_in_answered c g t j q r : exchange_in c (g_wire g) t j q r -> answered c g t j q r.
Proof.
  intros (l1 & l2 & s & h & E & Hr). exists (rev l2), (rev l1), s, h. split.
  - rewrite E, !rev_app_distr, rev_exch_nf, nsent_rev, <- app_assoc. reflexivity.
  - rewrite nsent_rev. exact Hr.
Qed.

Lemma own_reply_of_inv c s0 g : Inv c s0 g -> forall t th j o,
  nth_error (g_thr g) t = Some th -> nth_error (t_done th) j = Some o ->
  exists q r, o = Ok r /\ nth_error (t_reqs th) j = Some q /\ answered c g t j q r.
Proof.
  intros I t th j o Hth Ho. destruct (inv_done c s0 g I t th Hth) as [_ D].
  destruct (D j o Ho) as (q & r & ? & ? & ?). exists q, r. repeat split; auto.
  apply exchange_in_answered; auto.
Qed.

(* ---------- for every schedule, any number of threads and requests ---------- *)
Section AllSchedules.
Variables (c : cfg) (nsn0 s0 : N) (progs : list (list treq)) (sched : list tid).
Hypothesis Hok : bmc_ok c.
Hypothesis Hreqs : Forall (Forall cmd_ok) progs.
Let g := exec c sched (init nsn0 s0 progs).
Let Hst : stale_ok c := proj1 Hok.
Let Hlose : c_lose c = [] := proj2 Hok.

Lemma mutex_all t1 t2 th1 th2 :
  nth_error (g_thr g) t1 = Some th1 -> nth_error (g_thr g) t2 = Some th2 ->
  in_cs (t_pc th1) = true -> in_cs (t_pc th2) = true -> t1 = t2.
Proof. apply (mutex_of_inv c s0), reach_inv; auto. Qed.

Lemma lock_owner_all t th : nth_error (g_thr g) t = Some th ->
  (in_cs (t_pc th) = true <-> g_lock g = Some t).
Proof. apply (inv_lock c s0), reach_inv; auto. Qed.

Lemma not_interleaved_all : not_interleaved c g.
Proof. apply (not_interleaved_of_inv c s0), reach_inv; auto. Qed.

Lemma own_reply_all t th j o :
  nth_error (g_thr g) t = Some th -> nth_error (t_done th) j = Some o ->
  exists q r, o = Ok r /\ nth_error (t_reqs th) j = Some q /\ answered c g t j q r.
Proof. apply (own_reply_of_inv c s0), reach_inv; auto. Qed.

Lemma no_deadlock_all : all_finished g = false -> exists t, step c g t <> None.
Proof. apply (no_deadlock c s0), reach_inv; auto. Qed.

Lemma q_empty_all : g_q g = [].
Proof. apply (inv_q c s0), reach_inv; auto. Qed.
End AllSchedules.

(* ---------- session sequence numbers: no assumption on the BMC at all ---------- *)
(* (lost replies, unrelated frames, any max_retries: every datagram, retransmissions
   included, is packed afresh under the lock) *)
Definition SeqInv (c : cfg) (s0 : N) (g : gstate) : Prop :=
  g_sseq g = sseq_after s0 (g_wire g) /\ seq_ok c s0 (g_wire g).

Lemma after_rx_same c g t th q h retry rr rx :
  g_wire (after_rx c g t th q h retry rr rx) = g_wire g /\
  g_sseq (after_rx c g t th q h retry rr rx) = g_sseq g.
Proof.
  unfold after_rx. destruct (is_ack rx); [|destruct (rx_match h q rx); [|destruct (Nat.leb (S rr) (c_max_retries c))]]; cbn; auto.
Qed.

Lemma step_seqinv c s0 g t l g' : SeqInv c s0 g -> step_l c g t = Some (l, g') -> SeqInv c s0 g'.
Proof.
  intros [A B] H. unfold step_l in H.
  destruct (nth_error (g_thr g) t) as [th|]; [|discriminate].
  destruct (nth_error (t_reqs th) (t_k th)) as [q|]; [|discriminate].
  destruct (t_pc th).
  - inversion H; subst; split; cbn; auto.
  - inversion H; subst; split; cbn; auto.
  - inversion H; subst; split; cbn; auto.
  - destruct (g_lock g); [discriminate|]. inversion H; subst; split; cbn; auto.
  - inversion H; subst; split; cbn; auto. split; auto. rewrite A. reflexivity.
  - destruct (g_q g) as [|rx q'].
    + destruct (g_inbox g) as [|rx ib].
      * inversion H; subst; split; cbn; auto.
      * inversion H; subst. unfold SeqInv.
        destruct (after_rx_same c (mkG (g_nsn g) (g_lock g) (g_sseq g) [] ib (g_nrx g)
                                      (Rcvd t rx :: g_wire g) (g_thr g)) t th q h retry rr rx) as [-> ->].
        cbn. auto.
    + inversion H; subst. unfold SeqInv.
      destruct (after_rx_same c (mkG (g_nsn g) (g_lock g) (g_sseq g) q' (g_inbox g) (g_nrx g)
                                    (g_wire g) (g_thr g)) t th q h retry rr rx) as [-> ->].
      cbn. auto.
  - inversion H; subst; split; cbn; auto.
  - inversion H; subst; split; cbn; auto.
  - inversion H; subst; split; cbn; auto.
Qed.

Lemma exec_seqinv c s0 sched : forall g, SeqInv c s0 g -> SeqInv c s0 (exec c sched g).
Proof.
  unfold exec. induction sched as [|t r IH]; intros g I; cbn; auto. apply IH.
  unfold exec1, step. destruct (step_l c g t) as [[l g']|] eqn:E; auto. eapply step_seqinv; eauto.
Qed.

Lemma sseq_chain_all c nsn0 s0 progs sched : c_active c = true ->
  chain next_sseq s0 (tx_sseqs (exec c sched (init nsn0 s0 progs))).
Proof.
  intros A. assert (I : SeqInv c s0 (exec c sched (init nsn0 s0 progs))).
  { apply exec_seqinv. split; cbn; auto. }
  destruct I as [_ I]. apply seq_ok_chain in I. unfold tx_sseqs.
  replace (pack_sseq c) with next_sseq in I; auto. unfold pack_sseq. rewrite A. reflexivity.
Qed.

Lemma sseq_adjacent_all c nsn0 s0 progs sched : c_active c = true ->
  forall l1 a b l2, tx_sseqs (exec c sched (init nsn0 s0 progs)) = l1 ++ a :: b :: l2 ->
  (a < 0xffffffff /\ b = a + 1) \/ (a = 0xffffffff /\ b = 1).
Proof.
  intros A l1 a b l2 E. pose proof (sseq_chain_all c nsn0 s0 progs sched A) as H.
  pose proof (chain_range _ _ H) as R. rewrite E in H, R.
  apply chain_adjacent in H. subst b.
  apply Forall_app in R. destruct R as [_ R]. inversion R; subst.
  apply next_sseq_spec. lia.
Qed.
