(* (the exhaustive evaluation; kept in its own file because it takes about two minutes to compile)
   C17 level (ii): the binary64 pipeline against the exact formula, on a finite
   sub-domain evaluated exhaustively inside Coq (vm_compute over primitive floats). *)
From Coq Require Import NArith ZArith List Lia Bool QArith Qpower Qabs Floats.
From PyIpmi Require Import Lib.Res Model.SensorConv Model.SensorConvF Proofs.SensorConvProofs.
Import ListNotations.
Open Scope Z_scope.

(* |v - exact| <= 2^-50 (|M x| + |B| 10^K1) 10^K2 *)
Definition magnitude (s : sensor) (x : Z) : Q :=
  ((Qabs (inject_Z (s_m s) * inject_Z x) + Qabs (inject_Z (s_b s)) * pow10 (s_k1 s)) * pow10 (s_k2 s))%Q.
Definition close_to_formula (s : sensor) (x : Z) (v : Q) : Prop :=
  (Qabs (v - linear_Q s x) <= Qpower (2 # 1) (-50) * magnitude s x)%Q.
Definition close_b (s : sensor) (x : Z) (v : Q) : bool :=
  Qle_bool (Qabs (v - linear_Q s x)) (Qpower (2 # 1) (-50) * magnitude s x).

(* one reading: the float result is finite and close to the formula, and the float
   inverse returns the reading *)
Definition float_ok (s : sensor) (raw : N) : bool :=
  let f := convert_raw_F s raw in
  match Q_of_float f with
  | None => false
  | Some v =>
      close_b s (raw_signed (s_fmt s) raw) v &&
      (((s_fmt s =? 1)%N && (raw =? 255)%N) || res_eqb Z.eqb (convert_value_F s f) (Ok (Z.of_N raw)))
  end.

Definition zrange (lo : Z) (n : nat) : list Z := map (fun i => lo + Z.of_nat i) (seq 0 n).
Lemma zrange_in lo n z : lo <= z < lo + Z.of_nat n -> In z (zrange lo n).
Proof.
  intros H. unfold zrange. apply in_map_iff. exists (Z.to_nat (z - lo)). split; [lia|]. apply in_seq. lia.
Qed.

(* the (M, B) pairs of the finite sub-domain *)
Definition pairs : list (Z * Z) := [(2, 3); (-512, 511)].

(* the exponents of the finite sub-domain *)
Definition ks : list Z := [-8; -1; 0; 7].

Definition sweep_gen (P : sensor -> N -> bool) : bool :=
  forallb (fun mb => forallb (fun k1 => forallb (fun k2 => forallb (fun fmt => forallb (fun raw =>
    P (mkSensor fmt 0 (fst mb) (snd mb) k1 k2) raw)
    (nrange 256)) (nrange 3)) ks) ks) pairs.

(* generic in P: nothing is evaluated here *)
Lemma sweep_gen_sound (P : sensor -> N -> bool) : sweep_gen P = true ->
  forall (m b k1 k2 : Z) (fmt raw : N),
  In (m, b) pairs -> In k1 ks -> In k2 ks -> (fmt < 3)%N -> (raw < 256)%N ->
  P (mkSensor fmt 0 m b k1 k2) raw = true.
Proof.
  intros H m b k1 k2 fmt raw Hp I1 I2 Hf Hr.
  pose proof (nrange_in 3 _ Hf) as I3. pose proof (nrange_in 256 _ Hr) as I4.
  unfold sweep_gen in H.
  pose proof (proj1 (forallb_forall _ _) H _ Hp) as Ha. cbv beta in Ha.
  pose proof (proj1 (forallb_forall _ _) Ha _ I1) as Hb. cbv beta in Hb.
  pose proof (proj1 (forallb_forall _ _) Hb _ I2) as Hc. cbv beta in Hc.
  pose proof (proj1 (forallb_forall _ _) Hc _ I3) as Hd. cbv beta in Hd.
  exact (proj1 (forallb_forall _ _) Hd _ I4).
Qed.

Lemma sweep_all_true : sweep_gen float_ok = true.
Proof. vm_compute. reflexivity. Qed.
