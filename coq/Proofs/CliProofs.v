(* Lemmas for C20 (command-line tool).  Generic lemmas about the hand model (numerals,
   getopt, option loop, lookup, raw, exit status) and soundness lemmas that turn the
   boolean checks over the REGENERATED table (Gen/CliTable.v) into the statements of
   Props/C20.v.  The spec-side definitions used in those statements (rendering of numbers,
   options and raw arguments, hex2, power_spec) live here too. *)
From Coq Require Import String Ascii.
From Coq Require Import NArith ZArith List Bool Lia.
From Coq Require Decimal Hexadecimal DecimalString HexadecimalString DecimalFacts HexadecimalFacts DecimalN HexadecimalN.
From PyIpmi Require Import Lib.Res Lib.Bytes Lib.Prog Model.Cli.
Import ListNotations.
Open Scope string_scope.
Open Scope list_scope.

Definition dec_str (n : N) : string := DecimalString.NilEmpty.string_of_uint (N.to_uint n).
Definition hex_digits (n : N) : string := HexadecimalString.NilEmpty.string_of_uint (N.to_hex_uint n).
Definition hex_str (n : N) : string := String "0" (String "x" (hex_digits n)).

Lemma dec_parse n : DecimalString.NilEmpty.uint_of_string (dec_str n) = Some (N.to_uint n).
Proof. apply DecimalString.NilEmpty.usu. Qed.

Lemma to_uint_nonnil n : N.to_uint n <> Decimal.Nil.
Proof.
  intro H. pose proof (DecimalN.Unsigned.of_to n) as E. rewrite H in E. cbn in E. subst n. discriminate.
Qed.

Lemma to_uint_D0 n d : N.to_uint n = Decimal.D0 d -> n = 0%N.
Proof.
  intro H. pose proof (DecimalN.Unsigned.to_of (N.to_uint n)) as E.
  rewrite DecimalN.Unsigned.of_to in E. rewrite H in E.
  unfold Decimal.unorm in E. 
  destruct (Decimal.nzhead (Decimal.D0 d)) eqn:Z; try discriminate.
  - injection E as E. subst d. rewrite <- (DecimalN.Unsigned.of_to n), H. reflexivity.
  - exfalso. eapply (DecimalFacts.nzhead_nonzero (Decimal.D0 d) d). rewrite Z. exact (eq_sym E).
Qed.

(* a decimal rendering never starts with a sign, and its second character is a digit *)
Lemma uoc_none a : DecimalString.uint_of_char a None = None.
Proof. reflexivity. Qed.

Lemma dec_unsigned_dec_str b n : dec_unsigned b (dec_str n) = Some n.
Proof.
  unfold dec_unsigned. rewrite dec_parse.
  destruct (N.to_uint n) eqn:E; try (rewrite <- E, DecimalN.Unsigned.of_to; reflexivity).
  - exfalso. eapply to_uint_nonnil; eauto.
  - pose proof (to_uint_D0 _ _ E). subst n. cbn in E. injection E as E. subst u.
    destruct b; reflexivity.
Qed.
Lemma dec_char_ok c x d : DecimalString.uint_of_char c x = Some d ->
  Ascii.eqb c "-" = false /\ Ascii.eqb c "+" = false /\ Ascii.eqb c "x" = false /\ Ascii.eqb c "X" = false
  /\ Ascii.eqb c "o" = false /\ Ascii.eqb c "O" = false /\ Ascii.eqb c "b" = false /\ Ascii.eqb c "B" = false.
Proof.
  intro H. repeat split;
  match goal with |- Ascii.eqb c ?k = false =>
    destruct (Ascii.eqb_spec c k) as [E|]; [subst c; destruct x; discriminate | reflexivity] end.
Qed.

Lemma int_base0_dec n : int_base0 (dec_str n) = Ok (Z.of_N n).
Proof.
  pose proof (dec_parse n) as P. pose proof (dec_unsigned_dec_str true n) as U.
  destruct (dec_str n) as [|c r] eqn:S.
  - cbn in P. injection P as P. exfalso. eapply to_uint_nonnil; eauto.
  - cbn [DecimalString.NilEmpty.uint_of_string] in P.
    destruct (dec_char_ok _ _ _ P) as (H1 & H2 & _).
    unfold int_base0, split_sign. rewrite H1, H2.
    destruct r as [|c1 r'].
    + rewrite U. reflexivity.
    + destruct (DecimalString.NilEmpty.uint_of_string (String c1 r')) eqn:Q.
      2:{ destruct c as [[] [] [] [] [] [] [] []]; discriminate. }
      cbn [DecimalString.NilEmpty.uint_of_string] in Q.
      destruct (dec_char_ok _ _ _ Q) as (_ & _ & X1 & X2 & X3 & X4 & X5 & X6).
      rewrite X1, X2, X3, X4, X5, X6. cbn [orb]. rewrite !andb_false_r. rewrite U. reflexivity.
Qed.

Lemma int_base10_dec n : int_base10 (dec_str n) = Ok (Z.of_N n).
Proof.
  pose proof (dec_parse n) as P. pose proof (dec_unsigned_dec_str false n) as U.
  destruct (dec_str n) as [|c r] eqn:S.
  - cbn in P. injection P as P. exfalso. eapply to_uint_nonnil; eauto.
  - cbn [DecimalString.NilEmpty.uint_of_string] in P.
    destruct (dec_char_ok _ _ _ P) as (H1 & H2 & _).
    unfold int_base10, split_sign. rewrite H1, H2, U. reflexivity.
Qed.

Lemma hex_lower d : map_string lower_hex (HexadecimalString.NilEmpty.string_of_uint d) = HexadecimalString.NilEmpty.string_of_uint d.
Proof. induction d; cbn [HexadecimalString.NilEmpty.string_of_uint map_string]; try rewrite IHd; reflexivity. Qed.

Lemma to_hex_uint_nonnil n : N.to_hex_uint n <> Hexadecimal.Nil.
Proof.
  intro H. pose proof (HexadecimalN.Unsigned.of_to n) as E. rewrite H in E. cbn in E. subst n. discriminate.
Qed.

Lemma int_base0_hex n : int_base0 (hex_str n) = Ok (Z.of_N n).
Proof.
  unfold int_base0, hex_str, split_sign. cbn [Ascii.eqb Bool.eqb andb orb].
  cbn. unfold hex_unsigned, hex_digits. rewrite hex_lower, HexadecimalString.NilEmpty.usu.
  destruct (N.to_hex_uint n) eqn:E; try (rewrite <- E, HexadecimalN.Unsigned.of_to; reflexivity).
  exfalso. eapply to_hex_uint_nonnil; eauto.
Qed.

Definition num_str (hex : bool) (n : N) : string := if hex then hex_str n else dec_str n.
Lemma int_base0_num h n : int_base0 (num_str h n) = Ok (Z.of_N n).
Proof. destruct h; [apply int_base0_hex | apply int_base0_dec]. Qed.

(* ------------------------------------------------------------------ resolves *)
Definition call_resolves (api : list api_method) (k : call) : Prop :=
  exists a, In a api /\ a_name a = k_method k /\ call_ok [a] k = true.

Lemma call_ok_sound api k : call_ok api k = true -> call_resolves api k.
Proof.
  unfold call_ok, call_resolves. destruct (find _ api) as [a|] eqn:F; [|discriminate].
  intro H. apply find_some in F. destruct F as [I E]. apply String.eqb_eq in E.
  exists a. split; [assumption|]. split; [assumption|].
  unfold call_ok. cbn [find]. rewrite E, String.eqb_refl. exact H.
Qed.

Definition command_resolves (api : list api_method) (c : command) : Prop :=
  exists cs, handler_calls (c_handler c) = Some cs /\ cs <> [] /\ forall k, In k cs -> call_resolves api k.

Lemma resolves_sound cmds api : resolves_b cmds api = true ->
  cmds <> [] /\ forall c, In c cmds -> handler_translated (c_handler c) = true -> command_resolves api c.
Proof.
  unfold resolves_b. rewrite andb_true_iff. intros [N F]. split.
  - destruct cmds; [discriminate|]. discriminate.
  - rewrite forallb_forall in F. intros c I T. specialize (F c I). rewrite T in F. cbn [negb orb] in F.
    unfold handler_resolves in F. unfold command_resolves.
    destruct (handler_calls (c_handler c)) as [cs|]; [|discriminate].
    destruct cs as [|k0 ks]; [discriminate|].
    exists (k0 :: ks). split; [reflexivity|]. split; [discriminate|].
    rewrite forallb_forall in F. intros k Ik. apply call_ok_sound. apply F. exact Ik.
Qed.

(* ------------------------------------------------------------------ lookup *)
Lemma gcf_nth cmds : forall name k i h, get_command_function cmds name k = Some (i, h) ->
  exists c, nth_error cmds (i - k) = Some c /\ c_handler c = h /\ c_name c = name /\ (k <= i)%nat.
Proof.
  induction cmds as [|c r IH]; intros name k i h H; [discriminate|].
  cbn in H. destruct (String.eqb (c_name c) name) eqn:E.
  - injection H as <- <-. exists c. rewrite Nat.sub_diag. apply String.eqb_eq in E. auto.
  - apply IH in H. destruct H as (c' & N & Hh & Hn & L). exists c'.
    replace (i - k)%nat with (S (i - S k)) by lia. cbn. repeat split; auto. lia.
Qed.

Lemma find_from_extend cmds rest : forall ws pre i h,
  find_from cmds pre ws = Some (i, h, []) -> find_from cmds pre (ws ++ rest) = Some (i, h, rest).
Proof.
  induction ws as [|w ws IH]; intros pre i h H; [discriminate|].
  cbn in H |- *. destruct (get_command_function cmds (join_words (pre ++ [w])) 0) as [[i' h']|].
  - injection H as <- <- E. subst ws. reflexivity.
  - apply IH. exact H.
Qed.

Lemma find_from_gcf cmds : forall ws pre i h r, find_from cmds pre ws = Some (i, h, r) ->
  exists name, get_command_function cmds name 0 = Some (i, h).
Proof.
  induction ws as [|w ws IH]; intros pre i h r H; [discriminate|].
  cbn in H. destruct (get_command_function cmds (join_words (pre ++ [w])) 0) as [[i' h']|] eqn:G.
  - injection H as <- <- _. eauto.
  - eapply IH; eauto.
Qed.

Lemma lookup_ok_from_nth all : forall cs j k c, lookup_ok_from all j cs = true ->
  nth_error cs k = Some c -> finds_itself all (j + k) c = true.
Proof.
  induction cs as [|c0 t IH]; intros j k c H N; [destruct k; discriminate|].
  cbn in H. apply andb_true_iff in H. destruct H as [H0 Ht].
  destruct k; cbn in N.
  - injection N as <-. rewrite Nat.add_0_r. exact H0.
  - replace (j + S k)%nat with (S j + k)%nat by lia. eapply IH; eauto.
Qed.

Lemma lookup_sound cmds : lookup_ok_b cmds = true ->
  forall j c rest, nth_error cmds j = Some c ->
    find_command cmds (py_split " " (c_name c) ++ rest) = Some (j, c_handler c, rest).
Proof.
  intros H j c rest N. pose proof (lookup_ok_from_nth cmds cmds 0 j c H N) as F. cbn in F.
  unfold finds_itself in F. unfold find_command in *.
  destruct (find_from cmds [] (py_split " " (c_name c))) as [[[i h] r]|] eqn:E; [|discriminate].
  destruct r; [|discriminate]. apply Nat.eqb_eq in F. subst i.
  destruct (find_from_gcf _ _ _ _ _ _ E) as (name & G).
  apply gcf_nth in G. destruct G as (c' & N' & Hh & _ & _). rewrite Nat.sub_0_r in N'.
  rewrite N in N'. injection N' as <-. subst h.
  apply find_from_extend. exact E.
Qed.

(* ------------------------------------------------------------------ options *)
(* one option on the command line: a value option (value detached `-t v` or attached
   `-tv`) or a flag without argument *)
Inductive setting := SVal (f : ascii) (v : string) (attached : bool) | SFlag (f : ascii).

Definition render_setting (s : setting) : list string :=
  match s with
  | SVal f v false => [flag_of f; v]
  | SVal f v true => [String "-" (String f v)]
  | SFlag f => [flag_of f]
  end.
Definition render_settings (ss : list setting) : list string := concat (map render_setting ss).
Definition pair_of (s : setting) : string * string :=
  match s with SVal f v _ => (flag_of f, v) | SFlag f => (flag_of f, EmptyString) end.

Definition setting_shape_ok (so : string) (s : setting) : Prop :=
  match s with
  | SVal f v att => f <> "-"%char /\ short_has_arg f so = Some true /\ (att = true -> v <> EmptyString)
  | SFlag f => f <> "-"%char /\ short_has_arg f so = Some false
  end.

(* the words after the options: empty, or not starting with a dash *)
Definition rest_ok (rest : list string) : Prop :=
  match rest with [] => True | w :: _ => starts_dash w = false end.

Lemma getopt_loop_settings so : forall ss rest acc fuel,
  Forall (setting_shape_ok so) ss -> rest_ok rest ->
  (length (render_settings ss ++ rest) < fuel)%nat ->
  getopt_loop fuel so (render_settings ss ++ rest) acc = GOk (acc ++ map pair_of ss) rest.
Proof.
  induction ss as [|s ss IH]; intros rest acc fuel V R L.
  - cbn in *. rewrite List.app_nil_r. destruct fuel; [lia|]. cbn.
    destruct rest as [|w r]; [reflexivity|]. cbn in R. rewrite R. reflexivity.
  - inversion V as [|? ? V1 V2]; subst. unfold render_settings in *. cbn [map concat] in *.
    destruct fuel; [lia|].
    destruct s as [f v [|]|f]; cbn [render_setting app] in *.
    + (* attached *)
      destruct V1 as (Nf & Hs & Hv). specialize (Hv eq_refl).
      destruct v as [|v0 vr]; [congruence|].
      cbn [getopt_loop starts_dash]. rewrite Ascii.eqb_refl. cbn [andb].
      assert (E : Ascii.eqb f "-" = false) by (apply Ascii.eqb_neq; exact Nf).
      cbn [String.eqb]. rewrite Ascii.eqb_refl. cbn [negb].
      rewrite E. cbn [do_shorts]. rewrite Hs.
      rewrite IH; auto; [|cbn in L; lia]. rewrite <- List.app_assoc. reflexivity.
    + destruct V1 as (Nf & Hs & _).
      assert (E : Ascii.eqb f "-" = false) by (apply Ascii.eqb_neq; exact Nf).
      unfold flag_of. cbn [getopt_loop starts_dash]. rewrite Ascii.eqb_refl. cbn [andb].
      cbn [String.eqb]. rewrite Ascii.eqb_refl. cbn [negb]. rewrite E.
      cbn [do_shorts]. rewrite Hs.
      rewrite IH; auto; [|cbn in L; lia]. rewrite <- List.app_assoc. reflexivity.
    + destruct V1 as (Nf & Hs).
      assert (E : Ascii.eqb f "-" = false) by (apply Ascii.eqb_neq; exact Nf).
      unfold flag_of. cbn [getopt_loop starts_dash]. rewrite Ascii.eqb_refl. cbn [andb].
      cbn [String.eqb]. rewrite Ascii.eqb_refl. cbn [negb]. rewrite E.
      cbn [do_shorts]. rewrite Hs. cbn [do_shorts].
      rewrite IH; auto; [|cbn in L; lia]. rewrite <- List.app_assoc. reflexivity.
Qed.

Lemma getopt_settings so ss rest : Forall (setting_shape_ok so) ss -> rest_ok rest ->
  getopt so (render_settings ss ++ rest) = GOk (map pair_of ss) rest.
Proof.
  intros V R. unfold getopt. rewrite getopt_loop_settings; auto.
Qed.

(* what the option does, according to the (generated) table *)
Definition setting_effect (tbl : list optbinding) (s : setting) : option (string * oval) :=
  let '(flag, a) := pair_of s in
  match find_binding tbl flag with
  | Some (AStore role cv) => match conv_val cv a with Ok v => Some (role, v) | Err _ => None end
  | _ => None
  end.

Definition apply_setting (tbl : list optbinding) (c : cfg) (s : setting) : cfg :=
  match setting_effect tbl s with Some (r, v) => cfg_set c r v | None => c end.

Lemma apply_opts_settings tbl : forall ss c,
  Forall (fun s => setting_effect tbl s <> None) ss ->
  apply_opts tbl (map pair_of ss) c = OCfg (fold_left (apply_setting tbl) ss c).
Proof.
  induction ss as [|s ss IH]; intros c V; [reflexivity|].
  inversion V as [|? ? V1 V2]; subst. cbn [map apply_opts fold_left].
  unfold apply_setting at 2. unfold setting_effect in *.
  destruct (pair_of s) as [flag a].
  destruct (find_binding tbl flag) as [[role cv| |]|]; try congruence.
  destruct (conv_val cv a) as [v|e]; try congruence.
  apply IH. exact V2.
Qed.

Definition setting_ok (so : string) (tbl : list optbinding) (s : setting) : Prop :=
  setting_shape_ok so s /\ setting_effect tbl s <> None.

Lemma parse_stage_settings so tbl defaults c0 ss rest :
  default_cfg defaults = Some c0 -> Forall (setting_ok so tbl) ss -> rest_ok rest ->
  parse_stage (Some so) [] tbl defaults (render_settings ss ++ rest)
  = PCfg (fold_left (apply_setting tbl) ss c0) rest.
Proof.
  intros D V R. unfold parse_stage. rewrite D.
  rewrite getopt_settings; auto.
  - rewrite apply_opts_settings; auto. eapply Forall_impl; [|exact V]. intros s [_ H]; exact H.
  - eapply Forall_impl; [|exact V]. intros s [H _]; exact H.
Qed.

(* the value a role holds after a list of settings: the LAST setting of that role, else
   what was there before *)
Lemma cfg_get_fold tbl role : forall ss c,
  cfg_get (fold_left (apply_setting tbl) ss c) role =
  match find (fun s => match setting_effect tbl s with Some (r, _) => String.eqb r role | None => false end) (rev ss) with
  | Some s => match setting_effect tbl s with Some (_, v) => Some v | None => None end
  | None => cfg_get c role
  end.
Proof.
  induction ss as [|s ss IH] using rev_ind; intros c; [reflexivity|].
  rewrite fold_left_app, rev_app_distr. cbn [fold_left rev app find].
  unfold apply_setting at 1. destruct (setting_effect tbl s) as [[r v]|] eqn:E.
  - cbn [cfg_set cfg_get]. destruct (String.eqb r role) eqn:Q; [rewrite E; reflexivity|]. apply IH.
  - apply IH.
Qed.

(* second half of main: where the configuration values go *)
Lemma plan_stage_effect le cmds ifaces c args idx h rest iface io d addr rt routing sess :
  find_command cmds args = Some (idx, h, rest) ->
  cfg_get c "interface_name" = Some (VStr iface) -> str_in iface ifaces = true ->
  cfg_get c "interface_options" = Some io -> parse_interface_options iface io = Ok d ->
  cfg_get c "target_address" = Some (VInt addr) ->
  cfg_get c "target_routing" = Some rt -> set_routing le rt = Ok routing ->
  mk_session c = Ok sess ->
  plan_stage le cmds ifaces c args =
  Run (mkPlan iface d idx rest (if Z.eqb addr 0 then None else Some addr) routing sess
              (get_bool c "verbose") (get_bool c "global:json_output")).
Proof.
  intros F I1 I2 O1 O2 A R1 R2 S. unfold plan_stage.
  destruct args as [|a0 ar]; [discriminate|]. rewrite F.
  unfold get_str. rewrite I1, O1, A, R1. unfold lift_out. rewrite O2, I2. cbn [negb].
  rewrite R2, S. reflexivity.
Qed.

Lemma mk_session_none c : cfg_get c "rmcp_host" = Some VNone -> mk_session c = Ok None.
Proof. intro H. unfold mk_session. rewrite H. reflexivity. Qed.

Lemma mk_session_some c h port u pw lvl p :
  cfg_get c "rmcp_host" = Some (VStr h) -> cfg_get c "rmcp_port" = Some (VInt port) ->
  cfg_get c "rmcp_user" = Some (VStr u) -> cfg_get c "rmcp_password" = Some (VStr pw) ->
  (lvl = None /\ cfg_get c "rmcp_priv_level" = Some VNone /\ p = 4%N \/
   exists l, lvl = Some l /\ cfg_get c "rmcp_priv_level" = Some (VStr l) /\ priv_level l = Ok p) ->
  mk_session c = Ok (Some (mkSession h port u pw p)).
Proof.
  intros H P U W L. unfold mk_session, get_str. rewrite H, P, U, W.
  destruct L as [(_ & L & ->)|(l & _ & L & Q)]; rewrite L; [reflexivity|]. rewrite Q. reflexivity.
Qed.

(* ------------------------------------------------------------------ raw *)
Definition num_of (x : bool * N) : string := num_str (fst x) (snd x).

(* the arguments of `raw`: optional `lun <n>`, the network function, the bytes; every
   number in decimal or hexadecimal (chosen per number) *)
Definition render_raw (lun : option (bool * N)) (netfn : bool * N) (ds : list (bool * N)) : list string :=
  (match lun with Some l => ["lun"; num_of l] | None => [] end) ++ num_of netfn :: map num_of ds.

Lemma ints0_nums ds : ints0 (map num_of ds) = Ok (map (fun d : bool * N => Z.of_N (snd d)) ds).
Proof.
  induction ds as [|d ds IH]; [reflexivity|]. cbn [map ints0]. unfold num_of at 1.
  rewrite int_base0_num. cbn [bind]. rewrite IH. reflexivity.
Qed.

Lemma num_not_lun x : String.eqb (num_of x) "lun" = false.
Proof.
  destruct (String.eqb_spec (num_of x) "lun") as [E|]; [|reflexivity].
  pose proof (int_base0_num (fst x) (snd x)) as H. unfold num_of in E. rewrite E in H. discriminate.
Qed.

Lemma raw_range (ds : list (bool * N)) : Forall (fun d => (snd d < 256)%N) ds ->
  forallb (fun z => (0 <=? z)%Z && (z <? 256)%Z) (map (fun d : bool * N => Z.of_N (snd d)) ds) = true.
Proof.
  induction 1 as [|d ds H F IH]; [reflexivity|]. cbn [map forallb]. rewrite IH, andb_true_r.
  apply andb_true_iff. split; [apply Z.leb_le; lia | apply Z.ltb_lt; lia].
Qed.

Lemma map_to_N ds : map Z.to_N (map (fun d : bool * N => Z.of_N (snd d)) ds) = map snd ds.
Proof. induction ds as [|d ds IH]; [reflexivity|]. cbn [map]. rewrite IH, N2Z.id. reflexivity. Qed.

Lemma cmd_raw_render lun netfn ds : ds <> [] -> Forall (fun d => (snd d < 256)%N) ds ->
  cmd_raw (render_raw lun netfn ds) =
  Ok (RawSend (match lun with Some l => Z.of_N (snd l) | None => 0%Z end) (Z.of_N (snd netfn)) (map snd ds)).
Proof.
  intros NE R. destruct ds as [|d0 dt]; [congruence|].
  unfold render_raw, cmd_raw. destruct lun as [l|]; cbn [List.app map].
  - rewrite String.eqb_refl. unfold num_of at 1. rewrite int_base0_num. cbn [bind].
    unfold num_of at 1. rewrite int_base0_num. cbn [bind].
    change (num_of d0 :: map num_of dt) with (map num_of (d0 :: dt)). rewrite ints0_nums. cbn [bind].
    rewrite raw_range by exact R. rewrite map_to_N. reflexivity.
  - rewrite num_not_lun. cbn [bind]. unfold num_of at 1. rewrite int_base0_num. cbn [bind].
    change (num_of d0 :: map num_of dt) with (map num_of (d0 :: dt)). rewrite ints0_nums. cbn [bind].
    rewrite raw_range by exact R. rewrite map_to_N. reflexivity.
Qed.

(* the reply is printed as two lower-case hex digits per byte, separated by blanks *)
Definition hexchar (d : N) : ascii :=
  match String.get (N.to_nat d) "0123456789abcdef" with Some c => c | None => "?"%char end.
Definition hex2 (b : N) : string := String (hexchar (b / 16)) (String (hexchar (b mod 16)) EmptyString).

Definition all_bytes : list N := map N.of_nat (seq 0 256).
Lemma all_bytes_in b : (b < 256)%N -> In b all_bytes.
Proof.
  intro H. unfold all_bytes. rewrite <- (N2Nat.id b). apply in_map. apply in_seq. lia.
Qed.

Lemma fmt_02x_hex2_all : forallb (fun b => String.eqb (fmt_02x b) (hex2 b) && list_eqb N.eqb (hx (hex2 b)) [b]) all_bytes = true.
Proof. vm_compute. reflexivity. Qed.

Lemma fmt_02x_hex2 b : (b < 256)%N -> fmt_02x b = hex2 b /\ hx (hex2 b) = [b].
Proof.
  intro H. pose proof fmt_02x_hex2_all as A. rewrite forallb_forall in A.
  specialize (A b (all_bytes_in b H)). apply andb_true_iff in A. destruct A as [A1 A2].
  split; [apply String.eqb_eq; exact A1 | apply list_eqb_N_eq; exact A2].
Qed.

Lemma print_hex_spec rsp : bytes_ok rsp = true -> print_hex rsp = String.concat " " (map hex2 rsp).
Proof.
  intro B. unfold print_hex. f_equal. apply map_ext_in. intros b I.
  apply fmt_02x_hex2. apply (proj1 (bytes_ok_In rsp) B b I).
Qed.

(* ------------------------------------------------------------------ exit status *)
Fixpoint is_substr (p s : string) : bool :=
  String.prefix p s || match s with EmptyString => false | String _ r => is_substr p r end.

Definition cc_exit_ok (tbl : list exit_entry) (cc : N) : bool :=
  match command_error_end tbl (CCError cc) with
  | EndStatus (Some msg) code => negb (Z.eqb code 0) && is_substr (hex2 cc) msg
  | _ => false
  end.
Definition timeout_exit_ok (tbl : list exit_entry) : bool :=
  match command_error_end tbl TimeoutError with
  | EndStatus (Some msg) code => negb (Z.eqb code 0) && negb (String.eqb msg EmptyString)
  | _ => false
  end.
Definition exit_ok_b (tbl : list exit_entry) : bool := forallb (cc_exit_ok tbl) all_bytes && timeout_exit_ok tbl.

Lemma exit_sound tbl : exit_ok_b tbl = true ->
  (forall cc, (cc < 256)%N -> exists msg code, command_error_end tbl (CCError cc) = EndStatus (Some msg) code
                                        /\ code <> 0%Z /\ is_substr (hex2 cc) msg = true) /\
  (exists msg code, command_error_end tbl TimeoutError = EndStatus (Some msg) code /\ code <> 0%Z /\ msg <> EmptyString).
Proof.
  unfold exit_ok_b. rewrite andb_true_iff. intros [A T]. split.
  - intros cc H. rewrite forallb_forall in A. specialize (A cc (all_bytes_in cc H)).
    unfold cc_exit_ok in A. destruct (command_error_end tbl (CCError cc)) as [[msg|] code| |]; try discriminate.
    apply andb_true_iff in A. destruct A as [A1 A2]. exists msg, code. repeat split; auto.
    intro E. subst code. discriminate.
  - unfold timeout_exit_ok in T. destruct (command_error_end tbl TimeoutError) as [[msg|] code| |]; try discriminate.
    apply andb_true_iff in T. destruct T as [T1 T2]. exists msg, code. repeat split; auto.
    + intro E. subst code. discriminate.
    + intro E. subst msg. discriminate.
Qed.

(* ------------------------------------------------------------------ chassis power *)
(* IPMI 2.0 table 28-4, Chassis Control: the control codes *)
Definition power_spec : list (string * N) :=
  [("off", 0); ("on", 1); ("cycle", 2); ("reset", 3); ("diag", 4); ("soft", 5)]%N.

Definition request_eqb (a b : request) : bool :=
  N.eqb (q_netfn a) (q_netfn b) && N.eqb (q_cmd a) (q_cmd b) && N.eqb (q_lun a) (q_lun b)
  && list_eqb N.eqb (q_data a) (q_data b).
Lemma request_eqb_eq a b : request_eqb a b = true -> a = b.
Proof.
  destruct a, b. unfold request_eqb. cbn. rewrite !andb_true_iff. intros [[[A B] C] D].
  apply N.eqb_eq in A, B, C. apply list_eqb_N_eq in D. subst. reflexivity.
Qed.

(* was the handler of 'chassis power <sub>' translated in this run? (downgrade rule as for C20_resolves) *)
Definition power_translated (cmds : list command) (sub : string) : bool :=
  match get_command_function cmds (String.append "chassis power " sub) 0 with
  | Some (_, h) => handler_translated h
  | None => true
  end.

Definition power_ok_b (cmds : list command) (ptbl : list (string * power_entry)) (shape : chassis_control_shape) : bool :=
  forallb (fun sc => negb (power_translated cmds (fst sc)) ||
                     match power_sends cmds ptbl shape (fst sc) with
                     | Some r => request_eqb r (mkReq 0 2 0 [snd sc])
                     | None => false
                     end) power_spec
  && forallb (fun e => str_in (fst e) (map fst power_spec)) ptbl
  && forallb (fun c => if String.prefix "chassis power " (c_name c)
                       then match assoc_str ptbl (String.substring 14 (String.length (c_name c) - 14) (c_name c)) with
                            | Some _ => true | None => false end
                       else true) cmds.

Lemma power_sound cmds ptbl shape : power_ok_b cmds ptbl shape = true ->
  forall sub code, In (sub, code) power_spec -> power_translated cmds sub = true ->
    power_sends cmds ptbl shape sub = Some (mkReq 0 2 0 [code]).
Proof.
  unfold power_ok_b. rewrite !andb_true_iff. intros [[A _] _] sub code I T.
  rewrite forallb_forall in A. specialize (A (sub, code) I). cbn [fst snd] in A. rewrite T in A. cbn [negb orb] in A.
  destruct (power_sends cmds ptbl shape sub) as [r|]; [|discriminate].
  apply request_eqb_eq in A. subst r. reflexivity.
Qed.

Lemma power_only_spec cmds ptbl shape : power_ok_b cmds ptbl shape = true ->
  forall sub e, In (sub, e) ptbl -> In sub (map fst power_spec).
Proof.
  unfold power_ok_b. rewrite !andb_true_iff. intros [[_ B] _] sub e I.
  rewrite forallb_forall in B. specialize (B (sub, e) I). cbn [fst] in B.
  unfold str_in in B. apply existsb_exists in B. destruct B as (x & Ix & E). apply String.eqb_eq in E. subst x. exact Ix.
Qed.

(* ------------------------------------------------------------------ what each option does *)
Definition hop_eqb (a b : hop_elem) : bool :=
  match a, b with
  | HConst x, HConst y => N.eqb x y
  | HNone, HNone => true
  | HArg x, HArg y => N.eqb x y
  | _, _ => false
  end.
Definition conv_eqb (a b : conv) : bool :=
  match a, b with
  | CStr, CStr | CTrue, CTrue => true
  | CInt x, CInt y => N.eqb x y
  | CHop a1 a2 a3, CHop b1 b2 b3 => hop_eqb a1 b1 && hop_eqb a2 b2 && hop_eqb a3 b3
  | _, _ => false
  end.
Definition action_eqb (a b : optaction) : bool :=
  match a, b with
  | AStore r c, AStore r' c' => String.eqb r r' && conv_eqb c c'
  | AExit w k, AExit w' k' => String.eqb w w' && Z.eqb k k'
  | _, _ => false
  end.
Lemma hop_eqb_eq a b : hop_eqb a b = true -> a = b.
Proof. destruct a, b; cbn; try discriminate; try reflexivity; intro H; apply N.eqb_eq in H; subst; reflexivity. Qed.
Lemma conv_eqb_eq a b : conv_eqb a b = true -> a = b.
Proof.
  destruct a, b; cbn; try discriminate; try reflexivity.
  - intro H. apply N.eqb_eq in H. subst. reflexivity.
  - rewrite !andb_true_iff. intros [[A B] D]. apply hop_eqb_eq in A, B, D. subst. reflexivity.
Qed.
Lemma action_eqb_eq a b : action_eqb a b = true -> a = b.
Proof.
  destruct a, b; cbn; try discriminate; rewrite andb_true_iff; intros [A B].
  - apply String.eqb_eq in A. apply conv_eqb_eq in B. subst. reflexivity.
  - apply String.eqb_eq in A. apply Z.eqb_eq in B. subst. reflexivity.
Qed.

(* the options the property names, the variable (named by its sink) each stores into and how the
   argument is converted *)
Definition options_spec : list (string * optaction) := [
  ("-t", AStore "target_address" (CInt 0));
  ("-b", AStore "target_routing" (CHop (HConst 32) (HArg 10) (HConst 0)));
  ("-r", AStore "target_routing" CStr);
  ("-I", AStore "interface_name" CStr);
  ("-o", AStore "interface_options" CStr);
  ("-H", AStore "rmcp_host" CStr);
  ("-p", AStore "rmcp_port" (CInt 0));
  ("-U", AStore "rmcp_user" CStr);
  ("-P", AStore "rmcp_password" CStr);
  ("-L", AStore "rmcp_priv_level" CStr);
  ("-v", AStore "verbose" CTrue);
  ("-J", AStore "global:json_output" CTrue)].

(* DOWNGRADE RULE: the table says the option does exactly [a], or the translator refused the option's branch
   in this run ([AUntranslated]); a refused option is not claimed - the check requires the option / history
   oracle to pass with that option present (evidence: options_downgraded) *)
Definition binding_claim (tbl : list optbinding) (f : string) (a : optaction) : Prop :=
  find_binding tbl f = Some a \/ exists w, find_binding tbl f = Some (AUntranslated w).
Definition binding_ok (tbl : list optbinding) (fa : string * optaction) : bool :=
  match find_binding tbl (fst fa) with
  | Some (AUntranslated _) => true
  | Some a => action_eqb a (snd fa)
  | None => false
  end.
Lemma bindings_sound tbl : forallb (binding_ok tbl) options_spec = true ->
  forall f a, In (f, a) options_spec -> binding_claim tbl f a.
Proof.
  intros H f a I. rewrite forallb_forall in H. specialize (H (f, a) I). unfold binding_ok in H. cbn [fst snd] in H.
  unfold binding_claim. destruct (find_binding tbl f) as [x|]; [|discriminate].
  destruct x as [r c|w k|w].
  - left. f_equal. apply action_eqb_eq. exact H.
  - left. f_equal. apply action_eqb_eq. exact H.
  - right. eauto.
Qed.

(* ------------------------------------------------------------------ generated-table wrappers *)
Definition table_shape_b (so : option string) (longs : list string) (defaults : list (string * optdefault)) : bool :=
  match so, longs, default_cfg defaults with Some _, [], Some _ => true | _, _, _ => false end.

Lemma parse_stage_generated so_opt longs tbl defaults : table_shape_b so_opt longs defaults = true ->
  exists so c0, so_opt = Some so /\ longs = [] /\ default_cfg defaults = Some c0 /\
    forall ss rest, Forall (setting_ok so tbl) ss -> rest_ok rest ->
      parse_stage so_opt longs tbl defaults (render_settings ss ++ rest)
      = PCfg (fold_left (apply_setting tbl) ss c0) rest.
Proof.
  unfold table_shape_b. destruct so_opt as [so|]; [|discriminate].
  destruct longs; [|discriminate]. destruct (default_cfg defaults) as [c0|] eqn:D; [|discriminate].
  intros _. exists so, c0. repeat split; auto. intros ss rest V R. apply parse_stage_settings; auto.
Qed.

Definition has_arg (so : option string) (f : ascii) : option bool :=
  match so with Some s => short_has_arg f s | None => None end.
Definition default_of (defaults : list (string * optdefault)) (role : string) : option oval :=
  match default_cfg defaults with Some c => cfg_get c role | None => None end.

Lemma numerals h n : py_int 0 (num_str h n) = Ok (Z.of_N n) /\ py_int 10 (dec_str n) = Ok (Z.of_N n).
Proof. split; [apply int_base0_num | apply int_base10_dec]. Qed.

Lemma raw_print rsp : bytes_ok rsp = true ->
  print_hex rsp = String.concat " " (map hex2 rsp) /\ forall b, In b rsp -> hx (hex2 b) = [b].
Proof.
  intro B. split; [apply print_hex_spec; exact B|]. intros b I. apply fmt_02x_hex2.
  apply (proj1 (bytes_ok_In rsp) B b I).
Qed.

(* ------------------------------------------------------------------ stages of a run *)
(* the connection is closed: the calls end with close_session, close *)
Definition closes (calls : list istep) : bool :=
  match rev calls with IClose :: ICloseSession :: _ => true | _ => false end.

Definition stage_ok (shape : run_shape_t) (tbl : list exit_entry) (s : istep) (e : err) (needle : option string) : bool :=
  match main_run shape tbl (Some (s, e)) with
  | (calls, RunExit (Some msg) code) =>
      negb (Z.eqb code 0) && closes calls
      && match needle with Some n => is_substr n msg | None => negb (String.eqb msg EmptyString) end
  | _ => false
  end.

(* the stages before the finally at which the BMC / transport can fail *)
Definition fault_stages : list istep := [IOpen; IEstablish; ICommand].

Definition stages_ok_b (shape : run_shape_t) (tbl : list exit_entry) : bool :=
  forallb (fun s => forallb (fun cc => stage_ok shape tbl s (CCError cc) (Some (hex2 cc))) all_bytes
                    && stage_ok shape tbl s TimeoutError None) fault_stages
  && match main_run shape tbl None with
     | ([IOpen; IEstablish; ICommand; ICloseSession; IClose], RunReturns) => true
     | _ => false
     end.

Lemma stages_sound shape tbl : stages_ok_b shape tbl = true ->
  main_run shape tbl None = ([IOpen; IEstablish; ICommand; ICloseSession; IClose], RunReturns) /\
  forall s, In s fault_stages ->
    (forall cc, (cc < 256)%N -> exists calls msg code,
        main_run shape tbl (Some (s, CCError cc)) = (calls, RunExit (Some msg) code)
        /\ code <> 0%Z /\ is_substr (hex2 cc) msg = true /\ closes calls = true) /\
    (exists calls msg code,
        main_run shape tbl (Some (s, TimeoutError)) = (calls, RunExit (Some msg) code)
        /\ code <> 0%Z /\ msg <> EmptyString /\ closes calls = true).
Proof.
  unfold stages_ok_b. rewrite andb_true_iff. intros [A N]. split.
  - destruct (main_run shape tbl None) as [calls e].
    destruct calls as [|[] [|[] [|[] [|[] [|[] [|? ?]]]]]]; try discriminate.
    destruct e; try discriminate. reflexivity.
  - intros s I. rewrite forallb_forall in A. specialize (A s I). apply andb_true_iff in A. destruct A as [A T]. split.
    + intros cc H. rewrite forallb_forall in A. specialize (A cc (all_bytes_in cc H)). unfold stage_ok in A.
      destruct (main_run shape tbl (Some (s, CCError cc))) as [calls e]. destruct e as [|[msg|] code| |]; try discriminate.
      rewrite !andb_true_iff in A. destruct A as [[A1 A2] A3]. exists calls, msg, code. repeat split; auto.
      intro E. subst code. discriminate.
    + unfold stage_ok in T.
      destruct (main_run shape tbl (Some (s, TimeoutError))) as [calls e]. destruct e as [|[msg|] code| |]; try discriminate.
      rewrite !andb_true_iff in T. destruct T as [[T1 T2] T3]. exists calls, msg, code. repeat split; auto.
      * intro E. subst code. discriminate.
      * intro E. subst msg. discriminate.
Qed.
