(* Proofs about Model/Session.v against the reference BMC Model/Bmc15.v (C06). *)
From Coq Require Import NArith List Lia ZArith ZifyN ZifyBool ZifyNat Bool.
From PyIpmi Require Import Lib.Res Lib.Bytes Lib.Bits Model.Ipmb Model.Rmcp Model.Session Model.Bmc15
  Proofs.IpmbProofs Proofs.RmcpProofs.
Import ListNotations.
Open Scope N_scope.
Ltac Zify.zify_post_hook ::= Z.to_euclidean_division_equations.

Lemma land_f x : N.land x 0xf < 16.
Proof. change 0xf with (2 ^ 4 - 1). rewrite land_ones. change (2 ^ 4) with 16. apply N.mod_lt. lia. Qed.

(* ---------- sequence law ---------- *)
(* Session.increment_sequence_number is the BMC's successor function: +1, 0 skipped on wrap *)
Lemma incr_is_succ32 n : n < 0x100000000 -> incr_seq n = succ32 n /\ incr_seq n <> 0 /\ incr_seq n < 0x100000000.
Proof.
  intros H. destruct (incr_seq_spec n H) as [E Hz]. split; [|split; [assumption | apply incr_seq_lt]].
  rewrite E. unfold succ32. reflexivity.
Qed.

Fixpoint iter_incr (k : nat) (n : N) : N := match k with O => n | S k' => incr_seq (iter_incr k' n) end.

(* the first in-session number is inside the window of every assigned initial value *)
Lemma first_in_window init : init < 0x100000000 -> seq_ok init None (incr_seq init) = true.
Proof.
  intros H. unfold seq_ok. destruct (incr_seq_spec init H) as [E Hz]. rewrite E in *.
  destruct (N.eqb_spec init 0xffffffff) as [->|Hne]; [reflexivity|].
  destruct (N.eqb_spec (init + 1) 0); [lia|]. cbn [negb andb].
  apply N.leb_le. lia.
Qed.

Lemma next_is_succ last : last < 0x100000000 -> forall init, seq_ok init (Some last) (incr_seq last) = true.
Proof.
  intros H init. unfold seq_ok. destruct (incr_is_succ32 last H) as (E & Hz & _).
  destruct (N.eqb_spec (incr_seq last) 0); [contradiction|]. cbn [negb andb]. rewrite E. apply N.eqb_refl.
Qed.

(* closed form of k successive increments: a walk round the cycle 1..2^32-1 *)
Lemma iter_incr_closed k : forall n, 1 <= n -> n < 0x100000000 ->
  iter_incr k n = (n - 1 + N.of_nat k) mod 0xffffffff + 1.
Proof.
  induction k as [|k IH]; intros n H1 H2.
  - cbn [iter_incr]. change (N.of_nat 0) with 0. lia.
  - cbn [iter_incr]. rewrite (IH n H1 H2).
    set (x := n - 1 + N.of_nat k).
    assert (Hx : n - 1 + N.of_nat (S k) = x + 1) by (subst x; lia).
    rewrite Hx.
    assert (Hy : x mod 0xffffffff + 1 < 0x100000000) by lia.
    destruct (incr_seq_spec _ Hy) as [E _]. rewrite E.
    destruct (N.eqb_spec (x mod 0xffffffff + 1) 0xffffffff) as [Heq|Hne]; lia.
Qed.

(* no sequence number is used twice within 2^32-1 consecutive requests, and none is 0 *)
Lemma iter_incr_distinct n j k : 1 <= n -> n < 0x100000000 ->
  (j < k)%nat -> N.of_nat k - N.of_nat j < 0xffffffff ->
  iter_incr j n <> iter_incr k n /\ iter_incr k n <> 0.
Proof.
  intros H1 H2 Hjk Hd. rewrite !iter_incr_closed by assumption. lia.
Qed.

(* ... and after exactly 2^32-1 requests the counter is back where it started *)
Lemma iter_incr_period n k : 1 <= n -> n < 0x100000000 -> N.of_nat k = 0xffffffff ->
  iter_incr k n = n.
Proof. intros H1 H2 Hk. rewrite iter_incr_closed by assumption. rewrite Hk. lia. Qed.

(* ---------- strongest authentication type ---------- *)
Lemma strongest support : max_auth_type support (Some SUPPORTED_AUTH_TYPES) = best support.
Proof.
  unfold max_auth_type, best, auth_pref, SUPPORTED_AUTH_TYPES, pick_auth.
  destruct (N.testbit support 2), (N.testbit support 1), (N.testbit support 4),
           (N.testbit support 5), (N.testbit support 0); reflexivity.
Qed.

Lemma best_implemented support a : best support = Some a -> implemented a.
Proof.
  unfold best, implemented.
  destruct (N.testbit support 2), (N.testbit support 4), (N.testbit support 0); intros [= <-]; auto; discriminate.
Qed.

(* the unrepaired preference order (get_max_auth_type without the restriction) does not
   have this property: witness support = none + MD2 *)
Lemma unrestricted_not_strongest : exists support a, best support = Some a /\ max_auth_type support None <> Some a.
Proof. exists 3, 0. split; [reflexivity | vm_compute; discriminate]. Qed.

(* ---------- generic: running sequential compositions ---------- *)
Section Run.
Context {S : Type} (dev : S -> list N -> S * lreply).

Lemma lrun_lbind {A B} (p : lprog A) (f : A -> lprog B) s tr :
  lrun (lbind p f) dev s tr = let '(a, s', tr') := lrun p dev s tr in lrun (f a) dev s' tr'.
Proof.
  revert s tr. induction p as [a | dg k IH]; intros s tr; cbn.
  - reflexivity.
  - destruct (dev s dg) as [s' r]. apply IH.
Qed.

(* a failing step ends the whole composition: nothing after it is run, so nothing is sent *)
Lemma lrun_mbind {A B} (m : M A) (f : A -> M B) st s tr :
  lrun (mbind m f st) dev s tr =
    let '(x, s', tr') := lrun (m st) dev s tr in
    match snd x with
    | Ok a => lrun (f a (fst x)) dev s' tr'
    | Err e => ((fst x, Err e), s', tr')
    end.
Proof.
  unfold mbind. rewrite lrun_lbind. destruct (lrun (m st) dev s tr) as [[x s'] tr'].
  destruct (snd x); reflexivity.
Qed.

Lemma mbind_err {A B} (m : M A) (f : A -> M B) st s tr st' e s' tr' :
  lrun (m st) dev s tr = ((st', Err e), s', tr') ->
  lrun (mbind m f st) dev s tr = ((st', Err e), s', tr').
Proof. intros H. rewrite lrun_mbind, H. reflexivity. Qed.

Lemma mbind_ok {A B} (m : M A) (f : A -> M B) st s tr st' a s' tr' :
  lrun (m st) dev s tr = ((st', Ok a), s', tr') ->
  lrun (mbind m f st) dev s tr = lrun (f a st') dev s' tr'.
Proof. intros H. rewrite lrun_mbind, H. reflexivity. Qed.

Lemma mmod_bind {B} (f : lstate -> lstate) (g : unit -> M B) st s tr :
  lrun (mbind (mmod f) g st) dev s tr = lrun (g tt (f st)) dev s tr.
Proof. reflexivity. Qed.
Lemma mret_bind {A B} (a : A) (g : A -> M B) st s tr :
  lrun (mbind (mret a) g st) dev s tr = lrun (g a st) dev s tr.
Proof. reflexivity. Qed.
Lemma mget_bind {B} (g : lstate -> M B) st s tr :
  lrun (mbind mget g st) dev s tr = lrun (g st st) dev s tr.
Proof. reflexivity. Qed.

(* the trace only grows *)
Lemma lrun_trace_prefix {A} (p : lprog A) : forall s tr, exists more, snd (lrun p dev s tr) = tr ++ more.
Proof.
  induction p as [a | dg k IH]; intros s tr; cbn.
  - exists []. now rewrite app_nil_r.
  - destruct (dev s dg) as [s' r]. destruct (IH r s' (tr ++ [dg])) as [more E].
    exists (dg :: more). rewrite E, <- app_assoc. reflexivity.
Qed.
End Run.

(* ---------- the reference BMC reads what the client writes ---------- *)
Lemma ipmb_parse_encode nf lun n cmd data f :
  nf < 64 -> lun < 4 -> n < 64 -> cmd < 256 -> bytes_ok data = true ->
  encode_ipmb_msg (mkHdr 0x20 lun 0x81 0 n nf cmd) data = Ok f ->
  ipmb_parse f = Some (nf, lun, cmd, data) /\ length f = (7 + length data)%nat.
Proof.
  intros Hnf Hlun Hn Hcmd Hd E.
  assert (Hr : hdr_in_range (mkHdr 0x20 lun 0x81 0 n nf cmd)) by (unfold hdr_in_range; cbn; lia).
  destruct (frame_ok _ data Hr Hd) as (f' & E' & Hl & _ & S1 & S2 & (c & Hdec) & Hp).
  rewrite E in E'. injection E' as <-. split; [|exact Hl].
  unfold hdr_req_decode in Hdec.
  destruct f as [|d0 [|d1 [|d2 [|d3 [|d4 [|d5 rest]]]]]]; try discriminate.
  injection Hdec as H0 H1 H3 H4 H5 H6 H7 Hc.
  unfold ipmb_parse. cbn [length] in Hl.
  destruct (Nat.ltb_spec (length rest) 1); [lia|].
  change (firstn 3 (d0 :: d1 :: d2 :: d3 :: d4 :: d5 :: rest)) with [d0; d1; d2] in S1.
  change (skipn 3 (d0 :: d1 :: d2 :: d3 :: d4 :: d5 :: rest)) with (d3 :: d4 :: d5 :: rest) in S2.
  rewrite S1, S2, H0. cbn [N.eqb Pos.eqb andb negb].
  change (N.div2 (N.div2 d1)) with (N.shiftr d1 2) in H6.
  rewrite byte62_hi in H6. rewrite byte62_lo in H1.
  unfold payload in Hp. cbn [length skipn] in Hp.
  replace (S (S (S (S (S (S (length rest)))))) - 7)%nat with (length rest - 1)%nat in Hp by lia.
  rewrite H6, H1, H7, Hp. reflexivity.
Qed.

Section Bmc.
Variable md5 : list N -> list N.
Hypothesis md5_len : forall x, length (md5 x) = 16%nat.

Lemma bmc_code_spec a pw sidb seqb frame : bmc_code md5 a pw sidb seqb frame = spec_code md5 a pw sidb seqb frame.
Proof. reflexivity. Qed.

Lemma bytes_eqb_refl l : bytes_eqb l l = true.
Proof. apply list_eqb_N_eq. reflexivity. Qed.

Lemma bmc_parse_spec a seq sid pw frame :
  implemented a -> (length pw <= 16)%nat -> (length frame <= 255)%nat ->
  let g := spec_dgram md5 255 a seq sid pw frame in
  bytes_eqb g ping_dgram = false /\
  bmc_parse g = Some (mkP a (le_bytes 4 seq) (le_bytes 4 sid)
                          (spec_code md5 a pw (le_bytes 4 sid) (le_bytes 4 seq) frame) frame).
Proof.
  intros Hi Hl Hf g. split; [reflexivity|].
  destruct (spec_offsets md5 255 a seq sid pw frame) as (E0 & E1 & E2 & E3 & E4 & E5 & E9 & _ & _ & E13).
  destruct (length_and_payload md5 255 a seq sid pw frame Hi Hl md5_len) as (L1 & L2 & L3).
  fold g in E0, E1, E2, E3, E4, E5, E9, E13, L1, L2, L3.
  unfold bmc_parse. rewrite E0, E1, E2, E3, E4. cbn [N.eqb Pos.eqb andb negb].
  set (o := if a =? 0 then 13%nat else 29%nat) in *.
  replace (if a =? 0 then 14%nat else 30%nat) with (S o) by (subst o; destruct (a =? 0); reflexivity).
  rewrite L3. destruct (Nat.ltb_spec (S o + length frame) (S o)); [lia|].
  replace (S o - 1)%nat with o by lia. rewrite L1.
  replace (S o + length frame - S o)%nat with (length frame) by lia. rewrite N.eqb_refl. cbn [negb].
  rewrite E5, E9, L2. f_equal. f_equal.
  rewrite E13. unfold spec_code. destruct Hi as [-> | [-> | ->]]; cbn [N.eqb Pos.eqb]; try reflexivity.
  - apply firstn_app_exact, md5_len.
  - apply firstn_app_exact, (pad16_len md5), Hl.
Qed.

(* one exchange against any device that answers the datagram with data *)
Lemma xchg_lrun {S} (dev : S -> list N -> S * lreply) c nf lun cmd data st tx so' rseq' dg s s' d tr :
  let n := (l_nseq st + 1) mod 64 in
  let st1 := mkL (l_so st) (l_att st) (l_rseq st) n (l_keep st) in
  encode_ipmb_msg (mkHdr 0x20 lun 0x81 0 n nf cmd) data = Ok tx ->
  send_ipmi_msg md5 (cur_sess st1) (l_rseq st1) tx = (so', rseq', Ok dg) ->
  dev s dg = (s', LData d) ->
  lrun (xchg md5 c nf lun cmd data st) dev s tr = ((set_after_send st1 so' rseq', Ok d), s', tr ++ [dg]).
Proof.
  intros n st1 E1 E2 E3. unfold xchg. fold n. fold st1. rewrite E1. cbn [xchg_loop]. rewrite E2.
  cbn [lrun]. rewrite E3. reflexivity.
Qed.

(* ---------- in-session traffic against the reference BMC ---------- *)
Definition session_cmd (nf cmd : N) : bool :=
  (nf =? 6) && ((cmd =? 0x38) || (cmd =? 0x39) || (cmd =? 0x3a) || (cmd =? 0x3b) || (cmd =? 0x3c)).

(* the client is inside a session with type a, password pw, id sid *)
Definition in_session (st : lstate) (a : N) (pw : list N) (sid : N) : Prop :=
  l_att st = true /\ l_rseq st = 255 /\ s_auth (l_so st) = Some a /\ implemented a /\
  s_pw (l_so st) = Some pw /\ (length pw <= 16)%nat /\ s_sid (l_so st) = sid /\ sid < 0x100000000 /\
  s_seq (l_so st) < 0x100000000 /\ s_act (l_so st) = true.

(* the BMC's memory of the sequence number matches the client's *)
Definition seq_sync (p : bmcp) (last : option N) (st : lstate) : Prop :=
  match last with None => s_seq (l_so st) = b_init p | Some l => s_seq (l_so st) = l end.

Definition after_xchg (st : lstate) : lstate :=
  mkL (sess_incr (l_so st)) (l_att st) (l_rseq st) ((l_nseq st + 1) mod 64) (l_keep st).

Lemma le_val4 x : x < 0x100000000 -> le_val (le_bytes 4 x) = x.
Proof. intros H. apply (le_val_bytes 4). exact H. Qed.

Lemma seq_sync_ok p last st : s_seq (l_so st) < 0x100000000 -> seq_sync p last st ->
  seq_ok (b_init p) last (incr_seq (s_seq (l_so st))) = true.
Proof.
  intros H Hs. destruct last as [l|]; cbn in Hs.
  - rewrite <- Hs. apply next_is_succ, H.
  - rewrite <- Hs. apply first_in_window, H.
Qed.

(* the datagram of one in-session exchange and what the BMC parses out of it *)
Lemma insession_send p st a pw nf lun cmd data :
  in_session st a pw (b_sid p) ->
  nf < 64 -> lun < 4 -> cmd < 256 -> bytes_ok data = true -> (length data <= 248)%nat ->
  exists tx dg,
    let n := (l_nseq st + 1) mod 64 in
    let st1 := mkL (l_so st) (l_att st) (l_rseq st) n (l_keep st) in
    let seq' := incr_seq (s_seq (l_so st)) in
    encode_ipmb_msg (mkHdr 0x20 lun 0x81 0 n nf cmd) data = Ok tx /\
    send_ipmi_msg md5 (cur_sess st1) (l_rseq st1) tx = (Some (sess_incr (l_so st)), 255, Ok dg) /\
    set_after_send st1 (Some (sess_incr (l_so st))) 255 = after_xchg st /\
    dg = spec_dgram md5 255 a seq' (b_sid p) pw tx /\
    (forall b, bmc_step md5 p b dg =
       bmc_logic md5 p b (mkP a (le_bytes 4 seq') (le_bytes 4 (b_sid p))
                              (spec_code md5 a pw (le_bytes 4 (b_sid p)) (le_bytes 4 seq') tx) tx)
                 nf lun cmd data).
Proof.
  intros (Hatt & Hrs & Hau & Him & Hpw & Hpl & Hsid & Hsl & Hseq & Hact) Hnf Hlun Hcmd Hd Hdl.
  set (n := (l_nseq st + 1) mod 64).
  assert (Hn : n < 64) by (subst n; lia).
  assert (Hr : hdr_in_range (mkHdr 0x20 lun 0x81 0 n nf cmd)) by (unfold hdr_in_range; cbn; lia).
  destruct (frame_ok _ data Hr Hd) as (tx & Etx & _).
  destruct (ipmb_parse_encode nf lun n cmd data tx Hnf Hlun Hn Hcmd Hd Etx) as [Hip Hlen].
  assert (Htl : (length tx <= 255)%nat) by lia.
  exists tx, (spec_dgram md5 255 a (incr_seq (s_seq (l_so st))) (b_sid p) pw tx).
  cbv zeta. fold n. split; [exact Etx|].
  unfold cur_sess. cbn [l_att l_so l_rseq]. rewrite Hatt, Hrs.
  pose proof (send_layout md5 (l_so st) a pw tx 255 Hau Him ltac:(lia) Hseq (fun _ => conj Hpw Hpl) Htl ltac:(lia)) as HS.
  cbv zeta in HS. destruct HS as (HS & _ & HS2).
  assert (Eap : after_pack (l_so st) = sess_incr (l_so st)) by (unfold after_pack; rewrite Hact; reflexivity).
  rewrite Eap in HS, HS2. cbn [sess_incr s_seq s_sid] in HS. rewrite Hsid in HS.
  split; [exact HS|]. split; [unfold set_after_send, after_xchg; cbn; rewrite Hatt, Hrs; reflexivity|]. split; [reflexivity|].
  intros b. unfold bmc_step.
  destruct (bmc_parse_spec a (incr_seq (s_seq (l_so st))) (b_sid p) pw tx Him Hpl Htl) as [Hping Hparse].
  rewrite Hping, Hparse. cbn [p_frame]. rewrite Hip. reflexivity.
Qed.

(* the BMC's in-session checks pass on such a datagram; per command class *)
Ltac bmc_checks Hseq Hsid Hok Hpw :=
  cbn [b_ph b_viol b_cnt p_auth p_sidb p_seqb p_code p_frame];
  rewrite ?(le_val4 _ Hseq), ?(le_val4 _ Hsid); rewrite ?N.eqb_refl; rewrite ?Hok; cbn [andb negb];
  rewrite ?Hpw; unfold bmc_code, spec_code, zpad16, pad16; rewrite ?bytes_eqb_refl; cbn [negb].

Lemma logic_other p a last cnt pw seq' tx nf lun cmd data :
  b_pw p = pw -> b_sid p < 0x100000000 -> seq' < 0x100000000 -> seq_ok (b_init p) last seq' = true ->
  session_cmd nf cmd = false ->
  bmc_logic md5 p (mkB (P4 a last) None cnt)
    (mkP a (le_bytes 4 seq') (le_bytes 4 (b_sid p)) (spec_code md5 a pw (le_bytes 4 (b_sid p)) (le_bytes 4 seq') tx) tx)
    nf lun cmd data
  = (mkB (P4 a (Some seq')) None (cnt + 1), LData (0 :: data)).
Proof.
  intros Hpw Hsid Hseq Hok Hsc. unfold bmc_logic. unfold session_cmd in Hsc.
  destruct (nf =? 6) eqn:E6; cbn [andb] in *.
  - apply orb_false_iff in Hsc as [Hsc H3c]. apply orb_false_iff in Hsc as [Hsc H3b].
    apply orb_false_iff in Hsc as [Hsc H3a]. apply orb_false_iff in Hsc as [H38 H39].
    rewrite H38, H39, H3a, H3b, H3c. bmc_checks Hseq Hsid Hok Hpw. reflexivity.
  - bmc_checks Hseq Hsid Hok Hpw. reflexivity.
Qed.

Lemma logic_setpriv p a last cnt pw seq' tx lun :
  b_pw p = pw -> b_sid p < 0x100000000 -> seq' < 0x100000000 -> seq_ok (b_init p) last seq' = true ->
  bmc_logic md5 p (mkB (P4 a last) None cnt)
    (mkP a (le_bytes 4 seq') (le_bytes 4 (b_sid p)) (spec_code md5 a pw (le_bytes 4 (b_sid p)) (le_bytes 4 seq') tx) tx)
    6 lun 0x3b [b_priv p]
  = (mkB (P4 a (Some seq')) None (cnt + 1), LData [0; b_priv p]).
Proof.
  intros Hpw Hsid Hseq Hok. unfold bmc_logic. cbn [N.eqb Pos.eqb andb].
  bmc_checks Hseq Hsid Hok Hpw. reflexivity.
Qed.

Lemma logic_close p a last cnt pw seq' tx lun :
  b_pw p = pw -> b_sid p < 0x100000000 -> seq' < 0x100000000 -> seq_ok (b_init p) last seq' = true ->
  bmc_logic md5 p (mkB (P4 a last) None cnt)
    (mkP a (le_bytes 4 seq') (le_bytes 4 (b_sid p)) (spec_code md5 a pw (le_bytes 4 (b_sid p)) (le_bytes 4 seq') tx) tx)
    6 lun 0x3c (le_bytes 4 (b_sid p))
  = (mkB P5 None (cnt + 1), LData [0]).
Proof.
  intros Hpw Hsid Hseq Hok. unfold bmc_logic. cbn [N.eqb Pos.eqb andb].
  bmc_checks Hseq Hsid Hok Hpw. reflexivity.
Qed.

(* one in-session exchange whose BMC verdict is given by a [bmc_logic] equation *)
Lemma insession_xchg c p st a pw b nf lun cmd data b' d tr :
  in_session st a pw (b_sid p) ->
  nf < 64 -> lun < 4 -> cmd < 256 -> bytes_ok data = true -> (length data <= 248)%nat ->
  (forall tx, bmc_logic md5 p b
      (mkP a (le_bytes 4 (incr_seq (s_seq (l_so st)))) (le_bytes 4 (b_sid p))
           (spec_code md5 a pw (le_bytes 4 (b_sid p)) (le_bytes 4 (incr_seq (s_seq (l_so st)))) tx) tx)
      nf lun cmd data = (b', LData d)) ->
  exists dg,
  lrun (xchg md5 c nf lun cmd data st) (bmc_step md5 p) b tr = ((after_xchg st, Ok d), b', tr ++ [dg])
  /\ in_session (after_xchg st) a pw (b_sid p).
Proof.
  intros Hin Hnf Hlun Hcmd Hd Hdl Hlogic.
  destruct (insession_send p st a pw nf lun cmd data Hin Hnf Hlun Hcmd Hd Hdl) as (tx & dg & H).
  cbv zeta in H. destruct H as (Etx & Esend & Eset & Edg & Hstep).
  pose proof Hin as (Hatt & Hrs & Hau & Him & Hpwd & Hpl & Hsid & Hsl & Hseq & Hact).
  exists dg. split.
  - rewrite (xchg_lrun (bmc_step md5 p) c nf lun cmd data st tx _ _ dg b b' d tr Etx Esend).
    + rewrite Eset. reflexivity.
    + rewrite Hstep. apply Hlogic.
  - unfold in_session, after_xchg. cbn. repeat split; auto. apply incr_seq_lt.
Qed.

(* an ordinary request inside the session: accepted, answered, both sides advance by one *)
Lemma insession_request c p st a pw last cnt nf lun cmd data tr :
  in_session st a pw (b_sid p) -> b_pw p = pw -> seq_sync p last st ->
  nf < 64 -> lun < 4 -> cmd < 256 -> bytes_ok data = true -> (length data <= 248)%nat ->
  session_cmd nf cmd = false ->
  exists dg,
  lrun (xchg md5 c nf lun cmd data st) (bmc_step md5 p) (mkB (P4 a last) None cnt) tr
  = ((after_xchg st, Ok (0 :: data)), mkB (P4 a (Some (incr_seq (s_seq (l_so st))))) None (cnt + 1), tr ++ [dg])
  /\ in_session (after_xchg st) a pw (b_sid p)
  /\ seq_sync p (Some (incr_seq (s_seq (l_so st)))) (after_xchg st).
Proof.
  intros Hin Hpw Hsync Hnf Hlun Hcmd Hd Hdl Hsc.
  pose proof Hin as (_ & _ & _ & _ & _ & _ & _ & Hsl & Hseq & _).
  destruct (insession_xchg c p st a pw (mkB (P4 a last) None cnt) nf lun cmd data
              (mkB (P4 a (Some (incr_seq (s_seq (l_so st))))) None (cnt + 1)) (0 :: data) tr
              Hin Hnf Hlun Hcmd Hd Hdl) as (dg & Hrun & Hin').
  { intros tx. apply logic_other; auto using incr_seq_lt, seq_sync_ok. }
  exists dg. split; [exact Hrun|]. split; [exact Hin' | reflexivity].
Qed.

(* any number of requests, by induction: the sequence law holds datagram after datagram *)
Definition reqspec := (N * N * N * list N)%type.
Definition req_ok (r : reqspec) : Prop :=
  let '(nf, lun, cmd, d) := r in
  nf < 64 /\ lun < 4 /\ cmd < 256 /\ bytes_ok d = true /\ (length d <= 248)%nat /\ session_cmd nf cmd = false.

Fixpoint requests (c : cfg) (rs : list reqspec) : M unit :=
  match rs with
  | [] => mret tt
  | (nf, lun, cmd, d) :: r => mbind (request md5 c nf lun cmd d) (fun _ => requests c r)
  end.

Lemma requests_accepted c p a pw : b_pw p = pw ->
  forall rs st last cnt tr, Forall req_ok rs ->
  in_session st a pw (b_sid p) -> seq_sync p last st ->
  exists st' last' tr',
    lrun (requests c rs st) (bmc_step md5 p) (mkB (P4 a last) None cnt) tr
    = ((st', Ok tt), mkB (P4 a last') None (cnt + N.of_nat (length rs)), tr ++ tr')
    /\ length tr' = length rs
    /\ in_session st' a pw (b_sid p) /\ seq_sync p last' st'
    /\ s_seq (l_so st') = iter_incr (length rs) (s_seq (l_so st)).
Proof.
  intros Hpw rs. induction rs as [|[[[nf lun] cmd] d] rs IH]; intros st last cnt tr Hall Hin Hsync.
  - exists st, last, []. cbn. rewrite N.add_0_r, app_nil_r.
    split; [reflexivity|]. split; [reflexivity|]. split; [exact Hin|]. split; [exact Hsync | reflexivity].
  - inversion Hall as [|x l Hr Hrs]; subst x l. destruct Hr as (Hnf & Hlun & Hcmd & Hd & Hdl & Hsc).
    destruct (insession_request c p st a pw last cnt nf lun cmd d tr Hin Hpw Hsync Hnf Hlun Hcmd Hd Hdl Hsc)
      as (dg & Hrun & Hin' & Hsync').
    destruct (IH (after_xchg st) (Some (incr_seq (s_seq (l_so st)))) (cnt + 1) (tr ++ [dg]) Hrs Hin' Hsync')
      as (st' & last' & tr' & Hrun' & Hlen & Hin'' & Hsync'' & Hseq'').
    exists st', last', (dg :: tr'). cbn [requests]. unfold request.
    rewrite (mbind_ok _ _ _ _ _ _ _ _ _ _ Hrun). rewrite Hrun'.
    split; [|split; [cbn; lia|split; [assumption|split; [assumption|]]]].
    + rewrite <- app_assoc. cbn [app].
      assert (E : cnt + 1 + N.of_nat (length rs) = cnt + N.of_nat (length ((nf, lun, cmd, d) :: rs))).
      { change (length ((nf, lun, cmd, d) :: rs)) with (S (length rs)). lia. }
      rewrite E. reflexivity.
    + rewrite Hseq''. cbn [length]. clear. unfold after_xchg. cbn [l_so sess_incr s_seq].
      induction (length rs); cbn; [reflexivity | now f_equal].
Qed.

(* Set Session Privilege Level right after activation: the first in-session datagram *)
Lemma setpriv_accepted c p st a pw cnt tr : b_pw p = pw -> b_priv p = N.land (c_priv c) 0xf ->
  in_session st a pw (b_sid p) -> seq_sync p None st ->
  exists dg,
    lrun (set_session_privilege_level md5 c st) (bmc_step md5 p) (mkB (P4 a None) None cnt) tr
    = ((after_xchg st, Ok tt), mkB (P4 a (Some (incr_seq (s_seq (l_so st))))) None (cnt + 1), tr ++ [dg])
    /\ in_session (after_xchg st) a pw (b_sid p)
    /\ seq_sync p (Some (incr_seq (s_seq (l_so st)))) (after_xchg st).
Proof.
  intros Hpw Hpriv Hin Hsync.
  pose proof Hin as (_ & _ & _ & _ & _ & _ & _ & Hsl & Hseq & _).
  assert (Hb : b_priv p < 256) by (rewrite Hpriv; pose proof (land_f (c_priv c)) as HH; lia).
  destruct (insession_xchg c p st a pw (mkB (P4 a None) None cnt) 6 0 0x3b [N.land (c_priv c) 0xf]
              (mkB (P4 a (Some (incr_seq (s_seq (l_so st))))) None (cnt + 1)) [0; b_priv p] tr
              Hin ltac:(lia) ltac:(lia) ltac:(lia)) as (dg & Hrun & Hin').
  { cbn. rewrite <- Hpriv. unfold is_byte. lia. }
  { cbn. lia. }
  { intros tx. rewrite <- Hpriv. apply logic_setpriv; auto using incr_seq_lt, seq_sync_ok. }
  exists dg. split; [|split; [exact Hin' | reflexivity]].
  unfold set_session_privilege_level, NETFN_APP.
  rewrite (mbind_ok _ _ _ _ _ _ _ _ _ _ Hrun).
  unfold mlift. cbn [mbind lbind lrun fst snd decode_cc_n dec_cc bind N.eqb negb length Nat.eqb check_cc mret].
  reflexivity.
Qed.

(* Close Session: names the granted id, is accepted, the session object is deactivated *)
Lemma close_accepted c p st a pw last cnt tr : b_pw p = pw ->
  in_session st a pw (b_sid p) -> seq_sync p last st ->
  exists dg st',
    lrun (close_session md5 c st) (bmc_step md5 p) (mkB (P4 a last) None cnt) tr
    = ((st', Ok tt), mkB P5 None (cnt + 1), tr ++ [dg])
    /\ s_act (l_so st') = false /\ s_seq (l_so st') = incr_seq (s_seq (l_so st)).
Proof.
  intros Hpw Hin Hsync.
  pose proof Hin as (Hatt & _ & _ & _ & _ & _ & Hsid & Hsl & Hseq & Hact).
  destruct (insession_xchg c p st a pw (mkB (P4 a last) None cnt) 6 0 0x3c (le_bytes 4 (b_sid p))
              (mkB P5 None (cnt + 1)) [0] tr Hin ltac:(lia) ltac:(lia) ltac:(lia)) as (dg & Hrun & Hin').
  { apply le_bytes_ok. }
  { rewrite le_bytes_length. lia. }
  { intros tx. apply logic_close; auto using incr_seq_lt, seq_sync_ok. }
  eexists dg, _. unfold close_session. rewrite Hatt, Hact. cbn [negb]. rewrite Hsid. unfold NETFN_APP.
  rewrite (mbind_ok _ _ _ _ _ _ _ _ _ _ Hrun).
  unfold mlift. cbn [mbind lbind lrun fst snd decode_cc_n dec_cc bind N.eqb negb length Nat.eqb check_cc mret mmod].
  split; [reflexivity|]. split; reflexivity.
Qed.

(* ---------- the handshake against the reference BMC ---------- *)
(* a datagram sent while Rmcp._session is None *)
Lemma presession_xchg c p st b nf lun cmd data b' d tr :
  l_att st = false -> l_rseq st = 255 ->
  nf < 64 -> lun < 4 -> cmd < 256 -> bytes_ok data = true -> (length data <= 248)%nat ->
  (forall tx, bmc_logic md5 p b (mkP 0 (le_bytes 4 0) (le_bytes 4 0) [] tx) nf lun cmd data = (b', LData d)) ->
  exists dg,
  lrun (xchg md5 c nf lun cmd data st) (bmc_step md5 p) b tr
  = ((mkL (l_so st) (l_att st) (l_rseq st) ((l_nseq st + 1) mod 64) (l_keep st), Ok d), b', tr ++ [dg]).
Proof.
  intros Hatt Hrs Hnf Hlun Hcmd Hd Hdl Hlogic.
  set (n := (l_nseq st + 1) mod 64).
  assert (Hn : n < 64) by (subst n; lia).
  assert (Hr : hdr_in_range (mkHdr 0x20 lun 0x81 0 n nf cmd)) by (unfold hdr_in_range; cbn; lia).
  destruct (frame_ok _ data Hr Hd) as (tx & Etx & _).
  destruct (ipmb_parse_encode nf lun n cmd data tx Hnf Hlun Hn Hcmd Hd Etx) as [Hip Hlen].
  assert (Htl : (length tx <= 255)%nat) by lia.
  exists (spec_dgram md5 255 0 0 0 [] tx).
  rewrite (xchg_lrun (bmc_step md5 p) c nf lun cmd data st tx None 255 (spec_dgram md5 255 0 0 0 [] tx) b b' d tr).
  - unfold set_after_send. cbn. rewrite Hrs. reflexivity.
  - exact Etx.
  - unfold cur_sess. cbn [l_att l_rseq]. rewrite Hatt, Hrs.
    rewrite (send_layout_nosession md5 tx 255 Htl ltac:(lia)). reflexivity.
  - unfold bmc_step.
    destruct (bmc_parse_spec 0 0 0 [] tx ltac:(left; reflexivity) ltac:(cbn; lia) Htl) as [Hping Hparse].
    rewrite Hping, Hparse. cbn [p_frame]. rewrite Hip. apply Hlogic.
Qed.

(* a datagram sent with a session object attached, activated or not *)
Definition sess_valid (st : lstate) (a : N) (pw : list N) (sid : N) : Prop :=
  l_att st = true /\ l_rseq st = 255 /\ s_auth (l_so st) = Some a /\ implemented a /\
  s_pw (l_so st) = Some pw /\ (length pw <= 16)%nat /\ s_sid (l_so st) = sid /\ sid < 0x100000000 /\
  s_seq (l_so st) < 0x100000000.

Lemma sess_xchg c p st a pw sid b nf lun cmd data b' d tr :
  sess_valid st a pw sid ->
  nf < 64 -> lun < 4 -> cmd < 256 -> bytes_ok data = true -> (length data <= 248)%nat ->
  (forall tx seq', seq' < 0x100000000 ->
     bmc_logic md5 p b (mkP a (le_bytes 4 seq') (le_bytes 4 sid)
                            (spec_code md5 a pw (le_bytes 4 sid) (le_bytes 4 seq') tx) tx)
               nf lun cmd data = (b', LData d)) ->
  exists dg,
  lrun (xchg md5 c nf lun cmd data st) (bmc_step md5 p) b tr
  = ((mkL (after_pack (l_so st)) (l_att st) (l_rseq st) ((l_nseq st + 1) mod 64) (l_keep st), Ok d), b', tr ++ [dg]).
Proof.
  intros (Hatt & Hrs & Hau & Him & Hpw & Hpl & Hsid & Hsl & Hseq) Hnf Hlun Hcmd Hd Hdl Hlogic.
  set (n := (l_nseq st + 1) mod 64).
  assert (Hn : n < 64) by (subst n; lia).
  assert (Hr : hdr_in_range (mkHdr 0x20 lun 0x81 0 n nf cmd)) by (unfold hdr_in_range; cbn; lia).
  destruct (frame_ok _ data Hr Hd) as (tx & Etx & _).
  destruct (ipmb_parse_encode nf lun n cmd data tx Hnf Hlun Hn Hcmd Hd Etx) as [Hip Hlen].
  assert (Htl : (length tx <= 255)%nat) by lia.
  pose proof (send_layout md5 (l_so st) a pw tx 255 Hau Him ltac:(lia) Hseq (fun _ => conj Hpw Hpl) Htl ltac:(lia)) as HS.
  cbv zeta in HS. destruct HS as (HS & _ & HS2).
  destruct (after_pack_seq (l_so st) Hseq) as (_ & Hseq' & _).
  set (s' := after_pack (l_so st)) in *. rewrite HS2, Hsid in HS.
  exists (spec_dgram md5 255 a (s_seq s') sid pw tx).
  rewrite (xchg_lrun (bmc_step md5 p) c nf lun cmd data st tx (Some s') 255 (spec_dgram md5 255 a (s_seq s') sid pw tx) b b' d tr).
  - unfold set_after_send. cbn. rewrite Hrs. reflexivity.
  - exact Etx.
  - unfold cur_sess. cbn [l_att l_rseq l_so]. rewrite Hatt, Hrs. exact HS.
  - unfold bmc_step.
    destruct (bmc_parse_spec a (s_seq s') sid pw tx Him Hpl Htl) as [Hping Hparse].
    rewrite Hping, Hparse. cbn [p_frame]. rewrite Hip. apply Hlogic, Hseq'.
Qed.

Lemma null_hdr_zero tx : null_hdr (mkP 0 (le_bytes 4 0) (le_bytes 4 0) [] tx) = true.
Proof. reflexivity. Qed.

Lemma logic_caps p cnt tx :
  bmc_logic md5 p (mkB P1 None cnt) (mkP 0 (le_bytes 4 0) (le_bytes 4 0) [] tx) 6 0 0x38 [0x0e; b_priv p]
  = (mkB P2 None cnt, LData [0; 1; b_caps p; 0; 0; 0; 0; 0; 0]).
Proof.
  unfold bmc_logic. cbn [N.eqb Pos.eqb andb b_ph]. rewrite null_hdr_zero. cbn [negb].
  change (N.land 0x0e 0xf =? 0xe) with true. rewrite N.eqb_refl. reflexivity.
Qed.

Lemma logic_challenge p cnt tx a : best (b_caps p) = Some a ->
  bmc_logic md5 p (mkB P2 None cnt) (mkP 0 (le_bytes 4 0) (le_bytes 4 0) [] tx) 6 0 0x39 (a :: zpad16 (b_user p))
  = (mkB (P3 a) None cnt, LData ([0] ++ le_bytes 4 (b_tmp p) ++ b_chal p)).
Proof.
  intros Hb. unfold bmc_logic. cbn [N.eqb Pos.eqb andb b_ph]. rewrite null_hdr_zero. cbn [negb].
  rewrite Hb, N.eqb_refl. cbn [negb]. rewrite bytes_eqb_refl. reflexivity.
Qed.

Lemma logic_activate p cnt tx a pw seq' rnd :
  b_pw p = pw -> b_tmp p < 0x100000000 -> length (b_chal p) = 16%nat ->
  bmc_logic md5 p (mkB (P3 a) None cnt)
    (mkP a (le_bytes 4 seq') (le_bytes 4 (b_tmp p)) (spec_code md5 a pw (le_bytes 4 (b_tmp p)) (le_bytes 4 seq') tx) tx)
    6 0 0x3a ([a; b_priv p] ++ b_chal p ++ le_bytes 4 rnd)
  = (mkB (P4 a None) None cnt, LData ([0; a] ++ le_bytes 4 (b_sid p) ++ le_bytes 4 (b_init p) ++ [b_priv p])).
Proof.
  intros Hpw Htmp Hch. unfold bmc_logic. cbn [N.eqb Pos.eqb andb b_ph]. unfold bmc_activate.
  cbn [p_auth p_sidb p_seqb p_code p_frame b_viol b_cnt].
  rewrite (le_val4 _ Htmp), !N.eqb_refl. cbn [andb negb]. rewrite Hpw.
  unfold bmc_code, spec_code, zpad16, pad16. rewrite bytes_eqb_refl. cbn [negb].
  assert (Hl : length ([a; b_priv p] ++ b_chal p ++ le_bytes 4 rnd) = 22%nat)
    by (rewrite !app_length, le_bytes_length, Hch; reflexivity).
  rewrite Hl. cbn [Nat.eqb app nth skipn]. rewrite ?N.eqb_refl.
  rewrite (firstn_app_exact 16) by exact Hch. rewrite bytes_eqb_refl. reflexivity.
Qed.

(* decoding the BMC's three handshake replies *)
Lemma decode_challenge_ok tmp chal : tmp < 0x100000000 -> length chal = 16%nat ->
  decode_challenge ([0] ++ le_bytes 4 tmp ++ chal) = Ok (0, tmp, chal).
Proof.
  intros Ht Hc. unfold decode_challenge. cbn [app dec_cc bind N.eqb negb].
  rewrite app_length, le_bytes_length, Hc. cbn [Nat.ltb Nat.leb plus].
  rewrite (firstn_app_exact 4) by apply le_bytes_length.
  rewrite (skipn_app_exact 4) by apply le_bytes_length.
  rewrite (le_val4 _ Ht). rewrite firstn_all2 by lia. reflexivity.
Qed.

Lemma decode_activate_ok a sid init pr : sid < 0x100000000 -> init < 0x100000000 ->
  decode_activate ([0; a] ++ le_bytes 4 sid ++ le_bytes 4 init ++ [pr]) = Ok (0, sid, init).
Proof.
  intros Hs Hi. unfold decode_activate. cbn [app dec_cc bind N.eqb negb].
  assert (Hl : length (a :: le_bytes 4 sid ++ le_bytes 4 init ++ [pr]) = 10%nat)
    by (cbn [length]; rewrite !app_length, !le_bytes_length; reflexivity).
  rewrite Hl. cbn [Nat.eqb].
  change (skipn 1 (a :: le_bytes 4 sid ++ le_bytes 4 init ++ [pr])) with (le_bytes 4 sid ++ le_bytes 4 init ++ [pr]).
  change (skipn 5 (a :: le_bytes 4 sid ++ le_bytes 4 init ++ [pr])) with (skipn 4 (le_bytes 4 sid ++ le_bytes 4 init ++ [pr])).
  rewrite (firstn_app_exact 4) by apply le_bytes_length.
  rewrite (skipn_app_exact 4) by apply le_bytes_length.
  rewrite (firstn_app_exact 4) by apply le_bytes_length.
  rewrite (le_val4 _ Hs), (le_val4 _ Hi). reflexivity.
Qed.

(* a BMC that conforms to v1.5 and is configured with the console's user, password and
   privilege level, offering at least one type the library implements (a = the strongest) *)
Definition conforming (c : cfg) (p : bmcp) (pw : list N) (a : N) : Prop :=
  b_pw p = pw /\ (length pw <= 16)%nat /\
  b_user p = c_user c /\ (length (c_user c) <= 16)%nat /\ bytes_ok (c_user c) = true /\
  b_priv p = N.land (c_priv c) 0xf /\ best (b_caps p) = Some a /\
  b_tmp p < 0x100000000 /\ length (b_chal p) = 16%nat /\ bytes_ok (b_chal p) = true /\
  b_sid p < 0x100000000 /\ b_init p < 0x100000000.

(* the client objects before establish_session: any stale session id / sequence number /
   activated flag / attached session from earlier attempts *)
Definition client_ready (st : lstate) (pw : list N) : Prop :=
  l_rseq st = 255 /\ s_pw (l_so st) = Some pw /\ s_seq (l_so st) < 0x100000000.

Lemma ping_accepted p st ph cnt tr : l_rseq st = 255 ->
  lrun (ping st) (bmc_step md5 p) (mkB ph None cnt) tr
  = ((st, Ok tt), mkB P1 None cnt, tr ++ [ping_dgram]).
Proof.
  intros Hrs. unfold ping. rewrite Hrs.
  assert (E1 : asf_ping = Ok [0; 0; 0x11; 0xbe; 0x80; 0; 0; 0]) by reflexivity.
  assert (E2 : rmcp_pack (Some [0; 0; 0x11; 0xbe; 0x80; 0; 0; 0]) 255 CLASS_ASF = Ok ping_dgram) by reflexivity.
  rewrite E1, E2. cbn [lrun]. unfold bmc_step.
  assert (E3 : bytes_eqb ping_dgram ping_dgram = true) by reflexivity. rewrite E3.
  assert (E : receive_pong pong = Ok (4542, 0, 0x81, 0)) by (vm_compute; reflexivity).
  rewrite E. change (rmcp_seq_next 255) with 255. rewrite <- Hrs. destruct st; reflexivity.
Qed.

Lemma user_field_pad u : user_field u = zpad16 u.
Proof. destruct u; reflexivity. Qed.

Lemma auth_nibble_impl a : implemented a -> auth_nibble (Some a) = a.
Proof. intros [-> | [-> | ->]]; reflexivity. Qed.

Lemma bytes_ok_repeat0 n : bytes_ok (repeat 0 n) = true.
Proof. induction n; cbn; auto. Qed.

Lemma establish_accepted c p pw a rnd st ph cnt tr :
  conforming c p pw a -> client_ready st pw ->
  exists st' tr',
    lrun (establish md5 c rnd st) (bmc_step md5 p) (mkB ph None cnt) tr
    = ((st', Ok tt), mkB (P4 a (Some (incr_seq (b_init p)))) None (cnt + 1), tr ++ tr')
    /\ length tr' = 5%nat
    /\ in_session st' a pw (b_sid p)
    /\ seq_sync p (Some (incr_seq (b_init p))) st'
    /\ s_seq (l_so st') = incr_seq (b_init p).
Proof.
  intros (Hpw & Hpl & Hus & Hul & Huo & Hpr & Hbest & Htmp & Hcl & Hco & Hsid & Hinit) (Hrs & Hspw & Hseq).
  pose proof (best_implemented _ _ Hbest) as Him.
  assert (Ha256 : a < 256) by (destruct Him as [-> | [-> | ->]]; lia).
  pose proof (land_f (c_priv c)) as Hpf.
  unfold establish.
  (* self._session = None *)
  rewrite mmod_bind.
  set (st0 := mkL (l_so st) false (l_rseq st) (l_nseq st) (l_keep st)).
  (* ping *)
  rewrite (mbind_ok _ _ _ _ _ _ _ _ _ _ (ping_accepted p st0 ph cnt tr Hrs)).
  (* Get Channel Authentication Capabilities *)
  destruct (presession_xchg c p st0 (mkB P1 None cnt) NETFN_APP 0 0x38 [0x0e; N.land (c_priv c) 0xf]
              (mkB P2 None cnt) [0; 1; b_caps p; 0; 0; 0; 0; 0; 0] (tr ++ [ping_dgram])
              eq_refl Hrs ltac:(unfold NETFN_APP; lia) ltac:(lia) ltac:(lia)) as (dg1 & R1).
  { cbn. unfold is_byte. lia. }
  { cbn. lia. }
  { intros tx. rewrite <- Hpr. apply logic_caps. }
  set (st1 := mkL (l_so st0) (l_att st0) (l_rseq st0) ((l_nseq st0 + 1) mod 64) (l_keep st0)) in *.
  assert (G1 : lrun (get_channel_auth_cap md5 c st0) (bmc_step md5 p) (mkB P1 None cnt) (tr ++ [ping_dgram])
               = ((st1, Ok (b_caps p)), mkB P2 None cnt, (tr ++ [ping_dgram]) ++ [dg1])).
  { unfold get_channel_auth_cap. rewrite (mbind_ok _ _ _ _ _ _ _ _ _ _ R1). reflexivity. }
  rewrite (mbind_ok _ _ _ _ _ _ _ _ _ _ G1).
  (* session.auth_type = strongest offered and implemented *)
  rewrite mmod_bind. rewrite strongest, Hbest. rewrite mret_bind.
  (* Get Session Challenge *)
  set (st2 := upd_so (fun s => mkSess (Some a) (s_sid s) (s_seq s) (s_act s) (s_pw s)) st1).
  assert (Hz : length (zpad16 (b_user p)) = 16%nat) by (rewrite Hus; apply (pad16_len md5), Hul).
  destruct (presession_xchg c p st2 (mkB P2 None cnt) NETFN_APP 0 0x39 (a :: zpad16 (b_user p))
              (mkB (P3 a) None cnt) ([0] ++ le_bytes 4 (b_tmp p) ++ b_chal p) ((tr ++ [ping_dgram]) ++ [dg1])
              eq_refl Hrs ltac:(unfold NETFN_APP; lia) ltac:(lia) ltac:(lia)) as (dg2 & R2).
  { cbn [bytes_ok forallb]. unfold is_byte. destruct (N.ltb_spec a 256); [|lia]. cbn [andb].
    unfold zpad16. fold (bytes_ok (b_user p ++ repeat 0 (16 - length (b_user p)))).
    rewrite bytes_ok_app, Hus, Huo, bytes_ok_repeat0. reflexivity. }
  { cbn [length]. rewrite Hz. lia. }
  { intros tx. apply logic_challenge, Hbest. }
  set (st3 := mkL (l_so st2) (l_att st2) (l_rseq st2) ((l_nseq st2 + 1) mod 64) (l_keep st2)) in *.
  assert (G2 : lrun (get_session_challenge md5 c st2) (bmc_step md5 p) (mkB P2 None cnt) ((tr ++ [ping_dgram]) ++ [dg1])
               = ((st3, Ok (b_tmp p, b_chal p)), mkB (P3 a) None cnt, ((tr ++ [ping_dgram]) ++ [dg1]) ++ [dg2])).
  { unfold get_session_challenge. rewrite mget_bind.
    change (s_auth (l_so st2)) with (Some a). rewrite (auth_nibble_impl a Him), user_field_pad, <- Hus.
    rewrite (mbind_ok _ _ _ _ _ _ _ _ _ _ R2).
    unfold mlift at 1. rewrite (decode_challenge_ok _ _ Htmp Hcl). reflexivity. }
  rewrite (mbind_ok _ _ _ _ _ _ _ _ _ _ G2).
  (* session.sid = temporary id; self._session = session *)
  rewrite !mmod_bind. cbn [fst snd].
  set (st4 := mkL (mkSess (Some a) (b_tmp p) (s_seq (l_so st)) (s_act (l_so st)) (s_pw (l_so st))) true
                  (l_rseq st) ((l_nseq st2 + 1) mod 64) (l_keep st)).
  assert (Hv4 : sess_valid st4 a pw (b_tmp p)).
  { unfold sess_valid, st4. cbn. repeat split; auto. }
  destruct (sess_xchg c p st4 a pw (b_tmp p) (mkB (P3 a) None cnt) NETFN_APP 0 0x3a
              ([a; b_priv p] ++ b_chal p ++ le_bytes 4 rnd)
              (mkB (P4 a None) None cnt) ([0; a] ++ le_bytes 4 (b_sid p) ++ le_bytes 4 (b_init p) ++ [b_priv p])
              ((((tr ++ [ping_dgram]) ++ [dg1]) ++ [dg2])) Hv4
              ltac:(unfold NETFN_APP; lia) ltac:(lia) ltac:(lia)) as (dg3 & R3).
  { rewrite !bytes_ok_app, Hco, le_bytes_ok. cbn. unfold is_byte. rewrite Hpr.
    destruct (N.ltb_spec a 256); [|lia]. destruct (N.ltb_spec (N.land (c_priv c) 0xf) 256); [reflexivity|lia]. }
  { rewrite !app_length, le_bytes_length, Hcl. cbn. lia. }
  { intros tx seq' _. apply logic_activate; auto. }
  set (st4' := mkL (after_pack (l_so st4)) (l_att st4) (l_rseq st4) ((l_nseq st4 + 1) mod 64) (l_keep st4)) in *.
  assert (G3 : lrun (activate_session md5 c (b_chal p) rnd st4) (bmc_step md5 p) (mkB (P3 a) None cnt)
                    (((tr ++ [ping_dgram]) ++ [dg1]) ++ [dg2])
               = ((st4', Ok (b_sid p, b_init p)), mkB (P4 a None) None cnt,
                  (((tr ++ [ping_dgram]) ++ [dg1]) ++ [dg2]) ++ [dg3])).
  { unfold activate_session. rewrite mget_bind.
    change (s_auth (l_so st4)) with (Some a). rewrite (auth_nibble_impl a Him), <- Hpr.
    rewrite (mbind_ok _ _ _ _ _ _ _ _ _ _ R3).
    unfold mlift at 1. rewrite (decode_activate_ok _ _ _ _ Hsid Hinit). reflexivity. }
  match goal with |- context [lrun (mbind (activate_session md5 c ?ch rnd) ?k ?stx) _ _ _] =>
    change ch with (b_chal p); change stx with st4 end.
  rewrite (mbind_ok _ _ _ _ _ _ _ _ _ _ G3).
  (* sid, sequence number, activated *)
  rewrite mmod_bind. cbn [fst snd].
  set (st5 := upd_so (fun s => mkSess (s_auth s) (b_sid p) (b_init p) true (s_pw s)) st4').
  assert (Hin5 : in_session st5 a pw (b_sid p)).
  { destruct (after_pack_seq (l_so st4) Hseq) as (_ & _ & _ & Ha4 & Hp4 & _).
    unfold in_session, st5, st4'. cbn [upd_so l_so l_att l_rseq s_auth s_sid s_seq s_act s_pw].
    rewrite Ha4, Hp4. cbn. repeat split; auto. }
  assert (Hsy5 : seq_sync p None st5) by reflexivity.
  destruct (setpriv_accepted c p st5 a pw cnt (((((tr ++ [ping_dgram]) ++ [dg1]) ++ [dg2])) ++ [dg3]) Hpw Hpr Hin5 Hsy5)
    as (dg4 & R4 & Hin6 & Hsy6).
  fold st5.
  rewrite (mbind_ok _ _ _ _ _ _ _ _ _ _ R4).
  cbn [mmod lrun].
  eexists _, [ping_dgram; dg1; dg2; dg3; dg4].
  split; [rewrite <- !app_assoc; reflexivity|]. split; [reflexivity|].
  split; [|split; [exact Hsy6 | reflexivity]].
  destruct Hin6 as (H1 & H2 & H3 & H4 & H5 & H6 & H7 & H8 & H9 & H10).
  unfold in_session. cbn [l_att l_rseq l_so] in *. repeat split; assumption.
Qed.

(* ---------- the whole life of a session ---------- *)
Definition whole_session (c : cfg) (rnd : N) (rs : list reqspec) : M unit :=
  dom _ <- establish md5 c rnd; dom _ <- requests c rs; close_session md5 c.

Theorem session_accepted c p pw a rnd rs st ph cnt :
  conforming c p pw a -> client_ready st pw -> Forall req_ok rs ->
  exists st' tr,
    lrun (whole_session c rnd rs st) (bmc_step md5 p) (mkB ph None cnt) []
    = ((st', Ok tt), mkB P5 None (cnt + 2 + N.of_nat (length rs)), tr)
    /\ length tr = (6 + length rs)%nat
    /\ s_act (l_so st') = false
    /\ s_seq (l_so st') = iter_incr (2 + length rs) (b_init p).
Proof.
  intros Hc Hr Hall. pose proof Hc as (Hpw & _).
  destruct (establish_accepted c p pw a rnd st ph cnt [] Hc Hr) as (st1 & tr1 & R1 & L1 & Hin1 & Hsy1 & Hs1).
  destruct (requests_accepted c p a pw Hpw rs st1 _ (cnt + 1) ([] ++ tr1) Hall Hin1 Hsy1)
    as (st2 & last2 & tr2 & R2 & L2 & Hin2 & Hsy2 & Hs2).
  destruct (close_accepted c p st2 a pw last2 (cnt + 1 + N.of_nat (length rs)) (([] ++ tr1) ++ tr2) Hpw Hin2 Hsy2)
    as (dg & st3 & R3 & Hact3 & Hs3).
  exists st3, ((tr1 ++ tr2) ++ [dg]). unfold whole_session.
  rewrite (mbind_ok _ _ _ _ _ _ _ _ _ _ R1), (mbind_ok _ _ _ _ _ _ _ _ _ _ R2), R3.
  split; [|split; [|split]].
  - replace (cnt + 1 + N.of_nat (length rs) + 1) with (cnt + 2 + N.of_nat (length rs)) by lia. reflexivity.
  - rewrite !app_length, L1, L2. cbn. lia.
  - exact Hact3.
  - rewrite Hs3, Hs2, Hs1. cbn [iter_incr plus].
    clear. induction (length rs); cbn; [reflexivity | now f_equal].
Qed.

(* ---------- handshake failure ---------- *)
(* an error completion code in the reply of any of the four session commands raises *)
Lemma error_reply_raises cc r : cc <> 0 ->
  (exists v, decode_caps (cc :: r) = Ok (cc, v)) /\ (exists v w, decode_challenge (cc :: r) = Ok (cc, v, w)) /\
  (exists v w, decode_activate (cc :: r) = Ok (cc, v, w)) /\ (forall n, decode_cc_n n (cc :: r) = Ok cc) /\
  (forall st, check_cc cc st = LRet (st, Err (CCError cc))).
Proof.
  intros H. unfold decode_caps, decode_challenge, decode_activate, decode_cc_n, check_cc, dec_cc.
  cbn [bind]. destruct (N.eqb_spec cc 0); [contradiction|]. cbn [negb].
  repeat split; eauto.
Qed.
End Bmc.

(* ---------- order: the automaton flags every handshake message that arrives out of turn ---------- *)
Lemma flag_viol s ph v : b_viol (flag s ph v) <> None.
Proof. unfold flag. cbn. destruct (b_viol s); discriminate. Qed.

Lemma order_enforced md5 p s pp lun data :
  (b_ph s <> P1 -> b_ph s <> P2 -> b_viol (fst (bmc_logic md5 p s pp 6 lun 0x38 data)) <> None) /\
  (b_ph s <> P2 -> (forall a, b_ph s <> P3 a) -> b_viol (fst (bmc_logic md5 p s pp 6 lun 0x39 data)) <> None) /\
  ((forall a, b_ph s <> P3 a) -> (forall a, b_ph s <> P4 a None) ->
   b_viol (fst (bmc_logic md5 p s pp 6 lun 0x3a data)) <> None).
Proof.
  unfold bmc_logic. cbn [N.eqb Pos.eqb andb]. repeat split.
  - intros H1 H2. destruct (b_ph s); try (cbn [fst]; apply flag_viol); contradiction.
  - intros H1 H2. destruct data as [|a user]; [cbn [fst]; apply flag_viol|].
    destruct (b_ph s) eqn:E; try (cbn [fst]; apply flag_viol); [contradiction | exfalso; eapply H2; reflexivity].
  - intros H1 H2. destruct (b_ph s) as [| | |a|a [l|]|] eqn:E; try (cbn [fst]; apply flag_viol).
    + exfalso. eapply H1. reflexivity.
    + exfalso. eapply H2. reflexivity.
Qed.

(* silence: a device that never answers makes one exchange end in an error after at most
   retries+1 datagrams of this very request (RetryError; or the exception of a failed send) *)
Section Silence.
Variable md5 : list N -> list N.
Context {S : Type} (dev : S -> list N -> S * lreply).
Hypothesis silent : forall s dg, snd (dev s dg) = LTimeout.

Lemma xchg_loop_silence fuel : forall tx st s tr,
  exists st' e s' more, lrun (xchg_loop md5 fuel tx st) dev s tr = ((st', Err e), s', tr ++ more)
    /\ (length more <= fuel)%nat.
Proof.
  induction fuel as [|f IH]; intros tx st s tr; cbn [xchg_loop].
  - exists st, RetryError, s, []. rewrite app_nil_r. split; [reflexivity | cbn; lia].
  - destruct (send_ipmi_msg md5 (cur_sess st) (l_rseq st) tx) as [[so' rseq'] [dg|e]].
    + cbn [lrun]. destruct (dev s dg) as [s1 r] eqn:E. pose proof (silent s dg) as Hs. rewrite E in Hs. cbn in Hs.
      subst r. destruct (IH tx (set_after_send st so' rseq') s1 (tr ++ [dg])) as (st' & e & s' & more & R & L).
      exists st', e, s', (dg :: more). rewrite R, <- app_assoc. split; [reflexivity | cbn; lia].
    + exists (set_after_send st so' rseq'), e, s, []. rewrite app_nil_r. split; [reflexivity | cbn; lia].
Qed.
End Silence.
